// Command extract is tie T1/T2 of the verification framework: it reads the *current* Go sources of
// luno/workflow (path given as first argument, default /repo) and regenerates the Lean files under
// lean/WorkflowModel/Generated/. Only the standard library (go/parser, go/ast, go/constant) is used.
//
// Three translators, deliberately tiny:
//  1. constants and enums                  -> Generated/Facts.lean
//  2. tables and switch/if-chain sets      -> Generated/Facts.lean
//  3. guard expressions (Bool/Int fragment)-> Generated/Guards.lean
//  4. call-order lists (T2)                -> Generated/Order.lean
//
// Any anchor that is not found, or any expression that leaves the supported fragment, is a hard error
// (exit 2, message on stderr, and the message is also written to Generated/EXTRACT_ERROR.txt): a broken
// tie is never silently skipped.
package main

import (
	"bytes"
	"fmt"
	"go/ast"
	"go/constant"
	"go/parser"
	"go/printer"
	"go/token"
	"os"
	"path/filepath"
	"sort"
	"strconv"
	"strings"
)

var fset = token.NewFileSet()
var files = map[string]*ast.File{}
var repo string
var errs []string

func fail(format string, a ...any) {
	errs = append(errs, fmt.Sprintf(format, a...))
}

func load(rel string) *ast.File {
	if f, ok := files[rel]; ok {
		return f
	}
	f, err := parser.ParseFile(fset, filepath.Join(repo, rel), nil, parser.ParseComments)
	if err != nil {
		fail("parse %s: %v", rel, err)
		files[rel] = &ast.File{Name: ast.NewIdent("x")}
		return files[rel]
	}
	files[rel] = f
	return f
}

func src(n ast.Node) string {
	var b bytes.Buffer
	printer.Fprint(&b, fset, n)
	return strings.Join(strings.Fields(b.String()), " ")
}

// ---------- finding declarations ----------

func findFunc(rel, name string) *ast.FuncDecl {
	f := load(rel)
	recv := ""
	if i := strings.Index(name, "."); i >= 0 {
		recv, name = name[:i], name[i+1:]
	}
	for _, d := range f.Decls {
		fd, ok := d.(*ast.FuncDecl)
		if !ok || fd.Name.Name != name {
			continue
		}
		if recv == "" && fd.Recv == nil {
			return fd
		}
		if recv != "" && fd.Recv != nil && len(fd.Recv.List) == 1 {
			t := src(fd.Recv.List[0].Type)
			t = strings.TrimPrefix(t, "*")
			if i := strings.Index(t, "["); i >= 0 {
				t = t[:i]
			}
			if t == recv {
				return fd
			}
		}
	}
	fail("function %s.%s not found in %s", recv, name, rel)
	return nil
}

func findVarValue(rel, name string) ast.Expr {
	f := load(rel)
	for _, d := range f.Decls {
		gd, ok := d.(*ast.GenDecl)
		if !ok {
			continue
		}
		for _, s := range gd.Specs {
			vs, ok := s.(*ast.ValueSpec)
			if !ok {
				continue
			}
			for i, n := range vs.Names {
				if n.Name == name && i < len(vs.Values) {
					return vs.Values[i]
				}
			}
		}
	}
	fail("var/const %s not found in %s", name, rel)
	return nil
}

// ---------- constants ----------

var intConsts = map[string]int64{}
var strConsts = map[string]string{}

func constInt(e ast.Expr) (int64, bool) {
	switch x := e.(type) {
	case *ast.BasicLit:
		if x.Kind == token.INT {
			v := constant.MakeFromLiteral(x.Value, token.INT, 0)
			i, ok := constant.Int64Val(v)
			return i, ok
		}
	case *ast.UnaryExpr:
		if x.Op == token.SUB {
			if v, ok := constInt(x.X); ok {
				return -v, true
			}
		}
	case *ast.ParenExpr:
		return constInt(x.X)
	case *ast.Ident:
		if v, ok := intConsts[x.Name]; ok {
			return v, true
		}
	case *ast.CallExpr: // conversion T(c)
		if len(x.Args) == 1 {
			return constInt(x.Args[0])
		}
	}
	return 0, false
}

func collectConsts(rel string) {
	f := load(rel)
	for _, d := range f.Decls {
		gd, ok := d.(*ast.GenDecl)
		if !ok || (gd.Tok != token.CONST && gd.Tok != token.VAR) {
			continue
		}
		for _, s := range gd.Specs {
			vs := s.(*ast.ValueSpec)
			for i, n := range vs.Names {
				if i >= len(vs.Values) {
					continue
				}
				if bl, ok := vs.Values[i].(*ast.BasicLit); ok && bl.Kind == token.STRING {
					sv, _ := strconv.Unquote(bl.Value)
					strConsts[n.Name] = sv
					continue
				}
				if v, ok := constInt(vs.Values[i]); ok {
					intConsts[n.Name] = v
				}
			}
		}
	}
}

func leanStr(s string) string { // as List Nat of bytes
	parts := []string{}
	for _, b := range []byte(s) {
		parts = append(parts, strconv.Itoa(int(b)))
	}
	return "[" + strings.Join(parts, ", ") + "]"
}

func leanInt(v int64) string {
	if v < 0 {
		return "(" + strconv.FormatInt(v, 10) + ")"
	}
	return strconv.FormatInt(v, 10)
}

// ---------- expression translator ----------

type vocab map[string]string // Go source text -> Lean term

type tr struct {
	v     vocab
	where string
	used  map[string]bool
}

var methodAtoms = map[string]string{
	"Valid":    "Gen.valid",
	"Finished": "Gen.finished",
	"Stopped":  "Gen.stopped",
}

var conversions = map[string]bool{"int": true, "int64": true, "int32": true, "uint": true, "uint32": true, "Status": true,
	"SkipType": true, "RunState": true, "string": true}

func (t *tr) expr(e ast.Expr) string {
	s := src(e)
	if l, ok := t.v[s]; ok {
		t.used[s] = true
		return l
	}
	switch x := e.(type) {
	case *ast.ParenExpr:
		return t.expr(x.X)
	case *ast.BasicLit:
		if x.Kind == token.INT {
			v, _ := constInt(x)
			return "(" + strconv.FormatInt(v, 10) + " : Int)"
		}
	case *ast.Ident:
		if x.Name == "true" || x.Name == "false" {
			return x.Name
		}
		if _, ok := intConsts[x.Name]; ok {
			return "Gen." + x.Name
		}
	case *ast.UnaryExpr:
		switch x.Op {
		case token.NOT:
			return "(!" + t.expr(x.X) + ")"
		case token.SUB:
			return "(-" + t.expr(x.X) + ")"
		}
	case *ast.BinaryExpr:
		a, b := t.expr(x.X), t.expr(x.Y)
		switch x.Op {
		case token.LAND:
			return "(" + a + " && " + b + ")"
		case token.LOR:
			return "(" + a + " || " + b + ")"
		case token.EQL:
			return "decide (" + a + " = " + b + ")"
		case token.NEQ:
			return "decide (" + a + " ≠ " + b + ")"
		case token.LSS:
			return "decide (" + a + " < " + b + ")"
		case token.LEQ:
			return "decide (" + a + " ≤ " + b + ")"
		case token.GTR:
			return "decide (" + a + " > " + b + ")"
		case token.GEQ:
			return "decide (" + a + " ≥ " + b + ")"
		case token.ADD:
			return "(" + a + " + " + b + ")"
		case token.SUB:
			return "(" + a + " - " + b + ")"
		case token.MUL:
			return "(" + a + " * " + b + ")"
		case token.REM:
			return "(Int.tmod " + a + " " + b + ")"
		}
	case *ast.CallExpr:
		// conversion
		if id, ok := x.Fun.(*ast.Ident); ok && conversions[id.Name] && len(x.Args) == 1 {
			return t.expr(x.Args[0])
		}
		if sel, ok := x.Fun.(*ast.SelectorExpr); ok {
			if f, ok := methodAtoms[sel.Sel.Name]; ok && len(x.Args) == 0 {
				return "(" + f + " " + t.expr(sel.X) + ")"
			}
			if sel.Sel.Name == "After" && len(x.Args) == 1 {
				return "decide (" + t.expr(sel.X) + " > " + t.expr(x.Args[0]) + ")"
			}
			if sel.Sel.Name == "Before" && len(x.Args) == 1 {
				return "decide (" + t.expr(sel.X) + " < " + t.expr(x.Args[0]) + ")"
			}
			if sel.Sel.Name == "IsZero" && len(x.Args) == 0 {
				return "decide (" + t.expr(sel.X) + " = Gen.zeroTime)"
			}
			if sel.Sel.Name == "Add" && len(x.Args) == 1 {
				return "(" + t.expr(sel.X) + " + " + t.expr(x.Args[0]) + ")"
			}
			if sel.Sel.Name == "Sub" && len(x.Args) == 1 {
				return "(" + t.expr(sel.X) + " - " + t.expr(x.Args[0]) + ")"
			}
		}
	}
	fail("%s: expression outside the supported fragment / vocabulary: `%s`", t.where, s)
	return "sorryUnsupported"
}

// ---------- guard specs ----------

type param struct{ goText, lean, typ string }

type guard struct {
	name     string   // Lean def name
	file, fn string   // where
	kind     string   // "if" (condition of an if / else-if), "for" (condition of a for), "assign" (rhs of an assignment to `target`), "return"
	mentions []string // substrings that must all occur in the candidate's source text (operator-free anchors)
	target   string   // for kind "assign": lhs text
	index    int      // which of the matching candidates, in source order
	params   []param
	result   string // Lean result type
	doc      string
}

func containsAll(s string, subs []string) bool {
	for _, x := range subs {
		if !strings.Contains(s, x) {
			return false
		}
	}
	return true
}

func (g guard) locate() ast.Expr {
	fd := findFunc(g.file, g.fn)
	if fd == nil || fd.Body == nil {
		return nil
	}
	var cands []ast.Expr
	ast.Inspect(fd.Body, func(n ast.Node) bool {
		switch x := n.(type) {
		case *ast.IfStmt:
			if g.kind == "if" && containsAll(src(x.Cond), g.mentions) {
				cands = append(cands, x.Cond)
			}
		case *ast.ForStmt:
			if g.kind == "for" && x.Cond != nil && containsAll(src(x.Cond), g.mentions) {
				cands = append(cands, x.Cond)
			}
		case *ast.AssignStmt:
			if g.kind == "assign" && len(x.Lhs) == 1 && len(x.Rhs) == 1 && src(x.Lhs[0]) == g.target && containsAll(src(x.Rhs[0]), g.mentions) {
				cands = append(cands, x.Rhs[0])
			}
		case *ast.ReturnStmt:
			if g.kind != "return" || len(x.Results) != 1 { // a bare return has no result to look at
				break
			}
			if _, isLit := x.Results[0].(*ast.FuncLit); !isLit && containsAll(src(x.Results[0]), g.mentions) {
				cands = append(cands, x.Results[0])
			}
		}
		return true
	})
	if g.index >= len(cands) {
		fail("guard %s: anchor not found in %s:%s (kind %s, mentions %v, index %d; %d candidates)", g.name, g.file, g.fn, g.kind, g.mentions, g.index, len(cands))
		return nil
	}
	return cands[g.index]
}

func emitGuard(b *strings.Builder, g guard) {
	e := g.locate()
	if e == nil {
		return
	}
	v := vocab{}
	for _, p := range g.params {
		v[p.goText] = p.lean
	}
	t := &tr{v: v, where: g.name + " (" + g.file + ":" + g.fn + ")", used: map[string]bool{}}
	body := t.expr(e)
	fmt.Fprintf(b, "/-- %s\n    source (%s, func %s): `%s` -/\n", g.doc, g.file, g.fn, src(e))
	fmt.Fprintf(b, "def %s", g.name)
	seen := map[string]bool{}
	for _, p := range g.params {
		if seen[p.lean] {
			continue
		}
		seen[p.lean] = true
		fmt.Fprintf(b, " (%s : %s)", p.lean, p.typ)
	}
	fmt.Fprintf(b, " : %s :=\n  %s\n\n", g.result, body)
}

func I(goText, lean string) param { return param{goText, lean, "Int"} }
func B(goText, lean string) param { return param{goText, lean, "Bool"} }

var guards = []guard{
	// ---- step.go: version gate
	{name: "stepSkipOld", file: "step.go", fn: "stepConsumer", kind: "if", mentions: []string{"record.Meta.Version", "eventRecordVersion"}, index: 0,
		params: []param{I("record.Meta.Version", "recVersion"), I("eventRecordVersion", "evVersion")}, result: "Bool",
		doc: "stepConsumer: event already processed (ack without handling)"},
	{name: "stepStale", file: "step.go", fn: "stepConsumer", kind: "if", mentions: []string{"record.Meta.Version", "eventRecordVersion"}, index: 1,
		params: []param{I("record.Meta.Version", "recVersion"), I("eventRecordVersion", "evVersion")}, result: "Bool",
		doc: "stepConsumer: stale record returned by the store (error, retried)"},
	{name: "stepStopped", file: "step.go", fn: "stepConsumer", kind: "if", mentions: []string{"record.RunState"}, index: 0,
		params: []param{I("record.RunState", "runState")}, result: "Bool",
		doc: "stepConsumer: stopped runs are skipped"},
	// ---- timeout.go: poller guards
	{name: "pollCancel", file: "timeout.go", fn: "pollTimeouts", kind: "if", mentions: []string{"r.Status", "r.RunState"}, index: 0,
		params: []param{I("r.Status", "recStatus"), I("status", "status"), I("r.RunState", "runState")}, result: "Bool",
		doc: "pollTimeouts: timer is cancelled when the run moved on or finished"},
	{name: "pollSkipStopped", file: "timeout.go", fn: "pollTimeouts", kind: "if", mentions: []string{"r.RunState"}, index: 1,
		params: []param{I("r.RunState", "runState")}, result: "Bool",
		doc: "pollTimeouts: stopped runs are skipped"},
	{name: "inserterSkipZero", file: "timeout.go", fn: "timeoutAutoInserterConsumer", kind: "if", mentions: []string{"expireAt"}, index: 0,
		params: []param{I("expireAt", "expireAt")}, result: "Bool",
		doc: "timeout inserter: zero expiry creates no timer"},
	// ---- callback.go
	{name: "callbackSkip", file: "callback.go", fn: "processCallback", kind: "if", mentions: []string{"wr.Status", "currentStatus"}, index: 0,
		params: []param{I("wr.Status", "recStatus"), I("currentStatus", "status")}, result: "Bool",
		doc: "processCallback: record is at another status -> nothing happens"},
	// ---- update.go
	{name: "updaterStatusChanged", file: "update.go", fn: "newUpdater", kind: "if", mentions: []string{"latest.Status", "current"}, index: 0,
		params: []param{I("latest.Status", "latestStatus"), I("current", "current")}, result: "Bool",
		doc: "updater: re-read record no longer at the expected status -> no write"},
	{name: "validateFound", file: "update.go", fn: "validateTransition", kind: "if", mentions: []string{"node", "next"}, index: 0,
		params: []param{I("node", "node"), I("next", "next")}, result: "Bool",
		doc: "validateTransition: a listed destination matches"},
	{name: "validateNoTransitions", file: "update.go", fn: "validateTransition", kind: "if", mentions: []string{"len(nodes)"}, index: 0,
		params: []param{I("len(nodes)", "lenNodes")}, result: "Bool",
		doc: "validateTransition: current status has no outgoing transitions"},
	// ---- trigger.go
	{name: "triggerInProgress", file: "trigger.go", fn: "trigger", kind: "if", mentions: []string{"lastRecord.RunState"}, index: 0,
		params: []param{I("lastRecord.RunState", "runState")}, result: "Bool",
		doc: "trigger: the latest run is still in progress -> ErrWorkflowInProgress"},
	{name: "triggerUseRequested", file: "trigger.go", fn: "trigger", kind: "if", mentions: []string{"o.startingPoint"}, index: 0,
		params: []param{I("o.startingPoint", "requested")}, result: "Bool",
		doc: "trigger: a non-zero requested starting point overrides the default"},
	// ---- pause.go
	{name: "retryNotPaused", file: "pause.go", fn: "autoRetryConsumer", kind: "if", mentions: []string{"record.RunState"}, index: 0,
		params: []param{I("record.RunState", "runState")}, result: "Bool",
		doc: "autoRetryConsumer: only still-paused runs are resumed"},
	{name: "retryThreshold", file: "pause.go", fn: "autoRetryConsumer", kind: "assign", target: "threshold", mentions: []string{"clock.Now()"}, index: 0,
		params: []param{I("clock.Now()", "now"), I("retryInterval", "retryInterval")}, result: "Int",
		doc: "autoRetryConsumer: threshold instant"},
	{name: "retryTooEarly", file: "pause.go", fn: "autoRetryConsumer", kind: "if", mentions: []string{"record.UpdatedAt", "threshold"}, index: 0,
		params: []param{I("record.UpdatedAt", "updatedAt"), I("threshold", "threshold")}, result: "Bool",
		doc: "autoRetryConsumer: updated after the threshold -> not yet"},
	{name: "pauseDisabled", file: "pause.go", fn: "maybePause", kind: "if", mentions: []string{"pauseAfterErrCount"}, index: 0,
		params: []param{I("pauseAfterErrCount", "n")}, result: "Bool",
		doc: "maybePause: not configured"},
	{name: "pauseBelowThreshold", file: "pause.go", fn: "maybePause", kind: "if", mentions: []string{"count", "pauseAfterErrCount"}, index: 0,
		params: []param{I("count", "count"), I("pauseAfterErrCount", "n")}, result: "Bool",
		doc: "maybePause: count still below the threshold"},
	// ---- consumer.go
	{name: "consumeDelay", file: "consumer.go", fn: "consume", kind: "assign", target: "delay", mentions: []string{"lag"}, index: 0,
		params: []param{I("lag", "lag"), I("clock.Since(e.CreatedAt)", "age")}, result: "Int",
		doc: "consume: remaining delay"},
	{name: "consumeMustWait", file: "consumer.go", fn: "consume", kind: "if", mentions: []string{"lag", "delay"}, index: 0,
		params: []param{I("lag", "lag"), I("delay", "delay")}, result: "Bool",
		doc: "consume: wait for the lag"},
	// ---- eventfilter.go
	{name: "awaitSkip", file: "await.go", fn: "awaitWorkflowStatusByForeignID", kind: "if", mentions: []string{"shouldFilter"}, index: 0,
		params: []param{B("shouldFilter", "filtered"), I("e.Type", "ty"), I("status", "status")}, result: "Bool",
		doc: "Await: skip (acknowledge and keep waiting) unless the event is for this run and was written at the awaited status"},
	{name: "shardActive", file: "eventfilter.go", fn: "shardFilter", kind: "if", mentions: []string{"totalShards"}, index: 0,
		params: []param{I("totalShards", "total")}, result: "Bool",
		doc: "shardFilter: sharding only with more than one shard"},
	{name: "shardOutExpr", file: "eventfilter.go", fn: "shardFilter", kind: "return", mentions: []string{"e.ID"}, index: 0,
		params: []param{I("e.ID", "id"), I("total", "total"), I("shard", "shard")}, result: "Bool",
		doc: "shardFilter: true = filtered out"},
	{name: "shardTotal", file: "eventfilter.go", fn: "shardFilter", kind: "assign", target: "total", mentions: []string{"totalShards"}, index: 0,
		params: []param{I("totalShards", "totalShards")}, result: "Int", doc: "shardFilter: the divisor"},
	// ---- workflow.go Run launch loops (steps: index 0 ; connectors: index 1)
	{name: "runStepSingle", file: "workflow.go", fn: "Workflow.Run", kind: "if", mentions: []string{"parallelCount <"}, index: 0,
		params: []param{I("parallelCount", "p")}, result: "Bool", doc: "Run: step launched un-sharded"},
	{name: "runStepOverride", file: "workflow.go", fn: "Workflow.Run", kind: "if", mentions: []string{"config.parallelCount"}, index: 0,
		params: []param{I("config.parallelCount", "own")}, result: "Bool", doc: "Run: per-step count overrides the default"},
	{name: "runStepLoop", file: "workflow.go", fn: "Workflow.Run", kind: "for", mentions: []string{"i"}, index: 0,
		params: []param{I("i", "i"), I("parallelCount", "p"), I("config.parallelCount", "own")}, result: "Bool", doc: "Run: step shard loop condition"},
	{name: "runConnSingle", file: "workflow.go", fn: "Workflow.Run", kind: "if", mentions: []string{"parallelCount <"}, index: 1,
		params: []param{I("parallelCount", "p")}, result: "Bool", doc: "Run: connector launched un-sharded"},
	{name: "runConnOverride", file: "workflow.go", fn: "Workflow.Run", kind: "if", mentions: []string{"config.parallelCount"}, index: 1,
		params: []param{I("config.parallelCount", "own")}, result: "Bool", doc: "Run: per-connector count overrides the default"},
	{name: "runConnLoop", file: "workflow.go", fn: "Workflow.Run", kind: "for", mentions: []string{"i"}, index: 1,
		params: []param{I("i", "i"), I("parallelCount", "p"), I("config.parallelCount", "own")}, result: "Bool", doc: "Run: connector shard loop condition"},
	// ---- bundled adapters
	{name: "memTimeoutNotDue", file: "adapters/memtimeoutstore/memtimeoutstore.go", fn: "Store.ListValid", kind: "if", mentions: []string{"ExpireAt"}, index: 0,
		params: []param{I("timeout.ExpireAt", "expireAt"), I("now", "now")}, result: "Bool", doc: "memtimeoutstore.ListValid: not yet due"},
	{name: "memOutboxLimitReached", file: "adapters/memrecordstore/memrecordstore.go", fn: "Store.ListOutboxEvents", kind: "if", mentions: []string{"limit"}, index: 0,
		params: []param{I("len(filtered)", "n"), I("limit", "limit")}, result: "Bool", doc: "memrecordstore.ListOutboxEvents: limit reached after appending"},
	{name: "memStreamFromLatest", file: "adapters/memstreamer/memstreamer.go", fn: "Stream.Recv", kind: "if", mentions: []string{"StreamFromLatest"}, index: 0,
		params: []param{B("s.options.StreamFromLatest", "fromLatest"), B("ok", "stored")}, result: "Bool", doc: "memstreamer.Recv: no cursor stored, start at the creation-time length"},
	{name: "memStreamAtHead", file: "adapters/memstreamer/memstreamer.go", fn: "Stream.Recv", kind: "if", mentions: []string{"len(log)"}, index: 0,
		params: []param{I("len(log)", "n"), I("cursorOffset", "cursor")}, result: "Bool", doc: "memstreamer.Recv: nothing to deliver yet"},
}

// ---------- facts ----------

func caseList(rel, fn string, wantTrue bool) []int64 {
	fd := findFunc(rel, fn)
	if fd == nil {
		return nil
	}
	var out []int64
	found := false
	ast.Inspect(fd.Body, func(n ast.Node) bool {
		cc, ok := n.(*ast.CaseClause)
		if !ok || cc.List == nil {
			return true
		}
		// a case returning the literal true
		isTrue := false
		for _, s := range cc.Body {
			if r, ok := s.(*ast.ReturnStmt); ok && len(r.Results) == 1 && src(r.Results[0]) == "true" {
				isTrue = true
			}
		}
		if isTrue == wantTrue {
			found = true
			for _, e := range cc.List {
				v, ok := constInt(e)
				if !ok {
					fail("%s.%s: non-constant case %s", rel, fn, src(e))
				}
				out = append(out, v)
			}
		}
		return true
	})
	if !found {
		fail("%s.%s: no `case ...: return true` clause found", rel, fn)
	}
	// the default must return false
	return out
}

func intList(xs []int64) string {
	p := []string{}
	for _, x := range xs {
		p = append(p, leanInt(x))
	}
	return "[" + strings.Join(p, ", ") + "]"
}

func genFacts() string {
	var b strings.Builder
	b.WriteString("-- GENERATED by /verif/extract from the Go sources. Do not edit.\nnamespace WorkflowModel.Gen\n\n")
	for _, f := range []string{"runstate.go", "state.go", "order.go", "status.go", "topic.go", "eventstreamer.go", "builder.go", "filter.go",
		"adapters/memrecordstore/memrecordstore.go"} {
		collectConsts(f)
	}
	names := []string{}
	for n := range intConsts {
		names = append(names, n)
	}
	sort.Strings(names)
	for _, n := range names {
		fmt.Fprintf(&b, "def %s : Int := %s\n", n, leanInt(intConsts[n]))
	}
	b.WriteString("\n")
	names = names[:0]
	for n := range strConsts {
		names = append(names, n)
	}
	sort.Strings(names)
	for _, n := range names {
		fmt.Fprintf(&b, "/-- %q -/\ndef %s : List Nat := %s\n", strConsts[n], n, leanStr(strConsts[n]))
	}
	b.WriteString("\n/-- the Go zero time, as a distinguished instant far before the harness epoch -/\ndef zeroTime : Int := -62135596800000000000\n\n")

	// run-state transition table
	tbl := findVarValue("runstate.go", "runStateTransitions")
	var pairs []string
	if cl, ok := tbl.(*ast.CompositeLit); ok {
		for _, el := range cl.Elts {
			kv, ok := el.(*ast.KeyValueExpr)
			if !ok {
				fail("runStateTransitions: unexpected element %s", src(el))
				continue
			}
			from, ok1 := constInt(kv.Key)
			inner, ok2 := kv.Value.(*ast.CompositeLit)
			if !ok1 || !ok2 {
				fail("runStateTransitions: unexpected entry %s", src(el))
				continue
			}
			for _, el2 := range inner.Elts {
				kv2, ok := el2.(*ast.KeyValueExpr)
				if !ok {
					fail("runStateTransitions: unexpected inner element %s", src(el2))
					continue
				}
				to, ok1 := constInt(kv2.Key)
				val := src(kv2.Value)
				if !ok1 || (val != "true" && val != "false") {
					fail("runStateTransitions: unexpected inner entry %s", src(el2))
					continue
				}
				if val == "true" {
					pairs = append(pairs, fmt.Sprintf("(%s, %s)", leanInt(from), leanInt(to)))
				}
			}
		}
	} else if tbl != nil {
		fail("runStateTransitions is not a composite literal")
	}
	fmt.Fprintf(&b, "/-- runstate.go `runStateTransitions`, entries with value true, in source order -/\ndef runStateTransitions : List (Int × Int) := [%s]\n\n", strings.Join(pairs, ", "))

	// controller: guard of rsc.update  `!ok || !valid[rs]`
	if fd := findFunc("runstate.go", "runStateControllerImpl.update"); fd != nil {
		found := false
		ast.Inspect(fd.Body, func(n ast.Node) bool {
			if is, ok := n.(*ast.IfStmt); ok && !found {
				c := src(is.Cond)
				found = true
				fmt.Fprintf(&b, "/-- runstate.go rsc.update: rejection guard, source text -/\ndef ctlRejectGuardSrc : String := %q\n", c)
				fmt.Fprintf(&b, "def ctlLookupSrc : String := %q\n\n", func() string {
					s := ""
					ast.Inspect(fd.Body, func(m ast.Node) bool {
						if as, ok := m.(*ast.AssignStmt); ok && s == "" && strings.Contains(src(as), "runStateTransitions") {
							s = src(as)
						}
						return true
					})
					return s
				}())
			}
			return true
		})
	}
	// the four operations' targets
	for _, op := range []string{"Pause", "Resume", "Cancel", "DeleteData"} {
		fd := findFunc("runstate.go", "runStateControllerImpl."+op)
		if fd == nil {
			continue
		}
		var target int64
		ok := false
		ast.Inspect(fd.Body, func(n ast.Node) bool {
			if ce, isCall := n.(*ast.CallExpr); isCall && src(ce.Fun) == "rsc.update" && len(ce.Args) >= 2 {
				target, ok = constInt(ce.Args[1])
			}
			return true
		})
		if !ok {
			fail("runStateControllerImpl.%s: target of rsc.update not found", op)
		}
		fmt.Fprintf(&b, "def ctlTarget%s : Int := %s\n", op, leanInt(target))
	}
	b.WriteString("\n")

	fmt.Fprintf(&b, "/-- runstate.go `Finished`: cases returning true -/\ndef finishedCases : List Int := %s\n", intList(caseList("runstate.go", "RunState.Finished", true)))
	fmt.Fprintf(&b, "/-- runstate.go `Stopped`: cases returning true -/\ndef stoppedCases : List Int := %s\n", intList(caseList("runstate.go", "RunState.Stopped", true)))
	b.WriteString("def finished (rs : Int) : Bool := finishedCases.contains rs\ndef stopped (rs : Int) : Bool := stoppedCases.contains rs\n")
	// Valid
	if fd := findFunc("runstate.go", "RunState.Valid"); fd != nil {
		var e ast.Expr
		ast.Inspect(fd.Body, func(n ast.Node) bool {
			if r, ok := n.(*ast.ReturnStmt); ok && len(r.Results) == 1 {
				e = r.Results[0]
			}
			return true
		})
		if e == nil {
			fail("RunState.Valid: return expression not found")
		} else {
			t := &tr{v: vocab{"rs": "rs"}, where: "RunState.Valid", used: map[string]bool{}}
			body := strings.ReplaceAll(t.expr(e), "Gen.", "")
			fmt.Fprintf(&b, "/-- runstate.go `Valid`: `%s` -/\ndef valid (rs : Int) : Bool := %s\n\n", src(e), body)
		}
	}
	// RunState.String names
	if fd := findFunc("runstate.go", "RunState.String"); fd != nil {
		var items []string
		ast.Inspect(fd.Body, func(n ast.Node) bool {
			cc, ok := n.(*ast.CaseClause)
			if !ok || cc.List == nil {
				return true
			}
			for _, s := range cc.Body {
				if r, ok := s.(*ast.ReturnStmt); ok && len(r.Results) == 1 {
					if bl, ok := r.Results[0].(*ast.BasicLit); ok && bl.Kind == token.STRING {
						sv, _ := strconv.Unquote(bl.Value)
						for _, e := range cc.List {
							v, _ := constInt(e)
							items = append(items, fmt.Sprintf("(%s, %s)", leanInt(v), leanStr(sv)))
						}
					}
				}
			}
			return true
		})
		fmt.Fprintf(&b, "/-- runstate.go `String` -/\ndef runStateNames : List (Int × List Nat) := [%s]\n\n", strings.Join(items, ", "))
	}

	// MakeOutboxEventData: topic selection as an if-chain over record.RunState; headers
	if fd := findFunc("event.go", "MakeOutboxEventData"); fd != nil {
		type arm struct{ cond, val string }
		var arms []arm
		initial := ""
		var hdrs []string
		evType, evRunID := "", ""
		t := &tr{v: vocab{"record.RunState": "runState"}, where: "MakeOutboxEventData", used: map[string]bool{}}
		kindOf := func(e ast.Expr) string {
			s := src(e)
			switch {
			case strings.HasPrefix(s, "Topic("):
				if s != "Topic(record.WorkflowName, record.Status)" {
					fail("MakeOutboxEventData: status topic built from unexpected arguments: %s", s)
				}
				return "0"
			case strings.HasPrefix(s, "DeleteTopic("):
				if s != "DeleteTopic(record.WorkflowName)" {
					fail("MakeOutboxEventData: delete topic built from unexpected arguments: %s", s)
				}
				return "1"
			case strings.HasPrefix(s, "RunStateChangeTopic("):
				if s != "RunStateChangeTopic(record.WorkflowName)" {
					fail("MakeOutboxEventData: run-state-change topic built from unexpected arguments: %s", s)
				}
				return "2"
			}
			fail("MakeOutboxEventData: unexpected topic expression %s", s)
			return "0"
		}
		for _, st := range fd.Body.List {
			switch x := st.(type) {
			case *ast.AssignStmt:
				if len(x.Lhs) == 1 && src(x.Lhs[0]) == "topic" {
					initial = kindOf(x.Rhs[0])
				}
				if len(x.Lhs) == 1 && strings.HasPrefix(src(x.Lhs[0]), "headers[") {
					k := src(x.Lhs[0])
					k = strings.TrimSuffix(strings.TrimPrefix(k, "headers[string("), ")]")
					hv, ok := strConsts[k]
					if !ok {
						fail("MakeOutboxEventData: unknown header constant %s", k)
					}
					hdrs = append(hdrs, fmt.Sprintf("(%s, %q)", leanStr(hv), src(x.Rhs[0])))
				}
				if len(x.Lhs) == 1 && src(x.Lhs[0]) == "r" {
					if ue, ok := x.Rhs[0].(*ast.CompositeLit); ok {
						for _, el := range ue.Elts {
							if kv, ok := el.(*ast.KeyValueExpr); ok {
								switch src(kv.Key) {
								case "RunId":
									evRunID = src(kv.Value)
								case "Type":
									evType = src(kv.Value)
								}
							}
						}
					}
				}
			case *ast.IfStmt:
				if strings.Contains(src(x.Cond), "record.RunState") && x.Else == nil && len(x.Body.List) == 1 {
					if as, ok := x.Body.List[0].(*ast.AssignStmt); ok && src(as.Lhs[0]) == "topic" {
						arms = append(arms, arm{strings.ReplaceAll(t.expr(x.Cond), "Gen.", ""), kindOf(as.Rhs[0])})
						continue
					}
				}
				if strings.Contains(src(x.Cond), "record.") {
					fail("MakeOutboxEventData: unexpected conditional on the record: %s", src(x.Cond))
				}
			}
		}
		if initial == "" {
			fail("MakeOutboxEventData: initial topic assignment not found")
		}
		b.WriteString("/-- event.go MakeOutboxEventData: which topic a record is routed to (0 = status topic, 1 = delete topic,\n    2 = run-state-change topic); the sequential `if` statements are kept in source order -/\n")
		b.WriteString("def outboxTopicKind (runState : Int) : Nat :=\n")
		fmt.Fprintf(&b, "  let k : Nat := %s\n", initial)
		for _, a := range arms {
			fmt.Fprintf(&b, "  let k : Nat := if %s then %s else k\n", a.cond, a.val)
		}
		b.WriteString("  k\n\n")
		fmt.Fprintf(&b, "/-- event.go MakeOutboxEventData: header assignments (header key bytes, source expression) in source order -/\ndef outboxHeaders : List (List Nat × String) := [%s]\n", strings.Join(hdrs, ", "))
		fmt.Fprintf(&b, "def outboxEventRunIdSrc : String := %q\ndef outboxEventTypeSrc : String := %q\n\n", evRunID, evType)
	}

	// skipConfig keys
	if v := findVarValue("status.go", "skipConfig"); v != nil {
		var ks []int64
		if cl, ok := v.(*ast.CompositeLit); ok {
			for _, el := range cl.Elts {
				if kv, ok := el.(*ast.KeyValueExpr); ok {
					k, ok := constInt(kv.Key)
					if !ok {
						fail("skipConfig: non-constant key %s", src(kv.Key))
					}
					ks = append(ks, k)
				}
			}
		}
		fmt.Fprintf(&b, "/-- status.go skipConfig keys: returned statuses that mean `skip` -/\ndef skipValues : List Int := %s\n\n", intList(ks))
	}
	// default outbox limit
	if fd := findFunc("outbox.go", "defaultOutboxConfig"); fd != nil {
		var lim int64 = -1
		ast.Inspect(fd.Body, func(n ast.Node) bool {
			if kv, ok := n.(*ast.KeyValueExpr); ok && src(kv.Key) == "limit" {
				lim, _ = constInt(kv.Value)
			}
			return true
		})
		fmt.Fprintf(&b, "def defaultOutboxLimit : Int := %s\n", leanInt(lim))
	}
	// runDelete default marker
	if fd := findFunc("delete.go", "runDelete"); fd != nil {
		marker := ""
		ast.Inspect(fd.Body, func(n ast.Node) bool {
			if as, ok := n.(*ast.AssignStmt); ok && len(as.Lhs) == 1 && src(as.Lhs[0]) == "replacementData" && marker == "" {
				ast.Inspect(as.Rhs[0], func(m ast.Node) bool {
					if bl, ok := m.(*ast.BasicLit); ok && bl.Kind == token.STRING {
						marker, _ = strconv.Unquote(bl.Value)
					}
					return true
				})
			}
			return true
		})
		fmt.Fprintf(&b, "/-- delete.go default replacement object %q -/\ndef deleteMarker : List Nat := %s\n", marker, leanStr(marker))
	}
	b.WriteString("\nend WorkflowModel.Gen\n")
	return b.String()
}

func quoteAll(xs []string) string {
	p := []string{}
	for _, x := range xs {
		p = append(p, strconv.Quote(x))
	}
	return strings.Join(p, ", ")
}

// ---------- T2: call orders ----------

type orderSpec struct {
	name, file, fn string
	calls          []string // callee source texts of interest
}

var orders = []orderSpec{
	{"consume", "consumer.go", "consume", []string{"receiver.Recv", "clock.NewTimer", "FilterUsing", "ack", "consumeFn"}},
	{"purgeOutbox", "outbox.go", "purgeOutbox", []string{"recordStore.ListOutboxEvents", "wait", "stream.NewSender", "producer.Send", "producer.Close", "recordStore.DeleteOutboxEvent"}},
	{"runOnce", "workflow.go", "runOnce", []string{"awaitRole", "cancel", "process", "clock.NewTimer"}},
	{"stepConsumer", "step.go", "stepConsumer", []string{"lookupFn", "buildRun", "stepLogic", "maybePause", "skipUpdate", "updater"}},
	{"updater", "update.go", "newUpdater", []string{"Marshal", "graph.IsTerminal", "lookup", "validateTransition", "updateRecord"}},
	{"updateRecord", "update.go", "updateRecord", []string{"store"}},
	{"trigger", "trigger.go", "trigger", []string{"w.statusGraph.IsValid", "Marshal", "lookup", "updateRecord"}},
	{"processCallback", "callback.go", "processCallback", []string{"latest", "buildRun", "fn", "skipUpdate", "updater"}},
	{"pollTimeouts", "timeout.go", "pollTimeouts", []string{"w.timeoutStore.ListValid", "w.recordStore.Latest", "w.recordStore.Lookup", "w.timeoutStore.Cancel", "processTimeout", "wait"}},
	{"processTimeout", "timeout.go", "processTimeout", []string{"buildRun", "config.TimeoutFunc", "maybePause", "skipUpdate", "updater", "completeFn"}},
	{"inserter", "timeout.go", "timeoutAutoInserterConsumer", []string{"config.TimerFunc", "w.timeoutStore.Create", "w.eventStreamer.NewReceiver", "stream.Close", "consume"}},
	{"runDelete", "delete.go", "runDelete", []string{"lookup", "customDeleteFn", "updateRecord"}},
	{"autoRetry", "pause.go", "autoRetryConsumer", []string{"lookupFn", "controller.Resume"}},
	{"maybePause", "pause.go", "maybePause", []string{"counter.Add", "run.Pause", "counter.Clear"}},
	{"runHook", "hook.go", "runHook", []string{"lookup", "Unmarshal", "hook"}},
	{"rscUpdate", "runstate.go", "runStateControllerImpl.update", []string{"updateRecord"}},
	{"stepProcess", "step.go", "consumeStepEvents", []string{"w.eventStreamer.NewReceiver", "stream.Close", "consume"}},
	{"sqlStore", "adapters/sqlstore/sqlstore.go", "SQLStore.Store", []string{"s.writer.BeginTx", "tx.Rollback", "tx.QueryRowContext", "s.create", "s.update", "workflow.MakeOutboxEventData", "s.insertOutboxEvent", "tx.Commit"}},
	{"schedule", "schedule.go", "Workflow.Schedule", []string{"cron.ParseStandard", "w.recordStore.Latest", "schedule.Next", "waitUntil", "options.scheduleFilter", "w.Trigger"}},
	{"memStore", "adapters/memrecordstore/memrecordstore.go", "Store.Store", []string{"workflow.MakeOutboxEventData"}},
}

func genOrder() string {
	var b strings.Builder
	b.WriteString("-- GENERATED by /verif/extract from the Go sources. Do not edit.\nnamespace WorkflowModel.Gen.Order\n\n")
	for _, o := range orders {
		fd := findFunc(o.file, o.fn)
		if fd == nil {
			continue
		}
		want := map[string]bool{}
		for _, c := range o.calls {
			want[c] = true
		}
		var seq []string
		var walkBlock func(stmts []ast.Stmt)
		noteCalls := func(n ast.Node, suffix string) {
			ast.Inspect(n, func(m ast.Node) bool {
				if _, isLit := m.(*ast.FuncLit); isLit {
					return false // handled separately, in statement order
				}
				if ce, ok := m.(*ast.CallExpr); ok {
					f := src(ce.Fun)
					if i := strings.Index(f, "["); i >= 0 {
						f = f[:i]
					}
					if want[f] {
						seq = append(seq, f+suffix)
					}
				}
				return true
			})
		}
		hasErrReturn := func(s ast.Stmt) bool {
			is, ok := s.(*ast.IfStmt)
			if !ok {
				return false
			}
			found := false
			ast.Inspect(is, func(m ast.Node) bool {
				if i2, ok := m.(*ast.IfStmt); ok {
					c := src(i2.Cond)
					if c == "err != nil" {
						for _, st := range i2.Body.List {
							if r, ok := st.(*ast.ReturnStmt); ok {
								last := ""
								if len(r.Results) > 0 {
									last = src(r.Results[len(r.Results)-1])
								}
								if last != "nil" {
									found = true
								}
							}
						}
					}
				}
				return true
			})
			return found
		}
		var walkStmt func(s ast.Stmt, next ast.Stmt)
		funcLits := func(n ast.Node) {
			ast.Inspect(n, func(m ast.Node) bool {
				if fl, ok := m.(*ast.FuncLit); ok {
					walkBlock(fl.Body.List)
					return false
				}
				return true
			})
		}
		walkStmt = func(s ast.Stmt, next ast.Stmt) {
			switch x := s.(type) {
			case *ast.BlockStmt:
				walkBlock(x.List)
			case *ast.IfStmt:
				if x.Init != nil {
					walkStmt(x.Init, nil)
				}
				noteCalls(x.Cond, "?")
				walkBlock(x.Body.List)
				if x.Else != nil {
					walkStmt(x.Else, nil)
				}
			case *ast.ForStmt:
				walkBlock(x.Body.List)
			case *ast.RangeStmt:
				walkBlock(x.Body.List)
			case *ast.SelectStmt:
				walkBlock(x.Body.List)
			case *ast.CommClause:
				walkBlock(x.Body)
			case *ast.SwitchStmt:
				walkBlock(x.Body.List)
			case *ast.CaseClause:
				walkBlock(x.Body)
			case *ast.DeferStmt:
				noteCalls(x.Call, ":defer")
				funcLits(x.Call)
			case *ast.ReturnStmt:
				for _, r := range x.Results {
					noteCalls(r, "!")
					funcLits(r)
				}
			case *ast.AssignStmt:
				sfx := ""
				if next != nil && hasErrReturn(next) && strings.Contains(src(x), "err") {
					sfx = "!"
				}
				for _, r := range x.Rhs {
					noteCalls(r, sfx)
					funcLits(r)
				}
			case *ast.ExprStmt:
				noteCalls(x.X, "")
				funcLits(x.X)
			case *ast.GoStmt:
				noteCalls(x.Call, ":go")
				funcLits(x.Call)
			case *ast.DeclStmt:
				noteCalls(x, "")
			}
		}
		walkBlock = func(stmts []ast.Stmt) {
			for i, s := range stmts {
				var next ast.Stmt
				if i+1 < len(stmts) {
					next = stmts[i+1]
				}
				walkStmt(s, next)
			}
		}
		walkBlock(fd.Body.List)
		fmt.Fprintf(&b, "/-- %s : %s — calls of interest in source order (`!` = error is checked and propagated, `?` = inside a condition, `:defer`) -/\ndef %s : List String := [%s]\n\n",
			o.file, o.fn, o.name, quoteAll(seq))
	}
	// Run(): launch sequence
	if fd := findFunc("workflow.go", "Workflow.Run"); fd != nil {
		var seq []string
		ast.Inspect(fd.Body, func(n ast.Node) bool {
			if ce, ok := n.(*ast.CallExpr); ok {
				f := src(ce.Fun)
				switch f {
				case "outboxConsumer", "consumeStepEvents", "timeoutPoller", "timeoutAutoInserterConsumer", "connectorConsumer",
					"runStateChangeHookConsumer", "deleteConsumer", "pausedRecordsRetryConsumer":
					args := []string{}
					for _, a := range ce.Args {
						args = append(args, src(a))
					}
					seq = append(seq, f+"("+strings.Join(args, ", ")+")")
				}
			}
			return true
		})
		fmt.Fprintf(&b, "/-- workflow.go Run: process launches in source order with their arguments -/\ndef runLaunches : List String := [%s]\n\n", quoteAll(seq))
	}
	// role construction: arguments of makeRole(...) for the role of each process kind
	for _, rc := range []struct{ name, file, fn string }{
		{"roleStep", "step.go", "consumeStepEvents"}, {"rolePoller", "timeout.go", "timeoutPoller"}, {"roleInserter", "timeout.go", "timeoutAutoInserterConsumer"},
		{"roleConnector", "connector.go", "connectorConsumer"}, {"roleHook", "hook.go", "runStateChangeHookConsumer"}, {"roleDelete", "delete.go", "deleteConsumer"},
		{"roleRetry", "pause.go", "pausedRecordsRetryConsumer"}, {"roleOutbox", "outbox.go", "outboxConsumer"},
	} {
		fd := findFunc(rc.file, rc.fn)
		if fd == nil {
			continue
		}
		got := ""
		ast.Inspect(fd.Body, func(n ast.Node) bool {
			if as, ok := n.(*ast.AssignStmt); ok && got == "" && len(as.Lhs) == 1 && src(as.Lhs[0]) == "role" {
				got = src(as.Rhs[0])
			}
			return true
		})
		if got == "" {
			fail("%s: assignment to `role` not found", rc.fn)
		}
		fmt.Fprintf(&b, "def %s : String := %q\n", rc.name, got)
	}
	b.WriteString("\nend WorkflowModel.Gen.Order\n")
	return b.String()
}

func genGuards() string {
	var b strings.Builder
	b.WriteString("-- GENERATED by /verif/extract from the Go sources. Do not edit.\nimport WorkflowModel.Generated.Facts\nnamespace WorkflowModel.Gen.G\nopen WorkflowModel\n\n")
	for _, g := range guards {
		emitGuard(&b, g)
	}
	b.WriteString("end WorkflowModel.Gen.G\n")
	return b.String()
}

func writeIfChanged(path, content string) {
	old, err := os.ReadFile(path)
	if err == nil && string(old) == content {
		return
	}
	if err := os.WriteFile(path, []byte(content), 0o644); err != nil {
		fmt.Fprintln(os.Stderr, err)
		os.Exit(2)
	}
}

func main() {
	repo = "/repo"
	out := "/verif/lean/WorkflowModel/Generated"
	if len(os.Args) > 1 {
		repo = os.Args[1]
	}
	if len(os.Args) > 2 {
		out = os.Args[2]
	}
	os.MkdirAll(out, 0o755)
	facts := genFacts()
	guardsS := genGuards()
	order := genOrder()
	errFile := filepath.Join(out, "EXTRACT_ERROR.txt")
	if len(errs) > 0 {
		msg := strings.Join(errs, "\n") + "\n"
		os.WriteFile(errFile, []byte(msg), 0o644)
		fmt.Fprint(os.Stderr, "extract: broken tie T1/T2:\n"+msg)
		// still write what we have, so that the search can use the rest of the model
		writeIfChanged(filepath.Join(out, "Facts.lean"), facts)
		writeIfChanged(filepath.Join(out, "Guards.lean"), guardsS)
		writeIfChanged(filepath.Join(out, "Order.lean"), order)
		os.Exit(2)
	}
	os.Remove(errFile)
	writeIfChanged(filepath.Join(out, "Facts.lean"), facts)
	writeIfChanged(filepath.Join(out, "Guards.lean"), guardsS)
	writeIfChanged(filepath.Join(out, "Order.lean"), order)
}
