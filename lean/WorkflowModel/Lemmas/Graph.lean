import WorkflowModel.Model.Graph
/-! Order-independent characterisations of the status graph (used by C02, C03). -/
namespace WorkflowModel.Graph

/-- invariant tying the five maps to the list of builder calls made so far -/
structure Spec (g : G) (es : List (Int × Int)) : Prop where
  graph    : ∀ a b, b ∈ g.graph a ↔ (a, b) ∈ es
  hasGraph : ∀ a, g.hasGraph a = true ↔ ∃ b, (a, b) ∈ es
  valid    : ∀ n, g.valid n = true ↔ ∃ p ∈ es, p.1 = n ∨ p.2 = n
  terminal : ∀ n, g.terminal n = some true ↔ ((∃ a, (a, n) ∈ es) ∧ ¬ ∃ b, (n, b) ∈ es)

theorem spec_add (g : G) (es : List (Int × Int)) (e : Int × Int) (h : Spec g es) : Spec (add g e) (es ++ [e]) := by
  obtain ⟨a0, b0⟩ := e
  constructor
  · intro a b
    simp only [add, upd, List.mem_append, List.mem_singleton, Prod.mk.injEq]
    split
    · rename_i heq; subst heq
      simp only [List.mem_append, List.mem_singleton]
      have := h.graph a b
      grind
    · have := h.graph a b
      grind
  · intro a
    simp only [add, upd, List.mem_append, List.mem_singleton, Prod.mk.injEq]
    split
    · rename_i heq; subst heq
      simp
    · have := h.hasGraph a
      rename_i hne
      constructor
      · intro hg; obtain ⟨b, hb⟩ := this.mp hg; exact ⟨b, Or.inl hb⟩
      · rintro ⟨b, hb | ⟨h1, _⟩⟩
        · exact this.mpr ⟨b, hb⟩
        · exact absurd h1 hne
  · intro n
    simp only [add, upd, List.mem_append, List.mem_singleton]
    have := h.valid n
    constructor
    · intro hv
      split at hv
      · rename_i heq; exact ⟨(a0, b0), Or.inr rfl, Or.inr heq.symm⟩
      · split at hv
        · rename_i heq; exact ⟨(a0, b0), Or.inr rfl, Or.inl heq.symm⟩
        · obtain ⟨p, hp, hp2⟩ := this.mp hv; exact ⟨p, Or.inl hp, hp2⟩
    · rintro ⟨p, hp | rfl, hp2⟩
      · split
        · rfl
        · split
          · rfl
          · exact this.mpr ⟨p, hp, hp2⟩
      · simp only at hp2
        rcases hp2 with rfl | rfl
        · split
          · rfl
          · simp
        · simp
  · intro n
    have ht := h.terminal n
    have hg := h.hasGraph
    simp only [add, upd, List.mem_append, List.mem_singleton, Prod.mk.injEq]
    -- case analysis on whether n is the new source / destination
    by_cases hna : n = a0 <;> by_cases hnb : n = b0
    · -- self loop on n
      subst hna; subst hnb
      have : ¬ ((∃ a, (a, n) ∈ es ∨ a = n ∧ True) ∧ ¬∃ b, (n, b) ∈ es ∨ True ∧ b = n) := by
        rintro ⟨_, h2⟩; exact h2 ⟨n, Or.inr ⟨trivial, rfl⟩⟩
      simp only [and_true, true_and] at this ⊢
      constructor
      · intro hx
        exfalso
        split at hx <;> split at hx <;> simp_all [upd]
      · intro hx; exact absurd hx (by simpa using this)
    · subst hna
      constructor
      · intro hx
        exfalso
        split at hx <;> split at hx <;> simp_all [upd]
      · rintro ⟨_, h2⟩; exact absurd ⟨b0, Or.inr ⟨rfl, rfl⟩⟩ h2
    · subst hnb
      have hne : a0 ≠ n := fun h => hna h.symm
      constructor
      · intro hx
        refine ⟨⟨a0, Or.inr ⟨rfl, rfl⟩⟩, ?_⟩
        rintro ⟨b, hb | ⟨h1, _⟩⟩
        · have hgn : g.hasGraph n = true := (hg n).mpr ⟨b, hb⟩
          have htn : ¬ (g.terminal n = some true) := by
            intro htn; exact (ht.mp htn).2 ⟨b, hb⟩
          split at hx <;> split at hx <;> simp_all [upd]
        · exact hne h1.symm
      · rintro ⟨_, h2⟩
        have hng : ¬ g.hasGraph n = true := by
          intro hgn; obtain ⟨b, hb⟩ := (hg n).mp hgn; exact h2 ⟨b, Or.inl hb⟩
        split <;> split <;> simp_all [upd]
    · have hne1 : a0 ≠ n := fun h => hna h.symm
      have hne2 : b0 ≠ n := fun h => hnb h.symm
      have key : ((∃ a, (a, n) ∈ es ∨ a = a0 ∧ n = b0) ∧ ¬∃ b, (n, b) ∈ es ∨ n = a0 ∧ b = b0) ↔
          ((∃ a, (a, n) ∈ es) ∧ ¬∃ b, (n, b) ∈ es) := by
        constructor
        · rintro ⟨⟨a, ha | ⟨_, h2⟩⟩, h3⟩
          · exact ⟨⟨a, ha⟩, fun ⟨b, hb⟩ => h3 ⟨b, Or.inl hb⟩⟩
          · exact absurd h2 hnb
        · rintro ⟨⟨a, ha⟩, h3⟩
          exact ⟨⟨a, Or.inl ha⟩, fun ⟨b, hb⟩ => by
            rcases hb with hb | ⟨h1, _⟩
            · exact h3 ⟨b, hb⟩
            · exact hna h1⟩
      rw [key, ← ht]
      split <;> split <;> simp_all [upd]

theorem spec_build (es : List (Int × Int)) : Spec (build es) es := by
  have : ∀ g acc, Spec g acc → Spec (es.foldl add g) (acc ++ es) := by
    induction es with
    | nil => intro g acc h; simpa using h
    | cons e es ih =>
      intro g acc h
      have := ih (add g e) (acc ++ [e]) (spec_add g acc e h)
      simpa using this
  have h0 : Spec empty [] := by
    constructor <;> intros <;> simp [empty]
  simpa [build] using this empty [] h0

/-- the declared-edge relation is exactly the builder calls: independent of their order -/
theorem mem_transitions_iff (es : List (Int × Int)) (a b : Int) :
    b ∈ transitions (build es) a ↔ (a, b) ∈ es := (spec_build es).graph a b

/-- terminal = is a destination and never a source: independent of the order of builder calls -/
theorem isTerminal_iff (es : List (Int × Int)) (n : Int) :
    isTerminal (build es) n = true ↔ ((∃ a, (a, n) ∈ es) ∧ ¬ ∃ b, (n, b) ∈ es) := by
  simp only [isTerminal, beq_iff_eq]
  exact (spec_build es).terminal n

theorem isTerminal_perm (es es' : List (Int × Int)) (h : ∀ p, p ∈ es ↔ p ∈ es') (n : Int) :
    isTerminal (build es) n = isTerminal (build es') n := by
  have h1 := isTerminal_iff es n
  have h2 := isTerminal_iff es' n
  simp only [h] at h1
  cases hx : isTerminal (build es) n <;> cases hy : isTerminal (build es') n <;> simp_all


theorem isValid_iff (es : List (Int × Int)) (n : Int) :
    isValid (build es) n = true ↔ ∃ p ∈ es, p.1 = n ∨ p.2 = n := (spec_build es).valid n

end WorkflowModel.Graph
