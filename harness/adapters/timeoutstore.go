package adapters

import (
	"context"
	"encoding/json"
	"fmt"
	"os"
	"path/filepath"
	"sort"
	"strconv"
	"strings"
	"time"

	"github.com/luno/workflow"
	"github.com/luno/workflow/adapters/memtimeoutstore"
	"github.com/luno/workflow/verifharness/leandrv"
	"github.com/luno/workflow/verifharness/report"
	"github.com/luno/workflow/verifharness/rng"
)

type TimeoutStoreFactory func() (workflow.TimeoutStore, func(), func() []string)

func MemTimeoutStore() (workflow.TimeoutStore, func(), func() []string) {
	return memtimeoutstore.New(), func() {}, nil
}

type tsOp struct {
	Kind             string // create | complete | cancel | valid
	Wf, Fid, Rid, St int
	Expire, Now, ID  int
	Unknown          bool
}

func (o tsOp) String() string {
	switch o.Kind {
	case "create":
		return fmt.Sprintf("create w%d f%d r%d st%d expire=%d", o.Wf, o.Fid, o.Rid, o.St, o.Expire)
	case "complete", "cancel":
		return fmt.Sprintf("%s id=%d", o.Kind, o.ID)
	case "valid":
		return fmt.Sprintf("list-valid w%d st%d now=%d", o.Wf, o.St, o.Now)
	}
	return o.Kind
}

var tsEpoch = time.Date(2030, 1, 1, 0, 0, 0, 0, time.UTC)

func tsApply(ctx context.Context, st workflow.TimeoutStore, d *leandrv.Driver, o tsOp) (impl, model string, exactOK bool, err error) {
	defer func() {
		if p := recover(); p != nil {
			impl = fmt.Sprintf("panic: %v", p)
			err = nil
		}
	}()
	switch o.Kind {
	case "create":
		model, err = d.Ask(fmt.Sprintf("ts create %d %d %d %d %d", o.Wf, o.Fid, o.Rid, o.St, o.Expire))
		if err != nil {
			return
		}
		e := st.Create(ctx, "w"+strconv.Itoa(o.Wf), "f"+strconv.Itoa(o.Fid), "r"+strconv.Itoa(o.Rid), o.St, tsEpoch.Add(time.Duration(o.Expire)*time.Second))
		impl = "ok"
		if e != nil {
			impl = "err"
		}
	case "complete", "cancel":
		model, err = d.Ask(fmt.Sprintf("ts %s %d", o.Kind, o.ID))
		if err != nil {
			return
		}
		var e error
		if o.Kind == "complete" {
			e = st.Complete(ctx, int64(o.ID))
		} else {
			e = st.Cancel(ctx, int64(o.ID))
		}
		impl = "ok"
		if e != nil {
			impl = "err" // an unknown ID may be reported as an error; what matters is that nothing else changes
			if o.Unknown {
				impl = "ok"
			}
		}
	case "valid":
		model, err = d.Ask(fmt.Sprintf("ts valid %d %d %d", o.Wf, o.St, o.Now))
		if err != nil {
			return
		}
		ls, e := st.ListValid(ctx, "w"+strconv.Itoa(o.Wf), o.St, tsEpoch.Add(time.Duration(o.Now)*time.Second))
		if e != nil {
			impl = "err"
			return
		}
		var out []string
		atoi := func(s string) int { n, _ := strconv.Atoi(s[1:]); return n }
		// the answer itself is kept as handed out (a caller iterates over it while other queries run: the poller of
		// another status, another workflow on the same store); the comparison works on a copy
		tsHeld = append(tsHeld, tsAnswer{raw: ls, snap: append([]workflow.TimeoutRecord(nil), ls...), op: o.String()})
		ls = append([]workflow.TimeoutRecord(nil), ls...)
		sort.SliceStable(ls, func(i, j int) bool { return ls[i].ID < ls[j].ID })
		for _, t := range ls {
			out = append(out, fmt.Sprintf("%d:%d:%d:%d:%d:%d", t.ID, atoi(t.WorkflowName), atoi(t.ForeignID), atoi(t.RunID), t.Status, int(t.ExpireAt.Sub(tsEpoch)/time.Second)))
		}
		impl = "-"
		if len(out) > 0 {
			impl = strings.Join(out, ",")
		}
		// the model answers "strict|inclusive": at the exact instant either is accepted
		parts := strings.SplitN(model, "|", 2)
		if len(parts) == 2 && (impl == parts[0] || impl == parts[1]) {
			return impl, impl, true, nil
		}
		return impl, model, false, nil
	}
	return
}

func genTsOp(r *rng.R, created int) tsOp {
	o := tsOp{Wf: r.Intn(2), Fid: r.Intn(2), Rid: r.Intn(4), St: rng.Pick(r, []int{3, 4}), Expire: r.Intn(8), Now: r.Intn(9)}
	k := r.Intn(100)
	pickID := func() {
		if created == 0 || r.Chance(1, 4) {
			o.ID, o.Unknown = created+1+r.Intn(5), true
			if r.Chance(1, 3) {
				o.ID = 0
			}
		} else {
			o.ID = 1 + r.Intn(created)
		}
	}
	switch {
	case k < 35:
		o.Kind = "create"
	case k < 50:
		o.Kind = "complete"
		pickID()
	case k < 65:
		o.Kind = "cancel"
		pickID()
	default:
		o.Kind = "valid"
	}
	return o
}

func tsSig(o tsOp, impl string, ops []tsOp) string {
	unk := false
	for _, h := range ops {
		if (h.Kind == "cancel" || h.Kind == "complete") && h.Unknown {
			unk = true
		}
	}
	s := "due-list-differs"
	if strings.HasPrefix(impl, "panic") {
		s = "panic-in-" + o.Kind
	}
	if unk {
		s += "+after-unknown-id"
	}
	return s
}

// answers handed out earlier in the sequence, with what they said when they were returned
type tsAnswer struct {
	raw, snap []workflow.TimeoutRecord
	op        string
}

var tsHeld []tsAnswer

// tsHeldChanged: an answer returned earlier no longer says what it said (it shares memory with the store or with a later answer)
func tsHeldChanged() (string, bool) {
	for _, h := range tsHeld {
		for i := range h.snap {
			if i >= len(h.raw) || h.raw[i] != h.snap[i] {
				return h.op, true
			}
		}
	}
	return "", false
}

func runTsSeq(mk TimeoutStoreFactory, d *leandrv.Driver, ops []tsOp, res *report.Result, prop, suite, label string) error {
	st, closeFn, inspect := mk()
	defer closeFn()
	tsHeld = nil
	if _, err := d.Ask("ts reset"); err != nil {
		return err
	}
	if inspect != nil {
		defer func() {
			for _, problem := range inspect() {
				res.Violate(report.Violation{Property: prop, Oracle: "statement-log", Signature: strings.SplitN(problem, ":", 2)[0],
					Detail: problem, Replay: map[string]any{"suite": suite, "ops": ops}})
			}
		}()
	}
	ctx := context.Background()
	for i, o := range ops {
		impl, model, _, err := tsApply(ctx, st, d, o)
		if err != nil {
			return err
		}
		res.Eval(1)
		res.Count("op:" + o.Kind)
		if o.Unknown {
			res.Count("unknown-id")
		}
		if op, changed := tsHeldChanged(); changed {
			var readable []string
			for _, h := range ops[:i+1] {
				readable = append(readable, h.String())
			}
			res.Violate(report.Violation{Property: prop, Oracle: "answers-are-independent", Signature: "earlier-answer-rewritten",
				Detail: fmt.Sprintf("%sthe answer of %s, held by its caller, was rewritten in place by %s (operation %d)", label, op, o.String(), i),
				Replay: map[string]any{"suite": suite, "ops": append([]tsOp{}, ops[:i+1]...), "readable": readable}})
			return nil
		}
		if impl != model && !d.Null {
			var readable []string
			for _, h := range ops[:i+1] {
				readable = append(readable, h.String())
			}
			res.Violate(report.Violation{Property: prop, Oracle: "refines-reference-timeout-store", Signature: tsSig(o, impl, ops[:i+1]),
				Detail: fmt.Sprintf("%safter %d operations, %s answered %q, the reference store answers (strict|inclusive) %q", label, i, o.String(), impl, model),
				Replay: map[string]any{"suite": suite, "ops": append([]tsOp{}, ops[:i+1]...), "readable": readable}})
			return nil
		}
	}
	return nil
}

// TimeoutStoreSuite: a timeout store against RefTimeouts (store clauses of C12; C18 for the SQL store).
func TimeoutStoreSuite(mk TimeoutStoreFactory, prop, suite string) func(d *leandrv.Driver, r *rng.R, res *report.Result, thorough bool) error {
	return func(d *leandrv.Driver, r *rng.R, res *report.Result, thorough bool) error {
		res.Rule = "operation sequences (Create, Complete, Cancel incl. unknown and zero IDs and the empty store, ListValid at instants before/at/after expiry) over 2 workflows x 2 foreign IDs x 4 runs x 2 statuses; " +
			"every ListValid answer compared with RefTimeouts (strict or inclusive at the exact instant); non-trivial = sequence with a Complete/Cancel followed by a ListValid"
		files, _ := filepath.Glob("/verif/corpus-adapters/" + prop + "-*.json")
		sort.Strings(files)
		for _, f := range files {
			var body struct {
				Replay struct {
					Suite string `json:"suite"`
					Ops   []tsOp `json:"ops"`
				} `json:"replay"`
			}
			b, err := os.ReadFile(f)
			if err != nil || json.Unmarshal(b, &body) != nil || !strings.HasSuffix(body.Replay.Suite, "timeoutstore") {
				continue
			}
			if err := runTsSeq(mk, d, body.Replay.Ops, res, prop, suite, "[corpus "+filepath.Base(f)+"] "); err != nil {
				return err
			}
			res.Count("corpus-file")
		}
		n, L := 400, 30
		if thorough {
			n, L = 5000, 50
		}
		for it := 0; it < n; it++ {
			var ops []tsOp
			created := 0
			nt := false
			mod := false
			for i := 0; i < L; i++ {
				o := genTsOp(r, created)
				if o.Kind == "create" {
					created++
				}
				if o.Kind == "complete" || o.Kind == "cancel" {
					mod = true
				}
				if o.Kind == "valid" && mod {
					nt = true
				}
				ops = append(ops, o)
			}
			if err := runTsSeq(mk, d, ops, res, prop, suite, ""); err != nil {
				return err
			}
			if nt {
				var hs []string
				for _, o := range ops {
					hs = append(hs, o.String())
				}
				res.NonTrivial(strings.Join(hs, ";"))
				if it < 2 {
					res.Sample(hs[:8])
				}
			}
			res.Traces++
		}
		return nil
	}
}
