/-! # Graph: the status graph of `internal/graph/graph.go`

`AddTransition` is transcribed map by map (Go maps are functions; `none` = key absent), `build` is the fold
over the list of builder calls in call order. Nothing here is "what the graph should be": the
characterisations (`Lemmas/Graph.lean`) are theorems about this transcription. -/
namespace WorkflowModel.Graph

/-- maps as functions; `none` = key absent (Go: `_, ok := m[k]`) -/
structure G where
  graph      : Int → List Int          -- absent = []
  hasGraph   : Int → Bool              -- key present in `graph`
  starting   : Int → Option Bool
  terminal   : Int → Option Bool
  valid      : Int → Bool
  nodeOrder  : List Int

def empty : G := ⟨fun _ => [], fun _ => false, fun _ => none, fun _ => none, fun _ => false, []⟩

def upd {β} (f : Int → β) (k : Int) (v : β) : Int → β := fun i => if i = k then v else f i

/-- line-by-line transcription of `(*Graph).AddTransition` -/
def add (g : G) (e : Int × Int) : G :=
  let from_ := e.1
  let to := e.2
  let order1 := if g.valid from_ then g.nodeOrder else g.nodeOrder ++ [from_]
  let order2 := if g.valid to then order1 else order1 ++ [to]
  let starting1 := upd g.starting to (some false)
  let starting2 := if (starting1 from_).isSome then starting1 else upd starting1 from_ (some true)
  let terminal1 := if g.hasGraph to then g.terminal else upd g.terminal to (some true)
  let terminal2 := if (terminal1 from_).isSome then upd terminal1 from_ (some false) else terminal1
  { graph := upd g.graph from_ (g.graph from_ ++ [to]),
    hasGraph := upd g.hasGraph from_ true,
    starting := starting2,
    terminal := terminal2,
    valid := upd (upd g.valid from_ true) to true,
    nodeOrder := order2 }

def build (es : List (Int × Int)) : G := es.foldl add empty

def isTerminal (g : G) (n : Int) : Bool := g.terminal n == some true
def transitions (g : G) (n : Int) : List Int := g.graph n
def isValid (g : G) (n : Int) : Bool := g.valid n


/-- `Info().StartingNodes`: nodes in `nodeOrder` whose `starting` entry is true -/
def startingNodes (g : G) : List Int := g.nodeOrder.filter (fun n => g.starting n == some true)

/-- `Info().TerminalNodes` -/
def terminalNodes (g : G) : List Int := g.nodeOrder.filter (fun n => g.terminal n == some true)

/-- `Build`: default starting point = first starting node (the builder panics when there is none) -/
def defaultStart (g : G) : Option Int := (startingNodes g).head?

end WorkflowModel.Graph
