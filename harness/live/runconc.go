package live

import (
	"context"
	"fmt"
	"sync"
	"time"

	"github.com/luno/workflow"
	"github.com/luno/workflow/adapters/memrecordstore"
	"github.com/luno/workflow/adapters/memrolescheduler"
	"github.com/luno/workflow/adapters/memstreamer"
	"github.com/luno/workflow/adapters/memtimeoutstore"
)

// C11: "Run returns only once all processes are registered and is idempotent" when SEVERAL callers call Run at the
// same time (two components of a service starting the same workflow): every caller, whichever got there first, may
// rely on States() being complete and on Stop reaching every process once its own Run has returned.

type runConcCfg struct {
	Statuses int `json:"step_statuses"`
	Parallel int `json:"parallel"`
	Callers  int `json:"concurrent_run_callers"`
}

// runConcurrent: returns problems (signature: detail) and the number of processes.
func runConcurrent(c runConcCfg) ([]string, int) {
	var problems []string
	b := workflow.NewBuilder[Obj, Status]("conc wf")
	for s := 1; s <= c.Statuses; s++ {
		next := Status(s + 1)
		b.AddStep(Status(s), func(ctx context.Context, r *workflow.Run[Obj, Status]) (Status, error) { return next, nil }, next).
			WithOptions(workflow.ParallelCount(c.Parallel))
	}
	w := b.Build(memstreamer.New(), memrecordstore.New(), memrolescheduler.New(), workflow.WithTimeoutStore(memtimeoutstore.New()), workflow.WithLogger(nopLogger{}),
		workflow.WithDefaultOptions(workflow.PollingFrequency(5*time.Millisecond), workflow.ErrBackOff(5*time.Millisecond)),
		workflow.WithOutboxOptions(workflow.OutboxPollingFrequency(5*time.Millisecond), workflow.OutboxErrBackOff(5*time.Millisecond)))
	par := c.Parallel
	if par < 2 {
		par = 1
	}
	want := c.Statuses*par + 3 // + outbox relay, delete consumer, paused-records retry consumer (enabled by default)
	ctx, cancel := context.WithCancel(context.Background())
	defer cancel()
	start := make(chan struct{})
	seen := make([]int, c.Callers)
	var wg sync.WaitGroup
	for i := 0; i < c.Callers; i++ {
		wg.Add(1)
		go func(i int) {
			defer wg.Done()
			<-start
			w.Run(ctx)
			seen[i] = len(w.States())
		}(i)
	}
	close(start)
	wg.Wait()
	for i, n := range seen {
		if n != want {
			problems = append(problems, fmt.Sprintf("run-returned-before-all-processes-registered: %d callers called Run at the same time; for caller %d Run returned with %d of %d processes registered in States()", c.Callers, i, n, want))
			break
		}
	}
	if n := len(w.States()); n != want {
		problems = append(problems, fmt.Sprintf("process-count-differs: %d processes registered after every Run call returned, the configuration calls for %d", n, want))
	}
	done := make(chan struct{})
	go func() { w.Stop(); close(done) }()
	select {
	case <-done:
	case <-time.After(20 * time.Second):
		return append(problems, "stop-did-not-return: Stop did not return within 20s after concurrent Run calls"), want
	}
	for name, s := range w.States() {
		if s != workflow.StateShutdown {
			problems = append(problems, fmt.Sprintf("process-not-shutdown-after-stop: process %q is %s after Stop returned (concurrent Run calls)", name, s))
			break
		}
	}
	return problems, want
}
