import WorkflowModel.Model.Routing
import WorkflowModel.Lemmas.Text
import WorkflowModel.Props.Tie
/-! # C10 (shards and roles) — shards partition the events; role names are distinct

`Routing.shardOut` is built from the **generated** guard expressions of `shardFilter` (Go `%` is truncated
division = `Int.tmod`). -/
namespace WorkflowModel.C10
open WorkflowModel Routing Text

theorem shardOut_eq (shard total id : Int) :
    shardOut shard total id = if total > 1 then decide (id.tmod total ≠ shard - 1) else false := by
  simp [shardOut, Gen.G.shardActive, Gen.G.shardOutExpr]

/-- with n ≥ 2 shards every event with a non-negative ID is handled by exactly one shard -/
theorem C10_shard_partition_nonneg (total id : Int) (ht : 1 < total) (hid : 0 ≤ id) :
    ∃ s, 1 ≤ s ∧ s ≤ total ∧ shardOut s total id = false ∧
      ∀ s', 1 ≤ s' → s' ≤ total → shardOut s' total id = false → s' = s := by
  refine ⟨id.tmod total + 1, ?_, ?_, ?_, ?_⟩
  · have := Int.tmod_nonneg total hid; omega
  · have := Int.tmod_lt_of_pos id (by omega : 0 < total); omega
  · simp [shardOut_eq, ht]
  · intro s' h1 h2 h3
    simp [shardOut_eq, ht] at h3
    omega

/-- with fewer than two shards nothing is filtered -/
theorem C10_single_shard (shard total id : Int) (ht : total ≤ 1) : shardOut shard total id = false := by
  simp [shardOut_eq]; omega

/-- FULL STATEMENT (all int64 IDs, including negative ones derived from hashes): exactly one shard handles
each event. On the unchanged tree this is FALSE; see `C10_shard_negative` for the witness family. It is kept
here as a `def` so the exact claim stays visible. -/
def C10_shard_partition_full : Prop :=
  ∀ total id : Int, 1 < total →
    ∃ s, 1 ≤ s ∧ s ≤ total ∧ shardOut s total id = false ∧
      ∀ s', 1 ≤ s' → s' ≤ total → shardOut s' total id = false → s' = s

/-- for a negative ID whose remainder is non-zero NO shard handles the event (Go's `%` keeps the sign) -/
theorem C10_shard_negative (total id : Int) (ht : 1 < total) (hid : id < 0) (hnd : id.tmod total ≠ 0) :
    ∀ s, 1 ≤ s → s ≤ total → shardOut s total id = true := by
  intro s h1 h2
  simp [shardOut_eq, ht]
  have : id.tmod total ≤ 0 := by
    have h := Int.neg_tmod (-id) total
    rw [Int.neg_neg] at h
    have := Int.tmod_nonneg total (by omega : 0 ≤ -id)
    omega
  omega

/-- the full statement is false on the unchanged tree: event ID -3 with two shards is handled by nobody -/
theorem C10_shard_partition_full_false : ¬ C10_shard_partition_full := by
  intro h
  obtain ⟨s, h1, h2, h3, _⟩ := h 2 (-3) (by decide)
  have := C10_shard_negative 2 (-3) (by decide) (by decide) (by decide) s h1 h2
  rw [this] at h3
  exact absurd h3 (by decide)

/-- T2: launch sequence of `Run` and the construction of every role name (stable identifiers only) -/
theorem C10_tie_launch_and_roles : Tie.runLaunches = true ∧ Tie.roles = true := by decide +kernel

example : shardOut 1 2 (-3) = true ∧ shardOut 2 2 (-3) = true ∧ shardOut 1 2 4 = false ∧ shardOut 2 2 4 = true := by
  simp [shardOut_eq]

end WorkflowModel.C10
