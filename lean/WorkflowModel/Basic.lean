def hello := "world"
