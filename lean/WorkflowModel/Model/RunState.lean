import WorkflowModel.Model.Basic
/-! # Run-state machine: the controller table (generated) and the documented lifecycle (C03) -/
namespace WorkflowModel.RS
open WorkflowModel

/-- controller: is `a → b` in the generated `runStateTransitions` table? (Go: `valid, ok := tbl[a]; ok && valid[b]`) -/
def allowed (a b : RunState) : Bool := Gen.runStateTransitions.contains (a, b)

inductive CtlOp | pause | resume | cancel | deleteData
deriving DecidableEq, Repr, Inhabited

def target : CtlOp → RunState
  | .pause => Gen.ctlTargetPause
  | .resume => Gen.ctlTargetResume
  | .cancel => Gen.ctlTargetCancel
  | .deleteData => Gen.ctlTargetDeleteData

/-- The documented run-state machine of property C03, written out by hand from the property text
(NOT from the code): Initiated, Running, Paused, then Completed or Cancelled, then RequestedDataDeleted and
DataDeleted alternating; Initiated may take any edge of Running directly. Stutters are allowed (a write
that keeps the run state). States: 1 Initiated 2 Running 3 Paused 4 Cancelled 5 Completed 6 DataDeleted
7 RequestedDataDeleted. -/
def Lifecycle (a b : Int) : Prop :=
  a = b ∨
  (a = 1 ∧ (b = 2 ∨ b = 3 ∨ b = 4 ∨ b = 5)) ∨
  (a = 2 ∧ (b = 3 ∨ b = 4 ∨ b = 5)) ∨
  (a = 3 ∧ (b = 2 ∨ b = 4)) ∨
  (a = 4 ∧ b = 7) ∨ (a = 5 ∧ b = 7) ∨
  (a = 7 ∧ b = 6) ∨ (a = 6 ∧ b = 7)

instance (a b : Int) : Decidable (Lifecycle a b) := by unfold Lifecycle; infer_instance

/-- finished states of the property text: Completed, Cancelled, RequestedDataDeleted, DataDeleted -/
def FinishedSpec (a : Int) : Prop := a = 4 ∨ a = 5 ∨ a = 6 ∨ a = 7
instance (a : Int) : Decidable (FinishedSpec a) := by unfold FinishedSpec; infer_instance

/-- `buildRun`: inside user functions an Initiated record is presented as Running -/
def view (rs : RunState) : RunState := if rs = Gen.RunStateInitiated then Gen.RunStateRunning else rs

end WorkflowModel.RS
