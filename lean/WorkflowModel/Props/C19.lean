import WorkflowModel.Model.Adapters.RefStream
import WorkflowModel.Generated.Guards
/-! # C19 — In-memory streamer: ordered topics, per-consumer cursors, redelivery until ack

Laws of the contract `RefStream`; the bundled `memstreamer` (and its connector) is tied to the contract by the
differential suite `mem-streamer` (sends, receiver creation with/without StreamFromLatest, receives with a deadline for
"would block", acknowledgements, reconnects without acknowledging, several topics and names, empty and non-empty logs). -/
namespace WorkflowModel.C19
open WorkflowModel.RefStream

theorem nextFrom_spec (log : List (Nat × Nat)) (topic i fuel : Nat) (j : Nat) (h : nextFrom log topic i fuel = some j) :
    i ≤ j ∧ (∃ e, log[j]? = some e ∧ e.1 = topic) ∧ ∀ k, i ≤ k → k < j → ∀ e, log[k]? = some e → e.1 ≠ topic := by
  induction fuel generalizing i with
  | zero => simp [nextFrom] at h
  | succ n ih =>
    unfold nextFrom at h
    cases he : log[i]? with
    | none => simp [he] at h
    | some e =>
      simp only [he] at h
      by_cases ht : (e.1 == topic) = true
      · simp only [ht, if_true, Option.some.injEq] at h
        subst h
        exact ⟨Nat.le_refl _, ⟨e, he, by simpa using ht⟩, fun k h1 h2 => absurd h1 (by omega)⟩
      · simp only [ht] at h
        obtain ⟨h1, h2, h3⟩ := ih (i + 1) h
        refine ⟨by omega, h2, ?_⟩
        intro k hk1 hk2 e' he'
        by_cases hki : k = i
        · subst hki; rw [he] at he'; cases he'; simpa using ht
        · exact h3 k (by omega) hk2 e' he'

theorem position_setPos (l : List (Nat × Nat)) (k v : Nat) : (setPos l k v).lookup k = some v := by
  simp [setPos, List.lookup]

theorem lookup_filter_ne (l : List (Nat × Nat)) (k k' : Nat) (h : k' ≠ k) :
    (l.filter (fun p => p.1 != k)).lookup k' = l.lookup k' := by
  induction l with
  | nil => rfl
  | cons c cs ih =>
    by_cases hc : c.1 = k
    · have hkc : (k' == c.1) = false := by rw [hc]; exact beq_false_of_ne h
      rw [List.filter_cons]
      simp only [hc, bne_self_eq_false, Bool.false_eq_true, if_false]
      rw [ih]; conv => rhs; rw [List.lookup]
      simp only [hkc]
    · have : (c.1 != k) = true := by simpa using hc
      rw [List.filter_cons]; simp only [this, if_true]
      rw [List.lookup, List.lookup, ih]

theorem position_setPos_ne (l : List (Nat × Nat)) (k k' v : Nat) (h : k' ≠ k) : (setPos l k v).lookup k' = l.lookup k' := by
  have hkk : (k' == k) = false := beq_false_of_ne h
  unfold setPos
  rw [List.lookup]; simp only [hkk]
  exact lookup_filter_ne l k k' h

/-- A delivery is an event of the receiver's topic, at or after the start position (the stored position, or the
StreamFromLatest floor when none is stored), and no event of that topic between the start and the delivery is skipped:
topic events are delivered in send order. -/
theorem C19_delivery_in_order (s : Stream) (name topic i payload : Nat) (h : (s.recv name topic).2 = some (i, payload)) :
    s.start name ≤ i ∧ s.log[i]? = some (topic, payload) ∧
    ∀ k, s.start name ≤ k → k < i → ∀ e, s.log[k]? = some e → e.1 ≠ topic := by
  unfold Stream.recv at h
  cases hn : s.scan name topic with
  | none => simp [hn] at h
  | some j =>
    simp only [hn] at h
    obtain ⟨h1, ⟨e, he, het⟩, h3⟩ := nextFrom_spec _ _ _ _ _ hn
    rw [he] at h
    simp at h
    obtain ⟨rfl, rfl⟩ := h
    exact ⟨h1, by rw [he]; cases e; simp_all, h3⟩

/-- Liveness of the scan: if an event of the topic exists at or after the stored position, `recv` delivers (does not block). -/
theorem nextFrom_complete (log : List (Nat × Nat)) (topic i fuel k : Nat) (e : Nat × Nat)
    (hk : i ≤ k) (hf : k < i + fuel) (he : log[k]? = some e) (ht : e.1 = topic) : (nextFrom log topic i fuel).isSome := by
  induction fuel generalizing i with
  | zero => omega
  | succ n ih =>
    unfold nextFrom
    have hlt : k < log.length := by
      rcases Nat.lt_or_ge k log.length with h | h
      · exact h
      · rw [List.getElem?_eq_none h] at he; cases he
    have hi : i < log.length := by omega
    rw [List.getElem?_eq_getElem hi]
    simp only []
    split
    · rfl
    · rename_i hne
      have : i ≠ k := by
        intro hik; subst hik
        rw [List.getElem?_eq_getElem hi] at he; cases he
        exact hne (by simpa using ht)
      exact ih (i + 1) (by omega) (by omega)

theorem C19_no_block_when_available (s : Stream) (name topic k : Nat) (e : Nat × Nat)
    (hk : s.start name ≤ k) (he : s.log[k]? = some e) (ht : e.1 = topic) : (s.recv name topic).2.isSome := by
  have hlt : k < s.log.length := by
    rcases Nat.lt_or_ge k s.log.length with h | h
    · exact h
    · rw [List.getElem?_eq_none h] at he; cases he
  have := nextFrom_complete s.log topic _ (s.log.length + 1) k e hk (by omega) he ht
  unfold Stream.recv
  cases hn : s.scan name topic with
  | none => unfold Stream.scan at hn; rw [hn] at this; cases this
  | some j =>
    obtain ⟨_, ⟨e', he', _⟩, _⟩ := nextFrom_spec _ _ _ _ _ hn
    simp [he']

theorem start_materialise (s : Stream) (name : Nat) : (s.materialise name).start name = s.start name := by
  unfold Stream.materialise Stream.start
  cases hp : s.position name with
  | some p => simp [hp]
  | none =>
    cases hf : s.floor.lookup name with
    | none => simp [hp, hf]
    | some f => simp [Stream.position, position_setPos]

theorem start_moveTo (s : Stream) (name p : Nat) : (s.moveTo name p).start name = p := by
  unfold Stream.moveTo
  split
  · rename_i h; rw [start_materialise]; exact h.symm
  · simp [Stream.start, Stream.position, position_setPos]

theorem log_moveTo (s : Stream) (name p : Nat) : (s.moveTo name p).log = s.log := by
  unfold Stream.moveTo Stream.materialise; split <;> (try split) <;> rfl

theorem other_moveTo (s : Stream) (name other p : Nat) (h : other ≠ name) :
    (s.moveTo name p).position other = s.position other ∧ (s.moveTo name p).floor = s.floor := by
  unfold Stream.moveTo Stream.materialise
  split
  · split
    · exact ⟨by simp [Stream.position, position_setPos_ne _ _ _ _ h], rfl⟩
    · exact ⟨rfl, rfl⟩
  · exact ⟨by simp [Stream.position, position_setPos_ne _ _ _ _ h], rfl⟩

/-- Redelivery until acknowledged: a delivery leaves the start position AT the delivered event, so a receiver that
reconnects under the same name without acknowledging gets the same event again. -/
theorem C19_redelivered_until_ack (s : Stream) (name topic i payload : Nat) (h : (s.recv name topic).2 = some (i, payload)) :
    ((s.recv name topic).1.recv name topic).2 = some (i, payload) := by
  have hd := C19_delivery_in_order s name topic i payload h
  unfold Stream.recv at h
  cases hn : s.scan name topic with
  | none => simp [hn] at h
  | some j =>
    simp only [hn] at h
    have hj : j = i := by
      cases hl : s.log[j]? with
      | none => simp [hl] at h
      | some e => simp [hl] at h; exact h.1
    subst hj
    have h1 : (s.recv name topic).1 = s.moveTo name j := by unfold Stream.recv; simp only [hn]
    rw [h1]
    unfold Stream.recv
    have hs : (s.moveTo name j).scan name topic = some j := by
      unfold Stream.scan
      rw [start_moveTo, log_moveTo]
      unfold nextFrom
      rw [hd.2.1]; simp
    simp only [hs, log_moveTo]
    exact h

/-- after a receive, a position IS stored whenever the receiver had a floor or moved: in particular a reconnect — with or
without StreamFromLatest — starts where the stored position says -/
theorem start_of_position (s : Stream) (name p : Nat) (h : s.position name = some p) (fromLatest : Bool) :
    (s.newReceiver name fromLatest).start name = p := by
  unfold Stream.newReceiver Stream.start
  cases fromLatest <;> simp [Stream.position] at h ⊢ <;> simp [Stream.position, h]

/-- StreamFromLatest is ignored once a position has been stored (same statement, named for the property) -/
theorem C19_from_latest_ignored (s : Stream) (name p : Nat) (h : s.position name = some p) :
    (s.newReceiver name true).start name = p := start_of_position s name p h true

/-- No redelivery after the acknowledgement: after `ack name i` every later delivery to that name — also to a receiver
that reconnects, with or without StreamFromLatest — is beyond `i`. -/
theorem C19_no_redelivery_after_ack (s : Stream) (name topic i j payload : Nat) (fromLatest : Bool)
    (h : (((s.ack name i).newReceiver name fromLatest).recv name topic).2 = some (j, payload)) : i < j := by
  have := (C19_delivery_in_order _ _ _ _ _ h).1
  rw [start_of_position (s.ack name i) name (i + 1) (by simp [Stream.ack, Stream.position, position_setPos])] at this
  omega

/-- Receivers with different names progress independently: acknowledging or receiving under one name changes neither the
stored position, the floor nor the log seen by another. -/
theorem C19_names_independent_ack (s : Stream) (name other i : Nat) (h : other ≠ name) :
    (s.ack name i).position other = s.position other ∧ (s.ack name i).floor = s.floor ∧ (s.ack name i).log = s.log := by
  simp [Stream.ack, Stream.position, position_setPos_ne _ _ _ _ h]

theorem C19_names_independent_recv (s : Stream) (name other topic : Nat) (h : other ≠ name) :
    (s.recv name topic).1.position other = s.position other ∧ (s.recv name topic).1.floor = s.floor ∧
    (s.recv name topic).1.log = s.log := by
  unfold Stream.recv
  split <;> exact ⟨(other_moveTo _ _ _ _ h).1, (other_moveTo _ _ _ _ h).2, log_moveTo _ _ _⟩

/-- what another name receives depends only on its own position, floor and the log -/
theorem recv_congr (s t : Stream) (name topic : Nat) (hp : s.position name = t.position name)
    (hf : s.floor.lookup name = t.floor.lookup name) (hl : s.log = t.log) : (s.recv name topic).2 = (t.recv name topic).2 := by
  have hs : s.start name = t.start name := by unfold Stream.start; rw [hp, hf]
  unfold Stream.recv Stream.scan
  rw [hs, hl]
  split <;> rfl

/-- StreamFromLatest with no stored position: the receiver starts at the length the log had at its creation — also when
that length was 0 — however many events are sent afterwards: it receives exactly the topic events sent after creation. -/
theorem sends_start (s : Stream) (name : Nat) (evs : List (Nat × Nat)) :
    (evs.foldl (fun s e => s.send e.1 e.2) s).start name = s.start name ∧
    (evs.foldl (fun s e => s.send e.1 e.2) s).log = s.log ++ evs := by
  induction evs generalizing s with
  | nil => simp
  | cons e es ih =>
    simp only [List.foldl_cons]
    obtain ⟨h1, h2⟩ := ih (s.send e.1 e.2)
    refine ⟨by rw [h1]; rfl, by rw [h2]; simp [Stream.send]⟩

theorem C19_from_latest (s : Stream) (name : Nat) (h : s.position name = none) (evs : List (Nat × Nat)) :
    (evs.foldl (fun s e => s.send e.1 e.2) (s.newReceiver name true)).start name = s.log.length := by
  rw [(sends_start _ _ _).1]
  have h' : List.lookup name s.pos = none := h
  simp [Stream.newReceiver, Stream.start, Stream.position, h', position_setPos]

theorem C19_send_appends (s : Stream) (t p : Nat) : (s.send t p).log = s.log ++ [(t, p)] ∧ (s.send t p).pos = s.pos := ⟨rfl, rfl⟩

/-- regenerated tie (T2): the two decisions of memstreamer's Recv loop, as extracted from the current source, are the
model's: StreamFromLatest applies exactly when NO cursor is stored (a stored cursor of 0 counts as stored), and the
receiver waits exactly when the cursor is at or beyond the end of the log -/
theorem C19_tie_guards (fl stored : Bool) (n c : Int) :
    (Gen.G.memStreamFromLatest fl stored = true ↔ (fl = true ∧ stored = false)) ∧
    (Gen.G.memStreamAtHead n c = true ↔ n ≤ c) := by
  constructor
  · cases fl <;> cases stored <;> simp [Gen.G.memStreamFromLatest]
  · simp only [Gen.G.memStreamAtHead, decide_eq_true_iff]; omega

/-- non-vacuity: empty stream, StreamFromLatest receiver created, then two events sent: the FIRST one is delivered first,
again after a reconnect without ack, and the second one after the ack -/
example :
    let s := ((({} : Stream).newReceiver 7 true).send 1 100 |>.send 1 101)
    (s.recv 7 1).2 = some (0, 100) ∧ (((s.recv 7 1).1.newReceiver 7 true).recv 7 1).2 = some (0, 100) ∧
    (((s.recv 7 1).1.ack 7 0).recv 7 1).2 = some (1, 101) := by decide

end WorkflowModel.C19
