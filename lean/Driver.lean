import WorkflowModel.Model.Routing
import WorkflowModel.Model.RunState
import WorkflowModel.Model.Graph
import WorkflowModel.Model.Engine
import WorkflowModel.Model.HistCheck
import WorkflowModel.Model.Adapters.RefStore
import WorkflowModel.Model.Adapters.RefStream
import WorkflowModel.Model.Adapters.RefTimeouts
import WorkflowModel.Model.Adapters.SqlStore
import WorkflowModel.Model.Launch
import WorkflowModel.Model.Adapters.RefRoles
import WorkflowModel.Model.Schedule
/-! Line-protocol driver for the correspondence check (T3). One command per input line, one answer per
output line. Core-only imports, so it links as `lean_exe wfdriver`. Unknown commands answer `bad-op`
(never a default). -/
open WorkflowModel

namespace Drv

def hexDigit (n : Nat) : Char := if n < 10 then Char.ofNat (48 + n) else Char.ofNat (87 + n)
def hex (s : Str) : String :=
  if s.isEmpty then "-" else String.ofList (s.flatMap (fun b => [hexDigit (b / 16), hexDigit (b % 16)]))
def hexVal (c : Char) : Option Nat :=
  let n := c.toNat
  if 48 ≤ n ∧ n ≤ 57 then some (n - 48) else if 97 ≤ n ∧ n ≤ 102 then some (n - 87) else none
def unhexL : List Char → Option Str
  | [] => some []
  | [_] => none
  | a :: b :: rest => do
    let x ← hexVal a; let y ← hexVal b; let r ← unhexL rest
    pure ((x * 16 + y) :: r)
def unhex (s : String) : Option Str := if s = "-" then some [] else unhexL s.toList

def b2s (b : Bool) : String := if b then "1" else "0"

def parseEdges (s : String) : Option (List (Int × Int)) :=
  if s = "-" then some [] else
  (s.splitOn ",").mapM (fun p => match p.splitOn ">" with
    | [a, b] => do let x ← a.toInt?; let y ← b.toInt?; pure (x, y)
    | _ => none)

def ints (l : List Int) : String := if l.isEmpty then "-" else ",".intercalate (l.map toString)

def opOf : String → Option RS.CtlOp
  | "pause" => some .pause | "resume" => some .resume | "cancel" => some .cancel | "delete" => some .deleteData
  | _ => none

/-- pure commands -/
def pure (args : List String) : Option String :=
  match args with
  | ["topic", name, st] => do
    let n ← unhex name; let s ← st.toInt?
    some (hex (Routing.topic n s))
  | ["deltopic", name] => do let n ← unhex name; some (hex (Routing.deleteTopic n))
  | ["rsctopic", name] => do let n ← unhex name; some (hex (Routing.rscTopic n))
  | ["route", name, fid, rid, rs, st, v] => do
    let n ← unhex name; let f ← unhex fid; let r ← unhex rid
    let rs ← rs.toInt?; let st ← st.toInt?; let v ← v.toInt?
    let hs := Routing.headers n f r rs st v
    some (s!"type={Routing.toInt32 st} " ++ " ".intercalate (hs.map (fun (k, v) => hex k ++ "=" ++ hex v)))
  | ["shard", sh, tot, id] => do
    let sh ← sh.toInt?; let tot ← tot.toInt?; let id ← id.toInt?
    some (b2s (Routing.shardOut sh tot id))
  | ["role", parts] => do
    let ps ← (parts.splitOn ",").mapM unhex
    some (hex (Routing.makeRole ps))
  | ["ctl", rs, op] => do
    let rs ← rs.toInt?; let op ← opOf op
    some (if RS.allowed rs (RS.target op) then s!"ok {RS.target op}" else "reject")
  | ["rsflags", rs] => do
    let rs ← rs.toInt?
    some (s!"{b2s (Gen.valid rs)} {b2s (Gen.finished rs)} {b2s (Gen.stopped rs)}")
  | ["graph", edges, nodes] => do
    let es ← parseEdges edges
    let ns ← if nodes = "-" then some [] else (nodes.splitOn ",").mapM String.toInt?
    let g := Graph.build es
    let per := ns.map (fun n => s!"{n}:{b2s (Graph.isValid g n)}{b2s (Graph.isTerminal g n)}[{ints (Graph.transitions g n)}]")
    some (s!"start={ints (Graph.startingNodes g)} term={ints (Graph.terminalNodes g)} " ++ " ".intercalate per)
  | _ => none

end Drv

namespace EngDrv
open WorkflowModel Engine

def parseProc (t : String) : Option Proc :=
  match t.splitOn ":" with
  | ["ob"] => some .outbox
  | ["del"] => some .delete
  | ["rty"] => some .retry
  | ["st", a, b, c] => do some (.step (← a.toInt?) (← b.toInt?) (← c.toInt?))
  | ["ins", a] => do some (.inserter (← a.toInt?))
  | ["pol", a] => do some (.poller (← a.toInt?))
  | ["hk", a] => do some (.hook (← a.toInt?))
  | _ => none

def parseFault (x : String) : Option (Nat × FaultKind) :=
  let cs := x.toList
  match cs.reverse with
  | k :: rest =>
    let n := (String.ofList rest.reverse).toNat?
    let kind := match k with | 'b' => some FaultKind.before | 'a' => some .after | 'c' => some .cancel | _ => none
    match n, kind with
    | some n, some kd => some (n, kd)
    | _, _ => none
  | [] => none

def parseOutcome (s : String) : Outcome :=
  match s.splitOn ":" with
  | ["r", a, b] => match a.toInt?, b.toInt? with
    | some x, some y => .ret x y
    | _, _ => .exhausted
  | ["e", k] => .err (k.toInt?.getD 98)
  | ["p"] => .pause
  | ["c"] => .cancel
  | ["n", a] => .nested (a.toInt?.getD 0)
  | ["t", a] => .timer (a.toInt?.getD 0)
  | ["z"] => .zero
  | ["ze"] => .zeroErr
  | ["k"] => .ok
  | ["l", k] => .lost (k.toInt?.getD 98)
  | _ => .exhausted

def parseEnv (fs : List String) : Option Env :=
  fs.foldlM (fun (env : Env) x =>
    if x.startsWith "f=" then
      let v := (x.drop 2).toString
      if v == "-" then some env else do
        let l ← (v.splitOn ",").mapM parseFault
        some { env with faults := l }
    else if x.startsWith "o=" then
      let v := (x.drop 2).toString
      if v == "-" then some env else some { env with outcomes := (v.splitOn ",").map parseOutcome }
    else if x.startsWith "s=" then do
      let n ← (x.drop 2).toString.toNat?
      some { env with stale := n }
    else if x == "a=1" then some { env with ackIgn := true }
    else none) {}

def parseCall (x : String) : Option BuilderCall :=
  match x.splitOn ":" with
  | [k, f, d, p, l, pa] => do
    let kind ← match k with | "sp" => some CallKind.step | "ck" => some .callback | "tt" => some .timeout | _ => none
    let ds ← if d == "-" then some [] else (d.splitOn "/").mapM String.toInt?
    some { kind := kind, src := (← f.toInt?), dests := ds, parallel := (← p.toInt?), lagSec := (← l.toInt?), pauseAfter := (← pa.toInt?) }
  | _ => none

def parseCfg (fs : List String) : Option Cfg :=
  fs.foldlM (fun (c : Cfg) kv =>
    match kv.splitOn "=" with
    | [k, v] =>
      match k with
      | "name" => some c
      | "calls" => do some { c with calls := (← (v.splitOn ",").mapM parseCall) }
      | "hooks" => if v == "-" then some c else do some { c with hooks := (← (v.splitOn "/").mapM String.toInt?) }
      | "cdel" => some { c with customDelete := v == "1" }
      | "dpar" => do some { c with defParallel := (← v.toInt?) }
      | "dpause" => do some { c with defPauseAfter := (← v.toInt?) }
      | "dlag" => do some { c with defLagSec := (← v.toInt?) }
      | "backoff" => do some { c with backoffSec := (← v.toInt?) }
      | "olimit" => do some { c with outboxLimit := (← v.toInt?) }
      | "retry" => some { c with retryEnabled := v == "1" }
      | "retryafter" => do some { c with retryAfterSec := (← v.toInt?) }
      | "stamp" => some { c with stamp := v == "1" }
      | _ => none
    | _ => none) {}

def parseAct (args : List String) : Option Act :=
  match args with
  | "step" :: t :: env => do some (.step (← parseProc t) (← parseEnv env))
  | ["lease", t] => do some (.lease (← parseProc t))
  | "trigger" :: f :: st :: n :: env => do some (.trigger (← f.toNat?) (← st.toInt?) (← n.toInt?) (← parseEnv env))
  | "callback" :: f :: st :: env => do some (.callback (← f.toNat?) (← st.toInt?) (← parseEnv env))
  | "ctl" :: r :: op :: env => do some (.ctl (← r.toNat?) (← opOfString op) (← parseEnv env))
  | ["handle", r] => do some (.handle (← r.toNat?))
  | "hctl" :: h :: op :: env => do some (.hctl (← h.toNat?) (← opOfString op) (← parseEnv env))
  | ["tick", n] => do some (.tick (← n.toInt?))
  | ["rewind", t, i] => do some (.rewind (← parseProc t) (← i.toNat?))
  | ["dup", i] => do some (.dup (← i.toNat?))
  | _ => none

def digest (s : Sys) : String :=
  let runs := String.join ((s.runs.zipIdx).map (fun (run, i) =>
    match run.hist.head? with
    | some r => s!"r{i}:f{run.fid}:rs{r.runState}:st{r.status}:v{r.version}:o{r.obj}:c{r.createdAt}:u{r.updatedAt} "
    | none => ""))
  let ob := ",".intercalate (s.outbox.map (fun o => toString o.ord))
  let curs := (s.cursors.filter (fun c => c.2 > 0)).map (fun c => (c.1.tok, c.2))
  let curs := curs.mergeSort (fun a b => a.1 ≤ b.1)
  let cur := ",".intercalate (curs.map (fun c => s!"{c.1}={c.2}"))
  let tm := ",".intercalate (s.timers.map (fun t => s!"{t.id}:r{t.runId}:st{t.status}:{t.expireAt}:{if t.completed then 1 else 0}"))
  let pss := s.pst.filterMap (fun (p, st) => match st with
    | .needRole => none
    | .atRecv => some (p.tok, "V")
    | .atPoll _ => some (p.tok, "P")
    | .lagWait _ u => some (p.tok, s!"T{u}")
    | .backoff u => some (p.tok, s!"T{u}"))
  let pss := pss.mergeSort (fun a b => a.1 ≤ b.1)
  let ps := ",".intercalate (pss.map (fun c => s!"{c.1}={c.2}"))
  s!"{runs}ob={ob} log={s.log.length} cur={cur} tm={tm} ps={ps} now={s.now}"

def answer (cfg : Cfg) (s : Sys) (a : Act) : Sys × String :=
  let out := stepAct cfg s a
  let obs := if out.obs.isEmpty then "-" else ";".intercalate out.obs
  (out.sys, s!"{obs} | {out.res} | {digest out.sys}")

end EngDrv

namespace RsDrv
open WorkflowModel.RefStore

def recStr (r : SRec) : String := s!"{r.wf}:{r.fid}:{r.rid}:{r.rs}:{r.st}:{r.obj}:{r.ver}"
def optRec : Option SRec → String
  | none => "nf"
  | some r => recStr r

def parseNats (v : String) : Option (Option (List Nat)) :=
  if v == "-" then some none else do some (some (← (v.splitOn ",").mapM String.toNat?))
def parseInts (v : String) : Option (Option (List Int)) :=
  if v == "-" then some none else do some (some (← (v.splitOn ",").mapM String.toInt?))

def step (s : Store) (args : List String) : Option (Store × String) :=
  match args with
  | ["reset"] => some ({}, "ok")
  | ["store", wf, fid, rid, rs, st, obj, ver] => do
    let r : SRec := ⟨← wf.toNat?, ← fid.toNat?, ← rid.toNat?, ← rs.toInt?, ← st.toInt?, ← obj.toNat?, ← ver.toNat?⟩
    some (s.store r, "ok")
  | ["lookup", rid] => do some (s, optRec (s.lookup (← rid.toNat?)))
  | ["latest", wf, fid] => do some (s, optRec (s.latest (← wf.toNat?) (← fid.toNat?)))
  | ["list", wf, off, lim, ord, fids, sts, rss] => do
    let w ← if wf == "-" then some none else (do some (some (← wf.toNat?)))
    let f : Filter := { fids := ← parseNats fids, sts := ← parseInts sts, rss := ← parseInts rss }
    let l := s.list w (← off.toNat?) (← lim.toNat?) (ord == "desc") f
    some (s, if l.isEmpty then "-" else ",".intercalate (l.map (fun r => recStr r)))
  | ["outbox", wf, lim] => do
    let l := s.listOutbox (← wf.toNat?) (← lim.toInt?)
    some (s, if l.isEmpty then "-" else ",".intercalate (l.map (fun e => s!"{e.id}={recStr e.srec}")))
  | ["delout", id] => do some (s.deleteOutbox (← id.toNat?), "ok")
  | _ => none

end RsDrv

namespace StDrv
open WorkflowModel.RefStream

def step (s : Stream) (args : List String) : Option (Stream × String) :=
  match args with
  | ["reset"] => some ({}, "ok")
  | ["send", t, p] => do some (s.send (← t.toNat?) (← p.toNat?), "ok")
  | ["new", n, fl] => do some (s.newReceiver (← n.toNat?) (fl == "1"), "ok")
  | ["recv", n, t] => do
    let (s', d) := s.recv (← n.toNat?) (← t.toNat?)
    some (s', match d with | none => "block" | some (i, p) => s!"{i}:{p}")
  | ["ack", n, i] => do some (s.ack (← n.toNat?) (← i.toNat?), "ok")
  | _ => none

end StDrv

namespace TsDrv
open WorkflowModel.RefTimeouts

def tStr (t : T) : String := s!"{t.id}:{t.wf}:{t.fid}:{t.rid}:{t.status}:{t.expire}"
def lst (l : List T) : String := if l.isEmpty then "-" else ",".intercalate (l.map tStr)

def step (s : TStore) (args : List String) : Option (TStore × String) :=
  match args with
  | ["reset"] => some ({}, "ok")
  | ["create", wf, fid, rid, st, ex] => do some (s.create (← wf.toNat?) (← fid.toNat?) (← rid.toNat?) (← st.toInt?) (← ex.toInt?), "ok")
  | ["complete", id] => do some (s.complete (← id.toNat?), "ok")
  | ["cancel", id] => do some (s.cancel (← id.toNat?), "ok")
  | ["valid", wf, st, now] => do
    let w ← wf.toNat?; let t ← st.toInt?; let n ← now.toInt?
    some (s, s!"{lst (s.listValid w t n false)}|{lst (s.listValid w t n true)}")
  | _ => none

end TsDrv

namespace WbDrv
open WorkflowModel WorkflowModel.SqlStore

def optList (v : String) : Option (List Str) := if v == "-" then none else some ((v.splitOn ",").map Text.ofString)

def step (args : List String) : Option String :=
  match args with
  | [wf, fids, sts, rss, lim, off, ord] => do
    let w := if wf == "-" then none else some (Text.ofString wf)
    let o := if ord == "none" then [] else Text.ofString ord
    let ops := listOps w (optList fids) (optList sts) (optList rss) (← lim.toInt?) (← off.toInt?) o
    let f := (ops.foldl BOp.apply {}).finalise
    some s!"{Text.toString f.1}|{",".intercalate (f.2.map Text.toString)}"
  | _ => none

end WbDrv

namespace LaunchDrv
open WorkflowModel WorkflowModel.Launch

def pairs (v : String) : Option (List (String × Int)) :=
  if v == "-" then some [] else (v.splitOn ",").mapM (fun e => match e.splitOn ":" with
    | [a, b] => do some (a, ← b.toInt?)
    | _ => none)
def ints (v : String) : Option (List Int) := if v == "-" then some [] else (v.splitOn ",").mapM String.toInt?

/-- launch <name with + for space> <defaultPar> <steps st:par,..> <timeouts st,..> <tstore 0|1> <conns name:par,..> <hooks rs,..> <retry 0|1> -/
def step (args : List String) : Option String :=
  match args with
  | [name, dp, steps, tos, tstore, conns, hooks, retry] => do
    let sts ← pairs steps
    let stsI ← sts.mapM (fun (a, b) => do some ((← a.toInt?), b))
    let cs ← pairs conns
    let c : Cfg := { name := Text.ofString (name.replace "+" " "), defaultPar := ← dp.toInt?, steps := stsI, timeouts := ← ints tos, timeoutStore := tstore == "1",
                     connectors := cs.map (fun (a, b) => (Text.ofString (a.replace "+" " "), b)), hooks := ← ints hooks, retry := retry == "1" }
    some (",".intercalate ((roles c).map Text.toString))
  | _ => none

end LaunchDrv

namespace RoDrv
open WorkflowModel.RefRoles

def step (s : RState) (args : List String) : Option (RState × String) :=
  match args with
  | ["reset"] => some ({}, "ok")
  | ["req", id, role] => do some (s.request (← id.toNat?) (← role.toNat?), "ok")
  | ["grant", id] => do
    let (s', ok) := s.grant (← id.toNat?)
    some (s', if ok then "ok" else "illegal")
  | ["end", id] => do some (s.finish (← id.toNat?), "ok")
  | ["holders"] => some (s, if s.holders.isEmpty then "-" else ",".intercalate (s.holders.map (fun h => s!"{h.1}:{h.2}")))
  | ["free", role] => do some (s, if s.held (← role.toNat?) then "held" else "free")
  | _ => none

end RoDrv

namespace SchDrv
open WorkflowModel.Schedule

def step (s : SchState) (args : List String) : Option (SchState × String) :=
  match args with
  | ["reset", ticks] => do
    let ts ← if ticks == "-" then some [] else (ticks.splitOn ",").mapM String.toInt?
    some ({ ticks := ts }, "ok")
  | ["park", now] => do
    let s' := s.park (← now.toInt?)
    some (s', match s'.pending with | some d => s!"deadline:{d}" | none => "deadline:none")
  | ["wake", now, f] => do
    let (s', o) := s.wake (← now.toInt?) (f == "1")
    some (s', match o with | .created => "created" | .skipFilter => "skip-filter" | .inProgress => "in-progress" | .notDue => "not-due")
  | ["finish"] => some (s.finish, "ok")
  | ["lose"] => some (s.lose, "ok")
  | ["created"] => some (s, if s.created.isEmpty then "-" else ",".intercalate (s.created.reverse.map toString))
  | _ => none

end SchDrv

structure Aux where
  rs : WorkflowModel.RefStore.Store := {}
  st : WorkflowModel.RefStream.Stream := {}
  ts : WorkflowModel.RefTimeouts.TStore := {}
  ro : WorkflowModel.RefRoles.RState := {}
  sch : WorkflowModel.Schedule.SchState := {}

partial def loop (h : IO.FS.Stream) (out : IO.FS.Stream) (cfg : WorkflowModel.Engine.Cfg) (sys : WorkflowModel.Engine.Sys)
    (rs : Aux := {}) : IO Unit := do
  let line ← h.getLine
  if line.isEmpty then return ()
  let args := (line.trimAscii.toString.splitOn " ").filter (· ≠ "")
  match args with
  | "cfg" :: rest =>
    match EngDrv.parseCfg rest with
    | some c => out.putStrLn "ok"; out.flush; loop h out c {} rs
    | none => out.putStrLn "bad-op"; out.flush; loop h out cfg sys rs
  | ["hist"] =>
    -- the executable mirror of the history invariant (Props/History.lean) on the model's current state
    out.putStrLn (if WorkflowModel.Engine.histOK cfg sys && WorkflowModel.Engine.oneUnfB sys then "legal" else "illegal"); out.flush; loop h out cfg sys rs
  | ["tok"] =>
    -- the executable mirror of the token invariant (Props/History.lean, C01_no_stranded_step) on the model's current state
    out.putStrLn (if WorkflowModel.Engine.tokOK sys then "pending" else "stranded"); out.flush; loop h out cfg sys rs
  | "act" :: rest =>
    match EngDrv.parseAct rest with
    | some a =>
      let (sys', ans) := EngDrv.answer cfg sys a
      out.putStrLn ans; out.flush; loop h out cfg sys' rs
    | none => out.putStrLn "bad-op"; out.flush; loop h out cfg sys rs
  | "rs" :: rest =>
    match RsDrv.step rs.rs rest with
    | some (rs', ans) => out.putStrLn ans; out.flush; loop h out cfg sys { rs with rs := rs' }
    | none => out.putStrLn "bad-op"; out.flush; loop h out cfg sys rs
  | "st" :: rest =>
    match StDrv.step rs.st rest with
    | some (st', ans) => out.putStrLn ans; out.flush; loop h out cfg sys { rs with st := st' }
    | none => out.putStrLn "bad-op"; out.flush; loop h out cfg sys rs
  | "sch" :: rest =>
    match SchDrv.step rs.sch rest with
    | some (s', ans) => out.putStrLn ans; out.flush; loop h out cfg sys { rs with sch := s' }
    | none => out.putStrLn "bad-op"; out.flush; loop h out cfg sys rs
  | "ro" :: rest =>
    match RoDrv.step rs.ro rest with
    | some (ro', ans) => out.putStrLn ans; out.flush; loop h out cfg sys { rs with ro := ro' }
    | none => out.putStrLn "bad-op"; out.flush; loop h out cfg sys rs
  | "launch" :: rest =>
    match LaunchDrv.step rest with
    | some ans => out.putStrLn ans; out.flush; loop h out cfg sys rs
    | none => out.putStrLn "bad-op"; out.flush; loop h out cfg sys rs
  | "wb" :: rest =>
    match WbDrv.step rest with
    | some ans => out.putStrLn ans; out.flush; loop h out cfg sys rs
    | none => out.putStrLn "bad-op"; out.flush; loop h out cfg sys rs
  | "ts" :: rest =>
    match TsDrv.step rs.ts rest with
    | some (ts', ans) => out.putStrLn ans; out.flush; loop h out cfg sys { rs with ts := ts' }
    | none => out.putStrLn "bad-op"; out.flush; loop h out cfg sys rs
  | _ =>
    let ans := match Drv.pure args with
      | some s => s
      | none => "bad-op"
    out.putStrLn ans
    out.flush
    loop h out cfg sys rs

def main : IO Unit := do loop (← IO.getStdin) (← IO.getStdout) {} {}
