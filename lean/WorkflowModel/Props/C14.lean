import WorkflowModel.Lemmas.Local
import WorkflowModel.Props.C07
import WorkflowModel.Props.C05
/-! # C14 — Run-state hooks fire at least once per entry and only for their own state

One consumer per registered hook on the run-state-change topic, filtered by the `run_state` header (`filteredOut`);
`hookHandle` models `runHook`. "At least once, not lost by a crash between invocation and acknowledgement, re-invoked
until nil" is C07 (the cursor moves only after the handler returned without error) + C05 (every write is published)
instantiated for hook consumers; "only for its own state" is the filter plus routing (C06). -/
namespace WorkflowModel.C14
open WorkflowModel Engine

/-- The hook of run state `rs` handles an event only if the event's `run_state` header is `rs`; every other event of the
topic is acknowledged unhandled. -/
theorem C14_only_own_state (rs : RunState) (i : Nat) (e : Event) : filteredOut (.hook rs) i e = true ↔ e.runState ≠ rs := by
  simp [filteredOut]

/-- Every write whose run state is Paused, Cancelled or Completed is announced on the topic the hook consumers read,
carrying that run state in its header (routing, C06). -/
theorem C14_hooked_states_on_rsc_topic (r : Rec) (h : r.runState = 3 ∨ r.runState = 4 ∨ r.runState = 5) :
    subscribed (.hook r.runState) (Routing.route r) = true ∧ (Routing.route r).runState = r.runState ∧
    filteredOut (.hook r.runState) 0 (Routing.route r) = false := by
  have hk : Gen.outboxTopicKind r.runState = 2 := by
    unfold Gen.outboxTopicKind
    simp only [Gen.RunStateRequestedDataDeleted, Gen.RunStatePaused, Gen.RunStateCancelled, Gen.RunStateDataDeleted, Gen.RunStateCompleted]
    rcases h with h | h | h <;> simp [h]
  simp [subscribed, Routing.route, hk, filteredOut]

/-- A failing hook is not acknowledged (so it is re-invoked until it returns nil) and an acknowledged hook event was
handled without error: C07 for hook consumers, every fault plan. -/
theorem C14_retry_until_nil (cfg : Cfg) (rs : RunState) (i : Nat) (e : Event) (env : Env) (st : OpSt)
    (hown : e.runState = rs) (hmoved : (deliver cfg (.hook rs) i e env st).2.sys.cursors ≠ st.sys.cursors) :
    (hookHandle cfg rs e env st).1 = .ok () := by
  have := C07.C07_ack_after_ok cfg (.hook rs) i e env st hmoved
  rcases this with h | h
  · exact absurd hown ((C14_only_own_state rs i e).mp h)
  · exact h

/-- "Not lost by a crash between invocation and acknowledgement": whatever the hook's failure was — an error of its own, or
an error because its process lost the role while it ran (`Outcome.lost`) — and whether or not the streamer's
acknowledgement looks at the cancelled context (`env.ackIgn`), a delivery whose hook did not return nil leaves the cursor
where it was, so the event is delivered again. -/
theorem C14_failed_hook_never_acked (cfg : Cfg) (rs : RunState) (i : Nat) (e : Event) (env : Env) (st : OpSt)
    (hown : e.runState = rs) (hfail : (hookHandle cfg rs e env st).1 ≠ .ok ()) :
    (deliver cfg (.hook rs) i e env st).2.sys.cursors = st.sys.cursors :=
  Classical.byContradiction (fun hmoved => hfail (C14_retry_until_nil cfg rs i e env st hown hmoved))

/-- The hook is not invoked when the run's object no longer decodes (its data was deleted in the meantime): the event is
skipped and acknowledged — the exception the property names. -/
theorem C14_deleted_data_skipped (cfg : Cfg) (rs : RunState) (e : Event) (st : OpSt) (record : Rec)
    (hc : st.cancelled = false) (hstale : st.stale = 0) (hread : st.sys.cur e.runId = some record)
    (hdel : record.obj = -7777777) :
    (hookHandle cfg rs e {} st).1 = .ok () ∧ (hookHandle cfg rs e {} st).2.outI = st.outI := by
  have hl : (lookupRes st.sys e.runId 0).2 = some record := by rw [lookupRes_fresh]; exact hread
  have hd : decodable record.obj = false := by simp [decodable, hdel]
  simp [hookHandle, bind_run, Engine.lookup, Engine.call, hc, hstale, hl, hd, pure_run, Bind.bind]

/-- The hook consumer never writes: a hook can neither regress nor advance a run. -/
theorem C14_hook_never_writes (cfg : Cfg) (rs : RunState) (e : Event) (env : Env) (st : OpSt) :
    (hookHandle cfg rs e env st).2.sys = st.sys := by
  have : Pres (fun s => s = st.sys) (hookHandle cfg rs e) := Pres.hookHandle _ _
  exact this env st rfl

theorem C14_tie_order : Tie.runHook = true ∧ Tie.consume = true := by decide +kernel

/-- non-vacuity: a completion with OnComplete registered; the hook fails once (not acked, back-off), then succeeds (acked);
the OnPause consumer acknowledges the same event without invoking its hook -/
example :
    let cfg : Cfg := { calls := [{ kind := .step, src := 1, dests := [2] }], hooks := [3, 5], backoffSec := 1 }
    let pre : List Act := [.trigger 0 0 7 {}, .step .outbox {}, .step (.step 1 1 1) {}, .step (.step 1 1 1) { outcomes := [.ret 2 8] },
      .step .outbox {}, .step (.hook 5) {}, .step (.hook 3) {}]
    let s1 := runActs cfg {} (pre ++ [.step (.hook 5) { outcomes := [.err 0] }, .step (.hook 3) { outcomes := [.err 0] }])
    let s2 := runActs cfg s1 [.tick 1, .step (.hook 5) {}, .step (.hook 5) {}, .step (.hook 5) { outcomes := [.ok] }]
    s1.cursor (.hook 5) = 0 ∧ s1.cursor (.hook 3) = 2 ∧ s2.cursor (.hook 5) = 2 := by
  decide +kernel

/-- non-vacuity for role loss inside the hook with a streamer that acknowledges under a cancelled context: the hook fails
while its process loses the role (cursor stays, process back at the role scheduler), then succeeds (cursor moves) -/
example :
    let cfg : Cfg := { calls := [{ kind := .step, src := 1, dests := [2] }], hooks := [5], backoffSec := 1 }
    let pre : List Act := [.trigger 0 0 7 {}, .step .outbox {}, .step (.step 1 1 1) {}, .step (.step 1 1 1) { outcomes := [.ret 2 8] },
      .step .outbox {}, .step (.hook 5) {}]
    let s1 := runActs cfg {} (pre ++ [.step (.hook 5) { outcomes := [.lost 0], ackIgn := true }])
    let s2 := runActs cfg s1 [.step (.hook 5) {}, .step (.hook 5) { outcomes := [.ok], ackIgn := true }]
    s1.cursor (.hook 5) = 0 ∧ s1.pstate (.hook 5) = .needRole ∧ s2.cursor (.hook 5) = 2 := by
  decide +kernel

end WorkflowModel.C14
