package sim

import (
	"fmt"
	"github.com/luno/workflow"
	"sort"
	"strings"
	"sync"

	"github.com/luno/workflow/verifharness/leandrv"
	"github.com/luno/workflow/verifharness/report"
	"github.com/luno/workflow/verifharness/rng"
)

// History is a replayable case: configuration + action list.
type History struct {
	Seed    uint64   `json:"seed"`
	Index   int      `json:"index"`
	Cfg     string   `json:"cfg"`
	Actions []string `json:"actions"`
	Obs     []string `json:"obs,omitempty"`
}

type RunOpts struct {
	Feat     Features
	Len      int
	Drain    bool
	Stop     bool
	Verbose  bool
	Suite    string
	PropsTie []string // properties whose tie a model/implementation disagreement breaks
}

// RunHistory generates and executes one random history, co-simulating the Lean model when d is not Null.
func RunHistory(d *leandrv.Driver, r *rng.R, idx int, res *report.Result, o RunOpts) error {
	cfg := GenConfig(r, o.Feat)
	s, err := NewSim(cfg)
	if err != nil {
		return err
	}
	g := &Gen{R: r, C: cfg, F: o.Feat}
	h := History{Index: idx, Cfg: cfg.Line()}
	if _, err := d.Ask(cfg.Line()); err != nil {
		return err
	}
	disagreed := false
	// is the history within the hypotheses of the whole-history theorem (Props/History.lean: history_inv)?
	fresh := true
	for st := -3; st < 40; st++ {
		if len(cfg.TimeoutsAt(st)) > 1 {
			fresh = false
		}
	}
	// ... and within those of the token invariant (C01_no_stranded_step): additionally no cursor rewind, no skip value from a step
	fresh2 := true
	emit := func(a Action, line string) {
		if a.Kind == "hctl" || a.Env.Stale != 0 {
			fresh = false
		}
		if a.Kind == "rewind" {
			fresh2 = false
		}
		if a.Kind == "step" && strings.HasPrefix(a.Tok, "st:") {
			for _, o := range a.Env.Outcomes {
				if strings.HasPrefix(o, "r:0:") || strings.HasPrefix(o, "r:-1:") {
					fresh2 = false
				}
			}
		}
		for _, o := range a.Env.Outcomes {
			if strings.HasPrefix(o, "n:") {
				fresh = false
			}
		}
		h.Actions = append(h.Actions, a.Line())
		if o.Verbose {
			h.Obs = append(h.Obs, line)
		}
		res.Count("action:" + a.Kind)
		if a.Kind == "step" {
			res.Count("step:" + strings.SplitN(a.Tok, ":", 2)[0])
		}
		if !d.Null && !disagreed {
			ans, err := d.Ask(a.Line())
			if err == nil && ans != line {
				disagreed = true
				res.Disagree(report.Disagreement{Properties: o.PropsTie, Where: "engine co-simulation (" + o.Suite + ")",
					Input: History{Index: idx, Cfg: h.Cfg, Actions: append([]string{}, h.Actions...)}, Impl: line, Model: ans})
			}
		}
	}
	var runErr error
	for i := 0; i < o.Len; i++ {
		a := g.Next(s)
		line, err := s.Do(a)
		emit(a, line)
		if err != nil {
			runErr = err
			break
		}
	}
	if runErr == nil && o.Drain {
		ok, err := s.Drain(g, 400, emit)
		if err != nil {
			runErr = err
		} else if ok {
			s.W.Mon.atQuiescence(s)
			res.Count("quiescent")
		} else {
			res.Count("drain-bound-hit")
		}
	}
	if !d.Null && !disagreed && runErr == nil {
		// the model has executed exactly the actions the real code has, with identical observations (every Store included):
		// evaluate the theorem's statement on the state it reached
		if ans, err := d.Ask("hist"); err == nil {
			switch {
			case ans == "legal" && fresh:
				res.Count("history-theorem:within-hypotheses:legal")
			case ans == "legal":
				res.Count("history-theorem:excluded-feature:legal")
			case fresh:
				for _, prop := range []string{"C02", "C03", "C16"} {
					res.Violate(report.Violation{Property: prop, Oracle: "history-theorem", Signature: "illegal-history-within-hypotheses",
						Detail: "the model state reached by a history without stale reads, earlier-obtained handles, re-entrant functions or two timeouts on a status has an illegal write history: history_inv says this cannot happen",
						Replay: History{Index: idx, Cfg: h.Cfg, Actions: append([]string{}, h.Actions...)}})
				}
			default:
				res.Count("history-theorem:excluded-feature:illegal")
			}
		}
		if ans, err := d.Ask("tok"); err == nil && (ans == "pending" || ans == "stranded") {
			within := fresh && fresh2
			switch {
			case ans == "pending" && within:
				res.Count("token-theorem:within-hypotheses:pending")
			case ans == "pending":
				res.Count("token-theorem:excluded-feature:pending")
			case within:
				res.Violate(report.Violation{Property: "C01", Oracle: "token-theorem", Signature: "stranded-run-within-hypotheses",
					Detail: "the model state reached by a history within the hypotheses of C01_no_stranded_step has a run persisted Initiated/Running whose announcement is neither in the outbox nor ahead of its step consumer: the theorem says this cannot happen",
					Replay: History{Index: idx, Cfg: h.Cfg, Actions: append([]string{}, h.Actions...)}})
			default:
				res.Count("token-theorem:excluded-feature:stranded")
			}
		}
	}
	deadFound := false
	if runErr != nil && strings.Contains(runErr.Error(), "did not come to rest") {
		// a process goroutine that has exited for good can never park again: supervision broke (C11), not the harness
		var dead []string
		for name, st := range s.WF.States() {
			if st == workflow.StateShutdown {
				dead = append(dead, name)
			}
		}
		if len(dead) > 0 {
			sort.Strings(dead)
			s.W.Mon.Viol = append(s.W.Mon.Viol, report.Violation{Property: "C11", Oracle: "never-terminates-while-running", Signature: "process-terminated-while-running",
				Detail: fmt.Sprintf("process(es) %v are Shutdown although the workflow was not stopped (after action %d)", dead, len(h.Actions))})
			deadFound = true
		}
	}
	if runErr == nil && o.Stop {
		if err := s.Stop(); err != nil {
			runErr = err
		}
	} else {
		s.Stop()
	}
	res.Eval(len(h.Actions))
	if !disagreed && !d.Null {
		res.Traces++
	}
	for _, v := range s.W.Mon.Viol {
		v.Replay = h
		res.Violate(v)
	}
	for k := range s.W.Mon.NonTrivial {
		res.NonTrivial(fmt.Sprintf("%d/%s", idx, k))
		res.Count("nontrivial:" + strings.SplitN(k, ":", 2)[0])
	}
	if idx < 2 {
		hh := h
		if len(hh.Actions) > 25 {
			hh.Actions = hh.Actions[:25]
		}
		res.Sample(hh)
	}
	if runErr != nil && !deadFound {
		return fmt.Errorf("history %d (%s): %v; actions so far: %v", idx, h.Cfg, runErr, h.Actions)
	}
	return nil
}

// RunMany runs n histories on `workers` parallel workers, each with its own Lean driver.
func RunMany(seed uint64, n, workers int, res *report.Result, o RunOpts, nomodel bool) error {
	var wg sync.WaitGroup
	errc := make(chan error, workers)
	jobs := make(chan int)
	base := rng.New(seed)
	seeds := make([]uint64, n)
	for i := range seeds {
		seeds[i] = base.U64()
	}
	var linesMu sync.Mutex
	for wk := 0; wk < workers; wk++ {
		wg.Add(1)
		go func() {
			defer wg.Done()
			var d *leandrv.Driver
			if nomodel {
				d = &leandrv.Driver{Null: true}
			} else {
				var err error
				d, err = leandrv.Start()
				if err != nil {
					errc <- err
					return
				}
			}
			defer func() {
				linesMu.Lock()
				res.ModelLines += d.N
				linesMu.Unlock()
				d.Close()
			}()
			for i := range jobs {
				if err := RunHistory(d, rng.New(seeds[i]), i, res, o); err != nil {
					select {
					case errc <- err:
					default:
					}
				}
			}
		}()
	}
	for i := 0; i < n; i++ {
		jobs <- i
	}
	close(jobs)
	wg.Wait()
	select {
	case err := <-errc:
		return err
	default:
	}
	return nil
}
