import WorkflowModel.Generated.Facts
import WorkflowModel.Generated.Guards
import WorkflowModel.Model.Text
/-! # Basic data: records, events, timers

`RunState` and `Status` are `Int` so that out-of-range values exist. Identifiers that are only compared
(run ID, foreign ID, workflow name in the engine) are `Nat` ordinals; the harness canonicalises real
strings to ordinals of first appearance. Objects are opaque `Nat` tokens with decidable equality
(the harness maps each distinct byte string to a token). Time is `Int` nanoseconds from the harness epoch;
`Gen.zeroTime` is the Go zero time. -/
namespace WorkflowModel

abbrev RunState := Int
abbrev Status := Int
abbrev RunId := Nat
abbrev Fid := Nat
abbrev Obj := Int
abbrev Time := Int

structure Rec where
  runId     : RunId
  fid       : Fid
  runState  : RunState
  status    : Status
  obj       : Obj
  createdAt : Time
  updatedAt : Time
  version   : Int
  reason    : Nat := 0     -- RunStateReason token
  descr     : Status := 0  -- the status that Meta.StatusDescription describes
deriving DecidableEq, Repr, Inhabited

/-- an event as published on the stream (and as recorded in an outbox entry) -/
structure Event where
  topicKind : Nat      -- 0 = status topic, 1 = delete topic, 2 = run-state-change topic
  topicStatus : Status -- meaningful when topicKind = 0
  runId     : RunId    -- Event.ForeignID carries the run ID
  fid       : Fid      -- header foreign_id
  type      : Status   -- Event.Type
  runState  : RunState -- header run_state
  version   : Int      -- header record_version
  createdAt : Time := 0 -- stamped by the streamer when the event is sent
deriving DecidableEq, Repr, Inhabited

structure Timer where
  id        : Nat
  fid       : Fid
  runId     : RunId
  status    : Status
  expireAt  : Time
  completed : Bool := false
deriving DecidableEq, Repr, Inhabited

end WorkflowModel
