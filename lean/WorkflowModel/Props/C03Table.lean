import WorkflowModel.Model.RunState
import WorkflowModel.Props.Tie
/-! # C03 (table part) — the controller's transition table is inside the documented lifecycle

`RS.allowed` reads the **generated** table (`Gen.runStateTransitions`, from runstate.go). `RS.Lifecycle` is the
machine written out from the property text. Adding an edge such as Cancelled → Running to the Go table makes
`C03_table_sound` fail in the kernel. -/
namespace WorkflowModel.C03
open WorkflowModel RS

private theorem allowed_mem {a b : Int} (h : allowed a b = true) : (a, b) ∈ Gen.runStateTransitions := by
  simpa [allowed] using h

/-- every entry of the generated table is a lifecycle edge (finite check over the whole table) -/
theorem table_entries_sound : ∀ p ∈ Gen.runStateTransitions, Lifecycle p.1 p.2 := by decide

/-- lifted to all integers: whatever the controller accepts is a lifecycle edge -/
theorem C03_table_sound (a b : Int) (h : allowed a b = true) : Lifecycle a b :=
  table_entries_sound (a, b) (allowed_mem h)

/-- the lifecycle never leaves the finished states -/
theorem C03_finished_closed (a b : Int) (h : Lifecycle a b) (hf : FinishedSpec a) : FinishedSpec b := by
  unfold Lifecycle at h; unfold FinishedSpec at *; omega

/-- after RequestedDataDeleted only RequestedDataDeleted / DataDeleted are reachable -/
theorem C03_after_rdd (a b : Int) (h : Lifecycle a b) (ha : a = 6 ∨ a = 7) : b = 6 ∨ b = 7 := by
  unfold Lifecycle at h; omega

/-- the code's `Finished()` is exactly the finished set of the property text — all integers -/
theorem C03_finished_agrees (a : Int) : Gen.finished a = true ↔ FinishedSpec a := by
  simp [Gen.finished, Gen.finishedCases, FinishedSpec]; omega

/-- the code's `Stopped()` = Paused, Cancelled, RequestedDataDeleted, DataDeleted — all integers -/
theorem C03_stopped_agrees (a : Int) : Gen.stopped a = true ↔ (a = 3 ∨ a = 4 ∨ a = 6 ∨ a = 7) := by
  simp [Gen.stopped, Gen.stoppedCases]; omega

/-- `Valid()` = 1..7 -/
theorem C03_valid_agrees (a : Int) : Gen.valid a = true ↔ (1 ≤ a ∧ a ≤ 7) := by
  unfold Gen.valid Gen.RunStateUnknown Gen.runStateSentinel
  rw [Bool.and_eq_true, decide_eq_true_iff, decide_eq_true_iff]
  omega

/-- targets of the four controller operations -/
theorem C03_ctl_targets : target .pause = 3 ∧ target .resume = 2 ∧ target .cancel = 4 ∧ target .deleteData = 7 := by
  decide

/-- the rejection guard of the controller is the table lookup (source text tripwire, T1) -/
theorem C03_ctl_guard_src :
    Gen.ctlRejectGuardSrc = "!ok || !valid[rs]" ∧
    Gen.ctlLookupSrc = "valid, ok := runStateTransitions[rsc.record.RunState]" := by decide

/-- DeleteData is accepted only from Completed, Cancelled or DataDeleted (C15) -/
theorem C03_delete_accept_iff (a : Int) : allowed a (target .deleteData) = true ↔ (a = 4 ∨ a = 5 ∨ a = 6) := by
  have : target .deleteData = 7 := by decide
  rw [this]
  constructor
  · intro h
    have := allowed_mem h
    simp [Gen.runStateTransitions] at this
    omega
  · rintro (rfl | rfl | rfl) <;> decide

/-- no operation is accepted from an out-of-range state or from Unknown -/
theorem C03_out_of_range_rejected (a : Int) (op : CtlOp) (h : a ≤ 0 ∨ 8 ≤ a) : allowed a (target op) = false := by
  cases hx : allowed a (target op) with
  | false => rfl
  | true =>
    have := allowed_mem hx
    simp [Gen.runStateTransitions] at this
    omega

/-- a finished run is never taken back to Initiated, Running or Paused by the controller -/
theorem C03_ctl_finished_stays (a : Int) (op : CtlOp) (hf : FinishedSpec a) (h : allowed a (target op) = true) :
    FinishedSpec (target op) := C03_finished_closed _ _ (C03_table_sound _ _ h) hf

/-- T2: the controller performs exactly one store, through `updateRecord` (version + 1), after the guard -/
theorem C03_tie_order : Tie.rscUpdate = true ∧ Tie.updateRecord = true := by decide +kernel

/-- non-vacuity: the table does accept something from every in-range state -/
example : allowed 1 3 = true ∧ allowed 2 4 = true ∧ allowed 3 2 = true ∧ allowed 4 7 = true ∧ allowed 5 7 = true ∧
    allowed 6 7 = true ∧ allowed 7 6 = true := by decide

end WorkflowModel.C03
