// Package live: the real workflow on the bundled in-memory adapters with real goroutines and the real clock (no gating):
// supervision, Run/Stop and clean-up clauses of C11, also meant to be run in a binary built with the race detector.
package live

import (
	"context"
	"errors"
	"fmt"
	"io"
	"sort"
	"strconv"
	"strings"
	"sync"
	"sync/atomic"
	"time"

	"github.com/luno/workflow"
	"github.com/luno/workflow/adapters/memrecordstore"
	"github.com/luno/workflow/adapters/memrolescheduler"
	"github.com/luno/workflow/adapters/memstreamer"
	"github.com/luno/workflow/adapters/memtimeoutstore"
	"github.com/luno/workflow/verifharness/leandrv"
	"github.com/luno/workflow/verifharness/report"
	"github.com/luno/workflow/verifharness/rng"
)

type Status int

func (s Status) String() string { return "S" + strconv.Itoa(int(s)) }

type Obj struct{ N int }

type procKey struct{}

var errInjected = errors.New("live: injected adapter failure")

// tracker sees every adapter call of the workflow under test.
type tracker struct {
	mu         sync.Mutex
	stopped    atomic.Bool
	calls      atomic.Int64
	faultEvery int64 // every n-th background call fails with a non-cancellation error (0 = never)
	afterStop  []string
	opened     map[string]int
	closed     map[string]int
	injected   atomic.Int64
}

func newTracker(faultEvery int) *tracker {
	return &tracker{faultEvery: int64(faultEvery), opened: map[string]int{}, closed: map[string]int{}}
}

func (t *tracker) call(ctx context.Context, label string) error {
	bg := ctx != nil && ctx.Value(procKey{}) != nil
	if !bg {
		return nil
	}
	if t.stopped.Load() {
		t.mu.Lock()
		t.afterStop = append(t.afterStop, label)
		t.mu.Unlock()
	}
	n := t.calls.Add(1)
	if t.faultEvery > 0 && n%t.faultEvery == 0 && ctx.Err() == nil {
		t.injected.Add(1)
		return errInjected
	}
	return nil
}

func (t *tracker) open(kind string) {
	t.mu.Lock()
	t.opened[kind]++
	t.mu.Unlock()
}
func (t *tracker) close(kind string) {
	t.mu.Lock()
	t.closed[kind]++
	t.mu.Unlock()
}

// ---- wrapped adapters ----

type store struct {
	workflow.RecordStore
	t *tracker
}

func (s store) Store(ctx context.Context, r *workflow.Record) error {
	if err := s.t.call(ctx, "RecordStore.Store"); err != nil {
		return err
	}
	return s.RecordStore.Store(ctx, r)
}
func (s store) Lookup(ctx context.Context, id string) (*workflow.Record, error) {
	if err := s.t.call(ctx, "RecordStore.Lookup"); err != nil {
		return nil, err
	}
	return s.RecordStore.Lookup(ctx, id)
}
func (s store) Latest(ctx context.Context, wf, fid string) (*workflow.Record, error) {
	if err := s.t.call(ctx, "RecordStore.Latest"); err != nil {
		return nil, err
	}
	return s.RecordStore.Latest(ctx, wf, fid)
}
func (s store) ListOutboxEvents(ctx context.Context, wf string, limit int64) ([]workflow.OutboxEvent, error) {
	if err := s.t.call(ctx, "RecordStore.ListOutboxEvents"); err != nil {
		return nil, err
	}
	return s.RecordStore.ListOutboxEvents(ctx, wf, limit)
}
func (s store) DeleteOutboxEvent(ctx context.Context, id string) error {
	if err := s.t.call(ctx, "RecordStore.DeleteOutboxEvent"); err != nil {
		return err
	}
	return s.RecordStore.DeleteOutboxEvent(ctx, id)
}

type streamer struct {
	workflow.EventStreamer
	t *tracker
}

func (s streamer) NewSender(ctx context.Context, topic string) (workflow.EventSender, error) {
	if err := s.t.call(ctx, "EventStreamer.NewSender"); err != nil {
		return nil, err
	}
	x, err := s.EventStreamer.NewSender(ctx, topic)
	if err != nil {
		return nil, err
	}
	if ctx.Value(procKey{}) != nil {
		s.t.open("sender")
	}
	return sender{x, s.t, ctx.Value(procKey{}) != nil}, nil
}
func (s streamer) NewReceiver(ctx context.Context, topic, name string, opts ...workflow.ReceiverOption) (workflow.EventReceiver, error) {
	if err := s.t.call(ctx, "EventStreamer.NewReceiver"); err != nil {
		return nil, err
	}
	x, err := s.EventStreamer.NewReceiver(ctx, topic, name, opts...)
	if err != nil {
		return nil, err
	}
	if ctx.Value(procKey{}) != nil {
		s.t.open("receiver")
	}
	return receiver{x, s.t, ctx.Value(procKey{}) != nil}, nil
}

type sender struct {
	workflow.EventSender
	t  *tracker
	bg bool
}

func (s sender) Send(ctx context.Context, fid string, ty int, h map[workflow.Header]string) error {
	if err := s.t.call(ctx, "EventSender.Send"); err != nil {
		return err
	}
	return s.EventSender.Send(ctx, fid, ty, h)
}
func (s sender) Close() error {
	if s.bg {
		s.t.close("sender")
	}
	return s.EventSender.Close()
}

type receiver struct {
	workflow.EventReceiver
	t  *tracker
	bg bool
}

func (r receiver) Recv(ctx context.Context) (*workflow.Event, workflow.Ack, error) {
	if err := r.t.call(ctx, "EventReceiver.Recv"); err != nil {
		return nil, nil, err
	}
	// the in-memory receiver spins; yield so that the run stays short under the race detector
	e, ack, err := r.EventReceiver.Recv(ctx)
	return e, ack, err
}
func (r receiver) Close() error {
	if r.bg {
		r.t.close("receiver")
	}
	return r.EventReceiver.Close()
}

type tstore struct {
	workflow.TimeoutStore
	t *tracker
}

func (s tstore) Create(ctx context.Context, wf, fid, rid string, st int, at time.Time) error {
	if err := s.t.call(ctx, "TimeoutStore.Create"); err != nil {
		return err
	}
	return s.TimeoutStore.Create(ctx, wf, fid, rid, st, at)
}
func (s tstore) Complete(ctx context.Context, id int64) error {
	if err := s.t.call(ctx, "TimeoutStore.Complete"); err != nil {
		return err
	}
	return s.TimeoutStore.Complete(ctx, id)
}
func (s tstore) Cancel(ctx context.Context, id int64) error {
	if err := s.t.call(ctx, "TimeoutStore.Cancel"); err != nil {
		return err
	}
	return s.TimeoutStore.Cancel(ctx, id)
}
func (s tstore) ListValid(ctx context.Context, wf string, st int, now time.Time) ([]workflow.TimeoutRecord, error) {
	if err := s.t.call(ctx, "TimeoutStore.ListValid"); err != nil {
		return nil, err
	}
	return s.TimeoutStore.ListValid(ctx, wf, st, now)
}

type connCtor struct {
	workflow.ConnectorConstructor
	t *tracker
}

func (c connCtor) Make(ctx context.Context, name string) (workflow.ConnectorConsumer, error) {
	if err := c.t.call(ctx, "ConnectorConstructor.Make"); err != nil {
		return nil, err
	}
	x, err := c.ConnectorConstructor.Make(ctx, name)
	if err != nil {
		return nil, err
	}
	c.t.open("connector-consumer")
	return connConsumer{x, c.t}, nil
}

type connConsumer struct {
	workflow.ConnectorConsumer
	t *tracker
}

func (c connConsumer) Recv(ctx context.Context) (*workflow.ConnectorEvent, workflow.Ack, error) {
	if err := c.t.call(ctx, "ConnectorConsumer.Recv"); err != nil {
		return nil, nil, err
	}
	return c.ConnectorConsumer.Recv(ctx)
}
func (c connConsumer) Close() error {
	c.t.close("connector-consumer")
	return c.ConnectorConsumer.Close()
}

type nopLogger struct{}

func (nopLogger) Debug(ctx context.Context, msg string, meta map[string]string) {}
func (nopLogger) Error(ctx context.Context, err error)                          {}

type liveCfg struct {
	FaultEvery int  `json:"fault_every"`
	StepFails  int  `json:"step_failures"` // the first k invocations of the first step fail
	Parallel   int  `json:"parallel"`
	Runs       int  `json:"runs"`
	Connector  bool `json:"connector"`
	Timeout    bool `json:"timeout"`
	StopAfter  int  `json:"stop_after_ms"`
	SharedRole bool `json:"two_instances_share_scheduler"`
}

type outcome struct {
	problems  []string // signature: detail
	completed int
	injected  int64
	calls     int64
}

func runOne(c liveCfg, seed uint64) outcome {
	var out outcome
	add := func(sig, detail string) { out.problems = append(out.problems, sig+": "+detail) }
	t := newTracker(c.FaultEvery)
	var stepCalls atomic.Int64
	build := func(rs workflow.RoleScheduler, str workflow.EventStreamer, st workflow.RecordStore, ts workflow.TimeoutStore) *workflow.Workflow[Obj, Status] {
		b := workflow.NewBuilder[Obj, Status]("live wf")
		b.AddStep(1, func(ctx context.Context, r *workflow.Run[Obj, Status]) (Status, error) {
			if stepCalls.Add(1) <= int64(c.StepFails) {
				return 0, errors.New("step failure")
			}
			r.Object.N++
			return 2, nil
		}, 2).WithOptions(workflow.ParallelCount(c.Parallel))
		b.AddCallback(2, func(ctx context.Context, r *workflow.Run[Obj, Status], rd io.Reader) (Status, error) {
			return 3, nil
		}, 3)
		if c.Timeout {
			b.AddTimeout(3, func(ctx context.Context, r *workflow.Run[Obj, Status], now time.Time) (time.Time, error) {
				return now.Add(time.Millisecond), nil
			},
				func(ctx context.Context, r *workflow.Run[Obj, Status], now time.Time) (Status, error) { return 4, nil }, 4)
		} else {
			b.AddStep(3, func(ctx context.Context, r *workflow.Run[Obj, Status]) (Status, error) { return 4, nil }, 4)
		}
		if c.Connector {
			var evs []workflow.ConnectorEvent
			for i := 0; i < 4; i++ {
				evs = append(evs, workflow.ConnectorEvent{ID: "ce" + strconv.Itoa(i), ForeignID: "conn-f" + strconv.Itoa(i), Type: "t"})
			}
			b.AddConnector("feed", connCtor{memstreamer.NewConnector(evs), t}, func(ctx context.Context, api workflow.API[Obj, Status], e *workflow.ConnectorEvent) error {
				_, err := api.Trigger(ctx, e.ForeignID)
				if errors.Is(err, workflow.ErrWorkflowInProgress) {
					return nil
				}
				return err
			})
		}
		b.OnComplete(func(ctx context.Context, r *workflow.TypedRecord[Obj, Status]) error { return nil })
		opts := []workflow.BuildOption{workflow.WithTimeoutStore(ts), workflow.WithLogger(nopLogger{}),
			workflow.WithDefaultOptions(workflow.PollingFrequency(time.Millisecond), workflow.ErrBackOff(time.Millisecond)),
			workflow.WithOutboxOptions(workflow.OutboxPollingFrequency(time.Millisecond), workflow.OutboxErrBackOff(time.Millisecond))}
		return b.Build(str, st, rs, opts...)
	}
	rs := memrolescheduler.New()
	str := streamer{memstreamer.New(), t}
	st := store{memrecordstore.New(), t}
	ts := tstore{memtimeoutstore.New(), t}
	w := build(rs, str, st, ts)
	runCtx, runCancel := context.WithCancel(context.WithValue(context.Background(), procKey{}, true))
	defer runCancel()
	w.Run(runCtx)
	w.Run(runCtx) // idempotent
	nStates := len(w.States())
	var w2 *workflow.Workflow[Obj, Status]
	if c.SharedRole { // a second instance of the same workflow competing for the same roles on the same adapters
		w2 = build(rs, str, st, ts)
		w2.Run(runCtx)
	}
	// API workload
	apiCtx, apiCancel := context.WithCancel(context.Background())
	var wg sync.WaitGroup
	var completed atomic.Int64
	for i := 0; i < c.Runs; i++ {
		wg.Add(1)
		go func(i int) {
			defer wg.Done()
			fid := "f" + strconv.Itoa(i)
			runID, err := w.Trigger(apiCtx, fid)
			if err != nil {
				return
			}
			go func() { // callbacks race with the steps on purpose
				for k := 0; k < 50 && apiCtx.Err() == nil; k++ {
					_ = w.Callback(apiCtx, fid, 2, strings.NewReader("{}"))
					time.Sleep(time.Millisecond)
				}
			}()
			if i%3 == 0 {
				if rec, err := st.Lookup(apiCtx, runID); err == nil {
					ctl := workflow.NewRunStateController(st.Store, rec)
					_ = ctl.Pause(apiCtx, "live")
					if rec2, err := st.Lookup(apiCtx, runID); err == nil {
						_ = workflow.NewRunStateController(st.Store, rec2).Resume(apiCtx)
					}
				}
			}
			actx, cancel := context.WithTimeout(apiCtx, time.Duration(c.StopAfter)*time.Millisecond)
			defer cancel()
			if _, err := w.Await(actx, fid, runID, 4, workflow.WithAwaitPollingFrequency(time.Millisecond)); err == nil {
				completed.Add(1)
			}
			_, _ = st.Latest(apiCtx, "live wf", fid)
		}(i)
	}
	time.Sleep(time.Duration(c.StopAfter) * time.Millisecond)
	// no process may have terminated while the workflow is running
	for name, s := range w.States() {
		if s == workflow.StateShutdown {
			add("process-terminated-while-running", fmt.Sprintf("process %q is Shutdown before Stop (injected adapter failures so far: %d, step failures configured: %d)", name, t.injected.Load(), c.StepFails))
		}
	}
	if len(w.States()) != nStates {
		add("process-set-changed-while-running", fmt.Sprintf("States() had %d entries after Run, %d now", nStates, len(w.States())))
	}
	stopDone := make(chan struct{})
	go func() {
		// both instances are stopped at the same time: the in-memory role scheduler does not wake a waiter whose context
		// is cancelled, so an instance whose processes wait for roles held by the OTHER instance can only shut down once
		// that one lets go (a liveness matter outside C11's statement; see DESIGN.md)
		var sw sync.WaitGroup
		if w2 != nil {
			sw.Add(1)
			go func() { defer sw.Done(); w2.Stop() }()
		}
		w.Stop()
		sw.Wait()
		close(stopDone)
	}()
	select {
	case <-stopDone:
	case <-time.After(10 * time.Second):
		add("stop-did-not-return", "Stop did not return within 10s")
		apiCancel()
		return out
	}
	t.stopped.Store(true)
	for name, s := range w.States() {
		if s != workflow.StateShutdown {
			add("process-not-shutdown-after-stop", fmt.Sprintf("process %q is %s after Stop returned", name, s))
		}
	}
	time.Sleep(15 * time.Millisecond)
	apiCancel()
	wg.Wait()
	t.mu.Lock()
	if len(t.afterStop) > 0 {
		sort.Strings(t.afterStop)
		add("adapter-call-after-stop:"+t.afterStop[0], fmt.Sprintf("%d background adapter calls after Stop returned, e.g. %s", len(t.afterStop), t.afterStop[0]))
	}
	for kind, n := range t.opened {
		if t.closed[kind] < n {
			add(kind+"-not-closed", fmt.Sprintf("%d %ss opened by background processes, %d closed", n, kind, t.closed[kind]))
		}
	}
	t.mu.Unlock()
	out.completed = int(completed.Load())
	out.injected = t.injected.Load()
	out.calls = t.calls.Load()
	return out
}

// Supervise: see the package comment.
func Supervise(d *leandrv.Driver, r *rng.R, res *report.Result, thorough bool) error {
	res.Rule = "real workflow (sharded step, callback, timeout or step, connector, completion hook) on wrapped in-memory adapters with real goroutines: every k-th background adapter call fails with a non-cancellation error (k in {0,7,13,29}), " +
		"the first step fails 0-3 times, 1-6 concurrent runs driven through Trigger/Callback/Pause/Resume/Await/Latest, optionally a second instance sharing the role scheduler; Stop after 10-40 ms while work is in flight; " +
		"checked: no process Shutdown before Stop, Stop returns, all Shutdown after it, no background adapter call afterwards, every receiver/sender/connector consumer opened by a process closed, Run idempotent; " +
		"then 2-16 goroutines call Run at the same moment on a workflow of 9-323 processes: every caller's Run returns with all processes registered, Stop afterwards reaches all of them"
	n := 12
	if thorough {
		n = 120
	}
	for it := 0; it < n; it++ {
		c := liveCfg{FaultEvery: rng.Pick(r, []int{0, 7, 13, 29}), StepFails: r.Intn(4), Parallel: rng.Pick(r, []int{1, 2, 3}), Runs: 1 + r.Intn(6),
			Connector: r.Chance(2, 3), Timeout: r.Bool(), StopAfter: 10 + r.Intn(30), SharedRole: r.Chance(1, 4)}
		o := runOne(c, uint64(it))
		res.Eval(1)
		res.NonTrivial(fmt.Sprintf("%+v", c))
		res.CountN("background-adapter-calls", int(o.calls))
		res.CountN("injected-failures", int(o.injected))
		res.CountN("runs-completed-before-stop", o.completed)
		if it < 2 {
			res.Sample(c)
		}
		for _, p := range o.problems {
			sig := strings.SplitN(p, ": ", 2)[0]
			res.Violate(report.Violation{Property: "C11", Oracle: "supervision", Signature: sig, Detail: p, Replay: map[string]any{"suite": "live-supervise", "config": c}})
		}
		res.Traces++
	}
	// several callers of Run at the same time
	m := 6
	if thorough {
		m = 40
	}
	for it := 0; it < m; it++ {
		c := runConcCfg{Statuses: rng.Pick(r, []int{6, 20, 40}), Parallel: rng.Pick(r, []int{1, 4, 8}), Callers: rng.Pick(r, []int{2, 4, 8, 16})}
		ps, procs := runConcurrent(c)
		res.Eval(1)
		res.NonTrivial(fmt.Sprintf("%+v", c))
		res.CountN("concurrent-run-processes", procs)
		for _, p := range ps {
			res.Violate(report.Violation{Property: "C11", Oracle: "run-idempotent-under-concurrency", Signature: strings.SplitN(p, ": ", 2)[0], Detail: p, Replay: map[string]any{"suite": "live-supervise", "concurrent_run": c}})
		}
		res.Traces++
	}
	return nil
}
