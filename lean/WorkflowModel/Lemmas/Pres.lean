import WorkflowModel.Model.Engine
/-! # Preservation logic for the operation monad

`Pres I m`: whatever the environment (fault plan, outcomes, stale reads), running `m` from a state whose `Sys`
satisfies `I` ends — normally or by abort, wherever the fault plan cut it — in a state whose `Sys` satisfies `I`.
This is how "for every fault position" is discharged: an invariant that every *primitive* preserves on its own is
preserved by every prefix of every operation. -/
namespace WorkflowModel.Engine

def Pres (I : Sys → Prop) {α : Type} (m : M α) : Prop := ∀ env st, I st.sys → I (m env st).2.sys

variable {I : Sys → Prop} {α β : Type}

theorem Pres.pure (a : α) : Pres I (pure a : M α) := fun _ _ h => h

theorem Pres.bind {m : M α} {f : α → M β} (h1 : Pres I m) (h2 : ∀ a, Pres I (f a)) : Pres I (m >>= f) := by
  intro env st h
  have := h1 env st h
  simp only [Bind.bind]
  rcases hm : m env st with ⟨r, st'⟩
  rw [hm] at this
  cases r with
  | ok a => exact h2 a env st' this
  | error e => exact this

theorem Pres.getSys : Pres I Engine.getSys := fun _ _ h => h
theorem Pres.isCancelled : Pres I Engine.isCancelled := fun _ _ h => h
theorem Pres.emit (l : String) : Pres I (Engine.emit l) := fun _ _ h => h
theorem Pres.emitIf (c : Bool) (l : String) : Pres I (Engine.emitIf c l) := by
  intro _ st h; unfold Engine.emitIf; cases c <;> exact h
theorem Pres.throwA (a : Abort) : Pres I (Engine.throwA a : M α) := fun _ _ h => h
theorem Pres.nextOutcome : Pres I Engine.nextOutcome := fun _ _ h => h

theorem Pres.modifySys {f : Sys → Sys} (h : ∀ s, I s → I (f s)) : Pres I (Engine.modifySys f) :=
  fun _ st hi => h st.sys hi

theorem Pres.tryM {m : M α} (h : Pres I m) : Pres I (Engine.tryM m) := by
  intro env st hi
  have := h env st hi
  unfold Engine.tryM
  rcases hm : m env st with ⟨r, st'⟩
  rw [hm] at this
  cases r <;> exact this

/-- an adapter call preserves `I` if its effect does; the fault plan then cannot matter -/
theorem Pres.call {label : String} {eff : Sys → (String × Except Abort α × Sys)}
    (h : ∀ s, I s → I (eff s).2.2) : Pres I (Engine.call label eff) := by
  intro env st hi
  unfold Engine.call
  split
  · exact hi
  · split
    · exact hi
    · exact h _ hi
    · exact hi
    · exact h _ hi

/-- a call without effect on `Sys` -/
theorem Pres.call_ro {label : String} {eff : Sys → (String × Except Abort α × Sys)}
    (h : ∀ s, (eff s).2.2 = s) : Pres I (Engine.call label eff) :=
  Pres.call (fun s hi => by rw [h s]; exact hi)

theorem Pres.forM {γ : Type} {f : γ → M PUnit} (l : List γ) (h : ∀ x, Pres I (f x)) : Pres I (l.forM f) := by
  induction l with
  | nil => exact Pres.pure _
  | cons x xs ih =>
    show Pres I (List.forM (x :: xs) f)
    unfold List.forM
    exact Pres.bind (h x) (fun _ => ih)

theorem Pres.foldlM {γ δ : Type} {f : δ → γ → M δ} (l : List γ) (init : δ) (h : ∀ d x, Pres I (f d x)) :
    Pres I (l.foldlM f init) := by
  induction l generalizing init with
  | nil => exact Pres.pure _
  | cons x xs ih =>
    show Pres I (List.foldlM f init (x :: xs))
    unfold List.foldlM
    exact Pres.bind (h init x) (fun d => ih d)

theorem Pres.ite {c : Prop} [Decidable c] {a b : M α} (ha : Pres I a) (hb : Pres I b) : Pres I (if c then a else b) := by
  split <;> assumption

end WorkflowModel.Engine
