package sim

import (
	"fmt"
	"strings"
	"time"

	"github.com/luno/workflow/verifharness/leandrv"
	"github.com/luno/workflow/verifharness/report"
	"github.com/luno/workflow/verifharness/rng"
)

// PauseFaultSuite (C13): a handler that always fails with the same error on a run, PauseAfterErrCount(n): the run must be
// paused by the n-th occurrence - and when a fault cuts the very write that pauses it, by the next occurrence, never later.
// The failure-free execution is recorded; then one fault (error before, error after, lease loss) is placed at every adapter
// call of every operation of the failing process, and a lease loss before every operation; the number of failing invocations
// seen when the run is finally Paused is compared with n. Every action is co-simulated on the Lean engine model.
func PauseFaultSuite(seed uint64, tier string, res *report.Result, nomodel bool) error {
	res.Rule = "workflows with one always-failing handler (step function / timer function / timeout function) under PauseAfterErrCount(n), n in 1..3 (own or default count): failure-free execution until the run is Paused, then exhaustively one fault " +
		"(error-before, error-after, lease-loss-at-call) at every adapter call of every operation of the failing process and a lease loss before each of them; the run must be Paused after n failing invocations, n+1 when the fault cut the pausing " +
		"write or the function's operation, never more; co-simulated on the Lean engine model"
	var d *leandrv.Driver
	if nomodel {
		d = &leandrv.Driver{Null: true}
	} else {
		var err error
		if d, err = leandrv.Start(); err != nil {
			return err
		}
	}
	defer func() { res.ModelLines += d.N; d.Close() }()
	_ = rng.New(seed)
	type variant struct {
		name string
		cfg  func(n int, own bool) Config
		tok  string
		kind string
	}
	mk := func(calls []BuilderCall, n int, own bool) Config {
		c := Config{Name: "pf", Calls: calls, ErrBackOffSec: 1, OutboxLimit: 1000, RetryAfterSec: 3600}
		if own {
			for i := range c.Calls {
				if c.Calls[i].Kind != "callback" {
					c.Calls[i].PauseAfter = n
				}
			}
		} else {
			c.DefaultPauseAfter = n
		}
		return c
	}
	variants := []variant{
		{"step", func(n int, own bool) Config {
			return mk([]BuilderCall{{Kind: "step", From: 1, Dests: []int{2}}}, n, own)
		}, "st:1:1:1", "step"},
		{"timeout", func(n int, own bool) Config {
			return mk([]BuilderCall{{Kind: "timeout", From: 1, Dests: []int{2}}}, n, own)
		}, "pol:1", "timeout"},
	}
	for _, v := range variants {
		for n := 1; n <= 3; n++ {
			for _, own := range []bool{true, false} {
				cfg := v.cfg(n, own)
				type fault struct {
					j, k  int
					kind  FaultKind
					lease bool
				}
				// returns: recorded actions, failing invocations of the handler when the run became Paused (-1: never paused), disagreement
				exec := func(prefix []recAct, f *fault) ([]recAct, int, []string, error) {
					s, err := NewSim(cfg)
					if err != nil {
						return nil, 0, nil, err
					}
					defer s.Stop()
					det := detFor(cfg, 0)
					det.AlwaysFail = map[string]bool{v.kind: true}
					s.W.Det = det
					g := &Gen{R: rng.New(1), C: cfg}
					if _, err := d.Ask(cfg.Line()); err != nil {
						return nil, 0, nil, err
					}
					var rec []recAct
					var hist []string
					disagreed := false
					emit := func(a Action, line string) {
						if a.Kind == "step" || a.Kind == "callback" {
							a.Env.Outcomes = append([]string{}, s.W.usedOutcomes...)
						}
						rec = append(rec, recAct{A: a, Calls: s.W.callN})
						hist = append(hist, a.Line())
						res.Eval(1)
						if !d.Null && !disagreed {
							ans, err := d.Ask(a.Line())
							if err == nil && ans != line {
								disagreed = true
								res.Disagree(report.Disagreement{Properties: []string{"C13"}, Where: "engine co-simulation (sim-pause-faults)",
									Input: History{Cfg: cfg.Line(), Actions: append([]string{}, hist...)}, Impl: line, Model: ans})
							}
						}
					}
					do := func(a Action) error {
						line, err := s.Do(a)
						emit(a, line)
						return err
					}
					if prefix == nil {
						if err := do(Action{Kind: "trigger", Fid: 0, Start: 0, N: 2}); err != nil {
							return nil, 0, nil, err
						}
					} else {
						for j, pa := range prefix {
							a := pa.A
							a.Env.Outcomes = nil
							if j == f.j {
								if f.lease {
									if err := do(Action{Kind: "lease", Tok: a.Tok}); err != nil {
										return nil, 0, nil, err
									}
								} else {
									a.Env.Faults = map[int]FaultKind{f.k: f.kind}
								}
							}
							if err := do(a); err != nil && err != errNotEnabled {
								return nil, 0, nil, err
							}
							if j == f.j {
								break
							}
						}
					}
					// drive until the run is Paused (then the system comes to rest) or the bound is hit
					paused := func() bool {
						if len(s.W.runs) == 0 {
							return false
						}
						rr := s.W.runs[0]
						return int(rr.versions[len(rr.versions)-1].RunState) == 3
					}
					for round := 0; round < 60 && !paused(); round++ {
						if _, err := s.Drain(g, 40, emit); err != nil {
							return nil, 0, nil, err
						}
						if paused() {
							break
						}
						// timers of the timeout store that are not due yet: move the clock to the earliest expiry (and a bit, for the poller's gate)
						var next time.Duration
						for _, t := range s.W.timers {
							if t.Completed {
								continue
							}
							if dd := t.ExpireAt.Sub(s.W.Clk.Now()); dd > 0 && (next == 0 || dd < next) {
								next = dd
							}
						}
						sec := 1
						if next > 0 {
							sec = int((next + time.Second - 1) / time.Second)
						}
						if err := do(Action{Kind: "tick", Sec: sec}); err != nil {
							return nil, 0, nil, err
						}
						// the poller lists with the instant at which it parked: let it take a turn after the clock moved
						if v.kind == "timeout" {
							for k := 0; k < 2; k++ {
								if err := do(Action{Kind: "step", Tok: v.tok}); err != nil && err != errNotEnabled {
									return nil, 0, nil, err
								}
							}
						}
					}
					occ := -1
					if paused() {
						occ = det.attempts[fmt.Sprintf("%s:%d:%d", v.kind, 1, 0)]
					}
					return rec, occ, hist, nil
				}
				baseRec, occ, _, err := exec(nil, nil)
				if err != nil {
					return fmt.Errorf("%s n=%d: %w", v.name, n, err)
				}
				res.Count("baseline:" + v.name)
				label := fmt.Sprintf("%s n=%d own=%v", v.name, n, own)
				res.NonTrivial(label)
				res.Sample(map[string]any{"variant": label, "failure_free_occurrences_at_pause": occ, "actions": len(baseRec)})
				if occ != n {
					res.Violate(report.Violation{Property: "C13", Oracle: "paused-at-nth", Signature: "failure-free-pause-at-wrong-count",
						Detail: fmt.Sprintf("%s: failure-free execution paused the run after %d failing invocations, configured %d", label, occ, n),
						Replay: map[string]any{"suite": "sim-pause-faults", "variant": label, "fault": "none"}})
					continue
				}
				try := func(f fault, what string) error {
					_, got, hist, err := exec(baseRec, &f)
					if err != nil {
						return fmt.Errorf("%s fault %s: %w", label, what, err)
					}
					res.Count("fault-run")
					res.Traces++
					if got < n || got > n+1 {
						kind := strings.SplitN(what, " ", 2)[0]
						res.Violate(report.Violation{Property: "C13", Oracle: "paused-at-nth", Signature: "paused-at-wrong-count-after-" + kind + ":" + v.name,
							Detail: fmt.Sprintf("%s, fault %s: the run was Paused after %d failing invocations of the %s function (-1 = never within the bound); configured count %d, one more is allowed when the fault cut the pausing write", label, what, got, v.kind, n),
							Replay: map[string]any{"suite": "sim-pause-faults", "variant": label, "cfg": cfg.Line(), "fault": what, "actions": hist}})
					}
					return nil
				}
				kname := map[FaultKind]string{FBefore: "error-before", FAfter: "error-after", FCancel: "lease-loss-at-call"}
				for j, pa := range baseRec {
					if pa.A.Kind != "step" || pa.A.Tok != v.tok {
						continue
					}
					if err := try(fault{j: j, lease: true}, fmt.Sprintf("lease-loss before action %d (%s)", j, pa.A.Tok)); err != nil {
						return err
					}
					for k := 0; k < pa.Calls; k++ {
						for _, kd := range []FaultKind{FBefore, FAfter, FCancel} {
							if err := try(fault{j: j, k: k, kind: kd}, fmt.Sprintf("%s at call %d of action %d (%s)", kname[kd], k, j, pa.A.Tok)); err != nil {
								return err
							}
						}
					}
				}
			}
		}
	}
	return nil
}
