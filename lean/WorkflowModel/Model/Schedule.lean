/-! # Schedule: the scheduler process of `Workflow.Schedule` (model for C20)

Cron is a parameter: `ticks` is the ascending list of cron instants of the specification (the harness computes it with
the cron library the code uses). One loop iteration of the process is `park` (read the latest run, compute the next tick,
arm the timer) followed by `wake` (timer fired: ask the filter, trigger). Only the scheduler creates runs here. -/
namespace WorkflowModel.Schedule

structure SchState where
  ticks : List Int := []
  latest : Option (Int × Bool) := none   -- (creation time of the latest run of the foreign ID, finished?)
  created : List Int := []               -- creation times of the runs the scheduler created, newest first
  pending : Option Int := none           -- the armed timer's deadline
deriving Repr, Inhabited

/-- first cron instant strictly after `t` (`schedule.Next(t)`) -/
def next (ticks : List Int) (t : Int) : Option Int := ticks.find? (fun x => decide (t < x))

/-- read Latest at `now`, compute the next run, arm the timer; answers the deadline (none: beyond the tick window) -/
def SchState.park (s : SchState) (now : Int) : SchState :=
  { s with pending := next s.ticks ((s.latest.map (·.1)).getD now) }

inductive Outcome | created | skipFilter | inProgress | notDue
deriving Repr, DecidableEq

/-- the timer fired at `now` (only possible once the deadline has passed): filter, then Trigger -/
def SchState.wake (s : SchState) (now : Int) (filter : Bool) : SchState × Outcome :=
  match s.pending with
  | none => (s, .notDue)
  | some d =>
    if now < d then (s, .notDue)
    else if !filter then ({ s with pending := none }, .skipFilter)
    else match s.latest with
      | some (_, false) => ({ s with pending := none }, .inProgress)
      | _ => ({ s with pending := none, latest := some (now, false), created := now :: s.created }, .created)

/-- the latest run reaches a finished run state -/
def SchState.finish (s : SchState) : SchState := { s with latest := s.latest.map (fun l => (l.1, true)) }

/-- the role is lost while the timer is armed: the iteration is abandoned -/
def SchState.lose (s : SchState) : SchState := { s with pending := none }

inductive Op where
  | park (now : Int)
  | wake (now : Int) (filter : Bool)
  | finish
  | lose
deriving Repr

def Op.time : Op → Option Int
  | .park n => some n
  | .wake n _ => some n
  | _ => none

def SchState.apply (s : SchState) : Op → SchState
  | .park n => s.park n
  | .wake n f => (s.wake n f).1
  | .finish => s.finish
  | .lose => s.lose

end WorkflowModel.Schedule
