import WorkflowModel.Lemmas.Relay
/-! # From operations to every reachable state

`StepInv I cfg`: the invariant `I` is preserved by every handler (`Stable`), by the relay cycle and by the
adversarial duplication of a published event. Then `I` holds in every state reachable by any list of actions:
any interleaving of API calls, process operations with any fault plan and any user-function outcomes, lease
losses, clock advances, cursor rewinds and duplicate deliveries. -/
namespace WorkflowModel.Engine

structure StepInv (I : Sys → Prop) (cfg : Cfg) : Prop where
  stable : Stable I cfg
  relay : Pres I (relayOp cfg)
  dup : ∀ s e, I s → e ∈ s.log → I (s.relaySend e)
  init : I {}

variable {I : Sys → Prop} {cfg : Cfg}

attribute [local irreducible] Engine.newReceiver Engine.procBody Engine.relayOp Engine.pollOp Engine.recvOp Engine.deliver Engine.call Engine.tryM
  Engine.modifySys Engine.leaseLossOp Engine.triggerApi Engine.callbackApi Engine.ctlFreshApi Engine.handleApi Engine.hctlApi

theorem Pres.procBody (h : StepInv I cfg) (p : Proc) (ps : PState) : Pres I (procBody cfg p ps) := by
  unfold Engine.procBody
  have hs := h.stable
  have hnr : Pres I (newReceiver p) := by unfold Engine.newReceiver; exact Pres.call_ro (fun _ => rfl)
  repeat (first | exact h.relay | exact Pres.pollOp hs.toStableH _ _ _ | exact Pres.recvOp hs _ | exact Pres.deliver hs _ _ _ | exact hnr | pres_core)

theorem Pres.procOp (h : StepInv I cfg) (p : Proc) : Pres I (procOp cfg p) := by
  unfold Engine.procOp
  have hs := h.stable
  have hop : Pres I openedReceiver := fun _ _ hi => hi
  repeat (first | exact Pres.procBody h _ _ | exact Pres.modifySys (fun s hi => hs.setPState s _ _ hi) | exact hop | pres_core)

theorem stepAct_inv (h : StepInv I cfg) (s : Sys) (a : Act) (hi : I s) : I (stepAct cfg s a).sys := by
  have hs := h.stable
  cases a with
  | step p env =>
    simp only [stepAct]
    split
    · exact Pres.procOp h p env _ hi
    · exact hi
  | lease p => exact Pres.leaseLossOp hs p _ _ hi
  | trigger fid start n env =>
    have := Pres.triggerApi hs.toStableH fid start n env { sys := s, stale := env.stale, isApi := true } hi
    simp only [stepAct, apiOut, runM]
    split <;> simp_all
  | callback fid status env =>
    have hc : Pres I (do callbackApi cfg fid status fuelDefault; (Pure.pure "ok" : M String)) :=
      Pres.bind (Pres.callbackApi hs.toStableH _ _ _) (fun _ => Pres.pure _)
    have := hc env { sys := s, stale := env.stale, isApi := true } hi
    simp only [stepAct, apiOut, runM]
    split <;> simp_all
  | ctl rid op env =>
    have := Pres.ctlFreshApi hs.toStableH rid op env { sys := s, stale := env.stale, isApi := true } hi
    simp only [stepAct, apiOut, runM]
    split <;> simp_all
  | handle rid =>
    have := Pres.handleApi hs.toStableH rid {} { sys := s, stale := 0, isApi := true } hi
    simp only [stepAct, apiOut, runM]
    split <;> simp_all
  | hctl hd op env =>
    have := Pres.hctlApi hs.toStableH hd op env { sys := s, stale := env.stale, isApi := true } hi
    simp only [stepAct, apiOut, runM]
    split <;> simp_all
  | tick sec => exact hs.tick s sec hi
  | rewind p idx =>
    simp only [stepAct]
    split
    · exact hs.setCursor s p idx hi
    · exact hi
  | dup idx =>
    simp only [stepAct]
    split
    · rename_i e he
      exact h.dup s e hi (List.mem_of_getElem? he)
    · exact hi

/-- every reachable state -/
theorem reachable_inv (h : StepInv I cfg) (as : List Act) : I (runActs cfg {} as) := by
  have : ∀ s, I s → I (runActs cfg s as) := by
    induction as with
    | nil => intro s hi; exact hi
    | cons a as ih => intro s hi; exact ih _ (stepAct_inv h s a hi)
  exact this {} h.init

theorem RelayInv.stepInv (cfg : Cfg) : StepInv RelayInv cfg where
  stable := RelayInv.stable cfg
  relay := Pres.relayOp cfg
  dup := fun s e hi he => hi.relaySend e (hi.log_written e he)
  init := RelayInv.init

end WorkflowModel.Engine
