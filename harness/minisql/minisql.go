// Package minisql is an in-process database/sql driver: a reference SQL engine for exactly the statement shapes the SQL
// adapters of luno/workflow emit (C18). It keeps a statement log (connection, transaction, text, arguments, outcome),
// counts placeholders against bound arguments, and can make the k-th driver operation fail.
//
// Supported shapes (keywords case-insensitive, identifiers optionally in backticks, optional trailing ';'):
//
//	insert into T set c=?|now()|true|false, ...
//	update T set c=?|now()|true|false, ... where COND
//	delete from T where COND
//	select c, ... from T where COND [order by c [asc|desc]] [limit ?|N] [offset ?|N]
//	COND := boolean expression (and / or / parentheses, usual precedence) over
//	        c=V | c<V | c>V | c<=V | c>=V | c<>V | c is not null | c in (?, ...)   with V := ? | true | false | integer
//
// Semantics follow MySQL where the adapters rely on it: now() has millisecond resolution and a clock that the engine
// advances by one millisecond per call; an int column compared with a numeric string compares numerically; LIMIT/OFFSET
// accept integers or numeric strings and reject negatives; a select without ORDER BY answers in primary-key order (as
// InnoDB's clustered/secondary indexes do), not in insertion order; a duplicate primary key is an error; strings compare
// byte-wise (binary collation: a modelling boundary).
package minisql

import (
	"context"
	"database/sql"
	"database/sql/driver"
	"errors"
	"fmt"
	"io"
	"sort"
	"strconv"
	"strings"
	"sync"
	"time"
)

type Row map[string]any

type Table struct {
	Cols    []string
	PK      string
	AutoInc bool // PK is an auto-increment integer
	next    int64
	Rows    []Row
}

type LogEntry struct {
	Conn         string // "writer" | "reader"
	InTx         bool
	Tx           int    // transaction ordinal (0 = none)
	Op           string // begin | commit | rollback | exec | query
	SQL          string
	Args         int
	Placeholders int
	Err          string
}

type DB struct {
	mu     sync.Mutex
	tables map[string]*Table
	now    time.Time
	Log    []LogEntry
	// fault injection: the FailAt-th driver operation from now on (0-based; begin, exec, query, commit count) fails
	FailAt int
	ops    int
	txN    int
}

// a transaction works on a private copy (snapshot at BEGIN) and is replayed onto the committed content at COMMIT, so a
// statement issued on another connection meanwhile is neither seen by it nor undone by its rollback
type txState struct {
	id   int
	work map[string]*Table
	redo []redoEntry
}

type redoEntry struct {
	st   *statement
	args []driver.Value
	nows []time.Time
}

var ErrInjected = errors.New("minisql: injected failure")

func New() *DB {
	return &DB{tables: map[string]*Table{}, now: time.Date(2030, 1, 1, 0, 0, 0, 0, time.UTC), FailAt: -1}
}

func (db *DB) CreateTable(name string, pk string, autoInc bool, cols ...string) {
	db.tables[name] = &Table{Cols: cols, PK: pk, AutoInc: autoInc, next: 1}
}

// Open returns a *sql.DB whose connections are tagged with role ("writer" / "reader").
func (db *DB) Open(role string) *sql.DB {
	return sql.OpenDB(&connector{db: db, role: role})
}

// ArmFault makes the k-th operation (counted from this call) fail; k < 0 disarms.
func (db *DB) ArmFault(k int) {
	db.mu.Lock()
	db.ops = 0
	db.FailAt = k
	db.mu.Unlock()
}

// Ops returns the number of driver operations counted since the last ArmFault.
func (db *DB) Ops() int { db.mu.Lock(); defer db.mu.Unlock(); return db.ops }

func (db *DB) ResetLog() { db.mu.Lock(); db.Log = nil; db.mu.Unlock() }

// Snapshot renders the committed content canonically (for before/after comparisons).
func (db *DB) Snapshot() string {
	db.mu.Lock()
	defer db.mu.Unlock()
	var names []string
	for n := range db.tables {
		names = append(names, n)
	}
	sort.Strings(names)
	var sb strings.Builder
	for _, n := range names {
		t := db.tables[n]
		fmt.Fprintf(&sb, "[%s]", n)
		for _, r := range t.Rows {
			sb.WriteString("{")
			for _, c := range t.Cols {
				fmt.Fprintf(&sb, "%s=%v;", c, render(r[c]))
			}
			sb.WriteString("}")
		}
	}
	return sb.String()
}

func (db *DB) Count(table string) int {
	db.mu.Lock()
	defer db.mu.Unlock()
	return len(db.tables[table].Rows)
}

func render(v any) string {
	switch x := v.(type) {
	case []byte:
		return fmt.Sprintf("%x", x)
	case time.Time:
		return x.Format(time.RFC3339Nano)
	}
	return fmt.Sprint(v)
}

func cloneTables(in map[string]*Table) map[string]*Table {
	out := map[string]*Table{}
	for n, t := range in {
		c := &Table{Cols: t.Cols, PK: t.PK, AutoInc: t.AutoInc, next: t.next}
		for _, r := range t.Rows {
			nr := Row{}
			for k, v := range r {
				if b, ok := v.([]byte); ok {
					v = append([]byte{}, b...)
				}
				nr[k] = v
			}
			c.Rows = append(c.Rows, nr)
		}
		out[n] = c
	}
	return out
}

// ---------- driver plumbing ----------

type connector struct {
	db   *DB
	role string
}

func (c *connector) Connect(context.Context) (driver.Conn, error) {
	return &conn{db: c.db, role: c.role}, nil
}
func (c *connector) Driver() driver.Driver { return drv{} }

type drv struct{}

func (drv) Open(string) (driver.Conn, error) { return nil, errors.New("minisql: use DB.Open") }

type conn struct {
	db   *DB
	role string
	tx   int
	txs  *txState
}

func (c *conn) Prepare(q string) (driver.Stmt, error) { return &stmt{c: c, q: q}, nil }
func (c *conn) Close() error                          { return nil }
func (c *conn) Begin() (driver.Tx, error)             { return c.BeginTx(context.Background(), driver.TxOptions{}) }

func (db *DB) tick(op string) error {
	k := db.ops
	db.ops++
	if db.FailAt >= 0 && k == db.FailAt {
		return ErrInjected
	}
	return nil
}

func (c *conn) BeginTx(ctx context.Context, _ driver.TxOptions) (driver.Tx, error) {
	db := c.db
	db.mu.Lock()
	defer db.mu.Unlock()
	e := LogEntry{Conn: c.role, Op: "begin"}
	if err := db.tick("begin"); err != nil {
		e.Err = err.Error()
		db.Log = append(db.Log, e)
		return nil, err
	}
	if c.txs != nil {
		e.Err = "nested transaction"
		db.Log = append(db.Log, e)
		return nil, errors.New("minisql: transaction already open on this connection")
	}
	db.txN++
	c.tx = db.txN
	c.txs = &txState{id: c.tx, work: cloneTables(db.tables)}
	e.Tx, e.InTx = c.tx, true
	db.Log = append(db.Log, e)
	return &tx{c: c}, nil
}

type tx struct{ c *conn }

func (t *tx) Commit() error {
	db := t.c.db
	db.mu.Lock()
	defer db.mu.Unlock()
	e := LogEntry{Conn: t.c.role, Op: "commit", Tx: t.c.tx, InTx: true}
	txs := t.c.txs
	t.c.txs, t.c.tx = nil, 0
	if txs == nil {
		e.Err = "no transaction"
		db.Log = append(db.Log, e)
		return errors.New("minisql: commit without a transaction")
	}
	if err := db.tick("commit"); err != nil {
		// a failed commit commits nothing
		e.Err = err.Error()
		db.Log = append(db.Log, e)
		return err
	}
	next := cloneTables(db.tables)
	for _, r := range txs.redo {
		k := 0
		now := func() time.Time { v := r.nows[k]; k++; return v }
		if _, err := run(next, r.st, r.args, now); err != nil {
			e.Err = err.Error()
			db.Log = append(db.Log, e)
			return err
		}
	}
	db.tables = next
	db.Log = append(db.Log, e)
	return nil
}

func (t *tx) Rollback() error {
	db := t.c.db
	db.mu.Lock()
	defer db.mu.Unlock()
	db.Log = append(db.Log, LogEntry{Conn: t.c.role, Op: "rollback", Tx: t.c.tx, InTx: true})
	t.c.txs, t.c.tx = nil, 0
	return nil
}

type stmt struct {
	c *conn
	q string
}

func (s *stmt) Close() error  { return nil }
func (s *stmt) NumInput() int { return -1 } // the engine counts placeholders itself and reports mismatches
func (s *stmt) Exec(args []driver.Value) (driver.Result, error) {
	return s.c.exec(s.q, args)
}
func (s *stmt) Query(args []driver.Value) (driver.Rows, error) {
	return s.c.query(s.q, args)
}

func named(args []driver.NamedValue) []driver.Value {
	out := make([]driver.Value, len(args))
	for i, a := range args {
		out[i] = a.Value
	}
	return out
}

func (c *conn) ExecContext(ctx context.Context, q string, args []driver.NamedValue) (driver.Result, error) {
	return c.exec(q, named(args))
}
func (c *conn) QueryContext(ctx context.Context, q string, args []driver.NamedValue) (driver.Rows, error) {
	return c.query(q, named(args))
}

type result struct{ id, n int64 }

func (r result) LastInsertId() (int64, error) { return r.id, nil }
func (r result) RowsAffected() (int64, error) { return r.n, nil }

func (c *conn) exec(q string, args []driver.Value) (driver.Result, error) {
	db := c.db
	db.mu.Lock()
	defer db.mu.Unlock()
	e := LogEntry{Conn: c.role, Op: "exec", SQL: q, Args: len(args), Placeholders: strings.Count(q, "?"), Tx: c.tx, InTx: c.tx != 0}
	fail := func(err error) (driver.Result, error) {
		e.Err = err.Error()
		db.Log = append(db.Log, e)
		return nil, err
	}
	if err := db.tick("exec"); err != nil {
		return fail(err)
	}
	if e.Args != e.Placeholders {
		return fail(fmt.Errorf("minisql: %d placeholders but %d arguments", e.Placeholders, e.Args))
	}
	st, err := parse(q)
	if err != nil {
		return fail(err)
	}
	var nows []time.Time
	now := func() time.Time { v := db.nowTick(); nows = append(nows, v); return v }
	tables := db.tables
	if c.txs != nil {
		tables = c.txs.work
	}
	res, err := run(tables, st, args, now)
	if err != nil {
		return fail(err)
	}
	if c.txs != nil {
		c.txs.redo = append(c.txs.redo, redoEntry{st: st, args: append([]driver.Value{}, args...), nows: nows})
	}
	db.Log = append(db.Log, e)
	return res, nil
}

func (c *conn) query(q string, args []driver.Value) (driver.Rows, error) {
	db := c.db
	db.mu.Lock()
	defer db.mu.Unlock()
	e := LogEntry{Conn: c.role, Op: "query", SQL: q, Args: len(args), Placeholders: strings.Count(q, "?"), Tx: c.tx, InTx: c.tx != 0}
	fail := func(err error) (driver.Rows, error) {
		e.Err = err.Error()
		db.Log = append(db.Log, e)
		return nil, err
	}
	if err := db.tick("query"); err != nil {
		return fail(err)
	}
	if e.Args != e.Placeholders {
		return fail(fmt.Errorf("minisql: %d placeholders but %d arguments", e.Placeholders, e.Args))
	}
	st, err := parse(q)
	if err != nil {
		return fail(err)
	}
	if st.kind != "select" {
		return fail(errors.New("minisql: query of a non-select"))
	}
	tables := db.tables
	if c.txs != nil {
		tables = c.txs.work
	}
	rs, err := sel(tables, st, args)
	if err != nil {
		return fail(err)
	}
	db.Log = append(db.Log, e)
	return rs, nil
}

type rows struct {
	cols []string
	data [][]driver.Value
	i    int
}

func (r *rows) Columns() []string { return r.cols }
func (r *rows) Close() error      { return nil }
func (r *rows) Next(dest []driver.Value) error {
	if r.i >= len(r.data) {
		return io.EOF
	}
	copy(dest, r.data[r.i])
	r.i++
	return nil
}

// ---------- parser ----------

type assign struct {
	col string
	val string // "?" | "now" | "true" | "false"
}

// node is a boolean expression over one row; every '?' carries its ordinal among the statement's placeholders
type node struct {
	kind string // "and" | "or" | "cmp" | "notnull" | "in"
	kids []*node
	col  string
	op   string // "=" | "<" | ">" | "<=" | ">=" | "!="
	val  string // "?" | "true" | "false" | literal number
	arg  int    // placeholder ordinal when val == "?"
	args []int  // for "in"
}

type statement struct {
	kind    string
	table   string
	cols    []string
	sets    []assign
	where   *node
	nph     int // placeholders seen so far while parsing (assigns ordinals)
	orderBy string
	desc    bool
	limit   string // "" | "?" | number
	offset  string
}

func tokenize(q string) ([]string, error) {
	var toks []string
	i := 0
	for i < len(q) {
		ch := q[i]
		switch {
		case ch == ' ' || ch == '\t' || ch == '\n' || ch == '\r':
			i++
		case ch == '`':
			j := strings.IndexByte(q[i+1:], '`')
			if j < 0 {
				return nil, errors.New("minisql: unterminated identifier")
			}
			toks = append(toks, q[i+1:i+1+j])
			i += j + 2
		case strings.ContainsRune("?=<>(),;*", rune(ch)):
			toks = append(toks, string(ch))
			i++
		case ch == '_' || ch >= 'a' && ch <= 'z' || ch >= 'A' && ch <= 'Z' || ch >= '0' && ch <= '9' || ch == '-':
			j := i
			for j < len(q) && (q[j] == '_' || q[j] == '.' || q[j] == '-' || q[j] >= 'a' && q[j] <= 'z' || q[j] >= 'A' && q[j] <= 'Z' || q[j] >= '0' && q[j] <= '9') {
				j++
			}
			toks = append(toks, q[i:j])
			i = j
		default:
			return nil, fmt.Errorf("minisql: unexpected character %q", ch)
		}
	}
	return toks, nil
}

type parser struct {
	t   []string
	i   int
	nph int
}

func (p *parser) peek() string {
	if p.i < len(p.t) {
		return p.t[p.i]
	}
	return ""
}
func (p *parser) next() string { s := p.peek(); p.i++; return s }
func (p *parser) kw(words ...string) bool {
	for k, w := range words {
		if p.i+k >= len(p.t) || !strings.EqualFold(p.t[p.i+k], w) {
			return false
		}
	}
	p.i += len(words)
	return true
}

func parse(q string) (*statement, error) {
	toks, err := tokenize(q)
	if err != nil {
		return nil, err
	}
	p := &parser{t: toks}
	st := &statement{}
	bad := func(what string) (*statement, error) {
		return nil, fmt.Errorf("minisql: unsupported statement (%s) near token %d of %q", what, p.i, q)
	}
	switch {
	case p.kw("insert", "into"):
		st.kind, st.table = "insert", p.next()
		if !p.kw("set") {
			return bad("insert without set")
		}
		if st.sets, err = p.assigns(); err != nil {
			return nil, err
		}
	case p.kw("update"):
		st.kind, st.table = "update", p.next()
		if !p.kw("set") {
			return bad("update without set")
		}
		if st.sets, err = p.assigns(); err != nil {
			return nil, err
		}
		if !p.kw("where") {
			return bad("update without where")
		}
		if st.where, err = p.cond(); err != nil {
			return nil, err
		}
	case p.kw("delete", "from"):
		st.kind, st.table = "delete", p.next()
		if !p.kw("where") {
			return bad("delete without where")
		}
		if st.where, err = p.cond(); err != nil {
			return nil, err
		}
	case p.kw("select"):
		st.kind = "select"
		for {
			st.cols = append(st.cols, p.next())
			if p.peek() == "," {
				p.next()
				continue
			}
			break
		}
		if !p.kw("from") {
			return bad("select without from")
		}
		st.table = p.next()
		if !p.kw("where") {
			return bad("select without where")
		}
		if st.where, err = p.cond(); err != nil {
			return nil, err
		}
		if p.kw("order", "by") {
			st.orderBy = p.next()
			if p.kw("desc") {
				st.desc = true
			} else {
				p.kw("asc")
			}
		}
		st.nph = p.nph
		if p.kw("limit") {
			st.limit = p.next()
		}
		if p.kw("offset") {
			if st.limit == "" {
				return bad("offset without limit")
			}
			st.offset = p.next()
		}
	default:
		return bad("unknown verb")
	}
	if p.peek() == ";" {
		p.next()
	}
	if p.i != len(p.t) {
		return bad("trailing tokens")
	}
	return st, nil
}

func (p *parser) assigns() ([]assign, error) {
	var out []assign
	for {
		col := p.next()
		if p.next() != "=" {
			return nil, fmt.Errorf("minisql: expected = after %q", col)
		}
		v := p.next()
		switch {
		case v == "?":
			p.nph++
		case strings.EqualFold(v, "now"):
			if p.next() != "(" || p.next() != ")" {
				return nil, errors.New("minisql: expected now()")
			}
			v = "now"
		case strings.EqualFold(v, "true"), strings.EqualFold(v, "false"):
			v = strings.ToLower(v)
		default:
			return nil, fmt.Errorf("minisql: unsupported value %q", v)
		}
		out = append(out, assign{col, v})
		if p.peek() == "," {
			p.next()
			continue
		}
		return out, nil
	}
}

func (p *parser) cond() (*node, error) { return p.orExpr() }

func (p *parser) orExpr() (*node, error) {
	l, err := p.andExpr()
	if err != nil {
		return nil, err
	}
	for p.kw("or") {
		r, err := p.andExpr()
		if err != nil {
			return nil, err
		}
		l = &node{kind: "or", kids: []*node{l, r}}
	}
	return l, nil
}

func (p *parser) andExpr() (*node, error) {
	l, err := p.prim()
	if err != nil {
		return nil, err
	}
	for p.kw("and") {
		r, err := p.prim()
		if err != nil {
			return nil, err
		}
		l = &node{kind: "and", kids: []*node{l, r}}
	}
	return l, nil
}

func (p *parser) value() (string, int, error) {
	v := p.next()
	switch {
	case v == "?":
		k := p.nph
		p.nph++
		return "?", k, nil
	case strings.EqualFold(v, "true"), strings.EqualFold(v, "false"):
		return strings.ToLower(v), 0, nil
	}
	if _, err := strconv.ParseInt(v, 10, 64); err == nil {
		return v, 0, nil
	}
	return "", 0, fmt.Errorf("minisql: unsupported comparison value %q", v)
}

func (p *parser) prim() (*node, error) {
	if p.peek() == "(" {
		p.next()
		if p.peek() == ")" {
			return nil, errors.New("minisql: empty ( ) in a condition")
		}
		e, err := p.orExpr()
		if err != nil {
			return nil, err
		}
		if p.next() != ")" {
			return nil, errors.New("minisql: expected )")
		}
		return e, nil
	}
	col := p.next()
	if col == "" || strings.ContainsAny(col, "?=<>(),;") {
		return nil, fmt.Errorf("minisql: expected a column, found %q", col)
	}
	switch {
	case p.kw("is", "not", "null"):
		return &node{kind: "notnull", col: col}, nil
	case p.kw("in"):
		if p.next() != "(" {
			return nil, errors.New("minisql: expected ( after in")
		}
		n := &node{kind: "in", col: col}
		for {
			if p.next() != "?" {
				return nil, errors.New("minisql: expected ? in an IN list")
			}
			n.args = append(n.args, p.nph)
			p.nph++
			if p.peek() == "," {
				p.next()
				continue
			}
			break
		}
		if p.next() != ")" {
			return nil, errors.New("minisql: expected ) after the IN list")
		}
		return n, nil
	}
	op := p.next()
	switch op {
	case "=":
	case "<", ">":
		if p.peek() == "=" {
			p.next()
			op += "="
		} else if op == "<" && p.peek() == ">" {
			p.next()
			op = "!="
		}
	default:
		return nil, fmt.Errorf("minisql: unsupported condition on %q", col)
	}
	v, k, err := p.value()
	if err != nil {
		return nil, err
	}
	return &node{kind: "cmp", col: col, op: op, val: v, arg: k}, nil
}

// ---------- execution ----------

func tableOf(tables map[string]*Table, name string) (*Table, error) {
	t, ok := tables[name]
	if !ok {
		return nil, fmt.Errorf("minisql: no table %q", name)
	}
	return t, nil
}

func (t *Table) hasCol(c string) bool {
	for _, x := range t.Cols {
		if x == c {
			return true
		}
	}
	return false
}

func truth(v any) (bool, bool) {
	switch x := v.(type) {
	case bool:
		return x, true
	case int64:
		return x != 0, true
	}
	return false, false
}

func num(v any) (float64, bool) {
	switch x := v.(type) {
	case int64:
		return float64(x), true
	case float64:
		return x, true
	case bool:
		if x {
			return 1, true
		}
		return 0, true
	case string:
		f, err := strconv.ParseFloat(strings.TrimSpace(x), 64)
		if err != nil {
			return 0, true // MySQL: a non-numeric string compares as 0 against a number
		}
		return f, true
	case []byte:
		return num(string(x))
	}
	return 0, false
}

// cmp compares a stored value with a bound argument as MySQL would: numerically if either side is a number, times as
// instants, otherwise byte-wise.
func cmp(stored, arg any) (int, error) {
	if stored == nil || arg == nil {
		return 0, errors.New("null")
	}
	if a, ok := stored.(time.Time); ok {
		b, ok := arg.(time.Time)
		if !ok {
			return 0, fmt.Errorf("minisql: comparing a datetime with %T", arg)
		}
		switch {
		case a.Before(b):
			return -1, nil
		case a.After(b):
			return 1, nil
		}
		return 0, nil
	}
	_, sNum := stored.(int64)
	_, sBool := stored.(bool)
	_, aNum := arg.(int64)
	_, aFl := arg.(float64)
	_, aBool := arg.(bool)
	if sNum || sBool || aNum || aFl || aBool {
		x, _ := num(stored)
		y, _ := num(arg)
		switch {
		case x < y:
			return -1, nil
		case x > y:
			return 1, nil
		}
		return 0, nil
	}
	str := func(v any) string {
		if b, ok := v.([]byte); ok {
			return string(b)
		}
		return fmt.Sprint(v)
	}
	return strings.Compare(str(stored), str(arg)), nil
}

func eval(t *Table, r Row, n *node, args []driver.Value) (bool, error) {
	switch n.kind {
	case "and", "or":
		l, err := eval(t, r, n.kids[0], args)
		if err != nil {
			return false, err
		}
		rr, err := eval(t, r, n.kids[1], args)
		if err != nil {
			return false, err
		}
		if n.kind == "and" {
			return l && rr, nil
		}
		return l || rr, nil
	case "notnull":
		if !t.hasCol(n.col) {
			return false, fmt.Errorf("minisql: unknown column %q", n.col)
		}
		return r[n.col] != nil, nil
	case "in":
		if !t.hasCol(n.col) {
			return false, fmt.Errorf("minisql: unknown column %q", n.col)
		}
		for _, k := range n.args {
			if r[n.col] != nil && args[k] != nil {
				if d, err := cmp(r[n.col], args[k]); err != nil {
					return false, err
				} else if d == 0 {
					return true, nil
				}
			}
		}
		return false, nil
	case "cmp":
		if !t.hasCol(n.col) {
			return false, fmt.Errorf("minisql: unknown column %q", n.col)
		}
		var a any
		switch n.val {
		case "?":
			a = args[n.arg]
		case "true":
			a = true
		case "false":
			a = false
		default:
			x, _ := strconv.ParseInt(n.val, 10, 64)
			a = x
		}
		if r[n.col] == nil || a == nil {
			return false, nil
		}
		d, err := cmp(r[n.col], a)
		if err != nil {
			return false, err
		}
		switch n.op {
		case "=":
			return d == 0, nil
		case "<":
			return d < 0, nil
		case ">":
			return d > 0, nil
		case "<=":
			return d <= 0, nil
		case ">=":
			return d >= 0, nil
		case "!=":
			return d != 0, nil
		}
	}
	return false, fmt.Errorf("minisql: cannot evaluate %q", n.kind)
}

func match(t *Table, r Row, where *node, args []driver.Value) (bool, error) {
	return eval(t, r, where, args)
}

func normalise(v driver.Value) any {
	switch x := v.(type) {
	case []byte:
		return append([]byte{}, x...)
	case time.Time:
		return x.UTC().Truncate(time.Millisecond)
	}
	return v
}

func (db *DB) nowTick() time.Time {
	db.now = db.now.Add(time.Millisecond)
	return db.now
}

func run(tables map[string]*Table, st *statement, args []driver.Value, now func() time.Time) (driver.Result, error) {
	t, err := tableOf(tables, st.table)
	if err != nil {
		return nil, err
	}
	ai := 0
	evalSets := func(r Row) error {
		for _, s := range st.sets {
			if !t.hasCol(s.col) {
				return fmt.Errorf("minisql: unknown column %q", s.col)
			}
			switch s.val {
			case "?":
				r[s.col] = normalise(args[ai])
				ai++
			case "now":
				r[s.col] = now()
			case "true":
				r[s.col] = true
			case "false":
				r[s.col] = false
			}
		}
		return nil
	}
	switch st.kind {
	case "insert":
		r := Row{}
		if err := evalSets(r); err != nil {
			return nil, err
		}
		if t.AutoInc {
			if _, given := r[t.PK]; !given {
				r[t.PK] = t.next
				t.next++
			}
		}
		if r[t.PK] == nil {
			return nil, fmt.Errorf("minisql: primary key %q is null", t.PK)
		}
		for _, o := range t.Rows {
			if d, err := cmp(o[t.PK], r[t.PK]); err == nil && d == 0 {
				return nil, fmt.Errorf("minisql: duplicate entry %v for key PRIMARY", render(r[t.PK]))
			}
		}
		t.Rows = append(t.Rows, r)
		id, _ := r[t.PK].(int64)
		return result{id: id, n: 1}, nil
	case "update":
		// the SET placeholders come first in the text, then the WHERE ones (ordinals assigned by the parser)
		var n int64
		for _, r := range t.Rows {
			ok, err := match(t, r, st.where, args)
			if err != nil {
				return nil, err
			}
			if ok {
				ai = 0
				if err := evalSets(r); err != nil {
					return nil, err
				}
				n++
			}
		}
		return result{n: n}, nil
	case "delete":
		var keep []Row
		var n int64
		for _, r := range t.Rows {
			ok, err := match(t, r, st.where, args)
			if err != nil {
				return nil, err
			}
			if ok {
				n++
			} else {
				keep = append(keep, r)
			}
		}
		t.Rows = keep
		return result{n: n}, nil
	}
	return nil, errors.New("minisql: exec of a select")
}

func intArg(spec string, args []driver.Value, ai *int) (int64, error) {
	if spec == "?" {
		a := args[*ai]
		*ai++
		switch x := a.(type) {
		case int64:
			return x, nil
		case string:
			n, err := strconv.ParseInt(x, 10, 64)
			if err != nil {
				return 0, fmt.Errorf("minisql: LIMIT/OFFSET argument %q is not an integer", x)
			}
			return n, nil
		}
		return 0, fmt.Errorf("minisql: LIMIT/OFFSET argument of type %T", a)
	}
	return strconv.ParseInt(spec, 10, 64)
}

func sel(tables map[string]*Table, st *statement, args []driver.Value) (driver.Rows, error) {
	t, err := tableOf(tables, st.table)
	if err != nil {
		return nil, err
	}
	for _, c := range st.cols {
		if !t.hasCol(c) {
			return nil, fmt.Errorf("minisql: unknown column %q", c)
		}
	}
	var hit []Row
	ai := st.nph // LIMIT / OFFSET placeholders follow those of the condition
	for _, r := range t.Rows {
		ok, err := match(t, r, st.where, args)
		if err != nil {
			return nil, err
		}
		if ok {
			hit = append(hit, r)
		}
	}
	// base order: primary key (what InnoDB's indexes give when no ORDER BY is present)
	sort.SliceStable(hit, func(i, j int) bool {
		d, _ := cmp(hit[i][t.PK], hit[j][t.PK])
		return d < 0
	})
	if st.orderBy != "" {
		if !t.hasCol(st.orderBy) {
			return nil, fmt.Errorf("minisql: unknown column %q", st.orderBy)
		}
		sort.SliceStable(hit, func(i, j int) bool {
			d, _ := cmp(hit[i][st.orderBy], hit[j][st.orderBy])
			if st.desc {
				return d > 0
			}
			return d < 0
		})
	}
	if st.limit != "" {
		lim, err := intArg(st.limit, args, &ai)
		if err != nil {
			return nil, err
		}
		if lim < 0 {
			return nil, errors.New("minisql: negative LIMIT")
		}
		off := int64(0)
		if st.offset != "" {
			if off, err = intArg(st.offset, args, &ai); err != nil {
				return nil, err
			}
			if off < 0 {
				return nil, errors.New("minisql: negative OFFSET")
			}
		}
		if off > int64(len(hit)) {
			off = int64(len(hit))
		}
		hit = hit[off:]
		if lim < int64(len(hit)) {
			hit = hit[:lim]
		}
	}
	out := &rows{cols: st.cols}
	for _, r := range hit {
		vals := make([]driver.Value, len(st.cols))
		for i, c := range st.cols {
			v := r[c]
			switch x := v.(type) {
			case bool: // MySQL answers tinyint(1)
				if x {
					v = int64(1)
				} else {
					v = int64(0)
				}
			case []byte:
				v = append([]byte{}, x...)
			}
			vals[i] = v
		}
		out.data = append(out.data, vals)
	}
	return out, nil
}
