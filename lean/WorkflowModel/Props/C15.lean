import WorkflowModel.Lemmas.Local
import WorkflowModel.Props.C03Table
import WorkflowModel.Props.Tie
/-! # C15 — Data deletion scrubs exactly the requested finished run

Request = controller transition to RequestedDataDeleted (accepted exactly from Completed, Cancelled, DataDeleted:
`C03_delete_accept_iff`), announced on the delete topic (C06). Execution = `deleteHandle` (model of `runDelete`):
object replaced by the custom delete function's result (model: `scrub`, idempotent) or the default marker. -/
namespace WorkflowModel.C15
open WorkflowModel Engine

/-- DeleteData is accepted only for Completed, Cancelled or already DataDeleted runs -/
theorem C15_accept_iff (a : Int) : RS.allowed a (RS.target .deleteData) = true ↔ (a = 4 ∨ a = 5 ∨ a = 6) :=
  C03.C03_delete_accept_iff a

/-- the record the delete consumer writes over `record` -/
def deletedRec (cfg : Cfg) (record : Rec) : Rec :=
  { record with obj := (if cfg.customDelete then scrub record.obj else -7777777), runState := 6, version := record.version + 1 }

theorem deletedRec_eq (cfg : Cfg) (record : Rec) (o : Obj) (ho : o = (if cfg.customDelete then scrub record.obj else -7777777)) :
    ({ record with obj := o, runState := Gen.RunStateDataDeleted, version := record.version + 1 } : Rec) = deletedRec cfg record := by
  subst ho; simp [deletedRec, Gen.RunStateDataDeleted]

/-- the replacement object is computed without touching the system; when it is produced it is the custom delete of the
stored object, or the marker -/
theorem C15_delete_obj (cfg : Cfg) (record : Rec) (env : Env) (st : OpSt) :
    (deleteObj cfg record env st).2.sys = st.sys ∧
    ∀ o, (deleteObj cfg record env st).1 = .ok o → o = (if cfg.customDelete then scrub record.obj else -7777777) := by
  unfold deleteObj
  by_cases hcd : cfg.customDelete = true
  · simp only [hcd, if_true]
    unfold customDeleteFn
    split
    · exact ⟨rfl, fun o h => by simp [throwA_run] at h⟩
    · rw [bind_run]
      simp only [Engine.nextOutcome]
      rw [bind_run]
      simp only [Engine.emit]
      generalize (env.outcomes[st.outI]?.getD Outcome.exhausted) = out
      cases out <;> refine ⟨rfl, fun o h => ?_⟩ <;> first
        | (have h' : (Except.ok (scrub record.obj) : Except Abort Obj) = Except.ok o := h
           injection h' with h'; exact h'.symm)
        | (exfalso; exact absurd (show (Except.error (Abort.err _) : Except Abort Obj) = Except.ok o from h) (by simp))
        | (exfalso; simp [throwA_run] at h; done)
  · simp only [hcd, Bool.false_eq_true, if_false]
    exact ⟨rfl, fun o h => by simp [pure_run] at h; exact h.symm⟩

/-- The delete consumer writes — if anything — exactly the scrubbed record over the one it read: DataDeleted, same status,
identifiers, creation time, next version; object = custom delete of the stored object, or the marker. No other run is
touched (a write only adds to the history of `record.runId`). For every fault plan and delete-function outcome. -/
theorem C15_scrub (cfg : Cfg) (e : Event) (env : Env) (st : OpSt) (record : Rec)
    (hread : (lookupRes st.sys e.runId st.stale).2 = some record) :
    (deleteHandle cfg e env st).2.sys = st.sys ∨ (deleteHandle cfg e env st).2.sys = st.sys.write cfg (deletedRec cfg record) := by
  unfold deleteHandle
  rw [bind_run]
  rcases hl : lookup e.runId env st with ⟨v, st'⟩
  cases v with
  | error a => exact Or.inl (lookup_err hl).1
  | ok v =>
    obtain ⟨hv, hsys, _⟩ := lookup_ok hl
    rw [hread] at hv; subst hv
    simp only []
    rw [bind_run]
    have hd := C15_delete_obj cfg record env st'
    rcases hdo : deleteObj cfg record env st' with ⟨r, st2⟩
    rw [hdo] at hd
    cases r with
    | error a => exact Or.inl (by rw [hd.1, hsys])
    | ok o =>
      have ho := hd.2 o rfl
      simp only []
      unfold updateRecord
      dsimp only
      rw [deletedRec_eq cfg record o ho]
      have := store_run_any cfg (deletedRec cfg record) env st2
      rw [hd.1, hsys] at this
      exact this.1

/-- what the scrubbed record keeps and what it changes -/
theorem C15_scrub_fields (cfg : Cfg) (record : Rec) :
    (deletedRec cfg record).runState = 6 ∧ (deletedRec cfg record).status = record.status ∧
    (deletedRec cfg record).runId = record.runId ∧ (deletedRec cfg record).fid = record.fid ∧
    (deletedRec cfg record).createdAt = record.createdAt ∧ (deletedRec cfg record).version = record.version + 1 := by
  simp [deletedRec]

theorem scrub_idem (o : Int) : scrub (scrub o) = scrub o := by
  unfold scrub
  by_cases h : o > -500000
  · have : ¬ (-1000000 - o > -500000) := by omega
    simp [h, this]
  · simp [h]

/-- A redelivered request leaves the run DataDeleted and scrubbed: scrubbing is idempotent, the marker stays the marker. -/
theorem C15_redelivery_idempotent (cfg : Cfg) (record : Rec) :
    (deletedRec cfg (deletedRec cfg record)).obj = (deletedRec cfg record).obj ∧ (deletedRec cfg (deletedRec cfg record)).runState = 6 := by
  unfold deletedRec
  by_cases h : cfg.customDelete = true
  · simp only [h, if_true, and_true]
    exact scrub_idem record.obj
  · simp [h]

/-- If the custom delete function fails, nothing is written and the handler fails (no ack, retried): the run stays
RequestedDataDeleted with its object intact — for every fault plan. -/
theorem C15_failure_keeps (cfg : Cfg) (e : Event) (env : Env) (st : OpSt) (record : Rec)
    (hread : (lookupRes st.sys e.runId st.stale).2 = some record)
    (hfail : ∀ st', ∃ a, (deleteObj cfg record env st').1 = .error a) :
    (deleteHandle cfg e env st).2.sys = st.sys ∧ ∃ a, (deleteHandle cfg e env st).1 = .error a := by
  unfold deleteHandle
  rw [bind_run]
  rcases hl : lookup e.runId env st with ⟨v, st'⟩
  cases v with
  | error a => exact ⟨(lookup_err hl).1, a, rfl⟩
  | ok v =>
    obtain ⟨hv, hsys, _⟩ := lookup_ok hl
    rw [hread] at hv; subst hv
    simp only []
    rw [bind_run]
    have hd := C15_delete_obj cfg record env st'
    obtain ⟨a, ha⟩ := hfail st'
    rcases hdo : deleteObj cfg record env st' with ⟨r, st2⟩
    rw [hdo] at hd ha
    simp only [] at ha
    subst ha
    exact ⟨by rw [hd.1, hsys], a, rfl⟩

/-- … and a failing delete function does make `deleteObj` fail -/
theorem C15_delete_fn_error (cfg : Cfg) (record : Rec) (k : Int) (outs : List Outcome) (st : OpSt)
    (hcd : cfg.customDelete = true) (hdec : decodable record.obj = true) (hout : outs[st.outI]? = some (.err k)) :
    (deleteObj cfg record { outcomes := outs } st).1 = .error (.err k) := by
  simp [deleteObj, hcd, customDeleteFn, hdec, bind_run, Engine.nextOutcome, hout, Engine.emit, throwA_run, Bind.bind]

/-- A REDELIVERED REQUEST SUCCEEDS. With the default delete (or any delete function that succeeds) and nothing injected,
the delete consumer's handler returns normally — so the event is acknowledged — WHATEVER run state the record is in when it is
read: in particular for a run that is already DataDeleted (a lost acknowledgement, a crash between Store and Ack, a duplicate
event). It writes the scrubbed record once more. (Seeded change C15_m3 made this handler fail on DataDeleted runs.) -/
theorem C15_redelivered_request_succeeds (cfg : Cfg) (e : Event) (st : OpSt) (record : Rec)
    (hcd : cfg.customDelete = false) (hc : st.cancelled = false)
    (hread : (lookupRes st.sys e.runId st.stale).2 = some record) :
    (deleteHandle cfg e {} st).1 = .ok () ∧ (deleteHandle cfg e {} st).2.sys = st.sys.write cfg (deletedRec cfg record) := by
  have hf : ∀ n, (({} : Env).faults.lookup n) = none := fun _ => rfl
  unfold deleteHandle
  rw [bind_run]
  rcases hl : lookup e.runId {} st with ⟨v, st'⟩
  have h1 : v = .ok (some record) := by
    have := congrArg Prod.fst hl
    simp [lookup, Engine.call, hc, hf, hread] at this
    exact this.symm
  subst h1
  obtain ⟨_, hsys, _, _, hc', _, _⟩ := lookup_ok hl
  simp only []
  rw [bind_run]
  simp only [deleteObj, hcd, Bool.false_eq_true, if_false, pure_run]
  unfold updateRecord
  dsimp only
  rw [deletedRec_eq cfg record (-7777777) (by simp [hcd])]
  have := store_run_ok cfg (deletedRec cfg record) {} st' hc' (hf _)
  rw [hsys] at this
  exact ⟨this.1, this.2.1⟩

theorem C15_tie_order : Tie.runDelete = true ∧ Tie.rscUpdate = true := by decide +kernel

/-- non-vacuity: cancel, request deletion, the delete consumer scrubs with the default marker; the request from a Running
run is refused -/
example :
    let cfg : Cfg := { calls := [{ kind := .step, src := 1, dests := [2] }] }
    let s := runActs cfg {} [.trigger 0 0 7 {}, .ctl 0 .deleteData {}, .ctl 0 .pause {}, .ctl 0 .cancel {}, .ctl 0 .deleteData {},
      .step .outbox {}, .step .delete {}, .step .delete {}]
    (s.cur 0).map (fun r => (r.runState, r.status, r.obj, r.version)) = some (6, 1, -7777777, 5) := by
  decide +kernel

end WorkflowModel.C15
