module github.com/luno/workflow/verifharness

go 1.23.4

toolchain go1.23.5

replace github.com/luno/workflow => /repo

replace github.com/luno/workflow/adapters/webui => /repo/adapters/webui

require (
	github.com/luno/workflow v0.3.0
	github.com/luno/workflow/adapters/sqlstore v0.0.0-00010101000000-000000000000
	github.com/luno/workflow/adapters/sqltimeout v0.0.0-00010101000000-000000000000
	github.com/luno/workflow/adapters/webui v0.0.0-00010101000000-000000000000
	github.com/robfig/cron/v3 v3.0.1
	google.golang.org/protobuf v1.36.6
	k8s.io/utils v0.0.0-20240921022957-49e7df575cb6
)

require (
	github.com/beorn7/perks v1.0.1 // indirect
	github.com/cespare/xxhash/v2 v2.3.0 // indirect
	github.com/davecgh/go-spew v1.1.1 // indirect
	github.com/fatih/color v1.18.0 // indirect
	github.com/go-stack/stack v1.8.1 // indirect
	github.com/google/uuid v1.6.0 // indirect
	github.com/luno/jettison v0.0.0-20250307143025-a20772f9e9d9 // indirect
	github.com/mattn/go-colorable v0.1.13 // indirect
	github.com/mattn/go-isatty v0.0.20 // indirect
	github.com/munnerz/goautoneg v0.0.0-20191010083416-a7dc8b61c822 // indirect
	github.com/pmezard/go-difflib v1.0.0 // indirect
	github.com/prometheus/client_golang v1.20.4 // indirect
	github.com/prometheus/client_model v0.6.1 // indirect
	github.com/prometheus/common v0.55.0 // indirect
	github.com/prometheus/procfs v0.15.1 // indirect
	github.com/stretchr/testify v1.10.0 // indirect
	golang.org/x/sys v0.31.0 // indirect
	golang.org/x/xerrors v0.0.0-20240903120638-7835f813f4da // indirect
	gopkg.in/yaml.v3 v3.0.1 // indirect
)

replace github.com/luno/workflow/adapters/sqlstore => /repo/adapters/sqlstore

replace github.com/luno/workflow/adapters/sqltimeout => /repo/adapters/sqltimeout
