/-! # Text: the string functions the properties reason about

Strings that are *reasoned about* (topics, role names, decimal renderings, error-counter keys) are lists of
byte values. Mirrors: `strconv.FormatInt(_, 10)`, `strings.ReplaceAll(_, " ", "_")`, `strings.Join`,
`strings.ToLower` (ASCII part; the harness generator for role names stays in ASCII and says so). -/
namespace WorkflowModel

abbrev Str := List Nat

namespace Text

/-- decimal digits of a natural number, most significant first (`strconv.FormatUint`) -/
def natDigits (n : Nat) : Str :=
  if n < 10 then [48 + n] else natDigits (n / 10) ++ [48 + n % 10]
decreasing_by omega

/-- `strconv.FormatInt(i, 10)` -/
def intDec (i : Int) : Str :=
  if i < 0 then 45 :: natDigits i.natAbs else natDigits i.natAbs

/-- `strings.ReplaceAll(s, " ", "_")` with the replacement byte as a parameter (generated constant) -/
def replSpace (repl : Str) (s : Str) : Str := s.flatMap (fun c => if c = 32 then repl else [c])

/-- `strings.Join(parts, sep)` -/
def join (sep : Str) : List Str → Str
  | [] => []
  | [a] => a
  | a :: b :: rest => a ++ sep ++ join sep (b :: rest)

/-- ASCII `strings.ToLower` -/
def lower (s : Str) : Str := s.map (fun c => if 65 ≤ c ∧ c ≤ 90 then c + 32 else c)

def ofString (s : String) : Str := s.toUTF8.toList.map (·.toNat)

def toString (s : Str) : String := String.mk (s.map (fun n => Char.ofNat n))

end Text
end WorkflowModel
