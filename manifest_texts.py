TB = ("Trusted: Lean 4.33 kernel; axioms propext/Classical.choice/Quot.sound only (audited per theorem on every run, no sorry/native_decide/bv_decide/own axioms); "
      "the go/ast extractor (T1/T2) and the Go harness (T3: drivers, simulator, canonicalisation, monitors); the statement files Props/*.lean. ")

TEXTS = {
    "C02": {
        "text": "Kernel-checked theorems over a map-by-map transcription of internal/graph.AddTransition: for every list of builder calls (hence every order) "
                "Transitions = the declared pairs, IsValid = occurs in a call, IsTerminal = destination and never source. The transcription is tied to the code by "
                "differential runs of the real graph package against the compiled Lean model on random graphs (self-loops, joins, duplicates, permutations) and an "
                "independent oracle for validateTransition.",
        "note": TB + "Modelled: Go maps as total functions with an explicit key-present bit.",
        "technique": "Lean 4 proof (invariant over the fold of builder calls) + differential co-simulation of internal/graph",
    },
    "C03": {
        "text": "Kernel-checked: every entry of the run-state transition table REGENERATED from runstate.go is an edge of the documented lifecycle (decide over the whole table, lifted to all "
                "integers), the lifecycle is closed on finished states, out-of-range states are rejected, DeleteData is accepted exactly from Completed/Cancelled/DataDeleted; terminal "
                "classification is order-independent. Tie: exhaustive differential run of NewRunStateController (all states -1..9, all sequences of 2-3 operations on ONE controller) and of the "
                "web UI update handler against the model, with a lifecycle oracle written from the property text.",
        "note": TB + "The table, Finished/Stopped/Valid sets, controller targets are extracted from source on every run.",
        "technique": "Lean 4 proof over regenerated table (decide + lifting lemma) + exhaustive differential check of the controller",
    },
    "C04": {
        "text": "Kernel-checked over the engine model (stepHandle = stepConsumer, gate operators REGENERATED from step.go): an announcement older than the record returned by the store writes nothing, "
                "consumes no user-function outcome, does not depend on the step function at all, and returns normally (ack); a newer one fails without write/invocation and the consume loop moves no cursor; "
                "redelivering any list of old announcements, any number of times, in any order, to any shards, under any fault plans leaves runs/outbox/log/timers unchanged (induction). The engine model is tied to the code "
                "by co-simulation of the real workflow under a gated simulator (adversarial stream: rewinds, duplicates; stale reads) against the compiled Lean model, line by line.",
        "note": TB + "Current reads assumed for 'acted only when current'; lagging-equal reads are the listed finding F16.",
        "technique": "Lean 4 proof (handler-level theorems for all fault plans + induction over delivery lists) + co-simulation under an adversarial stream",
    },
    "C05": {
        "text": "Kernel-checked over the whole engine model: RelayInv (every write pending or published; everything published/pending was written; entries unique) holds in EVERY reachable state - any interleaving of "
                "writers with relay cycles, any fault plan (error before/after effect, crash at any adapter call) inside every operation, any batch size/limit; an entry that disappears was accepted by the streamer; "
                "a failure leaves the entry in place. Proved via a preservation logic for the fault-injected operation monad plus a shape lemma for one relay step. Tie: T2 order of purgeOutbox; co-simulation; relay monitor on the real code.",
        "note": TB,
        "technique": "Lean 4 proof (invariant over all reachable states, all fault plans) + co-simulation with fault injection at every relay call",
    },
    "C06": {
        "text": "Kernel-checked for every record (all Int run states incl. out of range, all Int statuses, all names): topic selection of MakeOutboxEventData (if-chain regenerated from event.go), "
                "injectivity of status topics (decimal rendering is injective), pairwise disjointness of status/delete/run-state-change topics, headers carry run ID, foreign ID, run state, version. "
                "Tie: real MakeOutboxEventData/Topic functions vs the Lean model on an enumerated record space incl. int32/int64 limits and unicode names, plus an oracle from the property text.",
        "note": TB + "protobuf encode/decode of the outbox record is external (decoded with the generated Go code).",
        "technique": "Lean 4 proof (decision logic + injectivity of decimal rendering) + differential co-simulation of event.go/topic.go",
    },
    "C10": {
        "text": "Kernel-checked over the shard expression REGENERATED from eventfilter.go (Go % = Int.tmod): for n>=2 and every non-negative event ID exactly one shard handles the event; "
                "for negative IDs with non-zero remainder no shard does (full statement proved FALSE on the unchanged tree: listed finding F12). Launch sequence and role construction are "
                "T2 facts. Tie: real shardFilter/makeRole vs model over all residues x both signs x n<=8, int64 limits, random and FNV-hashed connector IDs.",
        "note": TB,
        "technique": "Lean 4 proof (Int.tmod arithmetic) + exhaustive/differential check of shardFilter and makeRole",
    },
}

NOT_APPLICABLE = {p: "check under construction in this session (engine model + simulator not yet committed); will be claimed once its theorems and tie exist" for p in
                  ["C01", "C07", "C08", "C09", "C11", "C12", "C13", "C14", "C15", "C16", "C17", "C18", "C19", "C20"]}

NOTES = ("One engine: Lean 4 model + theorems, regenerated facts (T1/T2), co-simulation (T3). ./check <id> quick|thorough; ./check replay <path>. "
         "known-findings.json lists genuine defects that are recorded rather than repaired.")
