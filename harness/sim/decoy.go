package sim

import (
	"context"
	"strconv"
	"sync"
	"time"

	"github.com/luno/workflow"
	"github.com/luno/workflow/adapters/memrecordstore"
	"github.com/luno/workflow/adapters/memrolescheduler"
	"github.com/luno/workflow/adapters/memstreamer"
	"github.com/luno/workflow/adapters/memtimeoutstore"
)

// A service rarely runs one workflow only. Before the first simulated workflow of the process is built, another workflow with
// ANOTHER status type - the same numbers, other names - has run through statuses 1..15 on the in-memory adapters. Nothing of it
// may be visible in the simulated workflows: whatever the library remembers per status (descriptions, names, metrics labels)
// must be remembered per workflow and status type, not per number.

type decoySt int

func (s decoySt) String() string { return "DecoyPhaseNumber" + strconv.Itoa(int(s)) }

var decoyOnce sync.Once

func runDecoyWorkflow() {
	decoyOnce.Do(func() {
		b := workflow.NewBuilder[Obj, decoySt]("decoy")
		for s := 1; s <= 15; s++ {
			next := decoySt(s + 1)
			b.AddStep(decoySt(s), func(ctx context.Context, r *workflow.Run[Obj, decoySt]) (decoySt, error) { return next, nil }, next)
		}
		store := memrecordstore.New()
		w := b.Build(memstreamer.New(), store, memrolescheduler.New(), workflow.WithTimeoutStore(memtimeoutstore.New()), workflow.WithLogger(nopLogger{}),
			workflow.WithDefaultOptions(workflow.PollingFrequency(time.Millisecond), workflow.ErrBackOff(time.Millisecond)),
			workflow.WithOutboxOptions(workflow.OutboxPollingFrequency(time.Millisecond), workflow.OutboxErrBackOff(time.Millisecond)))
		ctx, cancel := context.WithCancel(context.Background())
		w.Run(ctx)
		if _, err := w.Trigger(ctx, "decoy-1"); err == nil {
			deadline := time.Now().Add(3 * time.Second)
			for time.Now().Before(deadline) {
				if r, err := store.Latest(ctx, "decoy", "decoy-1"); err == nil && r.Status == 16 {
					break
				}
				time.Sleep(2 * time.Millisecond)
			}
		}
		cancel()
		w.Stop()
	})
}
