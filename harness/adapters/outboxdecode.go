package adapters

import (
	"fmt"
	"strconv"

	"google.golang.org/protobuf/proto"

	"github.com/luno/workflow"
	"github.com/luno/workflow/internal/outboxpb"
)

// decodeOutbox renders what an outbox entry encodes: wf:rid:status:runstate:version
func decodeOutbox(e workflow.OutboxEvent) string {
	var ob outboxpb.OutboxRecord
	if err := proto.Unmarshal(e.Data, &ob); err != nil {
		return "undecodable"
	}
	atoi := func(s string) int {
		if len(s) < 2 {
			return -1
		}
		n, _ := strconv.Atoi(s[1:])
		return n
	}
	return fmt.Sprintf("%d:%d:%d:%s:%s", atoi(e.WorkflowName), atoi(ob.RunId), ob.Type, ob.Headers["run_state"], ob.Headers["record_version"])
}
