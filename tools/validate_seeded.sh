#!/bin/bash
# usage: validate_seeded.sh <src-dir-with-mutants> <mutant>...   -- confirms each seeded change in a scratch worktree of /repo (HEAD):
#   patch applies; the demonstration FAILS with it and PASSES without it; the pinned suite still passes with it.
# Prints one line per mutant: <name> apply=ok|FAIL demo_with=FAIL|pass demo_without=pass|FAIL baseline=ok|FAIL
SRC=$1; shift
export GOFLAGS=-mod=mod GOPROXY=off GOSUMDB=off GOTOOLCHAIN=local
W=/tmp/val-seeded
git -C /repo worktree remove --force $W 2>/dev/null
git -C /repo worktree add -q --detach $W HEAD || exit 2
for M in "$@"; do
  D=$SRC/$M
  git -C $W reset -q --hard HEAD; git -C $W clean -qfd
  if ! git -C $W apply $D/patch.diff 2>/dev/null; then echo "$M apply=FAIL"; continue; fi
  DIR=$(python3 -c "import json;print(json.load(open('$D/meta.json'))['demo_dir'])")
  RUN=$(python3 -c "import json;print(json.load(open('$D/meta.json'))['demo_run'])")
  RUN=$(echo "$RUN" | sed -E 's/^cd [^&]*&& *//')
  demo() { # run the demonstration in demo_dir
    mkdir -p $W/$DIR
    for f in $D/*_test.go; do cp $f $W/$DIR/zz_$(basename $f); done
    echo "$RUN" > /tmp/val-run.sh
    case "$RUN" in *"./adapters/"*|*" ./"*) (cd $W && timeout 600 bash /tmp/val-run.sh >/tmp/val-demo.log 2>&1) ;; *) (cd $W/$DIR && timeout 600 bash /tmp/val-run.sh >/tmp/val-demo.log 2>&1) ;; esac
    rc=$?
    rm -f $W/$DIR/zz_*_test.go
    return $rc
  }
  if demo; then DW=pass; else DW=FAIL; fi
  cp /tmp/val-demo.log /tmp/val-demo-with-$M.log
  if bash /verif/tools/baseline.sh $W 2>&1 | tail -1 | grep -q "stable 278 passed 278"; then BL=ok; else BL=FAIL; fi
  git -C $W reset -q --hard HEAD; git -C $W clean -qfd
  if demo; then DO=pass; else DO=FAIL; fi
  cp /tmp/val-demo.log /tmp/val-demo-without-$M.log
  echo "$M apply=ok demo_with=$DW demo_without=$DO baseline=$BL"
done
git -C /repo worktree remove --force $W
