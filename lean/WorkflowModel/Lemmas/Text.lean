import WorkflowModel.Model.Text
/-! Lemmas about decimal rendering: injectivity and digit range. -/
namespace WorkflowModel.Text

def valOf (l : Str) : Nat := l.foldl (fun acc c => acc * 10 + (c - 48)) 0

theorem valOf_natDigits (n : Nat) : valOf (natDigits n) = n := by
  induction n using Nat.strongRecOn with
  | _ n ih =>
    unfold natDigits
    split
    · simp [valOf]
    · rename_i h
      have := ih (n / 10) (by omega)
      simp only [valOf, List.foldl_append, List.foldl_cons, List.foldl_nil] at this ⊢
      rw [this]; omega

theorem natDigits_inj {a b : Nat} (h : natDigits a = natDigits b) : a = b := by
  have := congrArg valOf h
  simpa [valOf_natDigits] using this

theorem natDigits_ne_nil (n : Nat) : natDigits n ≠ [] := by
  unfold natDigits; split <;> simp

theorem natDigits_all_digit (n : Nat) : ∀ c ∈ natDigits n, 48 ≤ c ∧ c ≤ 57 := by
  induction n using Nat.strongRecOn with
  | _ n ih =>
    unfold natDigits
    split
    · intro c hc; simp at hc; omega
    · intro c hc
      simp only [List.mem_append, List.mem_singleton] at hc
      rcases hc with hc | hc
      · exact ih (n/10) (by omega) c hc
      · omega

theorem intDec_inj {a b : Int} (h : intDec a = intDec b) : a = b := by
  unfold intDec at h
  split at h <;> split at h
  · have := natDigits_inj (List.cons.inj h).2; omega
  · exfalso
    have hb := natDigits_all_digit b.natAbs
    cases hnb : natDigits b.natAbs with
    | nil => exact natDigits_ne_nil _ hnb
    | cons x xs =>
      rw [hnb] at h hb
      have := (List.cons.inj h).1
      have := hb x (by simp)
      omega
  · exfalso
    have ha := natDigits_all_digit a.natAbs
    cases hna : natDigits a.natAbs with
    | nil => exact natDigits_ne_nil _ hna
    | cons x xs =>
      rw [hna] at h ha
      have := (List.cons.inj h).1
      have := ha x (by simp)
      omega
  · have := natDigits_inj h; omega

/-- every byte of a decimal rendering is `-` or a digit -/
theorem intDec_bytes (a : Int) : ∀ c ∈ intDec a, c = 45 ∨ (48 ≤ c ∧ c ≤ 57) := by
  intro c hc
  unfold intDec at hc
  split at hc
  · simp only [List.mem_cons] at hc
    rcases hc with rfl | hc
    · exact Or.inl rfl
    · exact Or.inr (natDigits_all_digit _ c hc)
  · exact Or.inr (natDigits_all_digit _ c hc)

theorem intDec_ne_nil (a : Int) : intDec a ≠ [] := by
  unfold intDec; split
  · simp
  · exact natDigits_ne_nil _

end WorkflowModel.Text
