package pure

import (
	"context"
	"fmt"
	"sort"
	"strconv"
	"strings"
	"sync"
	"time"

	"github.com/luno/workflow"
	"github.com/luno/workflow/adapters/memrecordstore"
	"github.com/luno/workflow/adapters/memstreamer"
	"github.com/luno/workflow/adapters/memtimeoutstore"
	"github.com/luno/workflow/verifharness/leandrv"
	"github.com/luno/workflow/verifharness/report"
	"github.com/luno/workflow/verifharness/rng"
)

// ---------------------------------------------------------------- C10: which processes Run launches, under which roles

type LSt int

var lstDisplay = "St"

// lstCollide: every status displays the same text (a hand-written String() with a default branch, a status added without
// updating it): display strings are not identifiers
var lstCollide = false

func (s LSt) String() string {
	if lstCollide {
		return "Unknown"
	}
	return lstDisplay + strconv.Itoa(int(s))
}

type lobj struct{ N int }

type nopLog struct{}

func (nopLog) Debug(ctx context.Context, msg string, meta map[string]string) {}
func (nopLog) Error(ctx context.Context, err error)                          {}

// recRoles records every role a process asks for and never grants it: no process gets to call an adapter.
type recRoles struct {
	mu    sync.Mutex
	roles []string
}

func (r *recRoles) Await(ctx context.Context, role string) (context.Context, context.CancelFunc, error) {
	r.mu.Lock()
	r.roles = append(r.roles, role)
	r.mu.Unlock()
	<-ctx.Done()
	return nil, nil, ctx.Err()
}

func (r *recRoles) snapshot() []string {
	r.mu.Lock()
	defer r.mu.Unlock()
	return append([]string{}, r.roles...)
}

type launchCfg struct {
	Name       string   `json:"name"`
	DefaultPar int      `json:"default_parallel"`
	Steps      [][2]int `json:"steps"`    // (status, own count)
	Timeouts   []int    `json:"timeouts"` // statuses
	TStore     bool     `json:"timeout_store"`
	Conns      []lconn  `json:"connectors"`
	Hooks      []int    `json:"hooks"` // run states 3,4,5
	Retry      bool     `json:"retry"`
}

type lconn struct {
	Name string `json:"name"`
	Par  int    `json:"parallel"`
}

func (c launchCfg) line() string {
	j := func(xs []string) string {
		if len(xs) == 0 {
			return "-"
		}
		return strings.Join(xs, ",")
	}
	var st, to, cn, hk []string
	for _, s := range c.Steps {
		st = append(st, fmt.Sprintf("%d:%d", s[0], s[1]))
	}
	for _, t := range c.Timeouts {
		to = append(to, strconv.Itoa(t))
	}
	for _, x := range c.Conns {
		cn = append(cn, fmt.Sprintf("%s:%d", strings.ReplaceAll(x.Name, " ", "+"), x.Par))
	}
	for _, h := range c.Hooks {
		hk = append(hk, strconv.Itoa(h))
	}
	b := func(v bool) string {
		if v {
			return "1"
		}
		return "0"
	}
	return fmt.Sprintf("launch %s %d %s %s %s %s %s %s", strings.ReplaceAll(c.Name, " ", "+"), c.DefaultPar, j(st), j(to), b(c.TStore), j(cn), j(hk), b(c.Retry))
}

// launchAndRecord builds the real workflow, calls Run, waits until the set of awaited roles is stable, stops it.
func launchAndRecord(c launchCfg) (roles []string, runTwice bool, err error) {
	defer func() {
		if p := recover(); p != nil {
			err = fmt.Errorf("panic: %v", p)
		}
	}()
	b := workflow.NewBuilder[lobj, LSt](c.Name)
	stepFn := func(ctx context.Context, r *workflow.Run[lobj, LSt]) (LSt, error) { return 0, nil }
	for _, s := range c.Steps {
		u := b.AddStep(LSt(s[0]), stepFn, LSt(s[0]+1000))
		if s[1] != 0 {
			u.WithOptions(workflow.ParallelCount(s[1]))
		}
	}
	for _, t := range c.Timeouts {
		b.AddTimeout(LSt(t), func(ctx context.Context, r *workflow.Run[lobj, LSt], now time.Time) (time.Time, error) {
			return time.Time{}, nil
		},
			func(ctx context.Context, r *workflow.Run[lobj, LSt], now time.Time) (LSt, error) { return 0, nil }, LSt(t+2000))
	}
	for _, x := range c.Conns {
		u := b.AddConnector(x.Name, memstreamer.NewConnector(nil), func(ctx context.Context, api workflow.API[lobj, LSt], e *workflow.ConnectorEvent) error { return nil })
		if x.Par != 0 {
			u.WithOptions(workflow.ParallelCount(x.Par))
		}
	}
	hook := func(ctx context.Context, r *workflow.TypedRecord[lobj, LSt]) error { return nil }
	for _, h := range c.Hooks {
		switch h {
		case 3:
			b.OnPause(hook)
		case 4:
			b.OnCancel(hook)
		case 5:
			b.OnComplete(hook)
		}
	}
	rr := &recRoles{}
	opts := []workflow.BuildOption{workflow.WithLogger(nopLog{})}
	if c.TStore {
		opts = append(opts, workflow.WithTimeoutStore(memtimeoutstore.New()))
	}
	if c.DefaultPar != 0 {
		opts = append(opts, workflow.WithDefaultOptions(workflow.ParallelCount(c.DefaultPar)))
	}
	if !c.Retry {
		opts = append(opts, workflow.DisablePauseRetry())
	}
	w := b.Build(memstreamer.New(), memrecordstore.New(), rr, opts...)
	ctx, cancel := context.WithCancel(context.Background())
	defer cancel()
	w.Run(ctx)
	stable := func() []string {
		last, since := -1, time.Now()
		for time.Since(since) < 40*time.Millisecond {
			n := len(rr.snapshot())
			if n != last {
				last, since = n, time.Now()
			}
			time.Sleep(2 * time.Millisecond)
		}
		return rr.snapshot()
	}
	first := stable()
	w.Run(ctx) // idempotent: a second Run must start nothing
	second := stable()
	w.Stop()
	sort.Strings(first)
	return first, len(second) != len(first), nil
}

// expectedRoles: the property's statement, written independently of the code and of the model.
func expectedRoles(c launchCfg) []string {
	mk := func(parts ...string) string {
		return strings.ReplaceAll(strings.ToLower(strings.Join(parts, "-")), " ", "_")
	}
	eff := func(own int) int {
		if own != 0 {
			return own
		}
		return c.DefaultPar
	}
	var out []string
	out = append(out, mk(c.Name, "outbox", "consumer"))
	for _, s := range c.Steps {
		n := eff(s[1])
		if n < 2 {
			out = append(out, mk(c.Name, strconv.Itoa(s[0]), "consumer", "1", "of", "1"))
			continue
		}
		for i := 1; i <= n; i++ {
			out = append(out, mk(c.Name, strconv.Itoa(s[0]), "consumer", strconv.Itoa(i), "of", strconv.Itoa(n)))
		}
	}
	if c.TStore {
		for _, t := range c.Timeouts {
			out = append(out, mk(c.Name, strconv.Itoa(t), "timeout-consumer"), mk(c.Name, strconv.Itoa(t), "timeout-auto-inserter-consumer"))
		}
	}
	for _, x := range c.Conns {
		n := eff(x.Par)
		if n < 2 {
			out = append(out, mk(x.Name, "connector", "to", c.Name, "consumer", "1", "of", "1"))
			continue
		}
		for i := 1; i <= n; i++ {
			out = append(out, mk(x.Name, "connector", "to", c.Name, "consumer", strconv.Itoa(i), "of", strconv.Itoa(n)))
		}
	}
	for _, h := range c.Hooks {
		out = append(out, mk(c.Name, workflow.RunState(h).String(), "run-state-change-hook", "consumer"))
	}
	out = append(out, mk(c.Name, "delete", "consumer"))
	if c.Retry {
		out = append(out, mk(c.Name, "paused", "records", "retry", "consumer"))
	}
	sort.Strings(out)
	return out
}

func genLaunch(r *rng.R) launchCfg {
	pars := []int{-1, 0, 0, 1, 2, 3, 5, 8}
	c := launchCfg{Name: rng.Pick(r, []string{"w", "my flow", "Order-Flow", "a-1", "X_y"}), DefaultPar: rng.Pick(r, pars), TStore: r.Chance(3, 4), Retry: r.Chance(2, 3)}
	used := map[int]bool{}
	for i, k := 0, 1+r.Intn(3); i < k; i++ {
		st := rng.Pick(r, []int{-3, 0, 1, 2, 7, 10, 11})
		if used[st] {
			continue
		}
		used[st] = true
		c.Steps = append(c.Steps, [2]int{st, rng.Pick(r, pars)})
	}
	if c.TStore {
		usedT := map[int]bool{}
		for i, k := 0, r.Intn(3); i < k; i++ {
			st := rng.Pick(r, []int{1, 2, 5, 10})
			if !usedT[st] {
				usedT[st] = true
				c.Timeouts = append(c.Timeouts, st)
			}
		}
	}
	usedC := map[string]bool{}
	for i, k := 0, r.Intn(3); i < k; i++ {
		n := rng.Pick(r, []string{"c", "Conn B", "feed-1", "x"})
		if !usedC[n] {
			usedC[n] = true
			c.Conns = append(c.Conns, lconn{n, rng.Pick(r, pars)})
		}
	}
	for _, h := range []int{3, 4, 5} {
		if r.Chance(1, 3) {
			c.Hooks = append(c.Hooks, h)
		}
	}
	return c
}

func diffRoles(got, want []string) string {
	g, w := map[string]int{}, map[string]int{}
	for _, x := range got {
		g[x]++
	}
	for _, x := range want {
		w[x]++
	}
	var miss, extra, dup []string
	for x, n := range w {
		if g[x] < n {
			miss = append(miss, x)
		}
	}
	for x, n := range g {
		if w[x] < n {
			if w[x] > 0 {
				dup = append(dup, x)
			} else {
				extra = append(extra, x)
			}
		}
	}
	sort.Strings(miss)
	sort.Strings(extra)
	sort.Strings(dup)
	return fmt.Sprintf("not launched: %v; launched but not configured: %v; launched more than once: %v", miss, extra, dup)
}

// Launch: the processes Run starts (observed as the roles they await) vs the Lean launch model and vs the property's own list.
func Launch(d *leandrv.Driver, r *rng.R, res *report.Result, thorough bool) error {
	res.Rule = "builder configurations: 1-3 steps (statuses incl. negative and 0) with own parallel count in {-1,0,1,2,3,5,8}, workflow default in the same set, 0-2 timeout statuses, 0-2 connectors with own counts, hooks on/off, paused-retry on/off, " +
		"timeout store on/off, names with spaces/upper case/dashes; the real Workflow.Run is started on a role scheduler that records and never grants; observed roles compared with the Lean launch model and with the property's list; " +
		"Run called twice (idempotent); rebuilt with different status display strings (roles must not change)"
	n := 150
	if thorough {
		n = 1500
	}
	// fixed corner cases first: default >= 2 with units that have no own count
	fixed := []launchCfg{
		{Name: "w", DefaultPar: 3, Steps: [][2]int{{1, 0}}, Conns: []lconn{{"c", 0}}, TStore: true, Retry: true},
		{Name: "w", DefaultPar: 2, Steps: [][2]int{{1, 5}}, Conns: []lconn{{"c", 3}, {"x", 0}}, TStore: true, Retry: false},
		{Name: "w", DefaultPar: 0, Steps: [][2]int{{1, 0}}, Conns: []lconn{{"c", 2}}, TStore: false, Retry: true},
	}
	for it := 0; it < n+len(fixed); it++ {
		var c launchCfg
		if it < len(fixed) {
			c = fixed[it]
		} else {
			c = genLaunch(r)
		}
		lstDisplay = "St"
		got, twice, err := launchAndRecord(c)
		res.Eval(1)
		res.NonTrivial(c.line())
		if it < 2 {
			res.Sample(c)
		}
		if err != nil {
			res.Violate(report.Violation{Property: "C10", Oracle: "launch-list", Signature: "run-panicked", Detail: err.Error(), Replay: map[string]any{"suite": "pure-launch", "config": c}})
			continue
		}
		want := expectedRoles(c)
		kind := "default"
		for _, x := range c.Conns {
			if x.Par == 0 && c.DefaultPar >= 2 {
				kind = "connector-under-default-count"
			}
		}
		res.Count("case:" + kind)
		if strings.Join(got, ",") != strings.Join(want, ",") {
			sig := "launched-processes-differ"
			if kind != "default" {
				sig += "+" + kind
			}
			res.Violate(report.Violation{Property: "C10", Oracle: "launch-list", Signature: sig,
				Detail: "Run launched a different set of processes than configured: " + diffRoles(got, want), Replay: map[string]any{"suite": "pure-launch", "config": c}})
		}
		seen := map[string]bool{}
		for _, x := range got {
			if seen[x] {
				res.Violate(report.Violation{Property: "C10", Oracle: "launch-list", Signature: "two-processes-one-role", Detail: "role awaited twice: " + x, Replay: map[string]any{"suite": "pure-launch", "config": c}})
			}
			seen[x] = true
		}
		if twice {
			res.Violate(report.Violation{Property: "C10", Oracle: "launch-list", Signature: "second-run-launched-processes", Detail: "a second call of Run started further processes", Replay: map[string]any{"suite": "pure-launch", "config": c}})
		}
		m, e2 := d.Ask(c.line())
		if e2 != nil {
			return e2
		}
		ms := strings.Split(m, ",")
		sort.Strings(ms)
		if strings.Join(ms, ",") != strings.Join(got, ",") && !d.Null {
			res.Disagree(report.Disagreement{Properties: []string{"C10"}, Where: "pure-launch: roles awaited after Run vs the launch model", Input: c, Impl: strings.Join(got, ","), Model: strings.Join(ms, ",")})
		}
		// display strings must not matter
		lstDisplay = "Some Other Display Name "
		got2, _, err2 := launchAndRecord(c)
		lstDisplay = "St"
		if err2 == nil && strings.Join(got2, ",") != strings.Join(got, ",") {
			res.Violate(report.Violation{Property: "C10", Oracle: "launch-list", Signature: "role-depends-on-display-string", Detail: "roles changed with the status display strings: " + diffRoles(got2, got), Replay: map[string]any{"suite": "pure-launch", "config": c}})
		}
		// ... not even when several statuses share one
		lstCollide = true
		got3, _, err3 := launchAndRecord(c)
		lstCollide = false
		if err3 == nil && strings.Join(got3, ",") != strings.Join(got, ",") {
			res.Violate(report.Violation{Property: "C10", Oracle: "launch-list", Signature: "role-depends-on-display-string", Detail: "with all statuses displayed as \"Unknown\" the roles awaited differ: " + diffRoles(got3, got), Replay: map[string]any{"suite": "pure-launch", "config": c}})
		}
		res.Traces++
	}
	return nil
}
