"""Per-property configuration of ./check: Lean modules holding the property theorems, harness suites
(T3 + monitors), what is modelled rather than verified, assumptions."""

ENGINE_MODELLED = [
    "engine model lean/WorkflowModel/Model/Engine.lean: hand-written, tied to the code by co-simulation (every action of every explored history is executed on the real workflow under the gated simulator and on the compiled model; observation lines must be identical)",
    "operations of different processes interleave at gate granularity (RoleScheduler.Await, Recv, clock.NewTimer, ListValid); races between two writers inside one operation are outside the model",
    "encoding/json of the run object, protobuf of the outbox record, uuid freshness: external, exercised by the simulator only",
]

SIM = ["corpus", "sim-random"]
SIMADV = ["corpus", "sim-random", "sim-adversary"]

PROPS = {
    "C02": {"lean": ["WorkflowModel.Props.C02Graph", "WorkflowModel.Props.C02Engine"], "suites": ["pure-graph"] + SIM,
            "modelled": ENGINE_MODELLED, "assumptions": ["whole-history path statement needs writes based on current reads (F20/F16/F17 listed)"]},
    "C03": {"lean": ["WorkflowModel.Props.C03Table", "WorkflowModel.Props.C02Graph", "WorkflowModel.Props.C03Engine"],
            "suites": ["pure-ctl", "pure-graph"] + SIMADV, "modelled": ENGINE_MODELLED,
            "assumptions": ["whole-history lifecycle statement needs writes based on current reads (F20/F16/F17 listed)"]},
    "C04": {"lean": ["WorkflowModel.Props.C04"], "suites": SIMADV,
            "modelled": ENGINE_MODELLED + ["strconv.ParseInt of the record_version header (canonical decimal renderings only)"],
            "assumptions": ["reads are current for the 'acted only when current' clause; with a replica lagging at exactly the event's version the clause fails on the unchanged tree (known finding F16)"]},
    "C05": {"lean": ["WorkflowModel.Props.C05"], "suites": SIM + ["mem-recordstore"],
            "modelled": ENGINE_MODELLED + ["the reference store contract (Store = record + one outbox entry atomically); bundled stores are tied to it by C17/C18"],
            "assumptions": ["outbox lookup limit >= 1 for progress"]},
    "C06": {"lean": ["WorkflowModel.Props.C06"], "suites": ["pure-routing"] + SIM,
            "modelled": ["protobuf encoding of OutboxRecord (decoded by the harness with the generated Go code)"],
            "assumptions": ["workflow names are valid UTF-8 (proto string fields)"]},
    "C07": {"lean": ["WorkflowModel.Props.C07"], "suites": SIM, "modelled": ENGINE_MODELLED + ["connector event JSON round trip: outside the model (pure driver)"],
            "assumptions": []},
    "C08": {"lean": ["WorkflowModel.Props.C08"], "suites": SIMADV, "modelled": ENGINE_MODELLED, "assumptions": ["operations atomic with respect to each other"]},
    "C09": {"lean": ["WorkflowModel.Props.C09"], "suites": SIM, "modelled": ENGINE_MODELLED, "assumptions": ["store = reference contract (Latest = newest created run)"]},
    "C10": {"lean": ["WorkflowModel.Props.C10Shard", "WorkflowModel.Props.C10Launch"], "suites": ["pure-shards", "pure-launch"] + SIM,
            "modelled": ["launch model lean/WorkflowModel/Model/Launch.lean: hand-written transcription of Workflow.Run over REGENERATED decisions (override, un-sharded below 2, loop condition); tied by pure-launch (roles awaited by the real Run vs the model) and the T2 launch/role strings",
                         "string-level distinctness of role names is checked on the implementation for the generated configurations, not proved (process identities are proved distinct)"],
            "assumptions": ["one builder entry per step status / timeout status / connector name / hook state (map keys; AddConnector panics on duplicates)"]},
    "C12": {"lean": ["WorkflowModel.Props.C12", "WorkflowModel.Props.C12Store"], "suites": SIMADV + ["sim-timeouts", "mem-timeoutstore"],
            "modelled": ENGINE_MODELLED + ["RefTimeouts (lean/WorkflowModel/Model/Adapters/RefTimeouts.lean) is the store contract; memtimeoutstore is tied to it by differential runs"],
            "assumptions": ["one timeout per status (two: finding F19)"]},
    "C13": {"lean": ["WorkflowModel.Props.C13"], "suites": SIM + ["sim-pause"], "modelled": ENGINE_MODELLED,
            "assumptions": ["single instance (the counter is in process memory)", "error-counter key injective on the triples that occur"]},
    "C14": {"lean": ["WorkflowModel.Props.C14"], "suites": SIM, "modelled": ENGINE_MODELLED, "assumptions": []},
    "C15": {"lean": ["WorkflowModel.Props.C15"], "suites": SIMADV, "modelled": ENGINE_MODELLED, "assumptions": ["custom delete function idempotent on already scrubbed objects (the harness's is)"]},
    "C16": {"lean": ["WorkflowModel.Props.C16"], "suites": ["pure-ctl"] + SIMADV, "modelled": ENGINE_MODELLED,
            "assumptions": ["JSON encode/decode of the object external", "no nested writes to the same run inside a user function (F20 listed)"]},
    "C17": {"lean": ["WorkflowModel.Props.C17"], "suites": ["mem-recordstore"],
            "modelled": ["RefStore (lean/WorkflowModel/Model/Adapters/RefStore.lean) is the contract; memrecordstore is tied to it by differential runs, not by a Lean model of its maps"],
            "assumptions": ["a run ID belongs to one (workflow, foreign ID) for ever", "offsets >= 0"]},
    "C19": {"lean": ["WorkflowModel.Props.C19"], "suites": ["mem-streamer", "mem-connector"],
            "modelled": ["RefStream (lean/WorkflowModel/Model/Adapters/RefStream.lean) is the contract; memstreamer and its connector are tied to it by differential runs (exhaustive short sequences + random), not by a Lean model of the Go loop",
                         "would-block is observed through a context that reports cancellation after a fixed number of polls of the receiver's loop"],
            "assumptions": ["a receiver name is used on one topic (as the engine's role names are)", "one live receiver per name (C11 provides it)"]},
    "C18": {"lean": ["WorkflowModel.Props.C18", "WorkflowModel.Props.C17", "WorkflowModel.Props.C12Store"],
            "suites": ["sql-atomic", "sql-where", "sql-recordstore", "sql-timeoutstore"],
            "modelled": ["the SQL engine is harness/minisql: an in-process database/sql driver for exactly the statement shapes the adapters emit (insert..set, update, delete, select with boolean conditions, order by, limit, offset), snapshot transactions per connection replayed at commit, "
                         "now() with a clock advancing 1 ms per call, primary-key order for selects without ORDER BY, numeric comparison of int columns with numeric strings, byte-wise string comparison; a real MySQL server (collations, datetime ties, lock waits, isolation anomalies) is not modelled",
                         "the transaction model runTx / sqlStore (lean/WorkflowModel/Model/Adapters/SqlStore.lean) is hand-written; tied by the fault-enumeration suite sql-atomic and the T2 call order of SQLStore.Store",
                         "the where-builder model WB is hand-written; tied by sql-where (text and parameter count of every List shape against the statement log)"],
            "assumptions": ["field names passed to the where builder contain no '?'", "created_at values of different runs differ (the engine clock ticks per now())"]},
}
