import WorkflowModel.Lemmas.Local
import WorkflowModel.Props.Tie
/-! # C04 — Duplicate, replayed, reordered or stale events never re-run or regress a run

`stepHandle` is the model of `stepConsumer` (used by step consumers and by the timeout inserter). The version-gate
comparisons are `Gen.G.stepSkipOld` / `Gen.G.stepStale`, regenerated from step.go on every run: flipping `>` to `>=`
or swapping the operands breaks these proofs in the kernel. "No step or timer function is invoked" is stated as
"no user-function outcome is consumed" (`outI` unchanged — every invocation consumes one) and as independence of the
handler's result from the function `fn`. All statements hold for every environment: fault plan, outcomes, stale reads. -/
namespace WorkflowModel.C04
open WorkflowModel Engine

variable (cfg : Cfg) (p : Proc) (status : Status) (pa : Int) (e : Event)

/-- THE VERSION GATE (decision logic of `stepConsumer` on the record the store returned). Older announcement: return
normally at once — nothing else happens. -/
theorem C04_gate_old (fn : Rec → M (Except Abort FnRes × Rec)) (env : Env) (st : OpSt) (record : Rec)
    (hold : record.version > e.version) : stepGate cfg p pa e record fn env st = (.ok (), st) := by
  have hg : Gen.G.stepSkipOld record.version e.version = true := by simp [Gen.G.stepSkipOld]; omega
  simp [stepGate, hg, pure_run]

/-- Newer announcement (lagging read): fail at once — nothing else happens. -/
theorem C04_gate_newer (fn : Rec → M (Except Abort FnRes × Rec)) (env : Env) (st : OpSt) (record : Rec)
    (hnew : record.version < e.version) : stepGate cfg p pa e record fn env st = (.error (.err errStale), st) := by
  have hg1 : Gen.G.stepSkipOld record.version e.version = false := by simp [Gen.G.stepSkipOld]; omega
  have hg2 : Gen.G.stepStale record.version e.version = true := by simp [Gen.G.stepStale]; omega
  simp [stepGate, hg1, hg2, throwA_run]

/-- Equal versions and a run that is not stopped: the event is handled (the step runs). -/
theorem C04_gate_current (fn : Rec → M (Except Abort FnRes × Rec)) (env : Env) (st : OpSt) (record : Rec)
    (heq : record.version = e.version) (hrun : Gen.stopped record.runState = false) :
    stepGate cfg p pa e record fn env st = stepRun cfg p pa record fn env st := by
  have hg1 : Gen.G.stepSkipOld record.version e.version = false := by simp [Gen.G.stepSkipOld]; omega
  have hg2 : Gen.G.stepStale record.version e.version = false := by simp [Gen.G.stepStale]; omega
  simp [stepGate, hg1, hg2, Gen.G.stepStopped, hrun]

/-- An announcement older than the record the store returns: nothing is written, no function is invoked; the handler
returns normally (so the event is acknowledged) unless the lookup itself failed. -/
theorem C04_old_event_noop (fn : Rec → M (Except Abort FnRes × Rec)) (env : Env) (st : OpSt) (record : Rec)
    (hread : (lookupRes st.sys e.runId st.stale).2 = some record) (hold : record.version > e.version) :
    (stepHandle cfg p status pa e fn env st).2.sys = st.sys ∧
    (stepHandle cfg p status pa e fn env st).2.outI = st.outI ∧
    (env.faults.lookup st.callN = none → st.cancelled = false → (stepHandle cfg p status pa e fn env st).1 = .ok ()) := by
  rw [stepHandle_run]
  rcases hl : lookup e.runId env st with ⟨r, st'⟩
  cases r with
  | error a =>
    have := lookup_err hl
    refine ⟨this.1, this.2, ?_⟩
    intro hf hc
    exfalso
    unfold Engine.lookup Engine.call at hl
    simp [hf, hc] at hl
  | ok v =>
    obtain ⟨hv, hsys, hout, _⟩ := lookup_ok hl
    rw [hread] at hv; subst hv
    simp only [C04_gate_old cfg p pa e fn env st' record hold]
    exact ⟨hsys, hout, fun _ _ => trivial⟩

/-- … and the function is never consulted: the handler's behaviour does not depend on it -/
theorem C04_old_event_fn_irrelevant (fn fn' : Rec → M (Except Abort FnRes × Rec)) (env : Env) (st : OpSt) (record : Rec)
    (hread : (lookupRes st.sys e.runId st.stale).2 = some record) (hold : record.version > e.version) :
    stepHandle cfg p status pa e fn env st = stepHandle cfg p status pa e fn' env st := by
  rw [stepHandle_run, stepHandle_run]
  rcases hl : lookup e.runId env st with ⟨r, st'⟩
  cases r with
  | error a => rfl
  | ok v =>
    obtain ⟨hv, _⟩ := lookup_ok hl
    rw [hread] at hv; subst hv
    simp only [C04_gate_old cfg p pa e _ env st' record hold]

/-- An announcement NEWER than what the store returns (a lagging read replica): the handler fails — so the event is
neither acknowledged nor dropped — without writing anything and without invoking any function. -/
theorem C04_newer_event_retried (fn : Rec → M (Except Abort FnRes × Rec)) (env : Env) (st : OpSt) (record : Rec)
    (hread : (lookupRes st.sys e.runId st.stale).2 = some record) (hnew : record.version < e.version) :
    (∃ a, (stepHandle cfg p status pa e fn env st).1 = .error a) ∧
    (stepHandle cfg p status pa e fn env st).2.sys = st.sys ∧
    (stepHandle cfg p status pa e fn env st).2.outI = st.outI := by
  rw [stepHandle_run]
  rcases hl : lookup e.runId env st with ⟨r, st'⟩
  cases r with
  | error a =>
    have := lookup_err hl
    exact ⟨⟨a, rfl⟩, this.1, this.2⟩
  | ok v =>
    obtain ⟨hv, hsys, hout, _⟩ := lookup_ok hl
    rw [hread] at hv; subst hv
    simp only [C04_gate_newer cfg p pa e fn env st' record hnew]
    exact ⟨⟨_, rfl⟩, hsys, hout⟩

/-- At the level of the consume loop: a delivery whose handler fails moves no cursor (the event is received again). -/
theorem C04_newer_event_not_acked (i : Nat) (env : Env) (st : OpSt) (record : Rec) (s : Status) (sh tot : Int)
    (hnf : filteredOut (.step s sh tot) i e = false)
    (hread : (lookupRes st.sys e.runId st.stale).2 = some record) (hnew : record.version < e.version) :
    (deliver cfg (.step s sh tot) i e env st).2.sys.cursors = st.sys.cursors ∧
    ∃ a, (deliver cfg (.step s sh tot) i e env st).1 = .error a := by
  unfold deliver
  simp only [hnf, Bool.false_eq_true, if_false]
  rw [bind_run]
  have hh := C04_newer_event_retried cfg (.step s sh tot) s (cfg.stepPauseAfter s) e
    (fun run => runFn cfg "step" run run fuelDefault true) env st record hread hnew
  have hframe := handle_frame cfg (.step s sh tot) e env st
  unfold handle at hframe ⊢
  simp only [] at hframe ⊢
  obtain ⟨⟨a, ha⟩, hsys, _⟩ := hh
  rcases hst : stepHandle cfg (.step s sh tot) s (cfg.stepPauseAfter s) e (fun run => runFn cfg "step" run run fuelDefault true) env st with ⟨r, st'⟩
  rw [hst] at ha hframe
  simp only [] at ha
  subst ha
  exact ⟨hframe.1, a, rfl⟩

/-- Redelivering announcements that are older than their records — any of them, any number of times, in any order, to
any step consumers, under any fault plans — leaves every record, the outbox, the stream log and the timers unchanged;
only cursors move. (Staleness is preserved because nothing is written.) -/
theorem C04_redelivery_idempotent (ds : List (Status × Int × Int × Nat × Event × Env)) (s0 : Sys)
    (hold : ∀ d ∈ ds, ∃ record, s0.cur d.2.2.2.2.1.runId = some record ∧ record.version > d.2.2.2.2.1.version) :
    let final := ds.foldl (fun s d =>
      (deliver cfg (.step d.1 d.2.1 d.2.2.1) d.2.2.2.1 d.2.2.2.2.1 d.2.2.2.2.2 { sys := s, stale := 0 }).2.sys) s0
    final.runs = s0.runs ∧ final.outbox = s0.outbox ∧ final.log = s0.log ∧ final.timers = s0.timers := by
  induction ds generalizing s0 with
  | nil => simp
  | cons d rest ih =>
    obtain ⟨s, sh, tot, i, e, env⟩ := d
    simp only [List.foldl_cons]
    obtain ⟨record, hcur, hv⟩ := hold (s, sh, tot, i, e, env) (by simp)
    -- one delivery changes nothing but cursors
    have key : ∀ st : OpSt, st.sys = s0 → st.stale = 0 →
        (deliver cfg (.step s sh tot) i e env st).2.sys.runs = s0.runs ∧
        (deliver cfg (.step s sh tot) i e env st).2.sys.outbox = s0.outbox ∧
        (deliver cfg (.step s sh tot) i e env st).2.sys.log = s0.log ∧
        (deliver cfg (.step s sh tot) i e env st).2.sys.timers = s0.timers := by
      intro st hst hstale
      have hack : ∀ st1 : OpSt, (ack (.step s sh tot) i env st1).2.sys.runs = st1.sys.runs ∧
          (ack (.step s sh tot) i env st1).2.sys.outbox = st1.sys.outbox ∧ (ack (.step s sh tot) i env st1).2.sys.log = st1.sys.log ∧
          (ack (.step s sh tot) i env st1).2.sys.timers = st1.sys.timers := by
        intro st1
        have : Pres (fun x => x.runs = st1.sys.runs ∧ x.outbox = st1.sys.outbox ∧ x.log = st1.sys.log ∧ x.timers = st1.sys.timers)
            (ack (.step s sh tot) i) := by
          exact Pres.ack' (fun _ _ _ h => h) _ _
        exact this env st1 ⟨rfl, rfl, rfl, rfl⟩
      unfold deliver
      split
      · rw [← hst]; exact hack st
      · rw [bind_run]
        have hread : (lookupRes st.sys e.runId st.stale).2 = some record := by
          rw [hstale, lookupRes_fresh, hst]; exact hcur
        have hh := C04_old_event_noop cfg (.step s sh tot) s (cfg.stepPauseAfter s) e
          (fun run => runFn cfg "step" run run fuelDefault true) env st record hread hv
        unfold handle
        simp only []
        rcases hsth : stepHandle cfg (.step s sh tot) s (cfg.stepPauseAfter s) e (fun run => runFn cfg "step" run run fuelDefault true) env st with ⟨r, st'⟩
        rw [hsth] at hh
        simp only [] at hh
        cases r with
        | error a => simp only []; rw [hh.1, hst]; exact ⟨rfl, rfl, rfl, rfl⟩
        | ok _ =>
          simp only []
          have := hack st'
          rw [hh.1, hst] at this
          exact this
    have k := key { sys := s0, stale := 0 } rfl rfl
    have ih' := ih (deliver cfg (.step s sh tot) i e env { sys := s0, stale := 0 }).2.sys (by
      intro d hd
      obtain ⟨rec', h1, h2⟩ := hold d (List.mem_cons_of_mem _ hd)
      refine ⟨rec', ?_, h2⟩
      unfold Sys.cur at h1 ⊢
      rw [k.1]; exact h1)
    simp only [] at ih' ⊢
    exact ⟨ih'.1.trans k.1, ih'.2.1.trans k.2.1, ih'.2.2.1.trans k.2.2.1, ih'.2.2.2.trans k.2.2.2⟩

/-- T2: order of the calls in `stepConsumer` and in the updater it ends with -/
theorem C04_tie_order : Tie.stepConsumer = true ∧ Tie.updater = true := by decide +kernel

/-- non-vacuity: the hypotheses are met by a real history (a step advanced run 0 to version 2; event 0 announces
version 1 and is redelivered after a cursor rewind) and the redelivery is a no-op -/
example :
    let cfg : Cfg := { calls := [{ kind := .step, src := 1, dests := [2] }, { kind := .step, src := 2, dests := [3] }] }
    let acts : List Act := [.trigger 0 0 7 {}, .step .outbox {}, .step (.step 1 1 1) {}, .step (.step 1 1 1) { outcomes := [.ret 2 8] }]
    let s := runActs cfg {} acts
    let s' := runActs cfg s [.rewind (.step 1 1 1) 0, .step (.step 1 1 1) { outcomes := [.ret 2 9] }]
    (s.cur 0).map (·.version) = some 2 ∧ s'.runs.map (·.hist.length) = s.runs.map (·.hist.length) ∧ s'.cursor (.step 1 1 1) = 1 := by
  decide +kernel

end WorkflowModel.C04
