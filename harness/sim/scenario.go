package sim

import (
	"fmt"
	"sort"
	"strconv"
	"strings"
	"time"

	"github.com/luno/workflow/verifharness/leandrv"
	"github.com/luno/workflow/verifharness/report"
	"github.com/luno/workflow/verifharness/rng"
)

// Action is one step of a history: an API call, one operation of one background process, or an environment move.
type Action struct {
	Kind   string // step | lease | trigger | callback | ctl | handle | hctl | tick | rewind | dup
	Tok    string // process token (step, lease, rewind)
	Env    Env
	Fid    int
	Start  int
	N      int
	Status int
	Run    int
	H      int
	Op     string
	Sec    int
	Idx    int
}

// Line renders the action for the Lean driver.
func (a Action) Line() string {
	switch a.Kind {
	case "step":
		return fmt.Sprintf("act step %s %s", a.Tok, a.Env)
	case "lease":
		return fmt.Sprintf("act lease %s", a.Tok)
	case "trigger":
		return fmt.Sprintf("act trigger %d %d %d %s", a.Fid, a.Start, a.N, a.Env)
	case "callback":
		return fmt.Sprintf("act callback %d %d %s", a.Fid, a.Status, a.Env)
	case "ctl":
		return fmt.Sprintf("act ctl %d %s %s", a.Run, a.Op, a.Env)
	case "handle":
		return fmt.Sprintf("act handle %d", a.Run)
	case "hctl":
		return fmt.Sprintf("act hctl %d %s %s", a.H, a.Op, a.Env)
	case "tick":
		return fmt.Sprintf("act tick %d", a.Sec)
	case "rewind":
		return fmt.Sprintf("act rewind %s %d", a.Tok, a.Idx)
	case "dup":
		return fmt.Sprintf("act dup %d", a.Idx)
	}
	return "act ?"
}

// Do executes one action on the real workflow and returns the observation line (same format as the model's answer).
func (s *Sim) Do(a Action) (string, error) {
	var obs []string
	res := "-"
	var err error
	switch a.Kind {
	case "step":
		obs, err = s.Step(a.Tok, a.Env)
		if err == errNotEnabled {
			err = nil
			res = "noop"
		}
	case "lease":
		obs, err = s.LeaseLoss(a.Tok)
	case "trigger":
		obs, res = s.Trigger(a.Fid, a.Start, a.N, a.Env)
	case "callback":
		obs, res = s.Callback(a.Fid, a.Status, a.Env)
	case "ctl":
		obs, res = s.CtlFresh(a.Run, a.Op, a.Env)
	case "handle":
		obs, res = s.Handle(a.Run)
	case "hctl":
		obs, res = s.CtlHandle(a.H, a.Op, a.Env)
	case "tick":
		s.Tick(time.Duration(a.Sec) * time.Second)
	case "rewind":
		if !s.Rewind(a.Tok, a.Idx) {
			res = "noop"
		}
	case "dup":
		if !s.Dup(a.Idx) {
			res = "noop"
		}
	}
	o := strings.Join(obs, ";")
	if o == "" {
		o = "-"
	}
	return o + " | " + res + " | " + s.Digest(), err
}

// ---------- configuration generator ----------

// GenConfig draws a workflow from the generated family: random status graphs (DAG edges, joins, declared self-loops),
// each non-terminal status independently given a step / callbacks / timeouts, builder calls permuted, options from small sets.
func GenConfig(r *rng.R, feat Features) Config {
	for {
		c := genConfig(r, feat)
		// the builder panics without a starting point (a status that is a source and never a destination)
		ok := false
		for _, s := range c.Statuses() {
			src, dst := false, false
			for _, e := range c.Edges() {
				if e[0] == s {
					src = true
				}
				if e[1] == s {
					dst = true
				}
			}
			if src && !dst {
				ok = true
			}
		}
		if ok {
			return c
		}
	}
}

func genConfig(r *rng.R, feat Features) Config {
	c := Config{Name: rng.Pick(r, []string{"wf", "my flow", "W-1"}), ErrBackOffSec: rng.Pick(r, []int{1, 5}), OutboxLimit: rng.Pick(r, []int64{1, 2, 1000, 1000}),
		RetryAfterSec: 3600}
	k := 3 + r.Intn(4) // number of statuses
	sts := make([]int, k)
	for i := range sts {
		sts[i] = i + 1
	}
	if r.Chance(1, 6) {
		sts[k-1] = 9
	}
	// forward edges so that every status but the first is reachable and every non-last has an exit
	out := map[int][]int{}
	add := func(a, b int) {
		for _, x := range out[a] {
			if x == b {
				return
			}
		}
		out[a] = append(out[a], b)
	}
	for i := 0; i < k-1; i++ {
		add(sts[i], sts[i+1+r.Intn(min(2, k-1-i))])
	}
	for i := 1; i < k; i++ { // reachability: an edge from some earlier status
		add(sts[r.Intn(i)], sts[i])
	}
	extra := r.Intn(3)
	for i := 0; i < extra; i++ {
		a := r.Intn(k - 1)
		b := a + 1 + r.Intn(k-1-a)
		add(sts[a], sts[b])
	}
	nTerminal := 1 + r.Intn(2)
	if nTerminal > 1 && k > 3 {
		delete(out, sts[k-2])
		// make sure sts[k-2] is still a destination
		add(sts[0], sts[k-2])
	}
	// units per non-terminal status
	var froms []int
	for a := range out {
		froms = append(froms, a)
	}
	sort.Ints(froms)
	for _, a := range froms {
		ds := out[a]
		selfLoop := feat.SelfLoops && r.Chance(1, 6)
		kind := r.Intn(10)
		if feat.TimeoutHeavy && feat.Timeouts && r.Chance(2, 3) {
			kind = 9
		}
		switch {
		case kind < 6 || !feat.Callbacks && !feat.Timeouts:
			d := append([]int{}, ds...)
			if selfLoop {
				d = append(d, a)
			}
			bc := BuilderCall{Kind: "step", From: a, Dests: d}
			if feat.Parallel && r.Chance(1, 4) {
				bc.Parallel = rng.Pick(r, []int{1, 2, 3})
			}
			if feat.Lag && r.Chance(1, 4) {
				bc.LagSec = 60
			}
			if feat.PauseAfter && (r.Chance(1, 3) || feat.ForcePause && r.Bool()) {
				bc.PauseAfter = 1 + r.Intn(3)
			}
			c.Calls = append(c.Calls, bc)
			if feat.Callbacks && r.Chance(1, 5) { // a callback sharing the status with the step
				c.Calls = append(c.Calls, BuilderCall{Kind: "callback", From: a, Dests: ds[:1]})
			}
		case kind < 8 && feat.Callbacks || !feat.Timeouts:
			c.Calls = append(c.Calls, BuilderCall{Kind: "callback", From: a, Dests: ds})
			if r.Chance(1, 4) {
				c.Calls = append(c.Calls, BuilderCall{Kind: "callback", From: a, Dests: ds[len(ds)-1:]})
			}
		default:
			bc := BuilderCall{Kind: "timeout", From: a, Dests: ds}
			if feat.PauseAfter && (r.Chance(1, 3) || feat.ForcePause && r.Chance(1, 3)) {
				bc.PauseAfter = 1 + r.Intn(2)
			}
			c.Calls = append(c.Calls, bc)
			if feat.Callbacks && r.Chance(1, 3) {
				c.Calls = append(c.Calls, BuilderCall{Kind: "callback", From: a, Dests: ds[:1]})
			}
			if feat.TwoTimeouts && r.Chance(1, 4) {
				c.Calls = append(c.Calls, BuilderCall{Kind: "timeout", From: a, Dests: ds[len(ds)-1:]})
			}
		}
	}
	// keep the first status' call first often (it decides the default starting point), otherwise permute
	if r.Chance(1, 2) {
		rng.Shuffle(r, c.Calls)
	}
	if feat.Hooks {
		for _, h := range []int{3, 4, 5} {
			if r.Chance(1, 2) {
				c.Hooks = append(c.Hooks, h)
			}
		}
	}
	c.CustomDelete = feat.Delete && r.Bool()
	if feat.Parallel && r.Chance(1, 5) {
		c.DefaultParallel = rng.Pick(r, []int{1, 2, 3})
	}
	if feat.PauseAfter && (r.Chance(1, 4) || feat.ForcePause && r.Chance(2, 3)) {
		c.DefaultPauseAfter = 1 + r.Intn(3)
	}
	if feat.Lag && r.Chance(1, 6) {
		c.DefaultLagSec = 30
	}
	if feat.Retry && r.Chance(1, 2) {
		c.RetryEnabled = true
		c.RetryAfterSec = rng.Pick(r, []int{60, 3600})
		c.Stamp = r.Chance(2, 3)
	}
	return c
}

type Features struct {
	Callbacks, Timeouts, TwoTimeouts, Hooks, Delete, Parallel, Lag, PauseAfter, Retry, SelfLoops bool
	Faults                                                                                       int // per-mille of operations with an injected fault
	BadOutcomes                                                                                  int // per-mille of user-function outcomes that are not the declared advance
	Nested                                                                                       bool
	Stale                                                                                        bool
	Adversary                                                                                    bool
	Handles                                                                                      bool
	Ctl                                                                                          bool
	LeaseLoss                                                                                    bool
	APIFaults                                                                                    bool
	ErrBias                                                                                      int  // per-mille of non-advance outcomes that are the SAME error e:0 (drives error counting)
	ForcePause                                                                                   bool // error counts configured almost everywhere (default and/or per unit)
	TimeoutHeavy                                                                                 bool // most non-terminal statuses wait on timeouts
	LostInFn                                                                                     bool // hooks / delete functions may fail while their process loses the role ("l:k"); acknowledgements may ignore the cancelled context
}

var AllFeatures = Features{Callbacks: true, Timeouts: true, TwoTimeouts: false, Hooks: true, Delete: true, Parallel: true, Lag: true, PauseAfter: true, Retry: true,
	SelfLoops: true, Faults: 120, BadOutcomes: 250, Nested: true, Stale: false, Adversary: false, Handles: false, Ctl: true, LeaseLoss: true, APIFaults: true}

// ---------- history generator ----------

type Gen struct {
	R     *rng.R
	C     Config
	F     Features
	nextN int
	nFid  int
}

func (g *Gen) outcomeFor(kind string, status int) string {
	c := g.C
	r := g.R
	g.nextN++
	dests := func() []int {
		var ds []int
		for _, b := range c.Calls {
			if b.From == status && ((kind == "step" && b.Kind == "step") || (kind == "callback" && b.Kind == "callback") || (kind == "timeout" && b.Kind == "timeout")) {
				ds = append(ds, b.Dests...)
			}
		}
		return ds
	}
	switch kind {
	case "timer":
		switch {
		case r.Intn(1000) >= g.F.BadOutcomes:
			return fmt.Sprintf("t:%d", rng.Pick(r, []int{30, 60, 3600}))
		case r.Chance(1, 3):
			return "z"
		case r.Chance(1, 2):
			return "ze"
		default:
			return "e:" + strconv.Itoa(r.Intn(4))
		}
	case "hook", "delete":
		if r.Intn(1000) < g.F.BadOutcomes {
			if g.F.LostInFn && r.Bool() { // the process loses its role while the function runs; the function then fails
				return "l:" + strconv.Itoa(r.Intn(2))
			}
			return "e:" + strconv.Itoa(r.Intn(4))
		}
		return "k"
	}
	ds := dests()
	if r.Intn(1000) >= g.F.BadOutcomes && len(ds) > 0 {
		return fmt.Sprintf("r:%d:%d", rng.Pick(r, ds), g.nextN)
	}
	if r.Intn(1000) < g.F.ErrBias {
		return "e:0"
	}
	switch r.Intn(9) {
	case 0:
		return fmt.Sprintf("r:0:%d", g.nextN)
	case 1:
		return fmt.Sprintf("r:-1:%d", g.nextN)
	case 2: // undeclared but existing status
		return fmt.Sprintf("r:%d:%d", rng.Pick(r, c.Statuses()), g.nextN)
	case 3: // unknown status
		return fmt.Sprintf("r:%d:%d", rng.Pick(r, []int{77, -5}), g.nextN)
	case 4:
		return "p"
	case 5:
		return "c"
	case 6:
		if g.F.Nested {
			cbs := []int{}
			for _, b := range c.Calls {
				if b.Kind == "callback" {
					cbs = append(cbs, b.From)
				}
			}
			if len(cbs) > 0 {
				if r.Bool() {
					for _, s := range cbs {
						if s == status {
							return "n:" + strconv.Itoa(status)
						}
					}
				}
				return "n:" + strconv.Itoa(rng.Pick(r, cbs))
			}
		}
		return "e:0"
	default:
		return "e:" + strconv.Itoa(r.Intn(4))
	}
}

// envFor draws the environment for one operation of process tok.
func (g *Gen) envFor(tok string) Env {
	r := g.R
	var outs []string
	parts := strings.Split(tok, ":")
	st := 0
	if len(parts) > 1 {
		st, _ = strconv.Atoi(parts[1])
	}
	kinds := map[string][]string{"st": {"step", "callback", "step", "callback", "callback", "callback"}, "ins": {"timer", "timer", "timer"},
		"pol": {"timeout", "callback", "timeout", "callback", "timeout", "timeout"}, "hk": {"hook"}, "del": {"delete"}}
	for _, k := range kinds[parts[0]] {
		s := st
		outs = append(outs, g.outcomeFor(k, s))
	}
	env := Env{Outcomes: outs}
	if r.Intn(1000) < g.F.Faults {
		env.Faults = map[int]FaultKind{r.Intn(7): FaultKind(1 + r.Intn(3))}
		if r.Chance(1, 6) {
			env.Faults[r.Intn(9)] = FaultKind(1 + r.Intn(3))
		}
	}
	if g.F.Stale && r.Chance(1, 8) {
		env.Stale = 1 + r.Intn(2)
	}
	if g.F.LostInFn && r.Bool() {
		env.AckIgn = true
	}
	return env
}

func (g *Gen) apiEnv(kinds ...string) Env {
	r := g.R
	env := Env{}
	for _, k := range kinds {
		env.Outcomes = append(env.Outcomes, k)
	}
	if g.F.APIFaults && r.Intn(1000) < g.F.Faults {
		env.Faults = map[int]FaultKind{r.Intn(4): FaultKind(1 + r.Intn(2))}
	}
	return env
}

// Next chooses the next action given the simulator's current state.
func (g *Gen) Next(s *Sim) Action {
	r := g.R
	c := g.C
	procs := s.Procs()
	var enabled, work []ProcInfo
	for _, p := range procs {
		if !p.Enabled {
			continue
		}
		enabled = append(enabled, p)
		// processes that have something to do right now
		switch {
		case p.Gate == "recv", p.Gate == "timer":
			work = append(work, p)
		case p.Gate == "role" && p.Tok == "ob" && len(s.W.outbox) > 0:
			work = append(work, p)
		case p.Gate == "role" && p.Tok != "ob":
			work = append(work, p)
		case p.Gate == "poll" && g.dueTimer(s, p.Tok):
			work = append(work, p)
		}
	}
	roll := r.Intn(100)
	nRuns := len(s.W.runs)
	switch {
	case roll < 8 || nRuns == 0:
		fid := r.Intn(2)
		start := 0
		if r.Chance(1, 5) {
			start = rng.Pick(r, append(c.Statuses(), 77, -1))
		}
		g.nextN++
		return Action{Kind: "trigger", Fid: fid, Start: start, N: g.nextN, Env: g.apiEnv()}
	case roll < 14 && g.F.Callbacks:
		var cbs []int
		for _, b := range c.Calls {
			if b.Kind == "callback" {
				cbs = append(cbs, b.From)
			}
		}
		if len(cbs) > 0 {
			st := rng.Pick(r, cbs)
			if r.Chance(1, 10) {
				st = rng.Pick(r, c.Statuses())
			}
			env := g.apiEnv()
			for i := 0; i < 4; i++ {
				env.Outcomes = append(env.Outcomes, g.outcomeFor("callback", st))
			}
			return Action{Kind: "callback", Fid: r.Intn(2), Status: st, Env: env}
		}
	case roll < 20 && g.F.Ctl:
		return Action{Kind: "ctl", Run: r.Intn(nRuns), Op: rng.Pick(r, []string{"pause", "resume", "cancel", "delete", "resume", "delete"}), Env: g.apiEnv()}
	case roll < 22 && g.F.Handles:
		if len(s.handles) > 0 && r.Bool() {
			return Action{Kind: "hctl", H: r.Intn(len(s.handles)), Op: rng.Pick(r, []string{"pause", "resume", "cancel", "delete"}), Env: g.apiEnv()}
		}
		return Action{Kind: "handle", Run: r.Intn(nRuns)}
	case roll < 24 && g.F.LeaseLoss:
		if len(procs) > 0 {
			return Action{Kind: "lease", Tok: rng.Pick(r, procs).Tok}
		}
	case roll < 27 && g.F.Adversary && len(s.W.log) > 0:
		if r.Bool() {
			return Action{Kind: "dup", Idx: r.Intn(len(s.W.log))}
		}
		var cs []string
		for tok, role := range s.Role {
			if s.W.cursors[role] > 0 {
				cs = append(cs, tok)
			}
		}
		sort.Strings(cs)
		if len(cs) > 0 {
			tok := rng.Pick(r, cs)
			return Action{Kind: "rewind", Tok: tok, Idx: r.Intn(s.W.cursors[s.Role[tok]] + 1)}
		}
	case roll < 31:
		return Action{Kind: "tick", Sec: rng.Pick(r, []int{1, 5, 30, 60, 61, 3600, 3601})}
	}
	if len(work) > 0 && !r.Chance(1, 12) {
		p := rng.Pick(r, work)
		return Action{Kind: "step", Tok: p.Tok, Env: g.envFor(p.Tok)}
	}
	if len(enabled) > 0 && r.Chance(1, 3) {
		p := rng.Pick(r, enabled)
		return Action{Kind: "step", Tok: p.Tok, Env: g.envFor(p.Tok)}
	}
	if d := s.NextDeadline(); d > 0 {
		return Action{Kind: "tick", Sec: int((d + time.Second - 1) / time.Second)}
	}
	if len(enabled) > 0 {
		p := rng.Pick(r, enabled)
		return Action{Kind: "step", Tok: p.Tok, Env: g.envFor(p.Tok)}
	}
	return Action{Kind: "tick", Sec: 60}
}

func (g *Gen) dueTimer(s *Sim, tok string) bool {
	st, _ := strconv.Atoi(strings.Split(tok, ":")[1])
	for _, t := range s.W.timers {
		if t.Status == st && !t.Completed && !t.ExpireAt.After(s.W.Clk.Now()) {
			// the poller leaves due timers of paused runs in place (skipped on every poll): not "work"
			if rr, ok := s.W.byID[t.RunID]; ok && int(rr.versions[len(rr.versions)-1].RunState) == 3 {
				continue
			}
			return true
		}
	}
	return false
}

// Drain steps every process fault-free with well-behaved outcomes until nothing has work left (recovery to quiescence).
// Returns false when the bound was hit.
func (s *Sim) Drain(g *Gen, maxOps int, emit func(Action, string)) (bool, error) {
	good := *g
	good.F.Faults = 0
	good.F.BadOutcomes = 0
	for i := 0; i < maxOps; i++ {
		var work []ProcInfo
		for _, p := range s.Procs() {
			if !p.Enabled {
				continue
			}
			switch {
			case p.Gate == "recv", p.Gate == "timer":
				work = append(work, p)
			case p.Gate == "role" && p.Tok == "ob" && len(s.W.outbox) > 0:
				work = append(work, p)
			case p.Gate == "role" && p.Tok != "ob":
				work = append(work, p)
			case p.Gate == "poll" && g.dueTimer(s, p.Tok):
				work = append(work, p)
			}
		}
		var a Action
		if len(work) == 0 {
			d := s.NextDeadline()
			if d == 0 {
				g.nextN = good.nextN
				return true, nil
			}
			a = Action{Kind: "tick", Sec: int((d + time.Second - 1) / time.Second)}
		} else {
			p := work[i%len(work)]
			a = Action{Kind: "step", Tok: p.Tok, Env: good.envFor(p.Tok)}
		}
		line, err := s.Do(a)
		if emit != nil {
			emit(a, line)
		}
		if err != nil {
			return false, err
		}
	}
	g.nextN = good.nextN
	return false, nil
}

// ParseAction is the inverse of Action.Line (replay files and the corpus store action lines).
func ParseAction(line string) (Action, error) {
	f := strings.Fields(line)
	if len(f) < 2 || f[0] != "act" {
		return Action{}, fmt.Errorf("not an action line: %q", line)
	}
	atoi := func(s string) int { n, _ := strconv.Atoi(s); return n }
	parseEnv := func(fs []string) Env {
		env := Env{}
		for _, x := range fs {
			switch {
			case strings.HasPrefix(x, "f=") && x != "f=-":
				env.Faults = map[int]FaultKind{}
				for _, p := range strings.Split(x[2:], ",") {
					k := map[byte]FaultKind{'b': FBefore, 'a': FAfter, 'c': FCancel}[p[len(p)-1]]
					env.Faults[atoi(p[:len(p)-1])] = k
				}
			case strings.HasPrefix(x, "o=") && x != "o=-":
				env.Outcomes = strings.Split(x[2:], ",")
			case strings.HasPrefix(x, "s="):
				env.Stale = atoi(x[2:])
			case x == "a=1":
				env.AckIgn = true
			}
		}
		return env
	}
	a := Action{Kind: f[1]}
	switch f[1] {
	case "step":
		a.Tok, a.Env = f[2], parseEnv(f[3:])
	case "lease":
		a.Tok = f[2]
	case "trigger":
		a.Fid, a.Start, a.N, a.Env = atoi(f[2]), atoi(f[3]), atoi(f[4]), parseEnv(f[5:])
	case "callback":
		a.Fid, a.Status, a.Env = atoi(f[2]), atoi(f[3]), parseEnv(f[4:])
	case "ctl":
		a.Run, a.Op, a.Env = atoi(f[2]), f[3], parseEnv(f[4:])
	case "handle":
		a.Run = atoi(f[2])
	case "hctl":
		a.H, a.Op, a.Env = atoi(f[2]), f[3], parseEnv(f[4:])
	case "tick":
		a.Sec = atoi(f[2])
	case "rewind":
		a.Tok, a.Idx = f[2], atoi(f[3])
	case "dup":
		a.Idx = atoi(f[2])
	default:
		return a, fmt.Errorf("unknown action %q", line)
	}
	return a, nil
}

// ParseConfig is the inverse of Config.Line.
func ParseConfig(line string) (Config, error) {
	c := Config{Name: "wf"}
	atoi := func(s string) int { n, _ := strconv.Atoi(s); return n }
	kinds := map[string]string{"sp": "step", "ck": "callback", "tt": "timeout"}
	for _, kv := range strings.Fields(line)[1:] {
		i := strings.Index(kv, "=")
		if i < 0 {
			return c, fmt.Errorf("bad cfg field %q", kv)
		}
		k, v := kv[:i], kv[i+1:]
		switch k {
		case "name":
			c.Name = strings.ReplaceAll(v, "+", " ")
		case "calls":
			for _, cs := range strings.Split(v, ",") {
				p := strings.Split(cs, ":")
				bc := BuilderCall{Kind: kinds[p[0]], From: atoi(p[1]), Parallel: atoi(p[3]), LagSec: atoi(p[4]), PauseAfter: atoi(p[5])}
				if p[2] != "-" {
					for _, d := range strings.Split(p[2], "/") {
						bc.Dests = append(bc.Dests, atoi(d))
					}
				}
				c.Calls = append(c.Calls, bc)
			}
		case "hooks":
			if v != "-" {
				for _, h := range strings.Split(v, "/") {
					c.Hooks = append(c.Hooks, atoi(h))
				}
			}
		case "cdel":
			c.CustomDelete = v == "1"
		case "dpar":
			c.DefaultParallel = atoi(v)
		case "dpause":
			c.DefaultPauseAfter = atoi(v)
		case "dlag":
			c.DefaultLagSec = atoi(v)
		case "backoff":
			c.ErrBackOffSec = atoi(v)
		case "olimit":
			c.OutboxLimit = int64(atoi(v))
		case "retry":
			c.RetryEnabled = v == "1"
		case "retryafter":
			c.RetryAfterSec = atoi(v)
		case "stamp":
			c.Stamp = v == "1"
		}
	}
	return c, nil
}

// ReplayD is Replay returning the first disagreement as (impl line, model line).
func ReplayD(d *leandrv.Driver, h History) ([]report.Violation, []string, []string, error) {
	cfg, err := ParseConfig(h.Cfg)
	if err != nil {
		return nil, nil, nil, err
	}
	s, err := NewSim(cfg)
	if err != nil {
		return nil, nil, nil, err
	}
	d.Ask(cfg.Line())
	var out, diffs []string
	g := &Gen{R: rng.New(1), C: cfg}
	for _, l := range h.Actions {
		a, err := ParseAction(l)
		if err != nil {
			return nil, nil, nil, err
		}
		line, err := s.Do(a)
		out = append(out, l, "      "+line)
		if !d.Null && len(diffs) == 0 {
			ans, _ := d.Ask(l)
			if ans != line {
				diffs = []string{line, ans}
			}
		}
		if err != nil {
			return s.W.Mon.Viol, out, diffs, err
		}
	}
	if ok, _ := s.Drain(g, 400, nil); ok {
		s.W.Mon.atQuiescence(s)
	}
	if err := s.Stop(); err != nil {
		return s.W.Mon.Viol, out, diffs, err
	}
	return s.W.Mon.Viol, out, diffs, nil
}

// Replay executes a recorded history on the real code (and the model when available), printing each observation.
func Replay(d *leandrv.Driver, h History, verbose bool) ([]report.Violation, []string, error) {
	cfg, err := ParseConfig(h.Cfg)
	if err != nil {
		return nil, nil, err
	}
	s, err := NewSim(cfg)
	if err != nil {
		return nil, nil, err
	}
	defer s.Stop()
	d.Ask(cfg.Line())
	var out, diffs []string
	for _, l := range h.Actions {
		a, err := ParseAction(l)
		if err != nil {
			return nil, nil, err
		}
		line, err := s.Do(a)
		out = append(out, l, "      "+line)
		if !d.Null {
			ans, _ := d.Ask(l)
			if ans != line {
				out = append(out, "MODEL "+ans)
				diffs = append(diffs, l)
			}
		}
		if err != nil {
			return s.W.Mon.Viol, out, err
		}
	}
	return s.W.Mon.Viol, out, nil
}
