import WorkflowModel.Lemmas.Local
import WorkflowModel.Props.C08
import WorkflowModel.Props.Tie
/-! # C12 (engine part) — Timeouts fire only for their own run, once due, while it still waits there

`pollOp`/`pollTimer`/`pollGate` model `pollTimeouts` (since the repair of F10 the run is re-read by the timer's RUN ID),
`processTimeout` one timeout configuration, `inserterFn` the timer function wrapper of the inserter. `dueTimers` is what the
reference timeout store's `ListValid` answers; the bundled stores are tied to it by their own suites (C12 stores). -/
namespace WorkflowModel.C12
open WorkflowModel Engine

/-- `ListValid`: a timer is listed exactly when it is of the status, not completed, and its expiry is not after the
queried instant (cancelled timers are removed from the store). -/
theorem C12_listed_iff (s : Sys) (status : Status) (q : Int) (t : Timer) :
    t ∈ dueTimers s status q ↔ (t ∈ s.timers ∧ t.status = status ∧ t.completed = false ∧ t.expireAt ≤ q) := by
  simp [dueTimers, Gen.G.memTimeoutNotDue]
  intro _
  exact ⟨fun ⟨⟨a, b⟩, c⟩ => ⟨a, b, c⟩, fun ⟨a, b, c⟩ => ⟨⟨a, b⟩, c⟩⟩

/-- The poller's guard on the re-read run: a timeout function can only be reached when the run is still at the timer's
status and is neither finished nor stopped. In every other case the timer is cancelled or skipped (C08). -/
theorem C12_invocation_guard (cfg : Cfg) (p : Proc) (status : Status) (t : Timer) (r : Rec) (env : Env) (st : OpSt)
    (hrun : pollGate cfg p status t r env st ≠ (.ok (), st) ∧
            pollGate cfg p status t r env st ≠ call s!"tcancel({t.id})" (fun s => ("", .ok (), s.timerCancel t.id)) env st) :
    r.status = status ∧ Gen.finished r.runState = false ∧ Gen.stopped r.runState = false := by
  unfold pollGate at hrun
  by_cases h1 : Gen.G.pollCancel r.status status r.runState = true
  · simp only [h1, if_true] at hrun; exact absurd rfl hrun.2
  · by_cases h2 : Gen.G.pollSkipStopped r.runState = true
    · simp only [h1, h2, if_true, if_false] at hrun
      exact absurd rfl hrun.1
    · simp only [Gen.G.pollCancel, Bool.or_eq_true, decide_eq_true_eq, not_or] at h1
      simp only [Gen.G.pollSkipStopped] at h2
      refine ⟨Decidable.not_not.mp h1.1, by simpa using h1.2, by simpa using h2⟩

/-- The run that is re-read — and handed to the timeout function — is the timer's own run: the lookup is by `t.runId`. -/
theorem C12_own_run (cfg : Cfg) (p : Proc) (status : Status) (t : Timer) (env : Env) (st : OpSt) :
    pollTimer cfg p status t env st =
      match lookup t.runId env st with
      | (.ok none, st') => (.error (.err errNotFound), st')
      | (.ok (some r), st') => pollGate cfg p status t r env st'
      | (.error a, st') => (.error a, st') := pollTimer_run cfg p status t env st

/-- A run that has moved on or finished: the timer is cancelled — exactly that timer, by ID — and nothing is invoked. -/
theorem C12_moved_on_cancelled (cfg : Cfg) (p : Proc) (status : Status) (t : Timer) (r : Rec) (env : Env) (st : OpSt)
    (h : r.status ≠ status ∨ Gen.finished r.runState = true) :
    pollGate cfg p status t r env st = call s!"tcancel({t.id})" (fun s => ("", .ok (), s.timerCancel t.id)) env st := by
  have : Gen.G.pollCancel r.status status r.runState = true := by
    simp only [Gen.G.pollCancel, Bool.or_eq_true, decide_eq_true_eq]
    rcases h with h | h
    · exact Or.inl h
    · exact Or.inr h
  simp [pollGate, this]

/-- Cancelling or completing one timer never affects another (the reference store acts on exactly the given ID). -/
theorem C12_cancel_complete_one (s : Sys) (id : Nat) (t : Timer) (hne : t.id ≠ id) :
    (t ∈ (s.timerCancel id).timers ↔ t ∈ s.timers) ∧ (t ∈ (s.timerComplete id).timers ↔ t ∈ s.timers) := by
  constructor
  · simp [Sys.timerCancel, hne]
  · simp only [Sys.timerComplete, List.mem_map]
    constructor
    · rintro ⟨x, hx, rfl⟩
      by_cases hxi : x.id = id
      · simp [hxi] at hne
      · simpa [hxi] using hx
    · intro ht
      exact ⟨t, ht, by simp [hne]⟩

/-- A successful timeout transition marks its own timer completed: `processTimeout` calls Complete with the timer's ID
only after the updater returned without error. -/
theorem C12_completed_after_update (s : Sys) (id : Nat) (t : Timer) (h : t ∈ s.timers) (hid : t.id = id) :
    { t with completed := true } ∈ (s.timerComplete id).timers := by
  simp only [Sys.timerComplete, List.mem_map]
  exact ⟨t, h, by simp [hid]⟩

/-- … and a completed timer is never listed again. -/
theorem C12_completed_never_again (s : Sys) (status : Status) (q : Int) (t : Timer) (hc : t.completed = true) :
    t ∉ dueTimers s status q := by
  intro h
  have := (C12_listed_iff s status q t).mp h
  simp [hc] at this

/-- A timer is created only by the inserter's handling of a timer function's answer, for the run whose arrival is being
handled and the inserter's status, and only for a non-zero time: the zero time creates nothing, an error creates nothing. -/
theorem C12_created_only_non_zero (status : Status) (run : Rec) (now : Int) (out : Outcome) (env : Env) (st : OpSt)
    (h : ∀ sec, out ≠ .timer sec) : (inserterOutcome status run now out env st).2.sys = st.sys := by
  cases out <;> first | rfl | exact absurd rfl (h _)

/-- … and for a non-zero time exactly one timer, of that run and status, expiring at the returned instant. -/
theorem C12_created_timer (status : Status) (run : Rec) (sec : Int) (st : OpSt) (hc : st.cancelled = false) :
    (inserterOutcome status run st.sys.now (.timer sec) {} st).2.sys.timers =
      st.sys.timers ++ [{ id := st.sys.timerN + 1, fid := run.fid, runId := run.runId, status := status, expireAt := st.sys.now + sec }] := by
  simp [inserterOutcome, Engine.call, hc, Sys.timerCreate]

/-- the updater never touches the timers -/
theorem updater_timers (cfg : Cfg) (current next : Status) (run : Rec) (o : Obj) (env : Env) (st : OpSt) :
    (updater cfg current next run o env st).2.sys.timers = st.sys.timers := by
  unfold updater
  rw [bind_run]
  simp only [Engine.getSys]
  rw [bind_run]
  rcases hl : lookup run.runId env st with ⟨v, st'⟩
  cases v with
  | error a => exact congrArg Sys.timers (lookup_err hl).1
  | ok v =>
    obtain ⟨_, hsys, _⟩ := lookup_ok hl
    cases v with
    | none => exact congrArg Sys.timers hsys
    | some latest =>
      simp only []
      split
      · exact congrArg Sys.timers hsys
      · split
        · exact congrArg Sys.timers hsys
        · unfold updateRecord
          rcases (store_run_any cfg _ env st').1 with h | h
          · rw [h, hsys]
          · rw [h, hsys]; rfl

/-- A TIMER IS MARKED COMPLETED ONLY AFTER ITS TRANSITION WAS PERSISTED: in the tail of `processTimeout` (updater, then
Complete), if the updater fails — validation, lookup or the store itself, any fault plan — the timers are exactly what
they were (the timer stays due and the timeout is retried on a later poll), and the failure is returned. -/
theorem C12_complete_only_after_update (cfg : Cfg) (t : Timer) (next : Status) (run mem : Rec) (o : Obj) (env : Env) (st : OpSt) (a : Abort)
    (h : (updater cfg t.status next run o env st).1 = .error a) :
    let r := ((do updater cfg t.status next run o
                  call s!"tcomplete({t.id})" (fun s => ("", .ok (), s.timerComplete t.id))
                  pure mem : M Rec) env st)
    r.2.sys.timers = st.sys.timers ∧ r.1 = .error a := by
  intro r
  have ht := updater_timers cfg t.status next run o env st
  simp only [r]
  rw [bind_run]
  rcases hu : updater cfg t.status next run o env st with ⟨x, st'⟩
  rw [hu] at h ht
  simp only [] at h
  subst h
  exact ⟨ht, rfl⟩

theorem C12_tie_order : Tie.pollTimeouts = true ∧ Tie.processTimeout = true ∧ Tie.inserter = true := by decide +kernel

/-- non-vacuity: timer created on arrival (+60 s), not listed at 59 s, fires at 60 s for its own run, completed afterwards -/
example :
    let cfg : Cfg := { calls := [{ kind := .timeout, src := 1, dests := [2] }] }
    let pre : List Act := [.trigger 0 0 7 {}, .step .outbox {}, .step (.inserter 1) {}, .step (.inserter 1) { outcomes := [.timer 60] },
      .step (.poller 1) {}]
    let s1 := runActs cfg {} (pre ++ [.tick 59, .step (.poller 1) { outcomes := [.ret 2 8] }, .step (.poller 1) { outcomes := [.ret 2 8] }])
    let s2 := runActs cfg s1 [.tick 1, .step (.poller 1) { outcomes := [.ret 2 8] }, .step (.poller 1) { outcomes := [.ret 2 9] }]
    (s1.cur 0).map (·.status) = some 1 ∧ (s2.cur 0).map (fun r => (r.status, r.obj)) = some (2, 9) ∧
      s2.timers.map (·.completed) = [true] := by
  decide +kernel

end WorkflowModel.C12
