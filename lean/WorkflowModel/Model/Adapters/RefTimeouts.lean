/-! # RefTimeouts: the timeout-store contract (reference model for the store clauses of C12) -/
namespace WorkflowModel.RefTimeouts

structure T where
  id : Nat
  wf : Nat
  fid : Nat
  rid : Nat
  status : Int
  expire : Int
  completed : Bool := false
deriving Repr, DecidableEq, Inhabited

structure TStore where
  next : Nat := 1
  ts : List T := []
deriving Repr, Inhabited

def TStore.create (s : TStore) (wf fid rid : Nat) (status expire : Int) : TStore :=
  { next := s.next + 1, ts := s.ts ++ [{ id := s.next, wf := wf, fid := fid, rid := rid, status := status, expire := expire }] }

def TStore.complete (s : TStore) (id : Nat) : TStore :=
  { s with ts := s.ts.map (fun t => if t.id = id then { t with completed := true } else t) }

def TStore.cancel (s : TStore) (id : Nat) : TStore := { s with ts := s.ts.filter (fun t => t.id != id) }

/-- due: matches workflow and status, not completed (cancelled ones are gone), expired before the queried instant.
`incl = true` also lists a timer expiring exactly AT the instant (the property accepts either answer there). -/
def TStore.listValid (s : TStore) (wf : Nat) (status : Int) (now : Int) (incl : Bool) : List T :=
  s.ts.filter (fun t => t.wf == wf && t.status == status && !t.completed && (t.expire < now || (incl && t.expire == now)))

end WorkflowModel.RefTimeouts
