import WorkflowModel.Lemmas.Local
import WorkflowModel.Props.Tie
/-! # C07 — Events are acknowledged only after successful handling; failures are redelivered

`deliver` is the body of `consume` after the lag wait (filter, handle, ack), `recvOp` the part from `Recv` on, `procOp`
the surrounding `runOnce`. Every background consumer kind (steps, timeout inserter, hooks, delete, paused-retry) is an
instance: `handle` dispatches on the process. Statements hold for every environment (fault plan at any adapter call,
user-function outcomes, stale reads). The lag test is `Gen.G.consumeMustWait`/`consumeDelay`, regenerated from
consumer.go. Connector consumers share `consume` in the code; their event round trip (JSON) is outside the model. -/
namespace WorkflowModel.C07
open WorkflowModel Engine

/-- The cursor of the consumer (of any consumer) moves during a delivery only if a filter excluded the event or the
handler returned without error — whatever the consumer kind, whatever the fault plan. -/
theorem C07_ack_after_ok (cfg : Cfg) (p : Proc) (i : Nat) (e : Event) (env : Env) (st : OpSt)
    (hmoved : (deliver cfg p i e env st).2.sys.cursors ≠ st.sys.cursors) :
    filteredOut p i e = true ∨ (handle cfg p e env st).1 = .ok () := by
  by_cases hf : filteredOut p i e = true
  · exact Or.inl hf
  · right
    unfold deliver at hmoved
    simp only [hf, Bool.false_eq_true, if_false] at hmoved
    rw [bind_run] at hmoved
    have hframe := handle_frame cfg p e env st
    rcases hh : handle cfg p e env st with ⟨r, st'⟩
    rw [hh] at hmoved hframe
    cases r with
    | ok _ => rfl
    | error a => exact absurd hframe.1 hmoved

/-- Conversely: when the handler fails (its own error, any adapter error inside it, a crash), no cursor moves and the
delivery fails, so the same event is received again. -/
theorem C07_failure_no_ack (cfg : Cfg) (p : Proc) (i : Nat) (e : Event) (env : Env) (st : OpSt) (a : Abort)
    (hnf : filteredOut p i e = false) (hfail : (handle cfg p e env st).1 = .error a) :
    (deliver cfg p i e env st).2.sys.cursors = st.sys.cursors ∧ (deliver cfg p i e env st).1 = .error a := by
  unfold deliver
  simp only [hnf, Bool.false_eq_true, if_false]
  rw [bind_run]
  have hframe := handle_frame cfg p e env st
  rcases hh : handle cfg p e env st with ⟨r, st'⟩
  rw [hh] at hfail hframe
  simp only [] at hfail
  subst hfail
  exact ⟨hframe.1, rfl⟩

/-- The acknowledgement sets the cursor just past the delivered event: it will not be delivered again, later events will. -/
theorem C07_ack_effect (p : Proc) (i : Nat) (st : OpSt) (hc : st.cancelled = false) :
    ((ack p i) {} st).2.sys.cursor p = i + 1 := by
  simp [Engine.ack, Engine.call, hc, cursor_setCursor]

/-- A failing operation of a consumer that holds its role: the receiver is closed and the process backs off for the
configured error back-off (then re-acquires the role); when the role was lost (context cancelled) it goes straight back
to acquiring the role. In both cases the process is NOT parked on `Recv` any more and never terminates. -/
theorem C07_failure_backoff (cfg : Cfg) (p : Proc) (env : Env) (st : OpSt) (a : Abort)
    (hfail : (procBody cfg p (st.sys.pstate p) env st).1 = .error a) :
    let st' := (procBody cfg p (st.sys.pstate p) env st).2
    (st'.cancelled = false → ((procOp cfg p) env st).2.sys.pstate p = .backoff (st'.sys.now + cfg.backoffSec)) ∧
    (st'.cancelled = true → ((procOp cfg p) env st).2.sys.pstate p = .needRole) := by
  intro st'
  have hps := fun (s : Sys) (x : PState) => pstate_setPState s p x
  unfold procOp
  simp only [bind_run, Engine.getSys, Engine.tryM, Engine.isCancelled]
  rcases hb : procBody cfg p (st.sys.pstate p) env st with ⟨r, st1⟩
  have hst' : st' = st1 := by simp only [st', hb]
  rw [hb] at hfail
  simp only [] at hfail
  subst hfail
  simp only []
  rw [hst']
  constructor
  · intro hc
    simp only [hc, Bool.false_eq_true, if_false]
    rw [bind_run]; simp only [Engine.openedReceiver]
    rw [bind_run]; simp only [Engine.emitIf]
    rw [bind_run]; simp only [Engine.getSys, Engine.modifySys]
    split <;> simp [hps]
  · intro hc
    simp only [hc, if_true]
    rw [bind_run]; simp only [Engine.openedReceiver]
    rw [bind_run]; simp only [Engine.emitIf]
    rw [bind_run]; simp only [Engine.getSys, Engine.modifySys]
    split <;> simp [hps]

/-- Consume lag: an event younger than the lag is not handled at `Recv`; the consumer parks until exactly
`createdAt + lag` on the workflow clock, nothing is written and no function is invoked meanwhile. -/
theorem C07_lag_waits (cfg : Cfg) (p : Proc) (st : OpSt) (i : Nat) (e : Event)
    (hc : st.cancelled = false) (hidx : st.sys.nextIndex p = some i) (hev : st.sys.log[i]? = some e)
    (hlag : 0 < procLag cfg p) (hyoung : st.sys.now - e.createdAt < procLag cfg p) :
    ((recvOp cfg p) {} st).1 = .ok (.lagWait i (e.createdAt + procLag cfg p)) ∧
    ((recvOp cfg p) {} st).2.sys = st.sys ∧ ((recvOp cfg p) {} st).2.outI = st.outI := by
  have hw : Gen.G.consumeMustWait (procLag cfg p) (Gen.G.consumeDelay (procLag cfg p) (st.sys.now - e.createdAt)) = true := by
    simp [Gen.G.consumeMustWait, Gen.G.consumeDelay]; omega
  have hd : st.sys.now + Gen.G.consumeDelay (procLag cfg p) (st.sys.now - e.createdAt) = e.createdAt + procLag cfg p := by
    simp [Gen.G.consumeDelay]; omega
  simp [recvOp, Engine.getSys, bind_run, hidx, hev, Engine.call, hc, hw, hd, Bind.bind, Pure.pure]

/-- … and the parked consumer can only be released once the event has aged by the lag (`Sys.enabled`). -/
theorem C07_lag_release (s : Sys) (p : Proc) (i : Nat) (u : Int) (h : s.pstate p = .lagWait i u) :
    s.enabled p = true ↔ u ≤ s.now := by
  simp [Sys.enabled, h]

/-- An event that is old enough (or no lag configured) is delivered at once. -/
theorem C07_no_lag_delivers (cfg : Cfg) (p : Proc) (st : OpSt) (i : Nat) (e : Event)
    (hc : st.cancelled = false) (hidx : st.sys.nextIndex p = some i) (hev : st.sys.log[i]? = some e)
    (hold : procLag cfg p ≤ 0 ∨ procLag cfg p ≤ st.sys.now - e.createdAt) :
    (recvOp cfg p) {} st =
      ((do deliver cfg p i e; pure PState.atRecv : M PState) {}
        { st with callN := st.callN + 1, obs := ("recv" ++ ("(" ++ evStr i e ++ ")")) :: st.obs }) := by
  have hw : Gen.G.consumeMustWait (procLag cfg p) (Gen.G.consumeDelay (procLag cfg p) (st.sys.now - e.createdAt)) = false := by
    simp [Gen.G.consumeMustWait, Gen.G.consumeDelay]; omega
  simp [recvOp, Engine.getSys, bind_run, hidx, hev, Engine.call, hc, hw, Bind.bind]

/-- Every consumer kind runs the same loop: from the `Recv` gate the operation is `recvOp`, after the lag wait it is
`deliver`; there is no other path to a handler. -/
theorem C07_all_consumers (cfg : Cfg) (p : Proc) :
    procBody cfg p .atRecv = recvOp cfg p := rfl

/-- T2: `consume` — recv, lag timer, filter, ack-if-filtered, handler, ack, each error propagated; `runOnce`; the
per-consumer wrapper opens the receiver, defers Close and calls consume. -/
theorem C07_tie_order : Tie.consume = true ∧ Tie.runOnce = true ∧ Tie.stepProcess = true ∧ Tie.inserter = true ∧
    Tie.runHook = true ∧ Tie.runDelete = true ∧ Tie.autoRetry = true := by decide +kernel

/-- non-vacuity: a failing step (error outcome) is not acknowledged, the consumer backs off, and after the back-off the
same event is delivered again and handled -/
example :
    let cfg : Cfg := { calls := [{ kind := .step, src := 1, dests := [2] }], backoffSec := 5 }
    let pre : List Act := [.trigger 0 0 7 {}, .step .outbox {}, .step (.step 1 1 1) {}]
    let s1 := runActs cfg {} (pre ++ [.step (.step 1 1 1) { outcomes := [.err 0] }])
    let s2 := runActs cfg s1 [.tick 5, .step (.step 1 1 1) {}, .step (.step 1 1 1) {}, .step (.step 1 1 1) { outcomes := [.ret 2 8] }]
    s1.cursor (.step 1 1 1) = 0 ∧ s1.pstate (.step 1 1 1) = .backoff 5 ∧ s2.cursor (.step 1 1 1) = 1 ∧
      (s2.cur 0).map (·.status) = some 2 := by
  decide +kernel

end WorkflowModel.C07
