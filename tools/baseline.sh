#!/bin/bash
# usage: baseline.sh <repo-root>  -- runs the pinned suite (all modules) on that tree, prints names of
# baseline-stable tests that did not pass. exit 0 iff all 278 stable tests pass.
R=${1:-/repo}
export GOFLAGS=-mod=mod GOPROXY=off GOSUMDB=off GOTOOLCHAIN=local
OUT=$(mktemp)
for m in $(cat /w/out/gomods.txt); do
  (cd $R/$m && go test -mod=mod -json -vet=off -count=1 -timeout 25m ./... 2>/dev/null) >> $OUT
done
python3 - "$OUT" <<'PY'
import json,sys
passed=set()
for l in open(sys.argv[1]):
    try: e=json.loads(l)
    except Exception: continue
    if e.get('Action')=='pass' and e.get('Test'):
        passed.add(e['Package']+'::'+e['Test'])
base=json.load(open('/root/.vp/BASELINE.json'))['stable_pass']
missing=[t for t in base if t not in passed]
print('stable',len(base),'passed',len(base)-len(missing))
for t in missing: print('NOT-PASSING',t)
sys.exit(1 if missing else 0)
PY
rc=$?
rm -f $OUT
exit $rc
