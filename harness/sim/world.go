package sim

import (
	"context"
	"encoding/json"
	"fmt"
	"sort"
	"strconv"
	"strings"
	"sync"
	"time"

	"google.golang.org/protobuf/proto"

	"github.com/luno/workflow"
	"github.com/luno/workflow/internal/outboxpb"
)

// ---------- object type of the simulated workflows ----------

// Obj: N carries the value; M is a function of N for well-formed objects (present iff N is odd), so that a
// decode target reused across runs, or a partially persisted object, is visible in the bytes.
type Obj struct {
	N int            `json:"N"`
	M map[string]int `json:"M,omitempty"`
}

func MkObj(n int) Obj {
	o := Obj{N: n}
	if n%2 != 0 {
		o.M = map[string]int{"k": n}
	}
	return o
}

const (
	MarkerToken  = -7777777 // the default delete marker (not JSON)
	GarbageToken = -9999999 // bytes that are not a well-formed object
	ScrubBase    = -1000000 // custom delete maps N to ScrubBase - N
)

// ObjToken canonicalises stored object bytes to the model's integer token. An object without a map carries its value in N;
// an object with a map (odd N) carries it in M["k"], which the custom delete function scrubs IN PLACE (through the map, as a
// deleter that walks a nested structure does), leaving N alone.
func ObjToken(b []byte) int {
	if string(b) == "{'result': 'deleted'}" {
		return MarkerToken
	}
	var o Obj
	if err := json.Unmarshal(b, &o); err != nil {
		return GarbageToken
	}
	if o.M != nil {
		k, ok := o.M["k"]
		if !ok || len(o.M) != 1 || o.N%2 == 0 || (k != o.N && k != ScrubBase-o.N) {
			return GarbageToken
		}
		wb, _ := json.Marshal(o)
		if string(wb) != string(b) {
			return GarbageToken
		}
		return k
	}
	orig := o.N
	if o.N <= ScrubBase/2 {
		orig = ScrubBase - o.N
	}
	want := MkObj(orig)
	if want.M != nil { // an odd value without its map
		return GarbageToken
	}
	want.N = o.N
	wb, _ := json.Marshal(want)
	if string(wb) != string(b) {
		return GarbageToken
	}
	return o.N
}

// Tok: the value an in-memory object carries (see ObjToken)
func (o Obj) Tok() int {
	if k, ok := o.M["k"]; ok && o.M != nil {
		return k
	}
	return o.N
}

type St int

func (s St) String() string { return "Status" + strconv.Itoa(int(s)) }

// ---------- faults and outcomes (the environment of one operation) ----------

type FaultKind int

const (
	FNone   FaultKind = iota
	FBefore           // error, effect did not happen
	FAfter            // error, effect happened
	FCancel           // crash / lease loss: context cancelled, effect did not happen
)

func (k FaultKind) String() string { return [...]string{"", "b", "a", "c"}[k] }

// ErrInjected: what a failing adapter call returns. It wraps context.DeadlineExceeded, as a driver or broker i/o timeout does: to
// the library it is an error like any other (only context.Canceled under a cancelled role means "stop").
var ErrInjected = fmt.Errorf("injected fault: %w", context.DeadlineExceeded)

// Env is everything the environment chooses during one operation.
type Env struct {
	Faults   map[int]FaultKind // by adapter-call index within the operation
	Outcomes []string          // consumed by user-function invocations in order
	Stale    int               // first Lookup of the operation answers with the version this many writes back
	AckIgn   bool              // the streamer's acknowledgement does not look at the context in this operation (as memstreamer's): it takes effect under a cancelled lease
}

func (e Env) String() string {
	var fs []string
	var ks []int
	for k := range e.Faults {
		ks = append(ks, k)
	}
	sort.Ints(ks)
	for _, k := range ks {
		fs = append(fs, fmt.Sprintf("%d%s", k, e.Faults[k]))
	}
	f, o := "-", "-"
	if len(fs) > 0 {
		f = strings.Join(fs, ",")
	}
	if len(e.Outcomes) > 0 {
		o = strings.Join(e.Outcomes, ",")
	}
	a := ""
	if e.AckIgn {
		a = " a=1"
	}
	return fmt.Sprintf("f=%s o=%s s=%d%s", f, o, e.Stale, a)
}

// ---------- the world: reference adapters + trace ----------

type runRec struct {
	id       string
	ord      int
	wf, fid  string
	versions []workflow.Record // every stored record, oldest first
}

type outEntry struct {
	id        string
	ord       int
	wf        string
	data      []byte
	createdAt time.Time
}

// Invocation of a user function, with the persisted record at that moment (for the monitors).
type Invocation struct {
	Kind      string // step | callback | timer | timeout | hook | delete | connector
	Proc      string
	Run       int
	Status    int // status the function is registered on (hooks: run state)
	SeenObj   int
	SeenRS    int
	SeenVer   uint
	Persisted workflow.Record
	Outcome   string
	Now       time.Time
	TimerID   int64
	Nested    bool // the function re-entered the API before returning this outcome
	Depth     int  // 1 = invoked by the library for the operation itself, 2+ = inside a re-entrant API call
}

type World struct {
	mu  sync.Mutex // adapters may be entered concurrently only in shutdown (free-running) mode
	S   *Sched
	Clk Clock

	Name string
	// Det: deterministic user functions (C01 recovery suite); detCtx is what the function about to ask for an outcome was handed
	Det          *Det
	detCtx       detCtx
	usedOutcomes []string
	// IgnoreCancel: the record store takes effect even when the caller's context is already cancelled (as memrecordstore does)
	IgnoreCancel bool
	runs         []*runRec
	byID         map[string]*runRec

	outbox []outEntry
	outN   int

	log     []*workflow.Event
	cursors map[string]int
	rewinds map[string]int // adversarial rewinds of a name's committed position so far
	// deliveries in flight: receiver name -> index delivered and not yet acked
	opens, closes     map[string]int
	sendOpen, sendCls int

	timers []*workflow.TimeoutRecord
	timerN int64

	// environment of the operation in progress
	env   Env
	callN int
	outN2 int
	obs   []string

	// monitors
	Mon *Monitors

	StampUpdatedAt bool // imitate stores that stamp the update time on every write (SQL)
	Invocations    []Invocation

	Cfg Config
	WF  *WF
	sim *Sim

	inUserFn   int
	nestedInOp bool // a user function re-entered the API during the operation in progress
	staleInOp  bool // a stale read was served during the operation in progress
}

func NewWorld(name string) *World {
	s := newSched()
	w := &World{S: s, Clk: Clock{s}, Name: name, byID: map[string]*runRec{}, cursors: map[string]int{}, rewinds: map[string]int{},
		opens: map[string]int{}, closes: map[string]int{}}
	w.Mon = newMonitors(w)
	return w
}

func (w *World) ob(format string, a ...any) { w.obs = append(w.obs, fmt.Sprintf(format, a...)) }

func (w *World) beginOp(env Env) {
	w.env = env
	w.usedOutcomes = nil
	w.callN = 0
	w.outN2 = 0
	w.obs = nil
	w.nestedInOp = false
	w.staleInOp = false
}

func (w *World) nextOutcome() string {
	if w.Det != nil {
		o := w.Det.outcome(w.detCtx)
		w.usedOutcomes = append(w.usedOutcomes, o)
		return o
	}
	if w.outN2 < len(w.env.Outcomes) {
		o := w.env.Outcomes[w.outN2]
		w.outN2++
		return o
	}
	return "x" // exhausted: interpreted as an error outcome by every function kind
}

// call is the single funnel of every adapter call: lease monitor, context honouring, fault plan, trace.
// eff performs the effect and returns the result rendering appended to the label.
func (w *World) call(ctx context.Context, label string, eff func() (string, error)) error {
	w.mu.Lock()
	defer w.mu.Unlock()
	proc := w.S.Current()
	w.Mon.adapterCall(ctx, proc, label)
	if ctx != nil && ctx.Err() != nil && !(w.IgnoreCancel && (label == "store" || label == "lookup" || label == "latest")) && !(w.env.AckIgn && strings.HasPrefix(label, "ack(")) {
		w.ob("%s~", label)
		return ctx.Err()
	}
	k := w.callN
	w.callN++
	switch w.env.Faults[k] {
	case FBefore:
		w.ob("%s!b", label)
		return ErrInjected
	case FAfter:
		res, err := eff()
		w.ob("%s%s!a", label, res)
		_ = err
		return ErrInjected
	case FCancel:
		w.ob("%s!c", label)
		if l := w.leaseOf(ctx); l != nil {
			l.cancel()
		}
		return context.Canceled
	}
	res, err := eff()
	w.ob("%s%s", label, res)
	return err
}

func (w *World) leaseOf(ctx context.Context) *lease {
	if ctx == nil {
		return nil
	}
	l, _ := ctx.Value(leaseKey{}).(*lease)
	return l
}

func (w *World) RunOrd(runID string) int {
	if r, ok := w.byID[runID]; ok {
		return r.ord
	}
	return -1
}

func fidOrd(fid string) int {
	n, err := strconv.Atoi(strings.TrimPrefix(fid, "f"))
	if err != nil {
		return -1
	}
	return n
}

func recStr(w *World, r *workflow.Record) string {
	return fmt.Sprintf("r%d,rs%d,st%d,v%d,o%d", w.RunOrd(r.RunID), int(r.RunState), r.Status, r.Meta.Version, ObjToken(r.Object))
}

// ---------- RecordStore ----------

type Store struct{ w *World }

var _ workflow.RecordStore = Store{}

func cloneRec(r *workflow.Record) workflow.Record {
	c := *r
	c.Object = append([]byte(nil), r.Object...)
	return c
}

func (s Store) Store(ctx context.Context, r *workflow.Record) error {
	w := s.w
	return w.call(ctx, "store", func() (string, error) {
		ed, err := workflow.MakeOutboxEventData(*r)
		if err != nil {
			return "(encode-error)", err
		}
		rr, ok := w.byID[r.RunID]
		if !ok {
			rr = &runRec{id: r.RunID, ord: len(w.runs), wf: r.WorkflowName, fid: r.ForeignID}
			w.runs = append(w.runs, rr)
			w.byID[r.RunID] = rr
		}
		c := cloneRec(r)
		if w.StampUpdatedAt {
			c.UpdatedAt = w.Clk.Now()
		}
		w.Mon.onStore(rr, &c)
		rr.versions = append(rr.versions, c)
		w.outbox = append(w.outbox, outEntry{id: ed.ID, ord: w.outN, wf: ed.WorkflowName, data: ed.Data, createdAt: w.Clk.Now()})
		w.outN++
		return "(" + recStr(w, &c) + ")", nil
	})
}

func (s Store) Lookup(ctx context.Context, runID string) (*workflow.Record, error) {
	w := s.w
	var out *workflow.Record
	err := w.call(ctx, "lookup", func() (string, error) {
		if strings.HasPrefix(w.Mon.opTok, "pol:") && w.inUserFn == 0 && strings.HasSuffix(directCaller("sim.Store.Lookup"), "pollTimeouts[...]") {
			w.Mon.pollerNext() // the poller's own re-read of the run of the next due timer
		}
		rr, ok := w.byID[runID]
		if !ok {
			return "(nf)", workflow.ErrRecordNotFound
		}
		i := len(rr.versions) - 1
		stale := ""
		if w.env.Stale > 0 {
			i -= w.env.Stale
			if i < 0 {
				i = 0
			}
			w.env.Stale = 0
			if i != len(rr.versions)-1 {
				stale = "~stale"
				w.Mon.staleReads++
				w.staleInOp = true
				if w.Mon.after == "" {
					w.Mon.after = "stale-read"
				}
			}
		}
		c := cloneRec(&rr.versions[i])
		out = &c
		if w.inUserFn == 0 {
			w.Mon.onLookupResult(&c)
		}
		return "(" + recStr(w, &c) + ")" + stale, nil
	})
	if err != nil {
		return nil, err
	}
	return out, nil
}

func (s Store) Latest(ctx context.Context, wf, fid string) (*workflow.Record, error) {
	w := s.w
	var out *workflow.Record
	err := w.call(ctx, "latest", func() (string, error) {
		for i := len(w.runs) - 1; i >= 0; i-- {
			rr := w.runs[i]
			if rr.wf == wf && rr.fid == fid {
				c := cloneRec(&rr.versions[len(rr.versions)-1])
				out = &c
				return "(" + recStr(w, &c) + ")", nil
			}
		}
		return "(nf)", workflow.ErrRecordNotFound
	})
	if err != nil {
		return nil, err
	}
	return out, nil
}

func (s Store) List(ctx context.Context, wf string, offset int64, limit int, order workflow.OrderType, filters ...workflow.RecordFilter) ([]workflow.Record, error) {
	w := s.w
	var out []workflow.Record
	err := w.call(ctx, "list", func() (string, error) {
		f := workflow.MakeFilter(filters...)
		var all []workflow.Record
		for _, rr := range w.runs {
			r := rr.versions[len(rr.versions)-1]
			if wf != "" && r.WorkflowName != wf {
				continue
			}
			if f.ByForeignID().Enabled && !f.ByForeignID().Matches(r.ForeignID) {
				continue
			}
			if f.ByStatus().Enabled && !f.ByStatus().Matches(strconv.Itoa(r.Status)) {
				continue
			}
			if f.ByRunState().Enabled && !f.ByRunState().Matches(strconv.Itoa(int(r.RunState))) {
				continue
			}
			all = append(all, cloneRec(&r))
		}
		if order == workflow.OrderTypeDescending {
			for i, j := 0, len(all)-1; i < j; i, j = i+1, j-1 {
				all[i], all[j] = all[j], all[i]
			}
		}
		if limit == 0 {
			limit = 25
		}
		for i := int(offset); i < len(all) && len(out) < limit; i++ {
			out = append(out, all[i])
		}
		return fmt.Sprintf("(%d)", len(out)), nil
	})
	return out, err
}

func (s Store) ListOutboxEvents(ctx context.Context, wf string, limit int64) ([]workflow.OutboxEvent, error) {
	w := s.w
	var out []workflow.OutboxEvent
	err := w.call(ctx, "listoutbox", func() (string, error) {
		var ids []string
		for _, e := range w.outbox {
			if e.wf != wf {
				continue
			}
			if int64(len(out)) >= limit {
				break
			}
			out = append(out, workflow.OutboxEvent{ID: e.id, WorkflowName: e.wf, Data: e.data, CreatedAt: e.createdAt})
			ids = append(ids, strconv.Itoa(e.ord))
		}
		return "(" + strings.Join(ids, " ") + ")", nil
	})
	if err != nil {
		return nil, err
	}
	return out, nil
}

func (w *World) outOrd(id string) int {
	for _, e := range w.outbox {
		if e.id == id {
			return e.ord
		}
	}
	return -1
}

func (s Store) DeleteOutboxEvent(ctx context.Context, id string) error {
	w := s.w
	ord := w.outOrd(id)
	return w.call(ctx, fmt.Sprintf("delout(%d)", ord), func() (string, error) {
		w.Mon.onOutboxDelete(ord)
		var keep []outEntry
		for _, e := range w.outbox {
			if e.id != id {
				keep = append(keep, e)
			}
		}
		w.outbox = keep
		return "", nil
	})
}

// ---------- EventStreamer ----------

type Streamer struct{ w *World }

type Sender struct {
	w     *World
	topic string
}

// Receiver is a log-style receiver (as the Kafka and Reflex adapters are): within its lifetime every Recv returns the event
// after the one returned before, whether or not that one was acknowledged; an acknowledgement commits the position after its
// event; a new receiver of the name starts at the committed position. On code that ends every delivery with an
// acknowledgement or by closing the receiver this is indistinguishable from a receiver that re-serves unacknowledged events
// (the in-memory streamer); code that calls Recv again after an unacknowledged delivery loses the event here.
type Receiver struct {
	w           *World
	topic, name string
	fromLatest  bool
	ctx         context.Context
	closed      bool
	pos         int // position within this receiver's lifetime; -1 = not yet received: start at the committed position
	gen         int // w.rewinds[name] when pos was set: an adversarial rewind of the committed position resets live receivers
}

func (r *Receiver) start() int {
	c := r.w.cursors[r.name]
	if r.pos >= 0 && r.gen == r.w.rewinds[r.name] && r.pos > c {
		return r.pos
	}
	return c
}

var _ workflow.EventStreamer = Streamer{}

func (w *World) topicStr(topic string) string {
	n := strings.ReplaceAll(w.Name, " ", "_")
	switch {
	case topic == n+"-delete":
		return "del"
	case topic == n+"-run-state-change":
		return "rsc"
	case strings.HasPrefix(topic, n+"-"):
		return "s" + strings.TrimPrefix(topic, n+"-")
	}
	return "?" + topic
}

func (st Streamer) NewSender(ctx context.Context, topic string) (workflow.EventSender, error) {
	w := st.w
	var out *Sender
	err := w.call(ctx, "newsender("+w.topicStr(topic)+")", func() (string, error) {
		out = &Sender{w, topic}
		return "", nil
	})
	if err != nil {
		return nil, err
	}
	w.sendOpen++
	return out, nil
}

func (st Streamer) NewReceiver(ctx context.Context, topic, name string, opts ...workflow.ReceiverOption) (workflow.EventReceiver, error) {
	w := st.w
	var o workflow.ReceiverOptions
	for _, f := range opts {
		f(&o)
	}
	var out *Receiver
	err := w.call(ctx, "newrecv("+w.topicStr(topic)+")", func() (string, error) {
		out = &Receiver{w: w, topic: topic, name: name, fromLatest: o.StreamFromLatest, ctx: ctx, pos: -1}
		w.Mon.onNewReceiver(name, topic)
		if o.StreamFromLatest {
			if _, ok := w.cursors[name]; !ok {
				w.cursors[name] = len(w.log)
			}
		}
		return "", nil
	})
	if err != nil {
		return nil, err
	}
	w.opens[name]++
	return out, nil
}

func evStr(w *World, i int, e *workflow.Event) string {
	return fmt.Sprintf("e%d:%s,r%d,v%s,rs%s", i, w.topicStr(e.Headers[workflow.HeaderTopic]), w.RunOrd(e.ForeignID), e.Headers[workflow.HeaderRecordVersion], e.Headers[workflow.HeaderRunState])
}

func (s *Sender) Send(ctx context.Context, foreignID string, statusType int, headers map[workflow.Header]string) error {
	w := s.w
	return w.call(ctx, "send", func() (string, error) {
		// like the bundled in-memory streamer, the log keeps the map it is handed (no copy): a caller that reuses one map for several
		// events rewrites the events it has already published
		e := &workflow.Event{ID: int64(len(w.log)) + 1, ForeignID: foreignID, Type: statusType, Headers: headers, CreatedAt: w.Clk.Now()}
		w.Mon.onSend(s.topic, e)
		w.log = append(w.log, e)
		return "(" + evStr(w, len(w.log)-1, e) + ",t" + strconv.Itoa(statusType) + ")", nil
	})
}

func (s *Sender) Close() error {
	s.w.mu.Lock()
	defer s.w.mu.Unlock()
	s.w.sendCls++
	s.w.ob("sendclose")
	return nil
}

// nextIndex: index of the next event of the receiver's topic at or after its position, or -1.
func (w *World) nextIndex(r *Receiver) int {
	for i := r.start(); i < len(w.log); i++ {
		if w.log[i].Headers[workflow.HeaderTopic] == r.topic {
			return i
		}
	}
	return -1
}

func (r *Receiver) Recv(ctx context.Context) (*workflow.Event, workflow.Ack, error) {
	w := r.w
	proc := w.S.Current()
	if proc == "" {
		proc = r.name
	}
	w.S.park(proc, &parked{kind: gRecv, recv: r, ctx: ctx})
	var ev *workflow.Event
	idx := -1
	err := w.call(ctx, "recv", func() (string, error) {
		idx = w.nextIndex(r)
		if idx < 0 {
			if l := w.S.leases[proc]; l != nil && l.ctx != nil && l.ctx.Err() != nil {
				// released by a role loss, yet the context this Recv was called with is still live: the consumer does not receive under
				// the context handed out with its role, so losing the role does not stop it (C11, C07)
				for _, prop := range []string{"C11", "C07"} {
					w.Mon.violate(prop, "role-loss-stops-work", "receive-continues-after-role-loss:"+strings.SplitN(w.sim.Tok[proc], ":", 2)[0],
						fmt.Sprintf("%s lost its role while waiting in Recv, but the context it receives under is not the role context: it keeps receiving (and handling, and acknowledging) without the role", w.sim.Tok[proc]))
				}
				return "~lost", context.Canceled
			}
			panic("sim: receiver " + r.name + " released with nothing to deliver")
		}
		e := *w.log[idx]
		h := map[workflow.Header]string{}
		for k, v := range w.log[idx].Headers {
			h[k] = v
		}
		e.Headers = h
		ev = &e
		r.pos, r.gen = idx+1, w.rewinds[r.name]
		w.Mon.onRecv(r.name, idx, ev)
		return "(" + evStr(w, idx, ev) + ")", nil
	})
	if err != nil {
		return nil, nil, err
	}
	ack := func() error {
		return w.call(ctx, fmt.Sprintf("ack(e%d)", idx), func() (string, error) {
			w.Mon.onAck(r.name, idx)
			w.cursors[r.name] = idx + 1 // commits the position after this event (whatever was skipped before it is skipped for good)
			return "", nil
		})
	}
	return ev, ack, nil
}

func (r *Receiver) Close() error {
	r.w.mu.Lock()
	defer r.w.mu.Unlock()
	r.w.closes[r.name]++
	r.w.Mon.onClose(r.name)
	r.w.ob("close")
	return nil
}

// ---------- TimeoutStore ----------

type Timeouts struct{ w *World }

var _ workflow.TimeoutStore = Timeouts{}

func (t Timeouts) Create(ctx context.Context, wf, fid, runID string, status int, expireAt time.Time) error {
	w := t.w
	return w.call(ctx, fmt.Sprintf("tcreate(r%d,st%d,%d)", w.RunOrd(runID), status, w.offset(expireAt)), func() (string, error) {
		w.timerN++
		tr := &workflow.TimeoutRecord{ID: w.timerN, WorkflowName: wf, ForeignID: fid, RunID: runID, Status: status, ExpireAt: expireAt, CreatedAt: w.Clk.Now()}
		w.timers = append(w.timers, tr)
		w.Mon.onTimerCreate(tr)
		return "", nil
	})
}

func (t Timeouts) Complete(ctx context.Context, id int64) error {
	w := t.w
	return w.call(ctx, fmt.Sprintf("tcomplete(%d)", id), func() (string, error) {
		w.Mon.onTimerComplete(id)
		for _, tr := range w.timers {
			if tr.ID == id {
				tr.Completed = true
			}
		}
		return "", nil
	})
}

func (t Timeouts) Cancel(ctx context.Context, id int64) error {
	w := t.w
	return w.call(ctx, fmt.Sprintf("tcancel(%d)", id), func() (string, error) {
		var keep []*workflow.TimeoutRecord
		for _, tr := range w.timers {
			if tr.ID != id {
				keep = append(keep, tr)
			}
		}
		w.timers = keep
		w.Mon.onTimerCancel(id)
		return "", nil
	})
}

func (t Timeouts) List(ctx context.Context, wf string) ([]workflow.TimeoutRecord, error) {
	w := t.w
	var out []workflow.TimeoutRecord
	err := w.call(ctx, "tlist", func() (string, error) {
		for _, tr := range w.timers {
			if tr.WorkflowName == wf && !tr.Completed {
				out = append(out, *tr)
			}
		}
		return "", nil
	})
	return out, err
}

func (t Timeouts) ListValid(ctx context.Context, wf string, status int, now time.Time) ([]workflow.TimeoutRecord, error) {
	w := t.w
	proc := w.S.Current()
	w.S.park(proc, &parked{kind: gPoll, ctx: ctx})
	var out []workflow.TimeoutRecord
	err := w.call(ctx, fmt.Sprintf("listvalid(st%d)", status), func() (string, error) {
		var ids []string
		for _, tr := range w.timers {
			if tr.WorkflowName == wf && tr.Status == status && !tr.Completed && !tr.ExpireAt.After(now) {
				out = append(out, *tr)
				ids = append(ids, strconv.FormatInt(tr.ID, 10))
			}
		}
		w.Mon.pollerSaw(out)
		return "(" + strings.Join(ids, " ") + ")", nil
	})
	if err != nil {
		return nil, err
	}
	return out, nil
}

// offset renders an instant as seconds from the simulator epoch ("z" = Go zero time).
func (w *World) offset(t time.Time) int64 {
	if t.IsZero() {
		return -1
	}
	return int64(t.Sub(Epoch) / time.Second)
}

// ---------- RoleScheduler ----------

type Roles struct{ w *World }

var _ workflow.RoleScheduler = Roles{}

func (r Roles) Await(ctx context.Context, role string) (context.Context, context.CancelFunc, error) {
	w := r.w
	if ctx.Err() != nil {
		return nil, nil, ctx.Err()
	}
	w.mu.Lock()
	w.Mon.onAwait(role)
	w.mu.Unlock()
	w.S.park(role, &parked{kind: gRole, ctx: ctx})
	if ctx.Err() != nil {
		return nil, nil, ctx.Err()
	}
	w.S.mu.Lock()
	w.S.leaseN++
	l := &lease{proc: role, id: w.S.leaseN}
	c, cancel := context.WithCancel(context.WithValue(ctx, leaseKey{}, l))
	l.cancel = cancel
	l.ctx = c
	w.S.leases[role] = l
	w.S.mu.Unlock()
	w.mu.Lock()
	w.ob("await")
	w.mu.Unlock()
	return c, cancel, nil
}

// decodeOutbox is used by monitors.
func decodeOutbox(data []byte) (*outboxpb.OutboxRecord, error) {
	var ob outboxpb.OutboxRecord
	err := proto.Unmarshal(data, &ob)
	return &ob, err
}
