#!/usr/bin/env python3
# usage: mutmeta.py <mutant-id>...   -- applies each seeded change to /repo, runs ./check <its property> quick, undoes it, and records
# in seeded/<id>/meta.json which suite flagged it first, under which signature, with which verdict. Never leaves /repo modified.
import json, os, re, subprocess, sys
V = "/verif"
def sh(cmd, **kw):
    return subprocess.run(cmd, shell=True, capture_output=True, text=True, **kw)
for mid in sys.argv[1:]:
    d = os.path.join(V, "seeded", mid)
    meta = json.load(open(os.path.join(d, "meta.json")))
    pid = meta["property"]
    r = sh("git -C /repo apply %s/patch.diff" % d)
    if r.returncode != 0:
        print(mid, "patch does not apply"); continue
    limit = int(os.environ.get("MUT_TIMEOUT", "0"))
    timed_out = False
    try:
        if limit:
            import signal
            pr = subprocess.Popen("cd %s && ./check %s quick" % (V, pid), shell=True, stdout=subprocess.PIPE, stderr=subprocess.STDOUT, text=True, start_new_session=True)
            try:
                out, _ = pr.communicate(timeout=limit)
            except subprocess.TimeoutExpired:
                os.killpg(pr.pid, signal.SIGKILL)
                out, _ = pr.communicate()
                timed_out = True
        else:
            out = sh("cd %s && ./check %s quick" % (V, pid)).stdout
    finally:
        sh("git -C /repo checkout -- . && git -C /repo clean -fdq")
    if timed_out:
        print(mid, "| | | not finished within %ds (search escalated); previous record kept" % limit, flush=True)
        continue
    verdict, suite, sig = "MISSED (OK)", "", ""
    m = re.search(r"^VIOLATION property=\S+ replay=(\S+)( no-failing-input-found)?", out, re.M)
    if m:
        body = json.load(open(m.group(1)))
        if m.group(2):
            verdict = "VIOLATION no-failing-input-found"
            sig = "; ".join(str(x)[:80] for x in (body.get("broken_obligations") or [])[:2])
        else:
            verdict, suite, sig = "VIOLATION with a concrete replay", body.get("suite", ""), body.get("signature", "")
    meta["caught_by"] = {"check": "./check %s quick" % pid, "suite": suite, "signature": sig, "verdict": verdict}
    json.dump(meta, open(os.path.join(d, "meta.json"), "w"), indent=1)
    print(mid, "|", suite, "|", sig, "|", verdict, flush=True)
