import WorkflowModel.Model.Adapters.RefStore
/-! # C17 — In-memory record store behaves like the transactional store contract

The contract is `RefStore`. Here: the properties of the contract the statement names (pages partition the matching
runs; Latest is the newest created run; Store appends exactly one outbox entry; the outbox honours its limit and order;
deleting one entry never affects another). The bundled `memrecordstore` is tied to the contract by the differential
suite `mem-recordstore` (exhaustive short operation sequences + random long ones over a small universe, including
callers that mutate records after storing / reading them). -/
namespace WorkflowModel.C17
open WorkflowModel.RefStore

/-- pages of size `m ≥ 1` at offsets 0, m, 2m, … concatenate to the list -/
theorem pages_concat {α : Type} (l : List α) (m : Nat) (hm : 0 < m) (n : Nat) (hn : l.length ≤ n * m) :
    (List.range n).flatMap (fun k => (l.drop (k * m)).take m) = l := by
  induction n generalizing l with
  | zero => simp at hn; simp [hn]
  | succ n ih =>
    rw [List.range_succ_eq_map, List.flatMap_cons, List.flatMap_map]
    simp only [Nat.zero_mul, List.drop_zero]
    have : ∀ k, ((l.drop ((k + 1) * m)).take m) = (((l.drop m).drop (k * m)).take m) := by
      intro k; rw [List.drop_drop]; congr 2; rw [Nat.add_mul]; omega
    simp only [this]
    rw [ih (l.drop m) (by simp; rw [Nat.add_mul] at hn; omega)]
    exact List.take_append_drop m l

/-- List pages, for any workflow selection, order and filter combination (including multi-value filters): with a positive
limit, the pages at offsets 0, limit, 2·limit, … enumerate exactly the matching runs in creation order (newest first
when descending) — nothing missing, nothing twice. -/
theorem C17_list_pages (s : Store) (wf : Option Nat) (desc : Bool) (f : Filter) (limit : Nat) (hl : 0 < limit) (n : Nat)
    (hn : (s.matching wf desc f).length ≤ n * limit) :
    (List.range n).flatMap (fun k => s.list wf (k * limit) limit desc f) = s.matching wf desc f := by
  unfold Store.list
  have : (if limit = 0 then defaultListLimit else limit) = limit := by simp; omega
  simp only [this]
  exact pages_concat _ limit hl n hn

/-- descending = the ascending enumeration reversed (as a whole, not page by page) -/
theorem C17_desc_is_reverse (s : Store) (wf : Option Nat) (f : Filter) :
    s.matching wf true f = (s.matching wf false f).reverse := by simp [Store.matching]

/-- the matching runs are exactly those that pass the workflow selection and every enabled filter -/
theorem C17_matching_mem (s : Store) (wf : Option Nat) (desc : Bool) (f : Filter) (r : SRec) :
    r ∈ s.matching wf desc f ↔ (r ∈ s.recs ∧ (∀ w, wf = some w → r.wf = w) ∧ f.matches r = true) := by
  unfold Store.matching
  cases desc <;> cases wf <;> simp

/-- Store appends exactly one outbox entry, for that record, and keeps one record per run ID at its creation position -/
theorem C17_store_one_entry (s : Store) (r : SRec) :
    (s.store r).outbox = s.outbox ++ [{ id := s.nextId, wf := r.wf, srec := r }] ∧ (s.store r).lookup r.rid = some r := by
  refine ⟨rfl, ?_⟩
  have key : ∀ l : List SRec, l.any (·.rid == r.rid) = true →
      (l.map (fun x => if x.rid == r.rid then r else x)).find? (·.rid == r.rid) = some r := by
    intro l
    induction l with
    | nil => intro h; simp at h
    | cons x xs ih =>
      intro h
      simp only [List.map_cons, List.find?_cons]
      cases hx : (x.rid == r.rid) with
      | true => simp
      | false =>
        simp only [Bool.false_eq_true, if_false, hx]
        simp only [List.any_cons, hx, Bool.false_or] at h
        exact ih h
  unfold Store.store Store.lookup
  simp only []
  split
  · rename_i h; exact key _ h
  · rename_i h
    rw [List.find?_append]
    have : List.find? (fun x => x.rid == r.rid) s.recs = none := by
      rw [List.find?_eq_none]; intro x hx hc
      exact h (List.any_eq_true.mpr ⟨x, hx, hc⟩)
    simp [this]

/-- a new run becomes the latest of its (workflow, foreign ID); storing an OLDER run again does not change which run is
the latest (the defect of the unrepaired in-memory store, finding F3) -/
theorem C17_latest_new_run (s : Store) (r : SRec) (hnew : s.recs.any (·.rid == r.rid) = false) :
    (s.store r).latest r.wf r.fid = some r := by
  simp [Store.store, Store.latest, hnew]

/-- the outbox lists undeleted entries of the workflow oldest first, at most `limit` (none for limit ≤ 0) -/
theorem C17_outbox_limit (s : Store) (wf : Nat) (limit : Int) :
    (s.listOutbox wf limit).length ≤ limit.toNat ∧ (s.listOutbox wf limit) <+: (s.outbox.filter (·.wf == wf)) := by
  unfold Store.listOutbox
  exact ⟨by simp [List.length_take]; omega, List.take_prefix _ _⟩

/-- deleting one outbox entry never affects another -/
theorem C17_delete_one (s : Store) (id : Nat) (e : OEntry) (h : e.id ≠ id) : e ∈ (s.deleteOutbox id).outbox ↔ e ∈ s.outbox := by
  simp [Store.deleteOutbox, h]

example : (({} : Store).store ⟨0, 0, 0, 1, 1, 5, 1⟩ |>.store ⟨0, 0, 1, 1, 1, 6, 1⟩ |>.store ⟨0, 0, 0, 7, 1, 5, 2⟩).latest 0 0
    = some ⟨0, 0, 1, 1, 1, 6, 1⟩ := by decide

end WorkflowModel.C17
