import WorkflowModel.Model.Text
import WorkflowModel.Lemmas.Text
