import WorkflowModel.Model.Schedule
import WorkflowModel.Props.Tie
/-! # C20 — Schedule triggers at most one run per cron tick and never early

Over the scheduler model (`Schedule.park` / `Schedule.wake`; cron instants as a parameter), for every sequence of
iterations, clock readings (non-decreasing), filter answers, run completions and role losses:
* a run is created only at or after a cron instant that lies strictly after the creation of the latest run (or after the
  instant the iteration started, when there is none);
* between two runs the scheduler creates there is always a cron instant: at most one run per tick;
* nothing is created while the filter answers false or the previous run is unfinished.
The tie is the suite `sim-schedule`: the real `Workflow.Schedule` under the gated simulator clock against this model,
with the tick list computed by the cron library, plus an oracle written from the property text. -/
namespace WorkflowModel.C20
open WorkflowModel.Schedule

theorem next_spec (ticks : List Int) (t d : Int) (h : next ticks t = some d) : d ∈ ticks ∧ t < d := by
  unfold next at h
  exact ⟨List.mem_of_find?_eq_some h, by simpa using List.find?_some h⟩

/-- Never early: when `wake` creates a run at `now`, a timer was armed with a deadline `d` that is a cron instant, the run
is not created before it, and `d` lies strictly after whatever the deadline was computed from. -/
theorem C20_created_not_before_deadline (s : SchState) (now : Int) (f : Bool) (h : (s.wake now f).2 = .created) :
    ∃ d, s.pending = some d ∧ d ≤ now := by
  unfold SchState.wake at h
  cases hp : s.pending with
  | none => simp [hp] at h
  | some d =>
    refine ⟨d, rfl, ?_⟩
    simp only [hp] at h
    by_cases hd : now < d
    · simp [hd] at h
    · omega

/-- the deadline armed by `park` is the first cron instant strictly after the creation of the latest run — or strictly
after the instant of the reading when the foreign ID has no run yet -/
theorem C20_deadline_after_latest (s : SchState) (now d : Int) (h : (s.park now).pending = some d) :
    d ∈ s.ticks ∧ (match s.latest with | some l => l.1 < d | none => now < d) := by
  unfold SchState.park at h
  simp only [] at h
  obtain ⟨h1, h2⟩ := next_spec _ _ _ h
  refine ⟨h1, ?_⟩
  cases hl : s.latest with
  | none => simpa [hl] using h2
  | some l => simpa [hl] using h2

/-- Nothing is created while the filter answers false, while the previous run is unfinished, or before the deadline. -/
theorem C20_no_run_unless (s : SchState) (now : Int) (f : Bool)
    (h : f = false ∨ (∃ c, s.latest = some (c, false)) ∨ (∀ d, s.pending = some d → now < d)) :
    (s.wake now f).1.created = s.created ∧ (s.wake now f).1.latest = s.latest := by
  unfold SchState.wake
  cases hp : s.pending with
  | none => exact ⟨rfl, rfl⟩
  | some d =>
    simp only []
    by_cases hd : now < d
    · simp [hd]
    · simp only [hd, if_false]
      rcases h with h | h | h
      · subst h; exact ⟨rfl, rfl⟩
      · obtain ⟨c, hc⟩ := h
        cases f <;> simp [hc]
      · exact absurd (h d hp) hd

/-- invariant of every reachable state (clock readings non-decreasing along the operation sequence):
* the latest run is the newest created one, every created run is at most as new;
* an armed deadline is a cron instant strictly after every created run;
* between any two consecutive created runs lies a cron instant. -/
structure Inv (s : SchState) (clock : Int) : Prop where
  latest_head : ∀ c, s.created.head? = some c → ∃ b, s.latest = some (c, b)
  latest_none : s.created = [] → s.latest = none
  le_clock : ∀ c ∈ s.created, c ≤ clock
  pending_after : ∀ d, s.pending = some d → d ∈ s.ticks ∧ ∀ c ∈ s.created, c < d
  tick_between : s.created.Pairwise (fun newer older => ∃ τ ∈ s.ticks, older < τ ∧ τ ≤ newer)

theorem inv_init (ticks : List Int) (t0 : Int) : Inv { ticks := ticks } t0 :=
  ⟨by simp, by simp, by simp, by simp, List.Pairwise.nil⟩

theorem inv_park (s : SchState) (clock now : Int) (h : Inv s clock) (hn : clock ≤ now) : Inv (s.park now) now := by
  refine ⟨h.latest_head, h.latest_none, fun c hc => by have := h.le_clock c hc; omega, ?_, h.tick_between⟩
  intro d hd
  obtain ⟨h1, h2⟩ := C20_deadline_after_latest s now d hd
  refine ⟨h1, ?_⟩
  intro c hc
  have hc : c ∈ s.created := hc
  cases hl : s.latest with
  | none =>
    rw [hl] at h2
    have := h.le_clock c hc
    simp only [] at h2; omega
  | some l =>
    rw [hl] at h2
    simp only [] at h2
    -- l is the newest created run; every created run is ≤ it … via the pairwise tick condition
    cases hcr : s.created with
    | nil => rw [hcr] at hc; cases hc
    | cons c0 rest =>
      obtain ⟨b, hb⟩ := h.latest_head c0 (by rw [hcr]; rfl)
      rw [hl] at hb; cases hb
      rw [hcr] at hc
      rcases List.mem_cons.mp hc with rfl | hrest
      · exact h2
      · have hp := h.tick_between
        rw [hcr, List.pairwise_cons] at hp
        obtain ⟨τ, _, h3, h4⟩ := hp.1 c hrest
        omega

theorem inv_wake (s : SchState) (clock now : Int) (f : Bool) (h : Inv s clock) (hn : clock ≤ now) : Inv (s.wake now f).1 now := by
  unfold SchState.wake
  cases hp : s.pending with
  | none => exact ⟨h.latest_head, h.latest_none, fun c hc => by have := h.le_clock c hc; omega, h.pending_after, h.tick_between⟩
  | some d =>
    simp only []
    by_cases hd : now < d
    · simp only [hd, if_true]
      exact ⟨h.latest_head, h.latest_none, fun c hc => by have := h.le_clock c hc; omega, h.pending_after, h.tick_between⟩
    · simp only [hd, if_false]
      have keep : Inv { s with pending := none } now :=
        ⟨h.latest_head, h.latest_none, fun c hc => by have := h.le_clock c hc; omega, by simp, h.tick_between⟩
      cases f with
      | false => exact keep
      | true =>
        simp only [Bool.not_true, Bool.false_eq_true, if_false]
        obtain ⟨hdt, hdc⟩ := h.pending_after d hp
        have mk : Inv { s with pending := none, latest := some (now, false), created := now :: s.created } now := by
          refine ⟨?_, by simp, ?_, by simp, ?_⟩
          · intro c hc; simp at hc; subst hc; exact ⟨false, rfl⟩
          · intro c hc
            rcases List.mem_cons.mp hc with rfl | hc
            · omega
            · have := h.le_clock c hc; omega
          · rw [List.pairwise_cons]
            exact ⟨fun c hc => ⟨d, hdt, hdc c hc, by omega⟩, h.tick_between⟩
        cases hl : s.latest with
        | none => exact mk
        | some l =>
          obtain ⟨c, b⟩ := l
          cases b with
          | false =>
            have e : { s with pending := none, latest := some (c, false) } = { s with pending := none } := by
              cases s; simp_all
            simp only []
            rw [e]; exact keep
          | true => exact mk

theorem inv_finish (s : SchState) (clock : Int) (h : Inv s clock) : Inv s.finish clock := by
  refine ⟨?_, ?_, h.le_clock, h.pending_after, h.tick_between⟩
  · intro c hc
    obtain ⟨b, hb⟩ := h.latest_head c hc
    exact ⟨true, by simp [SchState.finish, hb]⟩
  · intro hc; simp [SchState.finish, h.latest_none hc]

theorem inv_lose (s : SchState) (clock : Int) (h : Inv s clock) : Inv s.lose clock :=
  ⟨h.latest_head, h.latest_none, h.le_clock, by simp [SchState.lose], h.tick_between⟩

/-- operation sequences whose clock readings never go backwards -/
def Timed : Int → List Op → Prop
  | _, [] => True
  | clock, op :: ops => (match op.time with | some n => clock ≤ n ∧ Timed n ops | none => Timed clock ops)

theorem reachable_inv (ops : List Op) (s : SchState) (clock : Int) (h : Inv s clock) (ht : Timed clock ops) :
    ∃ clock', Inv (ops.foldl SchState.apply s) clock' := by
  induction ops generalizing s clock with
  | nil => exact ⟨clock, h⟩
  | cons op ops ih =>
    cases op with
    | park n => exact ih _ n (inv_park s clock n h ht.1) ht.2
    | wake n f => exact ih _ n (inv_wake s clock n f h ht.1) ht.2
    | finish => exact ih _ clock (inv_finish s clock h) ht
    | lose => exact ih _ clock (inv_lose s clock h) ht

/-- AT MOST ONE RUN PER TICK, for every history: between any two runs the scheduler created there is a cron instant —
strictly after the older one, not after the newer one. -/
theorem C20_one_run_per_tick (ticks : List Int) (t0 : Int) (ops : List Op) (ht : Timed t0 ops) :
    ((ops.foldl SchState.apply { ticks := ticks }).created).Pairwise (fun newer older => ∃ τ ∈ ticks, older < τ ∧ τ ≤ newer) := by
  obtain ⟨c, hi⟩ := reachable_inv ops { ticks := ticks } t0 (inv_init ticks t0) ht
  have hticks : ∀ (ops : List Op) (s : SchState), (ops.foldl SchState.apply s).ticks = s.ticks := by
    intro ops
    induction ops with
    | nil => intro s; rfl
    | cons op ops ih =>
      intro s
      simp only [List.foldl_cons]
      rw [ih]
      cases op with
      | park n => rfl
      | wake n f =>
        simp only [SchState.apply, SchState.wake]
        cases s.pending with
        | none => rfl
        | some d =>
          simp only []
          split
          · rfl
          · split
            · rfl
            · split <;> rfl
      | finish => rfl
      | lose => rfl
  have := hi.tick_between
  rw [hticks] at this
  exact this

/-- T2: the call order of `Schedule` (parse the specification first; Latest, Next, wait, filter, Trigger) -/
theorem C20_tie_order : Tie.schedule = true := by decide +kernel

/-- non-vacuity: hourly ticks 3600, 7200; start at 10: first run at 3600 (not before), the second iteration while the
first run is unfinished creates nothing, after it finished the next run comes at 7200 -/
example :
    let s0 : SchState := { ticks := [3600, 7200, 10800] }
    let s1 := (s0.park 10)
    s1.pending = some 3600 ∧ (s1.wake 3599 true).2 = .notDue ∧ (s1.wake 3600 true).2 = .created ∧
    (((s1.wake 3600 true).1.park 3601).wake 7200 true).2 = .inProgress ∧
    (((s1.wake 3600 true).1.finish.park 3601).wake 7200 true).2 = .created := by decide

end WorkflowModel.C20
