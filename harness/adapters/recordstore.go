// Package adapters: direct differential drivers (T3-c) for the bundled adapters against their Lean reference models.
package adapters

import (
	"context"
	"encoding/json"
	"fmt"
	"os"
	"path/filepath"
	"sort"
	"strconv"
	"strings"

	"github.com/luno/workflow"
	"github.com/luno/workflow/adapters/memrecordstore"
	"github.com/luno/workflow/verifharness/leandrv"
	"github.com/luno/workflow/verifharness/report"
	"github.com/luno/workflow/verifharness/rng"
)

// RecordStoreFactory lets the same driver run against memrecordstore and the SQL store (C18).
// The third result, when not nil, reports problems the store's backend saw during the sequence (SQL statement log).
type RecordStoreFactory func() (workflow.RecordStore, func(), func() []string)

func MemRecordStore() (workflow.RecordStore, func(), func() []string) {
	return memrecordstore.New(), func() {}, nil
}

// RSOpts adapts the differential suite to a backend.
type RSOpts struct {
	Prop            string
	Suite           string
	UnorderedOutbox bool     // the backend lists the outbox in no particular order (SQL without ORDER BY): compare as sets under the limit
	CorpusProps     []string // corpus files of these properties are replayed first
}

type rsOp struct {
	Kind                    string // store | lookup | latest | list | outbox | delout | mutstored | mutread | storebad
	Wf, Fid, Rid, Rs, St, O int
	Off, Lim                int
	Desc                    bool
	AllWf                   bool
	Fids, Sts, Rss          []int
	OutIdx                  int
}

func (o rsOp) String() string {
	switch o.Kind {
	case "store":
		return fmt.Sprintf("store w%d f%d r%d rs%d st%d o%d", o.Wf, o.Fid, o.Rid, o.Rs, o.St, o.O)
	case "storebad":
		return fmt.Sprintf("store-invalid-utf8 w%d r%d", o.Wf, o.Rid)
	case "lookup":
		return fmt.Sprintf("lookup r%d", o.Rid)
	case "latest":
		return fmt.Sprintf("latest w%d f%d", o.Wf, o.Fid)
	case "list":
		return fmt.Sprintf("list allwf=%v w%d off=%d lim=%d desc=%v fids=%v sts=%v rss=%v", o.AllWf, o.Wf, o.Off, o.Lim, o.Desc, o.Fids, o.Sts, o.Rss)
	case "outbox":
		return fmt.Sprintf("outbox w%d lim=%d", o.Wf, o.Lim)
	case "delout":
		return fmt.Sprintf("delout #%d", o.OutIdx)
	case "mutstored":
		return "mutate-record-after-store"
	case "mutread":
		return "mutate-record-after-read"
	}
	return o.Kind
}

var stVals = []int{1, 2, 10, 11}

func genOp(r *rng.R) rsOp {
	k := r.Intn(100)
	// a run ID belongs to one (workflow, foreign ID) for ever; three runs share (w0, f0), two share (w1, f0)
	rid := r.Intn(6)
	own := [][2]int{{0, 0}, {0, 0}, {0, 1}, {1, 0}, {1, 0}, {0, 0}}[rid]
	o := rsOp{Wf: own[0], Fid: own[1], Rid: rid, Rs: 1 + r.Intn(7), St: rng.Pick(r, stVals), O: r.Intn(200)}
	if k >= 34 { // reads may ask for any combination
		o.Wf, o.Fid = r.Intn(2), r.Intn(3)
	}
	switch {
	case k < 34:
		o.Kind = "store"
	case k < 44:
		o.Kind = "lookup"
	case k < 56:
		o.Kind = "latest"
	case k < 74:
		o.Kind = "list"
		o.AllWf = r.Chance(1, 4)
		o.Off = r.Intn(4)
		o.Lim = rng.Pick(r, []int{0, 1, 2, 3, 30})
		o.Desc = r.Bool()
		pick := func(vals []int) []int {
			if r.Chance(1, 2) {
				return nil
			}
			n := 1 + r.Intn(2)
			var out []int
			for i := 0; i < n; i++ {
				out = append(out, rng.Pick(r, vals))
			}
			return out
		}
		o.Fids, o.Sts, o.Rss = pick([]int{0, 1, 2}), pick(stVals), pick([]int{1, 2, 3, 5, 7})
		if len(o.Fids) > 1 {
			// foreign ID 2 contains the delimiter of multi-value filters; a multi-value filter that names it is outside what
			// MakeFilter can express (observed, DESIGN §0.3) - it is used in single-value filters, Latest and Store only
			for i, f := range o.Fids {
				if f == 2 {
					o.Fids[i] = 1
				}
			}
		}
	case k < 84:
		o.Kind = "outbox"
		o.Lim = rng.Pick(r, []int{-1, 0, 1, 2, 3, 100})
	case k < 90:
		o.Kind = "delout"
		o.OutIdx = r.Intn(8)
	case k < 94:
		o.Kind = "mutstored"
	case k < 98:
		o.Kind = "mutread"
	default:
		o.Kind = "storebad"
	}
	return o
}

type rsRun struct {
	store    workflow.RecordStore
	d        *leandrv.Driver
	ridKnown map[int]bool
	created  map[string]int // (wf/fid/rid) bookkeeping: version counters
	outIDs   []string       // ordinal -> real outbox ID
	outSeen  map[string]int
	lastSt   *workflow.Record // last record handed to Store (caller still owns it)
	lastRead *workflow.Record // last record returned by Lookup/Latest
	ver      map[int]int
	opts     RSOpts
}

func recOut(r *workflow.Record) string {
	if r == nil {
		return "nf"
	}
	atoi := func(s string) int {
		s = s[1:]
		if i := strings.IndexByte(s, ','); i >= 0 {
			s = s[:i]
		}
		n, _ := strconv.Atoi(s)
		return n
	}
	o := -1
	if len(r.Object) == 1 {
		o = int(r.Object[0])
	}
	return fmt.Sprintf("%d:%d:%d:%d:%d:%d:%d", atoi(r.WorkflowName), atoi(r.ForeignID), atoi(r.RunID), int(r.RunState), r.Status, o, r.Meta.Version)
}

// rsFid: the foreign IDs of the universe. ID 2 contains a comma and its pieces are the IDs 2' = "f2" and 0: a store or
// filter that takes a foreign ID apart answers for the wrong runs.
func rsFid(i int) string {
	if i == 2 {
		return "f2,f0"
	}
	return "f" + strconv.Itoa(i)
}

func (x *rsRun) learnOutbox(ctx context.Context) {
	for wf := 0; wf < 2; wf++ {
		evs, _ := x.store.ListOutboxEvents(ctx, "w"+strconv.Itoa(wf), 1<<30)
		for _, e := range evs {
			if _, ok := x.outSeen[e.ID]; !ok {
				x.outSeen[e.ID] = -1
			}
		}
	}
}

// apply runs one operation on the real store and on the model; returns (impl answer, model answer).
func (x *rsRun) apply(ctx context.Context, o rsOp) (string, string, error) {
	d := x.d
	switch o.Kind {
	case "store":
		x.ver[o.Rid]++
		rec := &workflow.Record{WorkflowName: "w" + strconv.Itoa(o.Wf), ForeignID: rsFid(o.Fid), RunID: "r" + strconv.Itoa(o.Rid),
			RunState: workflow.RunState(o.Rs), Status: o.St, Object: []byte{byte(o.O)}, Meta: workflow.Meta{Version: uint(x.ver[o.Rid])}}
		before := map[string]bool{}
		for id := range x.outSeen {
			before[id] = true
		}
		err := x.store.Store(ctx, rec)
		x.lastSt = rec
		impl := "ok"
		if err != nil {
			impl = "err"
		}
		// learn the ID of the new outbox entry (ordinal = number of successful stores so far)
		evs, _ := x.store.ListOutboxEvents(ctx, rec.WorkflowName, 1<<30)
		for _, e := range evs {
			if !before[e.ID] {
				if _, known := x.outSeen[e.ID]; !known {
					x.outSeen[e.ID] = len(x.outIDs)
					x.outIDs = append(x.outIDs, e.ID)
				}
			}
		}
		m, e2 := d.Ask(fmt.Sprintf("rs store %d %d %d %d %d %d %d", o.Wf, o.Fid, o.Rid, o.Rs, o.St, o.O, x.ver[o.Rid]))
		return impl, m, e2
	case "storebad":
		rec := &workflow.Record{WorkflowName: "w" + strconv.Itoa(o.Wf), ForeignID: "f\xff\xfe", RunID: "r" + strconv.Itoa(o.Rid),
			RunState: 1, Status: 1, Object: []byte{1}, Meta: workflow.Meta{Version: 1}}
		err := x.store.Store(ctx, rec)
		if err == nil {
			return "stored-invalid-utf8", "err", nil
		}
		return "err", "err", nil // the model does nothing: a failed Store must leave no trace
	case "lookup":
		r, err := x.store.Lookup(ctx, "r"+strconv.Itoa(o.Rid))
		if err != nil {
			r = nil
		} else {
			x.lastRead = r
		}
		m, e2 := d.Ask(fmt.Sprintf("rs lookup %d", o.Rid))
		return recOut(r), m, e2
	case "latest":
		r, err := x.store.Latest(ctx, "w"+strconv.Itoa(o.Wf), rsFid(o.Fid))
		if err != nil {
			r = nil
		} else {
			x.lastRead = r
		}
		m, e2 := d.Ask(fmt.Sprintf("rs latest %d %d", o.Wf, o.Fid))
		return recOut(r), m, e2
	case "list":
		var fs []workflow.RecordFilter
		ml := func(xs []int) string {
			if xs == nil {
				return "-"
			}
			var out []string
			for _, v := range xs {
				out = append(out, strconv.Itoa(v))
			}
			return strings.Join(out, ",")
		}
		if o.Fids != nil {
			var fids []string
			for _, f := range o.Fids {
				fids = append(fids, rsFid(f))
			}
			fs = append(fs, workflow.FilterByForeignID(fids...))
		}
		if o.Sts != nil {
			fs = append(fs, workflow.FilterByStatus(o.Sts...))
		}
		if o.Rss != nil {
			var rss []workflow.RunState
			for _, v := range o.Rss {
				rss = append(rss, workflow.RunState(v))
			}
			fs = append(fs, workflow.FilterByRunState(rss...))
		}
		wf, mwf := "w"+strconv.Itoa(o.Wf), strconv.Itoa(o.Wf)
		if o.AllWf {
			wf, mwf = "", "-"
		}
		ord, mord := workflow.OrderTypeAscending, "asc"
		if o.Desc {
			ord, mord = workflow.OrderTypeDescending, "desc"
		}
		rs, err := x.store.List(ctx, wf, int64(o.Off), o.Lim, ord, fs...)
		impl := "-"
		if err != nil {
			impl = "err"
		} else if len(rs) > 0 {
			var out []string
			for i := range rs {
				out = append(out, recOut(&rs[i]))
			}
			impl = strings.Join(out, ",")
		}
		m, e2 := d.Ask(fmt.Sprintf("rs list %s %d %d %s %s %s %s", mwf, o.Off, o.Lim, mord, ml(o.Fids), ml(o.Sts), ml(o.Rss)))
		return impl, m, e2
	case "outbox":
		evs, err := x.store.ListOutboxEvents(ctx, "w"+strconv.Itoa(o.Wf), int64(o.Lim))
		impl := "-"
		if err != nil {
			impl = "err"
		} else if len(evs) > 0 {
			var out []string
			for _, e := range evs {
				ord, ok := x.outSeen[e.ID]
				if !ok {
					ord = -1
				}
				out = append(out, fmt.Sprintf("%d=%s", ord, decodeOutbox(e)))
			}
			impl = strings.Join(out, ",")
		}
		m, e2 := d.Ask(fmt.Sprintf("rs outbox %d %d", o.Wf, o.Lim))
		if x.opts.UnorderedOutbox && e2 == nil && !d.Null {
			// any min(limit, n) distinct entries of the workflow are a correct answer; a negative limit may also be refused
			full, e3 := d.Ask(fmt.Sprintf("rs outbox %d 1000000", o.Wf))
			if e3 != nil {
				return impl, m, e3
			}
			want := projectOutbox(m)
			if impl == "err" && o.Lim < 0 {
				return want, want, nil
			}
			all := map[string]bool{}
			for _, e := range strings.Split(projectOutbox(full), ",") {
				all[e] = true
			}
			n := 0
			if want != "-" {
				n = len(strings.Split(want, ","))
			}
			okSet := impl != "err"
			seen := map[string]bool{}
			cnt := 0
			if impl != "-" && impl != "err" {
				for _, e := range strings.Split(impl, ",") {
					if !all[e] || seen[e] {
						okSet = false
					}
					seen[e] = true
					cnt++
				}
			}
			if okSet && cnt == n {
				return want, want, nil
			}
			return impl, want + " (any " + strconv.Itoa(n) + " of: " + projectOutbox(full) + ")", nil
		}
		// the model renders the whole record; compare id + (wf, rid, st, rs, ver) which is what the entry encodes
		return impl, projectOutbox(m), e2
	case "delout":
		id := "no-such-id"
		mid := 9999
		if o.OutIdx < len(x.outIDs) {
			id, mid = x.outIDs[o.OutIdx], o.OutIdx
		}
		err := x.store.DeleteOutboxEvent(ctx, id)
		impl := "ok"
		if err != nil {
			impl = "err"
		}
		m, e2 := d.Ask(fmt.Sprintf("rs delout %d", mid))
		return impl, m, e2
	case "mutstored":
		if x.lastSt != nil { // the caller keeps using the record it stored
			x.lastSt.Status = 99
			x.lastSt.RunState = 9
			if len(x.lastSt.Object) > 0 {
				x.lastSt.Object[0] = 255
			}
			x.lastSt.Meta.Version = 77
		}
		return "ok", "ok", nil
	case "mutread":
		if x.lastRead != nil { // the caller modifies a record it read
			x.lastRead.Status = 98
			x.lastRead.RunState = 8
			if len(x.lastRead.Object) > 0 {
				x.lastRead.Object[0] = 254
			}
			x.lastRead.Meta.Version = 78
		}
		return "ok", "ok", nil
	}
	return "", "", fmt.Errorf("unknown op")
}

// projectOutbox turns the model's "id=wf:fid:rid:rs:st:obj:ver" into "id=wf:rid:st:rs:ver".
func projectOutbox(m string) string {
	if m == "-" || m == "" {
		return m
	}
	var out []string
	for _, e := range strings.Split(m, ",") {
		kv := strings.SplitN(e, "=", 2)
		f := strings.Split(kv[1], ":")
		out = append(out, fmt.Sprintf("%s=%s:%s:%s:%s:%s", kv[0], f[0], f[2], f[4], f[3], f[6]))
	}
	return strings.Join(out, ",")
}

// latestMisleadsTrigger: Latest named another run than the newest created one, or reported another run state for it (answers
// are "wf:fid:run:runstate:status:object:version" or "-"): Trigger's "is the latest run finished?" is then asked of the wrong record.
func latestMisleadsTrigger(o rsOp, impl, model string) bool {
	if o.Kind != "latest" {
		return false
	}
	a, b := strings.Split(impl, ":"), strings.Split(model, ":")
	if len(a) < 4 || len(b) < 4 {
		return true // one side found a run, the other none
	}
	return a[2] != b[2] || a[3] != b[3]
}

func sigOf(o rsOp) string {
	switch o.Kind {
	case "latest":
		return "latest-differs-from-newest-created-run"
	case "lookup":
		return "lookup-differs"
	case "list":
		if o.Desc {
			return "list-descending-page-differs"
		}
		return "list-page-differs"
	case "outbox":
		if o.Lim <= 0 {
			return "outbox-limit-nonpositive"
		}
		return "outbox-listing-differs"
	}
	return o.Kind + "-differs"
}

// RecordStoreSuite: differential run of a record store against RefStore.
func RecordStoreSuite(mk RecordStoreFactory, prop string) func(d *leandrv.Driver, r *rng.R, res *report.Result, thorough bool) error {
	return RecordStoreSuiteOpt(mk, RSOpts{Prop: prop, Suite: "mem-recordstore", CorpusProps: []string{prop}})
}

func RecordStoreSuiteOpt(mk RecordStoreFactory, opts RSOpts) func(d *leandrv.Driver, r *rng.R, res *report.Result, thorough bool) error {
	prop := opts.Prop
	return func(d *leandrv.Driver, r *rng.R, res *report.Result, thorough bool) error {
		res.Rule = "operation sequences (Store, Lookup, Latest, List with offset/limit/order/multi-value filters, ListOutboxEvents incl. limit<=0, DeleteOutboxEvent incl. unknown ID, " +
			"caller mutations after Store / after a read, Store with an invalid-UTF-8 foreign ID) over 2 workflows x 3 foreign IDs x 5 run IDs x 4 statuses (1,2,10,11) x 7 run states; " +
			"every answer compared with RefStore; non-trivial = sequence with a read after a write whose answer depends on an earlier overwrite/mutation/deletion"
		n, L := 300, 40
		if thorough {
			n, L = 4000, 60
		}
		ctx := context.Background()
		// corpus first: sequences on which the unrepaired store diverged from the reference
		var files []string
		for _, cp := range opts.CorpusProps {
			fs, _ := filepath.Glob("/verif/corpus-adapters/" + cp + "-*.json")
			files = append(files, fs...)
		}
		sort.Strings(files)
		for _, f := range files {
			var body struct {
				Replay struct {
					Suite string `json:"suite"`
					Ops   []rsOp `json:"ops"`
				} `json:"replay"`
			}
			b, err := os.ReadFile(f)
			if err == nil {
				err = json.Unmarshal(b, &body)
			}
			if err != nil {
				return err
			}
			if body.Replay.Suite != "" && !strings.HasSuffix(body.Replay.Suite, "recordstore") {
				continue
			}
			st, closeFn, _ := mk()
			x := &rsRun{store: st, d: d, outSeen: map[string]int{}, ver: map[int]int{}, opts: opts}
			d.Ask("rs reset")
			for i, o := range body.Replay.Ops {
				impl, model, err := x.apply(ctx, o)
				if err != nil {
					closeFn()
					return err
				}
				res.Eval(1)
				if impl != model && !d.Null {
					v := report.Violation{Property: prop, Oracle: "refines-reference-store", Signature: sigOf(o),
						Detail: fmt.Sprintf("[corpus %s] after %d operations, %s answered %q, the reference store answers %q", filepath.Base(f), i, o.String(), impl, model),
						Replay: map[string]any{"ops": body.Replay.Ops[:i+1]}}
					res.Violate(v)
					if latestMisleadsTrigger(o, impl, model) {
						v.Property = "C09"
						res.Violate(v)
					}
					break
				}
			}
			closeFn()
			res.Count("corpus-file")
		}
		for it := 0; it < n; it++ {
			st, closeFn, inspect := mk()
			x := &rsRun{store: st, d: d, outSeen: map[string]int{}, ver: map[int]int{}, opts: opts}
			if _, err := d.Ask("rs reset"); err != nil {
				return err
			}
			var hist []string
			var ops []rsOp
			nt := false
			for i := 0; i < L; i++ {
				o := genOp(r)
				ops = append(ops, o)
				hist = append(hist, o.String())
				impl, model, err := x.apply(ctx, o)
				if err != nil {
					closeFn()
					return err
				}
				res.Eval(1)
				res.Count("op:" + o.Kind)
				if o.Kind == "mutstored" || o.Kind == "mutread" || o.Kind == "delout" || (o.Kind == "store" && x.ver[o.Rid] > 1) {
					nt = true
				}
				if impl != model && !d.Null {
					// the reference IS the property's statement: a disagreement is a violation, replay = the sequence
					v := report.Violation{Property: prop, Oracle: "refines-reference-store", Signature: sigOf(o),
						Detail: fmt.Sprintf("after %d operations, %s answered %q, the reference store answers %q", i, o.String(), impl, model), Replay: map[string]any{"suite": opts.Suite, "ops": append([]rsOp{}, ops...), "readable": append([]string{}, hist...)}}
					res.Violate(v)
					if o.Kind == "outbox" && prop == "C17" { // the outbox listing is also what the relay (C05) lives on
						v.Property = "C05"
						res.Violate(v)
					}
					if latestMisleadsTrigger(o, impl, model) { // Trigger's in-progress check (C09) looks at exactly this answer
						v.Property = "C09"
						res.Violate(v)
					}
					break
				}
			}
			if inspect != nil {
				for _, problem := range inspect() {
					res.Violate(report.Violation{Property: prop, Oracle: "statement-log", Signature: strings.SplitN(problem, ":", 2)[0],
						Detail: problem, Replay: map[string]any{"suite": opts.Suite, "ops": append([]rsOp{}, ops...), "readable": append([]string{}, hist...)}})
				}
			}
			if nt {
				res.NonTrivial(strings.Join(hist, ";"))
			}
			if it < 2 {
				res.Sample(hist[:10])
			}
			res.Traces++
			closeFn()
		}
		return nil
	}
}
