import WorkflowModel.Lemmas.Local
import WorkflowModel.Props.C03Table
import WorkflowModel.Props.C02Engine
import WorkflowModel.Model.HistCheck
/-! # The write history of every run: what a legal history is, and when a write extends one

`HistInv cfg s`: every run of `s` has a non-empty history (newest first) that starts with a legal first write
(`InitOK`) and in which every later write is an `Edge` from the write before it: version + 1, identity and creation time
unchanged, and one of
* a controller edge — status, object and description untouched, run state along the controller table (from the stored
  state, or from the state as user functions see it, `RS.view`),
* a status advance — from Initiated/Running along a declared transition, to Running, or Completed iff the destination is
  terminal,
* the delete consumer's write — from RequestedDataDeleted/DataDeleted to DataDeleted, status untouched.

`Legal cfg R w`: the write `w` extends the histories `R` legally. `HistInv.write`: a legal write preserves the invariant.
Everything else (which operations only make legal writes) is `Lemmas/HistOps.lean`. -/
namespace WorkflowModel.Engine
open WorkflowModel RS

/-- `omega` does not look through the type abbreviations of `Basic.lean` in hypotheses; unfold them first -/
macro "womega" : tactic => `(tactic| (
  (try unfold RunState at *); (try unfold Status at *); (try unfold RunId at *); (try unfold Fid at *);
  (try unfold Obj at *); (try unfold Time at *); omega))

/-- facts about a single persisted record -/
structure RecOK (cfg : Cfg) (w : Rec) : Prop where
  lo : 1 ≤ w.runState
  hi : w.runState ≤ 7
  completedTerminal : w.runState = 5 → Graph.isTerminal cfg.graph w.status = true
  descr : w.descr = w.status

/-- the first write of a run -/
structure InitOK (cfg : Cfg) (w : Rec) : Prop where
  version : w.version = 1
  runState : w.runState = 1
  valid : Graph.isValid cfg.graph w.status = true

/-- `b` is a legal successor of the persisted record `a` -/
structure Edge (cfg : Cfg) (a b : Rec) : Prop where
  version : b.version = a.version + 1
  runId : b.runId = a.runId
  fid : b.fid = a.fid
  createdAt : b.createdAt = a.createdAt
  kind :
    (b.status = a.status ∧ b.obj = a.obj ∧
      (allowed a.runState b.runState = true ∨ allowed (view a.runState) b.runState = true)) ∨
    ((a.runState = 1 ∨ a.runState = 2) ∧ (a.status, b.status) ∈ cfg.edges ∧
      b.runState = (if Graph.isTerminal cfg.graph b.status then 5 else 2)) ∨
    ((a.runState = 7 ∨ a.runState = 6) ∧ b.runState = 6 ∧ b.status = a.status)

/-- a history, newest first -/
def Chain (cfg : Cfg) : List Rec → Prop
  | [] => False
  | [w] => InitOK cfg w
  | b :: a :: t => Edge cfg a b ∧ Chain cfg (a :: t)

structure RunOK (cfg : Cfg) (i : Nat) (x : RunS) : Prop where
  chain : Chain cfg x.hist
  ids : ∀ w ∈ x.hist, w.runId = i ∧ w.fid = x.fid
  recs : ∀ w ∈ x.hist, RecOK cfg w

def HistInv (cfg : Cfg) (s : Sys) : Prop := ∀ i x, s.runs[i]? = some x → RunOK cfg i x

/-- the write `w` extends the histories `R` legally -/
def Legal (cfg : Cfg) (R : List RunS) (w : Rec) : Prop :=
  RecOK cfg w ∧
  match R[w.runId]? with
  | some x => w.fid = x.fid ∧ ∃ h t, x.hist = h :: t ∧ Edge cfg h w
  | none => w.runId = R.length ∧ InitOK cfg w

/-! ## the update time is not part of legality (a stamping store replaces it) -/

theorem RecOK.stamp {cfg : Cfg} {w : Rec} (h : RecOK cfg w) (t : Int) : RecOK cfg { w with updatedAt := t } :=
  ⟨h.lo, h.hi, h.completedTerminal, h.descr⟩

theorem Legal.stamp {cfg : Cfg} {R : List RunS} {w : Rec} (h : Legal cfg R w) (t : Int) :
    Legal cfg R { w with updatedAt := t } := by
  obtain ⟨h1, h2⟩ := h
  refine ⟨h1.stamp t, ?_⟩
  show match R[w.runId]? with
    | some x => w.fid = x.fid ∧ ∃ h t', x.hist = h :: t' ∧ Edge cfg h { w with updatedAt := t }
    | none => w.runId = R.length ∧ InitOK cfg { w with updatedAt := t }
  cases hx : R[w.runId]? with
  | none =>
    rw [hx] at h2
    exact ⟨h2.1, ⟨h2.2.version, h2.2.runState, h2.2.valid⟩⟩
  | some x =>
    rw [hx] at h2
    obtain ⟨hf, hd, tl, hh, he⟩ := h2
    exact ⟨hf, hd, tl, hh, ⟨he.version, he.runId, he.fid, he.createdAt, he.kind⟩⟩

/-! ## a legal write preserves the invariant -/

theorem write_runs (s : Sys) (cfg : Cfg) (r : Rec) :
    (s.write cfg r).runs =
      (let r' := if cfg.stamp then { r with updatedAt := s.now } else r
       if r'.runId < s.runs.length
        then s.runs.mapIdx (fun i x => if i = r'.runId then { x with hist := r' :: x.hist } else x)
        else s.runs ++ [{ fid := r'.fid, hist := [r'] }]) := rfl

/-- the histories after a write of `w` (already stamped) -/
def writeRuns (R : List RunS) (w : Rec) : List RunS :=
  if w.runId < R.length
  then R.mapIdx (fun i x => if i = w.runId then { x with hist := w :: x.hist } else x)
  else R ++ [{ fid := w.fid, hist := [w] }]

theorem write_runs' (s : Sys) (cfg : Cfg) (r : Rec) :
    (s.write cfg r).runs = writeRuns s.runs (if cfg.stamp then { r with updatedAt := s.now } else r) := rfl

theorem writeRuns_get (R : List RunS) (w : Rec) (i : Nat) (hle : w.runId ≤ R.length) :
    (writeRuns R w)[i]? =
      if i = w.runId then
        (match R[i]? with
         | some x => some { x with hist := w :: x.hist }
         | none => if i = R.length then some { fid := w.fid, hist := [w] } else none)
      else R[i]? := by
  unfold writeRuns
  by_cases hlt : w.runId < R.length
  · rw [if_pos hlt, List.getElem?_mapIdx]
    by_cases hi : i = w.runId
    · subst hi
      rw [if_pos rfl]
      have : R[w.runId]? = some R[w.runId] := List.getElem?_eq_getElem hlt
      rw [this]; simp
    · rw [if_neg hi]
      cases R[i]? with
      | none => rfl
      | some x => simp [hi]
  · rw [if_neg hlt]
    by_cases hi : i = w.runId
    · subst hi
      rw [if_pos rfl]
      have hnone : R[w.runId]? = none := List.getElem?_eq_none (by womega)
      rw [hnone]
      by_cases hlen : w.runId = R.length
      · rw [if_pos hlen, hlen]; simp
      · rw [if_neg hlen]
        exact List.getElem?_eq_none (by simp; womega)
    · rw [if_neg hi]
      by_cases hil : i < R.length
      · rw [List.getElem?_append_left hil]
      · have : R[i]? = none := List.getElem?_eq_none (by womega)
        rw [this]
        exact List.getElem?_eq_none (by simp; womega)

theorem HistInv.writeRuns {cfg : Cfg} {s s' : Sys} {w : Rec} (h : HistInv cfg s) (hl : Legal cfg s.runs w)
    (hs : s'.runs = writeRuns s.runs w) : HistInv cfg s' := by
  intro i x hx
  obtain ⟨hrec, hl⟩ := hl
  have hle : w.runId ≤ s.runs.length := by
    cases hR : s.runs[w.runId]? with
    | none => rw [hR] at hl; exact Nat.le_of_eq hl.1
    | some x0 =>
      have := (List.getElem?_eq_some_iff.mp hR).1
      exact Nat.le_of_lt this
  rw [hs, writeRuns_get _ _ _ hle] at hx
  by_cases hi : i = w.runId
  · subst hi
    rw [if_pos rfl] at hx
    cases hR : s.runs[w.runId]? with
    | none =>
      rw [hR] at hx hl
      obtain ⟨hlen, hinit⟩ := hl
      rw [if_pos hlen] at hx
      simp only [Option.some.injEq] at hx
      subst hx
      exact ⟨hinit, by simp, by simpa using hrec⟩
    | some x0 =>
      rw [hR] at hx hl
      simp only [Option.some.injEq] at hx
      subst hx
      obtain ⟨hfid, hd, tl, hh, he⟩ := hl
      have h0 := h _ _ hR
      refine ⟨?_, ?_, ?_⟩
      · show Chain cfg (w :: x0.hist)
        rw [hh]
        exact ⟨he, by rw [← hh]; exact h0.chain⟩
      · intro w' hw'
        simp only [List.mem_cons] at hw'
        rcases hw' with rfl | hw'
        · exact ⟨rfl, hfid⟩
        · exact h0.ids w' hw'
      · intro w' hw'
        simp only [List.mem_cons] at hw'
        rcases hw' with rfl | hw'
        · exact hrec
        · exact h0.recs w' hw'
  · rw [if_neg hi] at hx
    exact h i x hx

theorem HistInv.write {cfg : Cfg} {s : Sys} {r : Rec} (h : HistInv cfg s) (hl : Legal cfg s.runs r) :
    HistInv cfg (s.write cfg r) := by
  refine HistInv.writeRuns h (w := if cfg.stamp then { r with updatedAt := s.now } else r) ?_ (write_runs' s cfg r)
  split
  · exact hl.stamp _
  · exact hl

/-- anything that leaves the histories alone preserves the invariant -/
theorem HistInv.frame {cfg : Cfg} {s s' : Sys} (h : HistInv cfg s) (hr : s'.runs = s.runs) : HistInv cfg s' := by
  intro i x hx; rw [hr] at hx; exact h i x hx

theorem HistInv.init (cfg : Cfg) : HistInv cfg {} := by
  intro i x hx; simp at hx

/-! ## reading the histories -/

/-- the persisted record of a run: the head of its history -/
def curR (R : List RunS) (rid : RunId) : Option Rec := (R[rid]?).bind (·.hist.head?)

theorem cur_eq_curR (s : Sys) (rid : RunId) : s.cur rid = curR s.runs rid := rfl

/-- `h` is the persisted record of its run -/
def IsHead (R : List RunS) (h : Rec) : Prop := ∃ x t, R[h.runId]? = some x ∧ x.hist = h :: t

theorem isHead_of_curR {cfg : Cfg} {s : Sys} (hi : HistInv cfg s) {rid : RunId} {h : Rec} (hc : curR s.runs rid = some h) :
    IsHead s.runs h ∧ h.runId = rid := by
  unfold curR at hc
  cases hx : s.runs[rid]? with
  | none => rw [hx] at hc; simp at hc
  | some x =>
    rw [hx] at hc
    simp only [Option.bind_some] at hc
    cases hh : x.hist with
    | nil => rw [hh] at hc; simp at hc
    | cons a t =>
      rw [hh] at hc
      simp only [List.head?_cons, Option.some.injEq] at hc
      subst hc
      have hid := ((hi _ _ hx).ids a (by rw [hh]; simp)).1
      exact ⟨⟨x, t, by rw [hid]; exact hx, hh⟩, hid⟩

theorem IsHead.recOK {cfg : Cfg} {s : Sys} (hi : HistInv cfg s) {h : Rec} (hh : IsHead s.runs h) : RecOK cfg h := by
  obtain ⟨x, t, hx, hl⟩ := hh
  exact (hi _ _ hx).recs h (by rw [hl]; simp)

theorem IsHead.fid {cfg : Cfg} {s : Sys} (hi : HistInv cfg s) {h : Rec} {x : RunS} (hx : s.runs[h.runId]? = some x)
    (hm : h ∈ x.hist) : h.fid = x.fid := ((hi _ _ hx).ids h hm).2

/-- what `Latest` answers is the persisted record of some run -/
theorem isHead_of_latestRes {cfg : Cfg} {s : Sys} (hi : HistInv cfg s) {fid : Fid} {h : Rec}
    (hl : latestRes s fid = some h) : IsHead s.runs h := by
  unfold latestRes at hl
  cases hf : s.runs.reverse.find? (fun r => r.fid == fid) with
  | none => rw [hf] at hl; simp at hl
  | some x =>
    rw [hf] at hl
    simp only [Option.bind_some] at hl
    have hmem : x ∈ s.runs := by
      have := List.mem_of_find?_eq_some hf
      simpa using this
    obtain ⟨i, hlt, hget⟩ := List.getElem_of_mem hmem
    have hx : s.runs[i]? = some x := by rw [List.getElem?_eq_getElem hlt, hget]
    cases hh : x.hist with
    | nil => rw [hh] at hl; simp at hl
    | cons a t =>
      rw [hh] at hl
      simp only [List.head?_cons, Option.some.injEq] at hl
      subst hl
      have hid := ((hi _ _ hx).ids a (by rw [hh]; simp)).1
      exact ⟨x, t, by rw [hid]; exact hx, hh⟩

/-! ## what an edge implies (the property statements) -/

theorem allowed_view_lifecycle (a b : Int) (h : allowed a b = true ∨ allowed (view a) b = true) : Lifecycle a b := by
  rcases h with h | h
  · exact C03.C03_table_sound a b h
  · unfold view at h
    by_cases ha : a = Gen.RunStateInitiated
    · rw [if_pos ha] at h
      have := C03.C03_table_sound _ _ h
      simp only [Gen.RunStateInitiated] at ha
      simp only [Gen.RunStateRunning] at this
      unfold Lifecycle at *
      womega
    · rw [if_neg ha] at h
      exact C03.C03_table_sound a b h

/-- every edge is a step of the documented run-state machine -/
theorem Edge.lifecycle {cfg : Cfg} {a b : Rec} (h : Edge cfg a b) : Lifecycle a.runState b.runState := by
  rcases h.kind with ⟨_, _, hk⟩ | ⟨ha, _, hb⟩ | ⟨ha, hb, _⟩
  · exact allowed_view_lifecycle _ _ hk
  · unfold Lifecycle; split at hb <;> womega
  · unfold Lifecycle; womega

/-- every edge keeps the status or follows a declared transition -/
theorem Edge.status {cfg : Cfg} {a b : Rec} (h : Edge cfg a b) : b.status = a.status ∨ (a.status, b.status) ∈ cfg.edges := by
  rcases h.kind with ⟨hs, _⟩ | ⟨_, he, _⟩ | ⟨_, _, hs⟩
  · exact Or.inl hs
  · exact Or.inr he
  · exact Or.inl hs

/-- the object changes only with a status advance or the data deletion -/
theorem Edge.obj {cfg : Cfg} {a b : Rec} (h : Edge cfg a b) :
    b.obj = a.obj ∨ (a.status, b.status) ∈ cfg.edges ∨ b.runState = 6 := by
  rcases h.kind with ⟨_, ho, _⟩ | ⟨_, he, _⟩ | ⟨_, hb, _⟩
  · exact Or.inl ho
  · exact Or.inr (Or.inl he)
  · exact Or.inr (Or.inr hb)

/-- after the delete request only RequestedDataDeleted and DataDeleted follow -/
theorem Edge.after_rdd {cfg : Cfg} {a b : Rec} (h : Edge cfg a b) (ha : a.runState = 7 ∨ a.runState = 6) :
    b.runState = 7 ∨ b.runState = 6 := by
  have := h.lifecycle
  unfold Lifecycle at this
  womega

theorem chain_head_after_rdd {cfg : Cfg} : ∀ (l : List Rec) (h : Rec) (t : List Rec), l = h :: t → Chain cfg l →
    (∃ w ∈ l, w.runState = 7) → h.runState = 7 ∨ h.runState = 6
  | [], _, _, hl, _, _ => by simp at hl
  | [w], h, t, hl, _, ⟨w', hw', h7⟩ => by
    simp only [List.cons.injEq] at hl
    simp only [List.mem_singleton] at hw'
    rw [← hl.1, ← hw']; exact Or.inl h7
  | b :: a :: t', h, t, hl, hc, ⟨w', hw', h7⟩ => by
    simp only [List.cons.injEq] at hl
    rw [← hl.1]
    simp only [List.mem_cons] at hw'
    rcases hw' with rfl | hw'
    · exact Or.inl h7
    · have ih := chain_head_after_rdd (a :: t') a t' rfl hc.2 ⟨w', by simpa using hw', h7⟩
      exact hc.1.after_rdd ih

end WorkflowModel.Engine

/-! ## at most one unfinished run per foreign ID (C09) -/
namespace WorkflowModel.Engine
open WorkflowModel RS

theorem lifecycle_finished {a b : Int} (h : Lifecycle a b) (hfin : FinishedSpec a) : FinishedSpec b := by
  unfold Lifecycle at h; unfold FinishedSpec at *; omega

/-- the persisted record of the run is finished (Completed, Cancelled, RequestedDataDeleted, DataDeleted) -/
def FinHead (x : RunS) : Prop := ∃ h t, x.hist = h :: t ∧ FinishedSpec h.runState

/-- every run that has a LATER run of the same foreign ID is finished -/
def OneUnf (R : List RunS) : Prop :=
  ∀ (i j : Nat) (x y : RunS), i < j → R[i]? = some x → R[j]? = some y → x.fid = y.fid → FinHead x

/-- every run of the foreign ID is finished -/
def OthersFin (R : List RunS) (fid : Fid) : Prop := ∀ (i : Nat) (x : RunS), R[i]? = some x → x.fid = fid → FinHead x

/-- a write that creates a run: every existing run of its foreign ID is finished -/
def LegalNew (R : List RunS) (w : Rec) : Prop := R[w.runId]? = none → OthersFin R w.fid

theorem legalNew_existing {R : List RunS} {w : Rec} {x : RunS} (hx : R[w.runId]? = some x) : LegalNew R w := by
  intro hn; rw [hx] at hn; cases hn

theorem OneUnf.writeRuns {cfg : Cfg} {s : Sys} {w : Rec} (ho : OneUnf s.runs) (hl : Legal cfg s.runs w)
    (hn : LegalNew s.runs w) : OneUnf (writeRuns s.runs w) := by
  obtain ⟨_, hl⟩ := hl
  have hle : w.runId ≤ s.runs.length := by
    cases hR : s.runs[w.runId]? with
    | none => rw [hR] at hl; exact Nat.le_of_eq hl.1
    | some x0 => exact Nat.le_of_lt (List.getElem?_eq_some_iff.mp hR).1
  unfold OneUnf
  intro i j x y hij hx hy hfid
  rw [writeRuns_get _ _ _ hle] at hx hy
  cases hR : s.runs[w.runId]? with
  | some x0 =>
    rw [hR] at hl
    obtain ⟨_, h0, t0, hh0, he⟩ := hl
    -- the run written to keeps its foreign ID; every other run is untouched
    have orig : ∀ k z, (if k = w.runId then (match s.runs[k]? with
          | some x => some { x with hist := w :: x.hist }
          | none => if k = s.runs.length then some { fid := w.fid, hist := [w] } else none) else s.runs[k]?) = some z →
        ∃ z0, s.runs[k]? = some z0 ∧ z0.fid = z.fid ∧ (k ≠ w.runId → z = z0) ∧ (k = w.runId → z = { z0 with hist := w :: z0.hist }) := by
      intro k z hz
      by_cases hk : k = w.runId
      · rw [if_pos hk] at hz
        subst hk
        rw [hR] at hz
        simp only [Option.some.injEq] at hz
        exact ⟨x0, hR, by rw [← hz], fun h => absurd rfl h, fun _ => hz.symm⟩
      · rw [if_neg hk] at hz
        exact ⟨z, hz, rfl, fun _ => rfl, fun h => absurd h hk⟩
    obtain ⟨x', hx', hxf, hxne, hxeq⟩ := orig i x hx
    obtain ⟨y', hy', hyf, _, _⟩ := orig j y hy
    have hfin := ho i j x' y' hij hx' hy' (by rw [hxf, hyf]; exact hfid)
    by_cases hi : i = w.runId
    · have hxx := hxeq hi
      subst hi
      rw [hR] at hx'
      cases hx'
      obtain ⟨h1, t1, hh1, hf1⟩ := hfin
      rw [hh0] at hh1
      cases hh1
      exact ⟨w, x0.hist, by rw [hxx], lifecycle_finished he.lifecycle hf1⟩
    · rw [hxne hi]; exact hfin
  | none =>
    rw [hR] at hl
    have hlen := hl.1
    have hof := hn hR
    by_cases hi : i = w.runId
    · -- the new run is the last one: nothing comes after it
      exfalso
      have hj : j ≠ w.runId := by womega
      rw [if_neg hj] at hy
      have := (List.getElem?_eq_some_iff.mp hy).1
      womega
    · rw [if_neg hi] at hx
      by_cases hj : j = w.runId
      · rw [if_pos hj] at hy
        subst hj
        rw [hR] at hy
        rw [if_pos hlen] at hy
        simp only [Option.some.injEq] at hy
        exact hof i x hx (by rw [hfid, ← hy])
      · rw [if_neg hj] at hy
        exact ho i j x y hij hx hy hfid

/-- what `Latest` looks at: the last run of the foreign ID -/
theorem othersFin_of_last {s : Sys} (ho : OneUnf s.runs) (fid : Fid)
    (hlast : ∀ y, s.runs.reverse.find? (fun r => r.fid == fid) = some y → FinHead y) : OthersFin s.runs fid := by
  unfold OthersFin
  intro i x hx hxf
  cases hf : s.runs.reverse.find? (fun r => r.fid == fid) with
  | none =>
    exfalso
    have := List.find?_eq_none.mp hf x (by simpa using List.mem_of_getElem? hx)
    simp [hxf] at this
  | some y =>
    have hy := hlast y hf
    obtain ⟨hp, as, bs, hsplit, has⟩ := List.find?_eq_some_iff_append.mp hf
    have hR : s.runs = bs.reverse ++ y :: as.reverse := by
      have := congrArg List.reverse hsplit
      simpa using this
    have hjy : s.runs[bs.reverse.length]? = some y := by
      rw [hR, List.getElem?_append_right (Nat.le_refl _)]; simp
    by_cases hlt : i < bs.reverse.length
    · exact ho i bs.reverse.length x y hlt hx hjy (by rw [hxf]; exact (eq_of_beq hp).symm)
    · by_cases heq : i = bs.reverse.length
      · rw [heq, hjy] at hx; cases hx; exact hy
      · exfalso
        have hgt : bs.reverse.length < i := by omega
        rw [hR, List.getElem?_append_right (by omega)] at hx
        have hpos : 0 < i - bs.reverse.length := by omega
        obtain ⟨k, hk⟩ : ∃ k, i - bs.reverse.length = k + 1 := ⟨i - bs.reverse.length - 1, by omega⟩
        rw [hk, List.getElem?_cons_succ] at hx
        have hmem : x ∈ as := by simpa using List.mem_of_getElem? hx
        have := has x hmem
        simp [hxf] at this

end WorkflowModel.Engine

/-! ## the executable mirror `histOK` decides the invariant -/
namespace WorkflowModel.Engine
open WorkflowModel RS

theorem recOKb_iff (cfg : Cfg) (w : Rec) : recOKb cfg w = true ↔ RecOK cfg w := by
  unfold recOKb
  constructor
  · intro h
    simp only [Bool.and_eq_true, decide_eq_true_eq, Bool.or_eq_true, bne_iff_ne, ne_eq, beq_iff_eq] at h
    obtain ⟨⟨⟨h1, h2⟩, h3⟩, h4⟩ := h
    exact ⟨h1, h2, fun h5 => by rcases h3 with h3 | h3; exact absurd h5 h3; exact h3, h4⟩
  · intro h
    simp only [Bool.and_eq_true, decide_eq_true_eq, Bool.or_eq_true, bne_iff_ne, ne_eq, beq_iff_eq]
    refine ⟨⟨⟨h.lo, h.hi⟩, ?_⟩, h.descr⟩
    by_cases h5 : w.runState = 5
    · exact Or.inr (h.completedTerminal h5)
    · exact Or.inl h5

theorem initOKb_iff (cfg : Cfg) (w : Rec) : initOKb cfg w = true ↔ InitOK cfg w := by
  unfold initOKb
  simp only [Bool.and_eq_true, beq_iff_eq]
  exact ⟨fun ⟨⟨a, b⟩, c⟩ => ⟨a, b, c⟩, fun h => ⟨⟨h.version, h.runState⟩, h.valid⟩⟩

theorem edgeb_iff (cfg : Cfg) (a b : Rec) : edgeb cfg a b = true ↔ Edge cfg a b := by
  unfold edgeb
  simp only [Bool.and_eq_true, Bool.or_eq_true, beq_iff_eq, List.contains_iff_mem]
  constructor
  · rintro ⟨⟨⟨⟨h1, h2⟩, h3⟩, h4⟩, hk⟩
    refine ⟨h1, h2, h3, h4, ?_⟩
    rcases hk with (⟨⟨k1, k2⟩, k3⟩ | ⟨⟨k1, k2⟩, k3⟩) | ⟨⟨k1, k2⟩, k3⟩
    · exact Or.inl ⟨k1, k2, k3⟩
    · exact Or.inr (Or.inl ⟨k1, k2, by rw [k3]⟩)
    · exact Or.inr (Or.inr ⟨k1, k2, k3⟩)
  · intro h
    refine ⟨⟨⟨⟨h.version, h.runId⟩, h.fid⟩, h.createdAt⟩, ?_⟩
    rcases h.kind with ⟨k1, k2, k3⟩ | ⟨k1, k2, k3⟩ | ⟨k1, k2, k3⟩
    · exact Or.inl (Or.inl ⟨⟨k1, k2⟩, k3⟩)
    · exact Or.inl (Or.inr ⟨⟨k1, k2⟩, by rw [k3]⟩)
    · exact Or.inr ⟨⟨k1, k2⟩, k3⟩

theorem chainb_iff (cfg : Cfg) : ∀ l : List Rec, chainb cfg l = true ↔ Chain cfg l
  | [] => by simp [chainb, Chain]
  | [w] => by simp [chainb, Chain, initOKb_iff]
  | b :: a :: t => by
    simp only [chainb, Chain, Bool.and_eq_true, edgeb_iff]
    rw [chainb_iff cfg (a :: t)]

theorem runOKb_iff (cfg : Cfg) (i : Nat) (x : RunS) : runOKb cfg i x = true ↔ RunOK cfg i x := by
  unfold runOKb
  simp only [Bool.and_eq_true, chainb_iff, List.all_eq_true, beq_iff_eq, recOKb_iff]
  exact ⟨fun ⟨c, h⟩ => ⟨c, fun w hw => ⟨(h w hw).1.1, (h w hw).1.2⟩, fun w hw => (h w hw).2⟩,
    fun h => ⟨h.chain, fun w hw => ⟨h.ids w hw, h.recs w hw⟩⟩⟩

/-- the executable check is exactly the invariant -/
theorem histOK_iff (cfg : Cfg) (s : Sys) : histOK cfg s = true ↔ HistInv cfg s := by
  unfold histOK HistInv
  simp only [List.all_eq_true, runOKb_iff]
  constructor
  · intro h i x hx
    have hlt := (List.getElem?_eq_some_iff.mp hx).1
    have hget : s.runs[i] = x := by
      have := List.getElem?_eq_getElem hlt
      rw [this] at hx; exact Option.some.inj hx
    have hmem : (x, i) ∈ s.runs.zipIdx := by
      rw [List.mem_zipIdx_iff_getElem?]
      exact hx
    exact h (x, i) hmem
  · intro h p hp
    obtain ⟨x, i⟩ := p
    rw [List.mem_zipIdx_iff_getElem?] at hp
    exact h i x hp

end WorkflowModel.Engine

namespace WorkflowModel.Engine
open WorkflowModel RS

theorem finHeadB_of {x : RunS} (h : FinHead x) : finHeadB x = true := by
  obtain ⟨h0, t, hl, hf⟩ := h
  unfold finHeadB
  rw [hl]
  simp only [List.head?_cons]
  unfold FinishedSpec at hf
  rcases hf with h | h | h | h <;> simp [h]

/-- the executable check `oneUnfB` is implied by the invariant -/
theorem oneUnfB_of {s : Sys} (h : OneUnf s.runs) : oneUnfB s = true := by
  unfold oneUnfB
  simp only [List.all_eq_true, List.mem_range]
  intro i _ j _
  by_cases hij : i < j
  · simp only [hij, decide_true, Bool.not_true, Bool.false_or]
    cases hx : s.runs[i]? with
    | none => rfl
    | some x =>
      cases hy : s.runs[j]? with
      | none => rfl
      | some y =>
        simp only
        by_cases hf : x.fid = y.fid
        · have := finHeadB_of (h i j x y hij hx hy hf)
          simp [this]
        · simp [hf]
  · simp [hij]

end WorkflowModel.Engine
