package live

import (
	"context"
	"fmt"
	"reflect"
	"strconv"
	"sync"
	"time"

	"github.com/luno/workflow"
	"github.com/luno/workflow/adapters/memrecordstore"
	"github.com/luno/workflow/adapters/memrolescheduler"
	"github.com/luno/workflow/adapters/memstreamer"
	"github.com/luno/workflow/adapters/memtimeoutstore"
	"github.com/luno/workflow/verifharness/leandrv"
	"github.com/luno/workflow/verifharness/report"
	"github.com/luno/workflow/verifharness/rng"
)

// The connector consumer PROCESSES of a real workflow (Workflow.Run -> connectorConsumer -> consume), not their parts:
//   C10: with a parallel count of n on a connector (own, or the workflow's default) every connector event is handled by
//        exactly one of the n shard processes;
//   C07: the event that reaches the connector function is the event the connector's stream delivered - ID, foreign ID,
//        type, headers and time - whatever the process handled before.
// The connector's stream is a fixed list served to every consumer name from that name's own acknowledged position.

type connCfg struct {
	Events   int `json:"events"`
	Own      int `json:"connector_parallel_count"`
	Default  int `json:"default_parallel_count"`
	HdrKinds int `json:"header_shapes"`
}

type listConstructor struct {
	mu     sync.Mutex
	evs    []workflow.ConnectorEvent
	cursor map[string]int // consumer name -> acknowledged position
	names  map[string]bool
}

func (c *listConstructor) Make(ctx context.Context, name string) (workflow.ConnectorConsumer, error) {
	c.mu.Lock()
	defer c.mu.Unlock()
	c.names[name] = true
	return &listConsumer{c: c, name: name, pos: c.cursor[name]}, nil
}

type listConsumer struct {
	c    *listConstructor
	name string
	pos  int
}

func (l *listConsumer) Recv(ctx context.Context) (*workflow.ConnectorEvent, workflow.Ack, error) {
	for {
		l.c.mu.Lock()
		if l.pos < len(l.c.evs) {
			// a fresh copy per delivery, as an adapter that decodes from the wire hands out
			src := l.c.evs[l.pos]
			e := workflow.ConnectorEvent{ID: src.ID, ForeignID: src.ForeignID, Type: src.Type, CreatedAt: src.CreatedAt}
			if src.Headers != nil {
				e.Headers = map[string]string{}
				for k, v := range src.Headers {
					e.Headers[k] = v
				}
			}
			at := l.pos
			l.pos++
			l.c.mu.Unlock()
			return &e, func() error {
				l.c.mu.Lock()
				defer l.c.mu.Unlock()
				if l.c.cursor[l.name] < at+1 {
					l.c.cursor[l.name] = at + 1
				}
				return nil
			}, nil
		}
		l.c.mu.Unlock()
		select {
		case <-ctx.Done():
			return nil, nil, ctx.Err()
		case <-time.After(time.Millisecond):
		}
	}
}
func (l *listConsumer) Close() error { return nil }

func runConnector(c connCfg, r *rng.R) []string {
	var problems []string
	t0 := time.Date(2031, 5, 1, 0, 0, 0, 0, time.UTC)
	cons := &listConstructor{cursor: map[string]int{}, names: map[string]bool{}}
	for i := 0; i < c.Events; i++ {
		id := strconv.Itoa(i + 1)
		switch r.Intn(4) {
		case 0:
			id = fmt.Sprintf("ev-%d", r.Intn(1_000_000))
		case 1:
			id = fmt.Sprintf("%x", r.U64())
		}
		e := workflow.ConnectorEvent{ID: id + "#" + strconv.Itoa(i), ForeignID: "f" + strconv.Itoa(r.Intn(5)), Type: "ty" + strconv.Itoa(r.Intn(3)), CreatedAt: t0.Add(time.Duration(i) * time.Second)}
		// header shapes differ from event to event: none, one key, another key, two keys
		switch r.Intn(c.HdrKinds) {
		case 1:
			e.Headers = map[string]string{"trace": "t" + strconv.Itoa(i)}
		case 2:
			e.Headers = map[string]string{"tenant": "acme" + strconv.Itoa(i%3)}
		case 3:
			e.Headers = map[string]string{"trace": "t" + strconv.Itoa(i), "tenant": "x"}
		case 4:
			e.Headers = map[string]string{}
		}
		cons.evs = append(cons.evs, e)
	}
	var mu sync.Mutex
	got := map[string][]workflow.ConnectorEvent{}
	b := workflow.NewBuilder[Obj, Status]("conn wf")
	b.AddStep(1, func(ctx context.Context, r *workflow.Run[Obj, Status]) (Status, error) { return 2, nil }, 2)
	upd := b.AddConnector("feed", cons, func(ctx context.Context, api workflow.API[Obj, Status], e *workflow.ConnectorEvent) error {
		mu.Lock()
		defer mu.Unlock()
		cp := *e
		if e.Headers != nil {
			cp.Headers = map[string]string{}
			for k, v := range e.Headers {
				cp.Headers[k] = v
			}
		}
		got[e.ID] = append(got[e.ID], cp)
		return nil
	})
	if c.Own != 0 {
		upd.WithOptions(workflow.ParallelCount(c.Own))
	}
	dopts := []workflow.Option{workflow.PollingFrequency(time.Millisecond), workflow.ErrBackOff(time.Millisecond)}
	if c.Default != 0 {
		dopts = append(dopts, workflow.ParallelCount(c.Default))
	}
	w := b.Build(memstreamer.New(), memrecordstore.New(), memrolescheduler.New(), workflow.WithTimeoutStore(memtimeoutstore.New()), workflow.WithLogger(nopLogger{}),
		workflow.WithDefaultOptions(dopts...),
		workflow.WithOutboxOptions(workflow.OutboxPollingFrequency(time.Millisecond), workflow.OutboxErrBackOff(time.Millisecond)))
	ctx, cancel := context.WithCancel(context.Background())
	w.Run(ctx)
	n := c.Own
	if n == 0 {
		n = c.Default
	}
	if n < 2 {
		n = 1
	}
	// wait until every shard process has acknowledged the whole list
	deadline := time.Now().Add(10 * time.Second)
	for {
		cons.mu.Lock()
		done := len(cons.names) >= n
		for name := range cons.names {
			if cons.cursor[name] < len(cons.evs) {
				done = false
			}
		}
		cons.mu.Unlock()
		if done || time.Now().After(deadline) {
			if !done {
				problems = append(problems, fmt.Sprintf("connector-not-drained: after 10s the %d consumer(s) have not acknowledged all %d events (cursors %v)", len(cons.names), len(cons.evs), cons.cursor))
			}
			break
		}
		time.Sleep(time.Millisecond)
	}
	cancel()
	w.Stop()
	cons.mu.Lock()
	if len(cons.names) != n {
		problems = append(problems, fmt.Sprintf("connector-consumers-differ: %d consumer names were constructed, %d shard processes expected (own %d, default %d)", len(cons.names), n, c.Own, c.Default))
	}
	cons.mu.Unlock()
	mu.Lock()
	defer mu.Unlock()
	for i, e := range cons.evs {
		hs := got[e.ID]
		if len(hs) != 1 {
			problems = append(problems, fmt.Sprintf("connector-event-handled-by-%d-shards: event #%d (%q) reached the connector function %d times with %d shard process(es)", min(len(hs), 2), i, e.ID, len(hs), n))
			break
		}
		h := hs[0]
		wantH, gotH := e.Headers, h.Headers
		if len(wantH) == 0 {
			wantH = nil
		}
		if len(gotH) == 0 {
			gotH = nil
		}
		if h.ID != e.ID || h.ForeignID != e.ForeignID || h.Type != e.Type || !h.CreatedAt.Equal(e.CreatedAt) || !reflect.DeepEqual(wantH, gotH) {
			problems = append(problems, fmt.Sprintf("connector-event-not-intact: event #%d was delivered as %+v and reached the connector function as %+v", i, e, h))
			break
		}
	}
	return problems
}

// ConnectorSuite: C10 (exactly one shard) and C07 (intact) on the real connector consumer processes.
func ConnectorSuite(d *leandrv.Driver, r *rng.R, res *report.Result, thorough bool) error {
	res.Rule = "real workflow with one connector (parallel count own 0..6 x default 0..4) on the in-memory adapters, started with Run; the connector's stream is a list of 10-40 events (numeric, textual and hex IDs; " +
		"header shapes none / one key / another key / two keys / empty varying from event to event) served to every consumer name from its own acknowledged position; when every shard process has acknowledged the list: " +
		"every event reached the connector function exactly once, with the ID, foreign ID, type, headers and time it was delivered with"
	n := 14
	if thorough {
		n = 120
	}
	for it := 0; it < n; it++ {
		c := connCfg{Events: 10 + r.Intn(31), Own: rng.Pick(r, []int{0, 0, 1, 2, 3, 4, 6}), Default: rng.Pick(r, []int{0, 0, 1, 2, 3, 4}), HdrKinds: 5}
		if it == 0 {
			c = connCfg{Events: 24, Own: 3, Default: 0, HdrKinds: 5}
		}
		if it == 1 {
			c = connCfg{Events: 24, Own: 0, Default: 0, HdrKinds: 5}
		}
		rr := rng.New(r.U64())
		ps := runConnector(c, rr)
		res.Eval(c.Events)
		res.NonTrivial(fmt.Sprintf("%+v", c))
		res.Count(fmt.Sprintf("shards:%d/%d", c.Own, c.Default))
		if it < 2 {
			res.Sample(c)
		}
		for _, p := range ps {
			prop := "C10"
			sig := p
			for i := 0; i < len(p); i++ {
				if p[i] == ':' {
					sig = p[:i]
					break
				}
			}
			if sig == "connector-event-not-intact" {
				prop = "C07"
			}
			res.Violate(report.Violation{Property: prop, Oracle: "connector-processes", Signature: sig, Detail: p, Replay: map[string]any{"suite": "live-connector", "case": c}})
		}
		res.Traces++
	}
	return nil
}
