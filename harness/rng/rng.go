// Package rng: every random choice of the harness derives from one SplitMix64 state (VERIF_SEED).
package rng

type R struct{ s uint64 }

// New: the seed is hashed first, so that consecutive seeds give unrelated streams (not shifted copies of one stream).
func New(seed uint64) *R {
	z := seed + 0x632BE59BD9B4E019
	z = (z ^ (z >> 30)) * 0xBF58476D1CE4E5B9
	z = (z ^ (z >> 27)) * 0x94D049BB133111EB
	return &R{s: z ^ (z >> 31)}
}

func (r *R) U64() uint64 {
	r.s += 0x9E3779B97F4A7C15
	z := r.s
	z = (z ^ (z >> 30)) * 0xBF58476D1CE4E5B9
	z = (z ^ (z >> 27)) * 0x94D049BB133111EB
	return z ^ (z >> 31)
}

func (r *R) Intn(n int) int {
	if n <= 0 {
		return 0
	}
	return int(r.U64() % uint64(n))
}

func (r *R) Bool() bool { return r.U64()&1 == 1 }

// Chance returns true with probability num/den.
func (r *R) Chance(num, den int) bool { return r.Intn(den) < num }

func (r *R) I64() int64 { return int64(r.U64()) }

// Fork derives an independent generator (for parallel workers), deterministic in (state, k).
func (r *R) Fork(k uint64) *R { return New(r.U64() ^ (k * 0xD1342543DE82EF95)) }

func Pick[T any](r *R, xs []T) T { return xs[r.Intn(len(xs))] }

func Shuffle[T any](r *R, xs []T) {
	for i := len(xs) - 1; i > 0; i-- {
		j := r.Intn(i + 1)
		xs[i], xs[j] = xs[j], xs[i]
	}
}
