// Package sim: the gated deterministic simulator (T3-a). It builds real workflow.Workflow values on its own
// RecordStore / EventStreamer / TimeoutStore / RoleScheduler / clock. Every goroutine of the workflow is
// stopped at each gate (RoleScheduler.Await, EventReceiver.Recv, clock.NewTimer, TimeoutStore.ListValid) and
// released one at a time, so a run is a deterministic function of (configuration, action list).
package sim

import (
	"context"
	"fmt"
	"sync"
	"time"

	"k8s.io/utils/clock"
)

type gateKind int

const (
	gRole gateKind = iota
	gRecv
	gTimer
	gPoll
)

func (k gateKind) String() string { return [...]string{"role", "recv", "timer", "poll"}[k] }

type parked struct {
	kind     gateKind
	deadline time.Time // gTimer
	grant    chan struct{}
	fire     chan time.Time
	recv     *Receiver
	ctx      context.Context
}

// lease is the marker the role scheduler puts into the context it hands out.
type lease struct {
	proc   string
	id     int
	cancel context.CancelFunc
	ctx    context.Context
}

type leaseKey struct{}

type Sched struct {
	mu      sync.Mutex
	cond    *sync.Cond
	parked  map[string]*parked // by process (role name, or api:<n>)
	current string             // the one process that is running ("" = nobody)
	now     time.Time
	leases  map[string]*lease
	leaseN  int
	free    bool // shutdown mode: gates no longer park
}

var Epoch = time.Date(2030, 1, 1, 0, 0, 0, 0, time.UTC)

func newSched() *Sched {
	s := &Sched{parked: map[string]*parked{}, now: Epoch, leases: map[string]*lease{}}
	s.cond = sync.NewCond(&s.mu)
	return s
}

func (s *Sched) Current() string {
	s.mu.Lock()
	defer s.mu.Unlock()
	return s.current
}

// park blocks the calling goroutine (which must be the current process, or a freshly launched one) until granted.
func (s *Sched) park(proc string, p *parked) {
	s.mu.Lock()
	if s.free {
		s.mu.Unlock()
		return
	}
	p.grant = make(chan struct{})
	s.parked[proc] = p
	if s.current == proc {
		s.current = ""
	}
	s.cond.Broadcast()
	s.mu.Unlock()
	<-p.grant
}

// parkTimer marks the current process as parked on a timer; the caller will block in a select right after.
func (s *Sched) parkTimer(d time.Duration) *simTimer {
	s.mu.Lock()
	defer s.mu.Unlock()
	t := &simTimer{c: make(chan time.Time, 1)}
	if s.free {
		t.c <- s.now
		return t
	}
	proc := s.current
	if proc == "" {
		panic("sim: NewTimer with no current process")
	}
	if l := s.leases[proc]; l != nil && l.ctx != nil && l.ctx.Err() != nil {
		// the caller's role context is already cancelled: every `select` on this timer and the context takes the context branch at
		// once. The process is not at rest: it keeps running until it parks at its role gate (a timer that never fires keeps the
		// choice deterministic).
		return t
	}
	s.parked[proc] = &parked{kind: gTimer, deadline: s.now.Add(d), fire: t.c}
	s.current = ""
	s.cond.Broadcast()
	return t
}

// waitParked blocks until nobody runs and at least n processes are parked.
func (s *Sched) waitParked(n int) bool {
	done := make(chan struct{})
	go func() {
		s.mu.Lock()
		for s.current != "" || len(s.parked) < n {
			s.cond.Wait()
		}
		s.mu.Unlock()
		close(done)
	}()
	select {
	case <-done:
		return true
	case <-time.After(20 * time.Second):
		return false
	}
}

func (s *Sched) parkedAt(proc string) (*parked, bool) {
	s.mu.Lock()
	defer s.mu.Unlock()
	p, ok := s.parked[proc]
	return p, ok
}

// release lets one parked process run.
func (s *Sched) release(proc string) {
	s.mu.Lock()
	p := s.parked[proc]
	if p == nil {
		s.mu.Unlock()
		panic("sim: release of a process that is not parked: " + proc)
	}
	delete(s.parked, proc)
	s.current = proc
	s.mu.Unlock()
	if p.kind == gTimer {
		p.fire <- s.now
	} else {
		close(p.grant)
	}
}

// releaseCancelled wakes a parked process whose context has just been cancelled.
func (s *Sched) releaseCancelled(proc string) {
	s.mu.Lock()
	p := s.parked[proc]
	if p == nil {
		s.mu.Unlock()
		return
	}
	delete(s.parked, proc)
	s.current = proc
	s.mu.Unlock()
	if p.kind != gTimer {
		close(p.grant)
	}
	// a timer-parked process sits in `select { case <-ctx.Done(): ...; case <-t.C(): }` and wakes by itself
}

func (s *Sched) setCurrent(p string) {
	s.mu.Lock()
	if s.current != "" && p != "" {
		s.mu.Unlock()
		panic(fmt.Sprintf("sim: setCurrent(%s) while %s is running", p, s.current))
	}
	s.current = p
	s.cond.Broadcast()
	s.mu.Unlock()
}

// freeRun switches to shutdown mode: every gate passes, everybody parked is released.
func (s *Sched) freeRun() {
	s.mu.Lock()
	s.free = true
	for name, p := range s.parked {
		delete(s.parked, name)
		if p.kind == gTimer {
			select {
			case p.fire <- s.now:
			default:
			}
		} else {
			close(p.grant)
		}
	}
	s.current = ""
	s.mu.Unlock()
}

// ---- clock ----

type Clock struct{ s *Sched }

type simTimer struct{ c chan time.Time }

func (t *simTimer) C() <-chan time.Time      { return t.c }
func (t *simTimer) Stop() bool               { return true }
func (t *simTimer) Reset(time.Duration) bool { return true }

func (c Clock) Now() time.Time {
	c.s.mu.Lock()
	defer c.s.mu.Unlock()
	return c.s.now
}
func (c Clock) Since(t time.Time) time.Duration        { return c.Now().Sub(t) }
func (c Clock) After(d time.Duration) <-chan time.Time { return c.NewTimer(d).C() }
func (c Clock) NewTimer(d time.Duration) clock.Timer   { return c.s.parkTimer(d) }
func (c Clock) Sleep(d time.Duration)                  { <-c.NewTimer(d).C() }
func (c Clock) Tick(d time.Duration) <-chan time.Time  { panic("sim: Tick not supported") }

var _ clock.Clock = Clock{}
