import WorkflowModel.Generated.Facts
import WorkflowModel.Generated.Guards
import WorkflowModel.Generated.Order
/-! # T2 — call-order tripwires

`Gen.Order.*` is regenerated from the source on every run (adapter/API calls of each order-critical function
in source order; `!` = the error is checked and propagated, `?` = inside a condition, `:defer`).
Each tripwire is a `Bool` definition (so this module always compiles); the property files assert the ones
they depend on with `by decide`, so a reordering breaks exactly the properties that rest on that order. -/
namespace WorkflowModel.Tie
open WorkflowModel.Gen

/-- consume: recv, (lag timer), filter, ack-if-filtered, handle, ack — errors propagate before the ack -/
def consume : Bool := Order.consume == ["receiver.Recv!", "clock.NewTimer", "FilterUsing", "ack!", "consumeFn!", "ack!"]
/-- relay: list, (idle wait), new sender, send, close the sender, delete — each error aborts the cycle -/
def purgeOutbox : Bool := Order.purgeOutbox ==
  ["recordStore.ListOutboxEvents!", "wait!", "stream.NewSender!", "producer.Send", "producer.Close", "recordStore.DeleteOutboxEvent!"]
def runOnce : Bool := Order.runOnce == ["awaitRole", "cancel:defer", "process", "clock.NewTimer"]
def stepConsumer : Bool := Order.stepConsumer == ["lookupFn!", "buildRun!", "stepLogic!", "maybePause!", "skipUpdate?", "updater!"]
def updater : Bool := Order.updater == ["Marshal!", "graph.IsTerminal", "lookup!", "validateTransition!", "updateRecord!"]
def updateRecord : Bool := Order.updateRecord == ["store!"]
def trigger : Bool := Order.trigger == ["w.statusGraph.IsValid?", "Marshal!", "lookup!", "updateRecord!"]
def processCallback : Bool := Order.processCallback == ["latest!", "buildRun!", "fn!", "skipUpdate?", "updater!"]
def processTimeout : Bool := Order.processTimeout ==
  ["buildRun!", "config.TimeoutFunc!", "maybePause!", "skipUpdate?", "updater!", "completeFn!"]
def inserter : Bool := Order.inserter ==
  ["config.TimerFunc!", "w.timeoutStore.Create!", "w.eventStreamer.NewReceiver!", "stream.Close:defer", "consume!"]
def runDelete : Bool := Order.runDelete == ["lookup!", "customDeleteFn!", "updateRecord!"]
def autoRetry : Bool := Order.autoRetry == ["lookupFn!", "controller.Resume!"]
def pollTimeouts : Bool := Order.pollTimeouts ==
  ["w.timeoutStore.ListValid!", "w.recordStore.Lookup!", "w.timeoutStore.Cancel!", "processTimeout!", "wait!"]
def maybePause : Bool := Order.maybePause == ["counter.Add", "run.Pause!", "counter.Clear"]
def runHook : Bool := Order.runHook == ["lookup!", "Unmarshal", "hook!"]
def rscUpdate : Bool := Order.rscUpdate == ["updateRecord!"]
def stepProcess : Bool := Order.stepProcess == ["w.eventStreamer.NewReceiver!", "stream.Close:defer", "consume!"]
def sqlStore : Bool := Order.sqlStore ==
  ["s.writer.BeginTx!", "tx.Rollback:defer", "tx.QueryRowContext!", "s.create!", "s.update!",
   "workflow.MakeOutboxEventData!", "s.insertOutboxEvent!", "tx.Commit!"]
def schedule : Bool := Order.schedule ==
  ["cron.ParseStandard!", "w.recordStore.Latest!", "schedule.Next", "waitUntil!", "options.scheduleFilter!", "w.Trigger!"]
def memStore : Bool := Order.memStore == ["workflow.MakeOutboxEventData!"]

/-- `Run`: which process kinds are launched and with which arguments (shard index / count) -/
def runLaunches : Bool := Order.runLaunches ==
  ["outboxConsumer(w, w.outboxConfig)", "consumeStepEvents(w, currentStatus, config, 1, 1)",
   "consumeStepEvents(w, currentStatus, config, i, parallelCount)", "timeoutPoller(w, status, timeouts)",
   "timeoutAutoInserterConsumer(w, status, timeouts)", "connectorConsumer(w, config, 1, 1)",
   "connectorConsumer(w, config, i, parallelCount)", "runStateChangeHookConsumer(w, state, hook)",
   "deleteConsumer(w)", "pausedRecordsRetryConsumer(w)"]

/-- role names are built from stable identifiers only: workflow / connector name, numeric status
(`strconv.FormatInt(int64(status), 10)`), run-state name, shard index and count, fixed literals -/
def roles : Bool :=
  Order.roleStep == "makeRole( w.Name(), strconv.FormatInt(int64(currentStatus), 10), \"consumer\", strconv.FormatInt(int64(shard), 10), \"of\", strconv.FormatInt(int64(totalShards), 10), )" &&
  Order.rolePoller == "makeRole(w.Name(), strconv.FormatInt(int64(status), 10), \"timeout-consumer\")" &&
  Order.roleInserter == "makeRole(w.Name(), strconv.FormatInt(int64(status), 10), \"timeout-auto-inserter-consumer\")" &&
  Order.roleConnector == "makeRole( config.name, \"connector\", \"to\", w.Name(), \"consumer\", strconv.FormatInt(int64(shard), 10), \"of\", strconv.FormatInt(int64(totalShards), 10), )" &&
  Order.roleHook == "makeRole( w.Name(), runState.String(), \"run-state-change-hook\", \"consumer\", )" &&
  Order.roleDelete == "makeRole( w.Name(), \"delete\", \"consumer\", )" &&
  Order.roleRetry == "makeRole( w.Name(), \"paused\", \"records\", \"retry\", \"consumer\", )" &&
  Order.roleOutbox == "makeRole(w.Name(), \"outbox\", \"consumer\")"

end WorkflowModel.Tie
