package pure

import (
	"fmt"
	"strings"
	"time"

	"github.com/luno/workflow"
	"github.com/luno/workflow/verifharness/leandrv"
	"github.com/luno/workflow/verifharness/report"
	"github.com/luno/workflow/verifharness/rng"
)

// ConnectorRoundTrip (C07, last clause): connector events reach the connector function with ID, foreign ID, type, headers and
// timestamp (as an instant) intact. The consumer turns the ConnectorEvent into a stream Event (JSON in a header) and back
// before the connector function sees it; both conversions are the real ones (verif hooks). encoding/json is external: this is
// an oracle on the implementation, there is no model side.
func ConnectorRoundTrip(d *leandrv.Driver, r *rng.R, res *report.Result, thorough bool) error {
	res.Rule = "connector events over IDs / foreign IDs / types (empty, ASCII, unicode, invalid UTF-8 replaced by JSON, quotes, newlines, very long), header maps (nil, empty, 1-4 entries incl. empty keys and values), " +
		"timestamps (zero, epoch, nanosecond precision, far past/future, several zones incl. non-UTC offsets) through connectorEventToEvent and streamerEventToConnectorEvent; every field compared, the timestamp as an instant"
	strs := []string{"", "a", "id-1", "with space", "Üñí©ødé", "日本語", "quote\"s", "new\nline", "tab\t", "\\back", "{\"json\":1}", strings.Repeat("x", 5000), "null", "0", "<>&", " "}
	zones := []*time.Location{time.UTC, time.FixedZone("p2", 2*3600), time.FixedZone("m0530", -(5*3600 + 1800)), time.FixedZone("p1345", 13*3600+45*60)}
	times := []time.Time{{}, time.Unix(0, 0), time.Unix(1, 1), time.Date(2030, 1, 2, 3, 4, 5, 678901234, time.UTC), time.Date(1900, 1, 1, 0, 0, 0, 0, time.UTC),
		time.Date(9000, 12, 31, 23, 59, 59, 999999999, time.UTC), time.Date(2024, 2, 29, 12, 0, 0, 1, time.UTC)}
	n := 3000
	if thorough {
		n = 60000
	}
	for it := 0; it < n; it++ {
		ce := workflow.ConnectorEvent{ID: rng.Pick(r, strs), ForeignID: rng.Pick(r, strs), Type: rng.Pick(r, strs), CreatedAt: rng.Pick(r, times).In(rng.Pick(r, zones))}
		switch k := r.Intn(6); {
		case k == 0:
			ce.Headers = nil
		case k == 1:
			ce.Headers = map[string]string{}
		default:
			ce.Headers = map[string]string{}
			for i := 0; i < k-1; i++ {
				ce.Headers[rng.Pick(r, strs)] = rng.Pick(r, strs)
			}
		}
		if r.Chance(1, 10) {
			ce.CreatedAt = ce.CreatedAt.Add(time.Duration(r.Intn(1_000_000_000)))
		}
		res.Eval(1)
		key := fmt.Sprintf("%d/%d/%d/%d/%v", len(ce.ID), len(ce.ForeignID), len(ce.Type), len(ce.Headers), ce.CreatedAt.UnixNano())
		res.NonTrivial(key)
		if it < 2 {
			res.Sample(map[string]any{"id": ce.ID, "foreign_id": ce.ForeignID, "type": ce.Type, "headers": ce.Headers, "created_at": ce.CreatedAt.Format(time.RFC3339Nano)})
		}
		ev, err := workflow.VerifConnectorEventToEvent(&ce)
		viol := func(sig, detail string) {
			res.Violate(report.Violation{Property: "C07", Oracle: "connector-event-intact", Signature: sig, Detail: detail,
				Replay: map[string]any{"suite": "pure-connector", "id": ce.ID, "foreign_id": ce.ForeignID, "type": ce.Type, "headers": ce.Headers, "created_at": ce.CreatedAt.Format(time.RFC3339Nano)}})
		}
		if err != nil {
			viol("connector-event-not-convertible", err.Error())
			continue
		}
		back, err := workflow.VerifStreamerEventToConnectorEvent(ev)
		if err != nil {
			viol("connector-event-not-recoverable", err.Error())
			continue
		}
		// JSON replaces invalid UTF-8; the generator only uses valid strings, so everything must come back byte for byte
		if back.ID != ce.ID {
			viol("connector-event-id-changed", fmt.Sprintf("%q -> %q", ce.ID, back.ID))
		}
		if back.ForeignID != ce.ForeignID {
			viol("connector-event-foreign-id-changed", fmt.Sprintf("%q -> %q", ce.ForeignID, back.ForeignID))
		}
		if ev.ForeignID != ce.ForeignID {
			viol("stream-event-foreign-id-differs", fmt.Sprintf("%q -> %q", ce.ForeignID, ev.ForeignID))
		}
		if back.Type != ce.Type {
			viol("connector-event-type-changed", fmt.Sprintf("%q -> %q", ce.Type, back.Type))
		}
		if len(back.Headers) != len(ce.Headers) {
			viol("connector-event-headers-changed", fmt.Sprintf("%v -> %v", ce.Headers, back.Headers))
		} else {
			for k, v := range ce.Headers {
				if bv, ok := back.Headers[k]; !ok || bv != v {
					viol("connector-event-headers-changed", fmt.Sprintf("header %q: %q -> %q (present %v)", k, v, bv, ok))
					break
				}
			}
		}
		if !back.CreatedAt.Equal(ce.CreatedAt) {
			viol("connector-event-timestamp-changed", fmt.Sprintf("%v -> %v", ce.CreatedAt.Format(time.RFC3339Nano), back.CreatedAt.Format(time.RFC3339Nano)))
		}
		if !ev.CreatedAt.Equal(ce.CreatedAt) {
			viol("stream-event-timestamp-differs", fmt.Sprintf("%v -> %v", ce.CreatedAt, ev.CreatedAt))
		}
	}
	return nil
}
