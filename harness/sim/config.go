package sim

import (
	"context"
	"errors"
	"fmt"
	"io"
	"sort"
	"strconv"
	"strings"
	"time"

	"github.com/luno/workflow"
)

// BuilderCall is one AddStep / AddCallback / AddTimeout call, in the order the builder receives them.
type BuilderCall struct {
	Kind       string // step | callback | timeout
	From       int
	Dests      []int
	Parallel   int // steps only
	LagSec     int // steps only
	PauseAfter int
}

type Config struct {
	Name              string
	Calls             []BuilderCall
	Hooks             []int // run states with a registered hook (3 paused, 4 cancelled, 5 completed)
	CustomDelete      bool
	DefaultParallel   int
	DefaultPauseAfter int
	DefaultLagSec     int
	ErrBackOffSec     int
	OutboxLimit       int64
	RetryEnabled      bool
	RetryAfterSec     int
	Stamp             bool
}

// Line renders the configuration for the Lean driver.
func (c Config) Line() string {
	var calls []string
	for _, b := range c.Calls {
		ds := make([]string, len(b.Dests))
		for i, d := range b.Dests {
			ds[i] = strconv.Itoa(d)
		}
		d := strings.Join(ds, "/")
		if d == "" {
			d = "-"
		}
		calls = append(calls, fmt.Sprintf("%s:%d:%s:%d:%d:%d", b.Kind[:1]+b.Kind[len(b.Kind)-1:], b.From, d, b.Parallel, b.LagSec, b.PauseAfter))
	}
	hs := make([]string, len(c.Hooks))
	for i, h := range c.Hooks {
		hs[i] = strconv.Itoa(h)
	}
	h := strings.Join(hs, "/")
	if h == "" {
		h = "-"
	}
	b := func(x bool) int {
		if x {
			return 1
		}
		return 0
	}
	return fmt.Sprintf("cfg name=%s calls=%s hooks=%s cdel=%d dpar=%d dpause=%d dlag=%d backoff=%d olimit=%d retry=%d retryafter=%d stamp=%d",
		strings.ReplaceAll(c.Name, " ", "+"), strings.Join(calls, ","), h, b(c.CustomDelete), c.DefaultParallel, c.DefaultPauseAfter, c.DefaultLagSec, c.ErrBackOffSec, c.OutboxLimit,
		b(c.RetryEnabled), c.RetryAfterSec, b(c.Stamp))
}

// ---- spec-level helpers (written from the property text, used by the monitors) ----

func (c Config) Edges() [][2]int {
	var es [][2]int
	for _, b := range c.Calls {
		for _, d := range b.Dests {
			es = append(es, [2]int{b.From, d})
		}
	}
	return es
}

func (c Config) Declared(a, b int) bool {
	for _, e := range c.Edges() {
		if e[0] == a && e[1] == b {
			return true
		}
	}
	return false
}

func (c Config) IsNode(a int) bool {
	for _, e := range c.Edges() {
		if e[0] == a || e[1] == a {
			return true
		}
	}
	return false
}

// TerminalSpec: a status without outgoing transitions that is a destination.
func (c Config) TerminalSpec(a int) bool {
	src, dst := false, false
	for _, e := range c.Edges() {
		if e[0] == a {
			src = true
		}
		if e[1] == a {
			dst = true
		}
	}
	return dst && !src
}

func (c Config) StepAt(s int) *BuilderCall {
	for i := range c.Calls {
		if c.Calls[i].Kind == "step" && c.Calls[i].From == s {
			return &c.Calls[i]
		}
	}
	return nil
}

func (c Config) TimeoutsAt(s int) []BuilderCall {
	var out []BuilderCall
	for _, b := range c.Calls {
		if b.Kind == "timeout" && b.From == s {
			out = append(out, b)
		}
	}
	return out
}

func (c Config) CallbacksAt(s int) []BuilderCall {
	var out []BuilderCall
	for _, b := range c.Calls {
		if b.Kind == "callback" && b.From == s {
			out = append(out, b)
		}
	}
	return out
}

func (c Config) Statuses() []int {
	m := map[int]bool{}
	for _, e := range c.Edges() {
		m[e[0]] = true
		m[e[1]] = true
	}
	var out []int
	for k := range m {
		out = append(out, k)
	}
	sort.Ints(out)
	return out
}

func (c Config) HasHook(rs int) bool {
	for _, h := range c.Hooks {
		if h == rs {
			return true
		}
	}
	return false
}

// EffectivePauseAfter of the process that handles `kind` at status s (per-unit value overrides the default when non-zero).
func (c Config) EffectivePauseAfter(kind string, s int) int {
	own := 0
	switch kind {
	case "step":
		if b := c.StepAt(s); b != nil {
			own = b.PauseAfter
		}
	case "timeout":
		// WithOptions on any AddTimeout of the status replaces the status-wide value; the last one wins
		for _, b := range c.TimeoutsAt(s) {
			if b.PauseAfter != 0 {
				own = b.PauseAfter
			}
		}
	}
	if own != 0 {
		return own
	}
	return c.DefaultPauseAfter
}

func (c Config) EffectiveLag(s int) time.Duration {
	if b := c.StepAt(s); b != nil && b.LagSec > 0 {
		return time.Duration(b.LagSec) * time.Second
	}
	return time.Duration(c.DefaultLagSec) * time.Second
}

func (c Config) EffectiveParallel(s int) int {
	if b := c.StepAt(s); b != nil && b.Parallel != 0 {
		return b.Parallel
	}
	return c.DefaultParallel
}

// ---- building the real workflow ----

type WF = workflow.Workflow[Obj, St]

func toSt(xs []int) []St {
	out := make([]St, len(xs))
	for i, x := range xs {
		out[i] = St(x)
	}
	return out
}

// Build constructs the real workflow on the world's adapters.
func (w *World) Build(c Config) *WF {
	w.Cfg = c
	w.StampUpdatedAt = c.Stamp
	b := workflow.NewBuilder[Obj, St](c.Name)
	for _, bc := range c.Calls {
		bc := bc
		switch bc.Kind {
		case "step":
			var opts []workflow.Option
			if bc.Parallel != 0 {
				opts = append(opts, workflow.ParallelCount(bc.Parallel))
			}
			if bc.LagSec != 0 {
				opts = append(opts, workflow.ConsumeLag(time.Duration(bc.LagSec)*time.Second))
			}
			if bc.PauseAfter != 0 {
				opts = append(opts, workflow.PauseAfterErrCount(bc.PauseAfter))
			}
			su := b.AddStep(St(bc.From), w.stepFn(bc.From), toSt(bc.Dests)...)
			if len(opts) > 0 {
				su.WithOptions(opts...)
			}
		case "callback":
			b.AddCallback(St(bc.From), w.callbackFn(bc.From), toSt(bc.Dests)...)
		case "timeout":
			tu := b.AddTimeout(St(bc.From), w.timerFn(bc.From), w.timeoutFn(bc.From), toSt(bc.Dests)...)
			if bc.PauseAfter != 0 {
				tu.WithOptions(workflow.PauseAfterErrCount(bc.PauseAfter))
			}
		}
	}
	for _, h := range c.Hooks {
		h := h
		fn := w.hookFn(h)
		switch h {
		case 3:
			b.OnPause(fn)
		case 4:
			b.OnCancel(fn)
		case 5:
			b.OnComplete(fn)
		}
	}
	var dopts []workflow.Option
	dopts = append(dopts, workflow.ErrBackOff(time.Duration(c.ErrBackOffSec)*time.Second))
	if c.DefaultParallel != 0 {
		dopts = append(dopts, workflow.ParallelCount(c.DefaultParallel))
	}
	if c.DefaultPauseAfter != 0 {
		dopts = append(dopts, workflow.PauseAfterErrCount(c.DefaultPauseAfter))
	}
	if c.DefaultLagSec != 0 {
		dopts = append(dopts, workflow.ConsumeLag(time.Duration(c.DefaultLagSec)*time.Second))
	}
	bopts := []workflow.BuildOption{
		workflow.WithClock(w.Clk),
		workflow.WithTimeoutStore(Timeouts{w}),
		workflow.WithDefaultOptions(dopts...),
		workflow.WithOutboxOptions(workflow.OutboxPollingFrequency(0), workflow.OutboxLookupLimit(c.OutboxLimit),
			workflow.OutboxErrBackOff(time.Duration(c.ErrBackOffSec)*time.Second)),
		workflow.WithLogger(nopLogger{}),
	}
	if c.CustomDelete {
		bopts = append(bopts, workflow.WithCustomDelete(func(o *Obj) error {
			w.detCtx = detCtx{kind: "delete", objN: o.Tok()}
			out := w.nextOutcome()
			w.ob("fn:delete(o%d)->%s", o.Tok(), out)
			w.Mon.onInvoke(Invocation{Kind: "delete", Outcome: out})
			if strings.HasPrefix(out, "l") { // the role is lost while the delete function runs; it reports an error
				w.loseCurrentLease()
				return errors.New("custom delete failed " + out)
			}
			if strings.HasPrefix(out, "e:") {
				return userErr("delete", strings.TrimPrefix(out, "e:"))
			}
			if strings.HasPrefix(out, "e") || out == "x" {
				return errors.New("custom delete failed " + out)
			}
			if o.M != nil {
				// scrub in place, through the map: the caller's copy of the struct shares it
				if k := o.M["k"]; k > ScrubBase/2 {
					o.M["k"] = ScrubBase - k
				}
			} else if o.N > ScrubBase/2 {
				o.N = ScrubBase - o.N
			}
			return nil
		}))
	}
	if c.RetryEnabled {
		bopts = append(bopts, workflow.WithPauseRetry(time.Duration(c.RetryAfterSec)*time.Second))
	} else {
		bopts = append(bopts, workflow.DisablePauseRetry())
	}
	wf := b.Build(Streamer{w}, Store{w}, Roles{w}, bopts...)
	w.WF = wf
	return wf
}

type nopLogger struct{}

func (nopLogger) Debug(ctx context.Context, msg string, meta map[string]string) {}
func (nopLogger) Error(ctx context.Context, err error)                          {}

// ---- user functions: outcomes come from the environment of the operation in progress ----
//
// outcome tokens: r:<next>:<N> return status <next> after setting Object.N=<N> ; e:<k> error "e<k>" ;
// p pause ; c cancel ; n:<status> re-enter the API (Callback on <status> for this run's foreign ID), then take
// the next outcome ; t:<sec> timer at now+sec ; z zero time ; ze zero time with an error ; x exhausted (= error).

func (w *World) persisted(runID string) workflow.Record {
	if rr, ok := w.byID[runID]; ok {
		return rr.versions[len(rr.versions)-1]
	}
	return workflow.Record{}
}

func (w *World) runOutcome(ctx context.Context, kind string, status int, r *workflow.Run[Obj, St]) (St, error) {
	w.inUserFn++
	defer func() { w.inUserFn-- }()
	first := true
	var pending *Invocation
	for {
		w.detCtx = detCtx{kind: kind, status: status, objN: r.Object.Tok(), run: w.RunOrd(r.RunID)}
		out := w.nextOutcome()
		if first {
			w.ob("fn:%s(r%d,rs%d,st%d,v%d,o%d)->%s", kind, w.RunOrd(r.RunID), int(r.RunState), int(r.Status), r.Meta.Version, r.Object.Tok(), out)
		} else {
			w.ob("fn:cont->%s", out)
		}
		if strings.HasPrefix(out, "n:") {
			// re-entering the API is part of the same invocation; the invocation is recorded with its final outcome
			if first {
				pending = &Invocation{Kind: kind, Proc: w.S.Current(), Run: w.RunOrd(r.RunID), Status: status, SeenObj: r.Object.Tok(), SeenRS: int(r.RunState),
					SeenVer: r.Meta.Version, Persisted: w.persisted(r.RunID), Now: w.Clk.Now()}
			}
		} else {
			inv := Invocation{Kind: kind, Proc: w.S.Current(), Run: w.RunOrd(r.RunID), Status: status, SeenObj: r.Object.Tok(), SeenRS: int(r.RunState),
				SeenVer: r.Meta.Version, Persisted: w.persisted(r.RunID), Now: w.Clk.Now()}
			if !first && pending != nil {
				inv = *pending
				inv.Nested = true
			}
			inv.Outcome = out
			inv.Depth = w.inUserFn
			w.Mon.onInvoke(inv)
		}
		first = false
		parts := strings.Split(out, ":")
		switch parts[0] {
		case "r":
			next, _ := strconv.Atoi(parts[1])
			n, _ := strconv.Atoi(parts[2])
			*r.Object = MkObj(n)
			return St(next), nil
		case "p":
			*r.Object = MkObj(-31337)
			return r.Pause(ctx, "paused by step")
		case "c":
			*r.Object = MkObj(-31337)
			return r.Cancel(ctx, "cancelled by step")
		case "n":
			s, _ := strconv.Atoi(parts[1])
			w.nestedInOp = true
			err := w.WF.Callback(ctx, r.ForeignID, St(s), nil)
			if err != nil {
				w.ob("nested-callback-error")
			}
			continue
		case "e":
			*r.Object = MkObj(-31337)
			// a failing function may well return a status next to its error ("return StatusFailed, err"): the status of a
			// failed invocation means nothing and must not be acted on. The first declared destination is returned, so that
			// code which does act on it produces a LEGAL-looking transition.
			return St(w.declaredDest(kind, status)), userErr(kind, parts[1])
		default:
			*r.Object = MkObj(-31337)
			return St(w.declaredDest(kind, status)), errors.New("err-x")
		}
	}
}

// userErr: the error a failing user function returns. The text identifies the error for the error counter (k); its shape varies,
// because what the library does with a user's error must not depend on it:
//   k=2  a long message (a wrapped stack of causes, several hundred bytes);
//   k=3  (step and timer functions) an error that wraps context.Canceled - the function called something with a context of its
//        own that was cancelled; the role is still held, so this is a failed handling like any other;
//   k=1  (hooks and the delete function) an error that wraps workflow.ErrRecordNotFound - the hook looked something up that is not
//        there yet and wants to be retried.
func userErr(kind, k string) error {
	switch {
	case k == "2":
		return errors.New("err-2 " + strings.Repeat("caused by: upstream service replied 503; ", 10))
	case k == "3" && (kind == "step" || kind == "timer"):
		return fmt.Errorf("err-3: %w", context.Canceled)
	case k == "1" && (kind == "hook" || kind == "delete"):
		return fmt.Errorf("err-1: %w", workflow.ErrRecordNotFound)
	}
	return errors.New("err-" + k)
}

// declaredDest: the first destination declared for (kind, status), 0 when there is none
func (w *World) declaredDest(kind string, status int) int {
	for _, bc := range w.Cfg.Calls {
		if bc.Kind == kind && bc.From == status && len(bc.Dests) > 0 {
			return bc.Dests[0]
		}
	}
	return 0
}

func (w *World) stepFn(status int) workflow.ConsumerFunc[Obj, St] {
	return func(ctx context.Context, r *workflow.Run[Obj, St]) (St, error) {
		return w.runOutcome(ctx, "step", status, r)
	}
}

func (w *World) callbackFn(status int) workflow.CallbackFunc[Obj, St] {
	return func(ctx context.Context, r *workflow.Run[Obj, St], _ io.Reader) (St, error) {
		return w.runOutcome(ctx, "callback", status, r)
	}
}

func (w *World) timeoutFn(status int) workflow.TimeoutFunc[Obj, St] {
	return func(ctx context.Context, r *workflow.Run[Obj, St], now time.Time) (St, error) {
		return w.runOutcome(ctx, "timeout", status, r)
	}
}

func (w *World) timerFn(status int) workflow.TimerFunc[Obj, St] {
	return func(ctx context.Context, r *workflow.Run[Obj, St], now time.Time) (time.Time, error) {
		w.detCtx = detCtx{kind: "timer", status: status, objN: r.Object.Tok(), run: w.RunOrd(r.RunID)}
		out := w.nextOutcome()
		w.ob("fn:timer(r%d,rs%d,st%d,v%d,o%d)->%s", w.RunOrd(r.RunID), int(r.RunState), int(r.Status), r.Meta.Version, r.Object.Tok(), out)
		w.Mon.onInvoke(Invocation{Kind: "timer", Proc: w.S.Current(), Run: w.RunOrd(r.RunID), Status: status, SeenObj: r.Object.Tok(), SeenRS: int(r.RunState),
			SeenVer: r.Meta.Version, Persisted: w.persisted(r.RunID), Outcome: out, Now: w.Clk.Now(), Depth: 1})
		parts := strings.Split(out, ":")
		switch parts[0] {
		case "t":
			sec, _ := strconv.Atoi(parts[1])
			return now.Add(time.Duration(sec) * time.Second), nil
		case "z":
			return time.Time{}, nil
		case "ze":
			return time.Time{}, errors.New("err-ze")
		case "e":
			return now.Add(time.Hour), userErr("timer", parts[1])
		default:
			return time.Time{}, errors.New("err-x")
		}
	}
}

// loseCurrentLease: the role scheduler takes the role away from the process whose user function is running (its lease context is
// cancelled from outside, mid-function).
func (w *World) loseCurrentLease() {
	role := w.S.Current()
	w.S.mu.Lock()
	l := w.S.leases[role]
	w.S.mu.Unlock()
	if l != nil && role != "api" {
		l.cancel()
		w.Mon.leaseLost(role)
	}
}

func (w *World) hookFn(rs int) workflow.RunStateChangeHookFunc[Obj, St] {
	return func(ctx context.Context, r *workflow.TypedRecord[Obj, St]) error {
		w.detCtx = detCtx{kind: "hook", status: rs, objN: r.Object.Tok(), run: w.RunOrd(r.RunID)}
		out := w.nextOutcome()
		w.ob("fn:hook%d(r%d,rs%d,st%d,v%d,o%d)->%s", rs, w.RunOrd(r.RunID), int(r.RunState), int(r.Status), r.Meta.Version, r.Object.Tok(), out)
		w.Mon.onInvoke(Invocation{Kind: "hook", Proc: w.S.Current(), Run: w.RunOrd(r.RunID), Status: rs, SeenObj: r.Object.Tok(), SeenRS: int(r.RunState),
			SeenVer: r.Meta.Version, Persisted: w.persisted(r.RunID), Outcome: out, Now: w.Clk.Now(), Depth: 1})
		if strings.HasPrefix(out, "l") { // the role is lost while the hook runs; the hook reports an error
			w.loseCurrentLease()
			return errors.New("hook failed " + out)
		}
		if strings.HasPrefix(out, "e:") {
			return userErr("hook", strings.TrimPrefix(out, "e:"))
		}
		if strings.HasPrefix(out, "e") || out == "x" {
			return errors.New("hook failed " + out)
		}
		return nil
	}
}
