import WorkflowModel.Model.Adapters.SqlStore
import WorkflowModel.Props.Tie
/-! # C18 — SQL stores: record and outbox row commit together or not at all

* atomicity of `SQLStore.Store` for EVERY failure position (begin, select, insert/update, event encoding, outbox insert,
  commit): the committed state is the state before, with an error — or the reference store's `store`, with success;
* every where clause the builder can produce binds exactly as many parameters as it has placeholders;
* "answers every operation sequence as the reference stores do" is the differential tie: the SQL stores run against an
  in-process SQL engine (harness/minisql) and are compared with RefStore / RefTimeouts answer by answer. -/
namespace WorkflowModel.C18
open WorkflowModel SqlStore

theorem runTx_atomic {σ : Type} (b c : Bool) (stmts : List (σ → Option σ)) (s : σ) :
    (runTx b c stmts s = (s, false)) ∨
    (b = true ∧ c = true ∧ ∃ s', runStmts stmts s = some s' ∧ runTx b c stmts s = (s', true)) := by
  unfold runTx
  cases b <;> simp
  cases h : runStmts stmts s with
  | none => simp
  | some s' => cases c <;> simp

/-- Store commits both rows or neither: whatever fails — and at whichever position — the committed state is untouched and
the call fails; if nothing fails, the committed state is exactly the reference store's `store` (record row inserted for a
new run ID / updated otherwise, exactly one outbox row) and the call succeeds. -/
theorem C18_store_atomic (b c : Bool) (ok : Nat → Bool) (enc : Bool) (s : RefStore.Store) (r : RefStore.SRec) :
    sqlStore b c ok enc s r = (s, false) ∨ sqlStore b c ok enc s r = (s.store r, true) := by
  unfold sqlStore runTx
  cases b <;> simp [runStmts]
  cases ok 0 <;> simp
  cases ok 1 <;> simp
  cases enc <;> simp
  cases ok 2 <;> simp
  cases c <;> simp [RefStore.Store.store]

/-- success happens exactly when nothing fails -/
theorem C18_store_ok_iff (b c : Bool) (ok : Nat → Bool) (enc : Bool) (s : RefStore.Store) (r : RefStore.SRec) :
    (sqlStore b c ok enc s r).2 = true ↔ (b = true ∧ ok 0 = true ∧ ok 1 = true ∧ enc = true ∧ ok 2 = true ∧ c = true) := by
  unfold sqlStore runTx
  cases b <;> simp [runStmts]
  cases ok 0 <;> simp
  cases ok 1 <;> simp
  cases enc <;> simp
  cases ok 2 <;> simp
  cases c <;> simp

/-- … and any single failure leaves the committed state as it was -/
theorem C18_failure_commits_nothing (b c : Bool) (ok : Nat → Bool) (enc : Bool) (s : RefStore.Store) (r : RefStore.SRec)
    (h : ¬ (b = true ∧ ok 0 = true ∧ ok 1 = true ∧ enc = true ∧ ok 2 = true ∧ c = true)) :
    sqlStore b c ok enc s r = (s, false) := by
  rcases C18_store_atomic b c ok enc s r with h1 | h1
  · exact h1
  · exact absurd ((C18_store_ok_iff b c ok enc s r).mp (by rw [h1])) h

/-! ## placeholders = bound parameters -/

theorem count_append (a b : Str) : placeholders (a ++ b) = placeholders a + placeholders b := by
  simp [placeholders, List.count_append]

theorem placeholders_orJoin (f : Str) (hf : placeholders f = 0) (n : Nat) : placeholders (orJoin f n) = n := by
  have e1 : placeholders [61, 63] = 1 := rfl
  have e2 : placeholders [32, 79, 82, 32] = 0 := rfl
  fun_induction orJoin f n with
  | case1 => rfl
  | case2 => simp only [count_append, hf, e1]
  | case3 n ih => simp only [count_append, hf, ih, e1, e2]; omega

def sumPh (l : List Str) : Nat := (l.map placeholders).sum

theorem placeholders_join (l : List Str) : placeholders (Text.join sAnd l) = sumPh l := by
  have e : placeholders sAnd = 0 := rfl
  fun_induction Text.join sAnd l with
  | case1 => rfl
  | case2 a => simp [sumPh]
  | case3 a b rest ih =>
    simp only [count_append, ih, e, sumPh, List.map_cons, List.sum_cons]
    omega

theorem sumPh_append (a b : List Str) : sumPh (a ++ b) = sumPh a + sumPh b := by simp [sumPh]

/-- builder invariant: the conditions collected so far hold as many placeholders as parameters were bound, and the order
clause holds none -/
def WBInv (wb : WB) : Prop :=
  sumPh wb.conds = wb.params.length ∧ placeholders wb.orderField = 0 ∧ placeholders wb.orderType = 0

theorem wbinv_init : WBInv {} := ⟨rfl, rfl, rfl⟩

theorem wbinv_step (wb : WB) (op : BOp) (h : WBInv wb) (hc : op.clean) : WBInv (op.apply wb) := by
  obtain ⟨h1, h2, h3⟩ := h
  cases op with
  | whereIn f vs =>
    refine ⟨?_, h2, h3⟩
    simp only [BOp.apply, WB.whereIn, sumPh_append, List.length_append, h1]
    have : sumPh [[32, 40, 32] ++ orJoin f vs.length ++ [32, 41, 32]] = vs.length := by
      have e1 : placeholders [32, 40, 32] = 0 := rfl
      have e2 : placeholders [32, 41, 32] = 0 := rfl
      simp only [sumPh, List.map_cons, List.map_nil, List.sum_cons, List.sum_nil, count_append, placeholders_orJoin f hc, e1, e2]
      omega
    omega
  | whereNotNull f =>
    refine ⟨?_, h2, h3⟩
    have e : placeholders isNotNull = 0 := rfl
    have hf : placeholders f = 0 := hc
    simp only [BOp.apply, WB.whereNotNull, sumPh_append, h1]
    simp only [sumPh, List.map_cons, List.map_nil, List.sum_cons, List.sum_nil, count_append, hf, e]
    omega
  | orderBy f t => exact ⟨h1, hc.1, hc.2⟩
  | setOffset o => exact ⟨h1, h2, h3⟩
  | setLimit l => exact ⟨h1, h2, h3⟩

theorem wbinv_ops (ops : List BOp) (wb : WB) (h : WBInv wb) (hc : ∀ op ∈ ops, op.clean) : WBInv (ops.foldl BOp.apply wb) := by
  induction ops generalizing wb with
  | nil => exact h
  | cons op ops ih =>
    exact ih _ (wbinv_step wb op h (hc op (by simp))) (fun o ho => hc o (by simp [ho]))

theorem finalise_balanced (wb : WB) (h : WBInv wb) : placeholders wb.finalise.1 = wb.finalise.2.length := by
  obtain ⟨h1, h2, h3⟩ := h
  have eo : placeholders sOrderBy = 0 := rfl
  have el : placeholders sLimit = 1 := rfl
  have ef : placeholders sOffset = 1 := rfl
  have es : placeholders [32] = 0 := rfl
  have hw : placeholders (if wb.orderField ≠ [] then Text.join sAnd wb.conds ++ sOrderBy ++ wb.orderField ++ [32] ++ wb.orderType
      else Text.join sAnd wb.conds) = wb.params.length := by
    split
    · simp only [count_append, placeholders_join, h1, h2, h3, eo, es]; omega
    · simp only [placeholders_join, h1]
  unfold WB.finalise
  by_cases hl : wb.limit > 0 <;> by_cases hf : wb.offset > 0 <;>
    simp only [hl, hf, if_true, if_false, count_append, hw, el, ef, List.length_append, List.length_cons, List.length_nil]

/-- Every where clause the builder can produce — ANY sequence of Where / WhereNotNull / OrderBy / Limit / Offset calls with
'?'-free field names, any values (also containing '?'), any limit and offset — binds exactly as many parameters as it
has placeholders. -/
theorem C18_placeholders_balanced (ops : List BOp) (hc : ∀ op ∈ ops, op.clean) :
    placeholders (ops.foldl BOp.apply {}).finalise.1 = (ops.foldl BOp.apply {}).finalise.2.length :=
  finalise_balanced _ (wbinv_ops ops {} wbinv_init hc)

/-- … in particular for every call of `SQLStore.List` -/
theorem C18_list_balanced (wf : Option Str) (fids sts rss : Option (List Str)) (limit offset : Int) (order : Str)
    (ho : placeholders order = 0) :
    placeholders ((listOps wf fids sts rss limit offset order).foldl BOp.apply {}).finalise.1 =
      ((listOps wf fids sts rss limit offset order).foldl BOp.apply {}).finalise.2.length := by
  apply C18_placeholders_balanced
  intro op hop
  simp only [listOps, List.mem_append, List.mem_cons, List.mem_nil_iff, or_false] at hop
  have k1 : placeholders (S "workflow_name") = 0 := by decide +kernel
  have k2 : placeholders (S "foreign_id") = 0 := by decide +kernel
  have k3 : placeholders (S "status") = 0 := by decide +kernel
  have k4 : placeholders (S "run_state") = 0 := by decide +kernel
  have k5 : placeholders (S "run_id") = 0 := by decide +kernel
  have k6 : placeholders (S "created_at") = 0 := by decide +kernel
  rcases hop with (((h | h) | h) | h) | h
  · cases wf <;> simp at h; subst h; exact k1
  · cases fids <;> simp at h; subst h; exact k2
  · cases sts <;> simp at h; subst h; exact k3
  · cases rss <;> simp at h; subst h; exact k4
  · rcases h with h | h | h | h <;> subst h
    · exact k5
    · exact ⟨k6, ho⟩
    · trivial
    · trivial

theorem C18_tie_order : Tie.sqlStore = true := by decide +kernel

/-- non-vacuity: two foreign IDs, one status, limit 3, offset 3 → five placeholders, five parameters -/
example :
    let f := ((listOps (some (S "w")) (some [S "a", S "b"]) (some [S "3"]) none 3 3 (S "desc")).foldl BOp.apply {}).finalise
    placeholders f.1 = 6 ∧ f.2.length = 6 := by decide +kernel

example : (sqlStore true true (fun _ => true) true {} ⟨0, 0, 0, 1, 1, 5, 1⟩).1.outbox.length = 1 ∧
    (sqlStore true true (fun i => i != 2) true {} ⟨0, 0, 0, 1, 1, 5, 1⟩).1.outbox.length = 0 ∧
    (sqlStore true true (fun i => i != 2) true {} ⟨0, 0, 0, 1, 1, 5, 1⟩).1.recs.length = 0 ∧
    (sqlStore true true (fun i => i != 2) true {} ⟨0, 0, 0, 1, 1, 5, 1⟩).2 = false := by decide +kernel

end WorkflowModel.C18
