package pure

import (
	"context"
	"fmt"
	"strconv"

	"github.com/luno/workflow"
	"github.com/luno/workflow/verifharness/leandrv"
	"github.com/luno/workflow/verifharness/report"
	"github.com/luno/workflow/verifharness/rng"
)

// sliceConsumer feeds a fixed list of connector events from a start offset (a consumer process that restarted resumes
// from its cursor, with a fresh streamer and therefore a fresh hasher).
type sliceConsumer struct {
	evs []workflow.ConnectorEvent
	i   int
}

func (c *sliceConsumer) Recv(ctx context.Context) (*workflow.ConnectorEvent, workflow.Ack, error) {
	if c.i >= len(c.evs) {
		return nil, nil, context.Canceled
	}
	e := c.evs[c.i]
	c.i++
	return &e, func() error { return nil }, nil
}
func (c *sliceConsumer) Close() error { return nil }

// ConnectorShards (C10): with a parallel count of n on a connector, every connector event is handled by exactly one of the n
// shard processes - whatever each process has consumed before (every shard process has its own connector streamer; a process
// that restarts resumes from its cursor with a fresh one). The real connector streamer and the real shard filter are used.
func ConnectorShards(d *leandrv.Driver, r *rng.R, res *report.Result, thorough bool) error {
	res.Rule = "a list of 20-60 connector events (random and structured IDs); n in 2..6 shard processes, each reading the list through its OWN real connector streamer (newConnectorStreamer) from its own start offset " +
		"(0 = never restarted, k = restarted after k events) and filtering with the real shardFilter(i, n); every event every shard sees must be handled by exactly one shard; also: the event ID a streamer assigns is the same " +
		"whatever it hashed before"
	n := 200
	if thorough {
		n = 3000
	}
	ctx := context.Background()
	for it := 0; it < n; it++ {
		k := 20 + r.Intn(41)
		var evs []workflow.ConnectorEvent
		for i := 0; i < k; i++ {
			id := strconv.Itoa(i)
			switch r.Intn(4) {
			case 0:
				id = fmt.Sprintf("ev-%d-%d", it, r.Intn(1_000_000))
			case 1:
				id = fmt.Sprintf("%x", r.U64())
			}
			evs = append(evs, workflow.ConnectorEvent{ID: id, ForeignID: "f" + strconv.Itoa(i), Type: "t"})
		}
		shards := 2 + r.Intn(5)
		// IDs as a never-restarted streamer assigns them, and as fresh streamers assign them
		ids := make([][]int64, shards+1) // [0] = reference: every event through its own fresh streamer
		for i := range evs {
			rcv := workflow.VerifNewConnectorStreamer(&sliceConsumer{evs: evs, i: i})
			e, _, err := rcv.Recv(ctx)
			if err != nil {
				return err
			}
			ids[0] = append(ids[0], e.ID)
		}
		handledBy := make([][]int, k)
		start := make([]int, shards+1)
		for s := 1; s <= shards; s++ {
			if r.Chance(1, 2) {
				start[s] = r.Intn(k / 2)
			}
			rcv := workflow.VerifNewConnectorStreamer(&sliceConsumer{evs: evs, i: start[s]})
			filter := workflow.VerifShardFilter(s, shards)
			for i := start[s]; i < k; i++ {
				e, _, err := rcv.Recv(ctx)
				if err != nil {
					return err
				}
				if e.ID != ids[0][i] {
					res.Violate(report.Violation{Property: "C10", Oracle: "event-id-function-of-event", Signature: "connector-event-id-depends-on-history",
						Detail: fmt.Sprintf("connector event %q gets ID %d from a streamer that has hashed %d events before and %d from a fresh one", evs[i].ID, e.ID, i-start[s], ids[0][i]),
						Replay: map[string]any{"suite": "pure-connshards", "events": len(evs), "shards": shards, "starts": start[1:], "event_index": i, "event_id": evs[i].ID}})
				}
				if !filter(e) {
					handledBy[i] = append(handledBy[i], s)
				}
			}
		}
		res.Eval(k)
		res.NonTrivial(fmt.Sprintf("%d/%d/%v", k, shards, start))
		if it < 2 {
			res.Sample(map[string]any{"events": k, "shards": shards, "start_offsets": start[1:]})
		}
		for i := range evs {
			seenByAll := true
			for s := 1; s <= shards; s++ {
				if start[s] > i {
					seenByAll = false
				}
			}
			if !seenByAll {
				continue // some shard had already passed this event before it restarted
			}
			if len(handledBy[i]) != 1 {
				res.Violate(report.Violation{Property: "C10", Oracle: "one-shard-per-event", Signature: fmt.Sprintf("connector-event-handled-by-%d-shards", min(len(handledBy[i]), 2)),
					Detail: fmt.Sprintf("connector event #%d (%q) is handled by shards %v of %d (start offsets %v)", i, evs[i].ID, handledBy[i], shards, start[1:]),
					Replay: map[string]any{"suite": "pure-connshards", "events": len(evs), "shards": shards, "starts": start[1:], "event_index": i, "event_id": evs[i].ID}})
				break
			}
		}
		res.Traces++
	}
	return nil
}
