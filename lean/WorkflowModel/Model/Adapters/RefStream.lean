/-! # RefStream: the event-streamer contract for named receivers (reference model for C19)

One append-only log; every event belongs to a topic. A receiver has a name; the position stored for a name is the index
of the next log entry to look at. `recv` delivers the first event of the receiver's topic at or after the stored
position (or blocks); `ack` of the delivery at index `i` stores position `i + 1`; a receiver that does not acknowledge
leaves the position at (or before) the delivered event, so the next receiver with that name gets the same event again.

`StreamFromLatest`: a receiver created with it while no position is stored for its name starts at the end of the log AS
IT WAS AT CREATION (`floor`); the floor becomes the stored position at that receiver's first receive. "No position" and
"position 0" are different things. -/
namespace WorkflowModel.RefStream

structure Stream where
  log : List (Nat × Nat) := []          -- (topic, payload), in send order
  pos : List (Nat × Nat) := []          -- receiver name ↦ stored position (absent = none stored)
  floor : List (Nat × Nat) := []        -- receiver name ↦ log length when its live StreamFromLatest receiver was created
deriving Repr, Inhabited

def Stream.send (s : Stream) (topic payload : Nat) : Stream := { s with log := s.log ++ [(topic, payload)] }

def Stream.position (s : Stream) (name : Nat) : Option Nat := s.pos.lookup name

def setPos (l : List (Nat × Nat)) (k v : Nat) : List (Nat × Nat) := (k, v) :: l.filter (fun p => p.1 != k)

/-- a new receiver replaces the live one of that name (reconnect) -/
def Stream.newReceiver (s : Stream) (name : Nat) (fromLatest : Bool) : Stream :=
  if fromLatest then { s with floor := setPos s.floor name s.log.length }
  else { s with floor := s.floor.filter (fun p => p.1 != name) }

/-- where the live receiver of `name` starts looking -/
def Stream.start (s : Stream) (name : Nat) : Nat :=
  match s.position name with
  | some p => p
  | none => (s.floor.lookup name).getD 0

def nextFrom (log : List (Nat × Nat)) (topic : Nat) (i : Nat) : Nat → Option Nat
  | 0 => none
  | fuel + 1 =>
    match log[i]? with
    | none => none
    | some e => if e.1 == topic then some i else nextFrom log topic (i + 1) fuel

def Stream.scan (s : Stream) (name topic : Nat) : Option Nat := nextFrom s.log topic (s.start name) (s.log.length + 1)

/-- the first receive of a StreamFromLatest receiver with no stored position stores its floor -/
def Stream.materialise (s : Stream) (name : Nat) : Stream :=
  match s.position name, s.floor.lookup name with
  | none, some f => { s with pos := setPos s.pos name f }
  | _, _ => s

def Stream.moveTo (s : Stream) (name p : Nat) : Stream :=
  if p = s.start name then s.materialise name else { s with pos := setPos s.pos name p }

/-- receive: the delivery (index and payload of the next event of the topic) or none = would block. Looking past events
of other topics stores the position reached (the delivered event's own index, or the end of the log when blocking); the
position moves PAST a delivered event only by `ack`. -/
def Stream.recv (s : Stream) (name topic : Nat) : Stream × Option (Nat × Nat) :=
  match s.scan name topic with
  | none => (s.moveTo name (max (s.start name) s.log.length), none)
  | some i => (s.moveTo name i, (s.log[i]?).map (fun e => (i, e.2)))

def Stream.ack (s : Stream) (name : Nat) (i : Nat) : Stream := { s with pos := setPos s.pos name (i + 1) }

end WorkflowModel.RefStream
