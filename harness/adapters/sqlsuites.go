package adapters

import (
	"context"
	"fmt"
	"strconv"
	"strings"

	"github.com/luno/workflow"
	"github.com/luno/workflow/adapters/sqlstore"
	"github.com/luno/workflow/adapters/sqltimeout"
	"github.com/luno/workflow/verifharness/leandrv"
	"github.com/luno/workflow/verifharness/minisql"
	"github.com/luno/workflow/verifharness/report"
	"github.com/luno/workflow/verifharness/rng"
)

const (
	recTable = "workflow_records"
	outTable = "workflow_outbox"
	toTable  = "workflow_timeouts"
)

func newSQLDB() *minisql.DB {
	db := minisql.New()
	db.CreateTable(recTable, "run_id", false, "workflow_name", "foreign_id", "run_id", "run_state", "status", "object", "created_at", "updated_at", "meta")
	db.CreateTable(outTable, "id", false, "id", "workflow_name", "data", "created_at")
	db.CreateTable(toTable, "id", true, "id", "workflow_name", "foreign_id", "run_id", "status", "completed", "expire_at", "created_at")
	return db
}

// inspectLog: every statement binds as many arguments as it has placeholders; writes go to the writer connection;
// no statement the engine could not understand.
func inspectLog(db *minisql.DB) []string {
	var out []string
	seen := map[string]bool{}
	for _, e := range db.Log {
		add := func(s string) {
			if !seen[s] {
				seen[s] = true
				out = append(out, s)
			}
		}
		if (e.Op == "exec" || e.Op == "query") && e.Args != e.Placeholders {
			add(fmt.Sprintf("placeholder-mismatch: %d placeholders, %d arguments in %q", e.Placeholders, e.Args, strings.TrimSpace(e.SQL)))
		}
		if e.Op == "exec" && e.Conn != "writer" {
			add(fmt.Sprintf("write-on-reader-connection: %q", strings.TrimSpace(e.SQL)))
		}
		if strings.Contains(e.Err, "unsupported") || strings.Contains(e.Err, "unknown column") || strings.Contains(e.Err, "LIMIT/OFFSET") ||
			strings.Contains(e.Err, "unexpected character") || strings.Contains(e.Err, "expected") {
			add(fmt.Sprintf("statement-rejected-by-engine: %s", e.Err))
		}
	}
	return out
}

func SQLRecordStore() (workflow.RecordStore, func(), func() []string) {
	db := newSQLDB()
	w, r := db.Open("writer"), db.Open("reader")
	st := sqlstore.New(w, r, recTable, outTable)
	return st, func() { w.Close(); r.Close() }, func() []string { return inspectLog(db) }
}

func SQLTimeoutStore() (workflow.TimeoutStore, func(), func() []string) {
	db := newSQLDB()
	w, r := db.Open("writer"), db.Open("reader")
	st := sqltimeout.New(w, r, toTable)
	return st, func() { w.Close(); r.Close() }, func() []string { return inspectLog(db) }
}

// ---- atomicity of Store under a failure at every position ----

type atomCase struct {
	Prefix  []rsOp `json:"prefix"`
	Op      rsOp   `json:"op"`
	FailAt  int    `json:"fail_at"` // -1 = no failure
	FailOp  string `json:"fail_op"`
	BadUTF8 bool   `json:"bad_utf8"`
}

func mkRec(o rsOp, ver int, bad bool) *workflow.Record {
	fid := "f" + strconv.Itoa(o.Fid)
	if bad {
		fid = "f\xff\xfe"
	}
	return &workflow.Record{WorkflowName: "w" + strconv.Itoa(o.Wf), ForeignID: fid, RunID: "r" + strconv.Itoa(o.Rid),
		RunState: workflow.RunState(o.Rs), Status: o.St, Object: []byte{byte(o.O)}, Meta: workflow.Meta{Version: uint(ver)}}
}

// SQLAtomicSuite: for random committed pre-states and a Store of a new or an existing run (or an unencodable one), make
// each driver operation of that Store fail in turn: the call must return an error and the committed content must be
// byte-for-byte what it was; with no failure exactly one record row is inserted/updated and one outbox row added, all
// statements inside ONE transaction on the writer connection.
func SQLAtomicSuite(d *leandrv.Driver, r *rng.R, res *report.Result, thorough bool) error {
	res.Rule = "SQLStore.Store over an in-process SQL engine: random committed pre-state (0..6 stores over 5 run IDs), then one Store (new run / existing run / record whose event cannot be encoded) with " +
		"a failure injected at EVERY driver operation of that call in turn (begin, select, insert|update, outbox insert, commit) and with none; committed content compared before/after; statement log checked for one transaction on the writer"
	n := 120
	if thorough {
		n = 2500
	}
	ctx := context.Background()
	for it := 0; it < n; it++ {
		var prefix []rsOp
		for i, k := 0, r.Intn(7); i < k; i++ {
			o := genOp(r)
			o.Kind = "store"
			rid := r.Intn(5)
			own := [][2]int{{0, 0}, {0, 0}, {0, 1}, {1, 0}, {1, 0}}[rid]
			o.Wf, o.Fid, o.Rid = own[0], own[1], rid
			prefix = append(prefix, o)
		}
		op := genOp(r)
		op.Kind = "store"
		rid := r.Intn(5)
		own := [][2]int{{0, 0}, {0, 0}, {0, 1}, {1, 0}, {1, 0}}[rid]
		op.Wf, op.Fid, op.Rid = own[0], own[1], rid
		bad := r.Chance(1, 6)
		build := func() (*minisql.DB, *sqlstore.SQLStore, func(), bool, error) {
			db := newSQLDB()
			w, rd := db.Open("writer"), db.Open("reader")
			st := sqlstore.New(w, rd, recTable, outTable)
			ver := map[int]int{}
			exists := false
			for _, p := range prefix {
				ver[p.Rid]++
				if err := st.Store(ctx, mkRec(p, ver[p.Rid], false)); err != nil {
					return nil, nil, nil, false, fmt.Errorf("prefix store failed: %w", err)
				}
				if p.Rid == op.Rid {
					exists = true
				}
			}
			return db, st, func() { w.Close(); rd.Close() }, exists, nil
		}
		// dry run: count the driver operations of the call
		db, st, closeFn, exists, err := build()
		if err != nil {
			return err
		}
		before := db.Snapshot()
		recs0, out0 := db.Count(recTable), db.Count(outTable)
		db.ResetLog()
		db.ArmFault(-1)
		err = st.Store(ctx, mkRec(op, 50, bad))
		total := db.Ops()
		log := append([]minisql.LogEntry{}, db.Log...)
		kind := "new-run"
		if exists {
			kind = "existing-run"
		}
		if bad {
			kind += "+unencodable"
		}
		res.Count("case:" + kind)
		res.NonTrivial(fmt.Sprintf("%v|%v|%v", prefix, op, bad))
		viol := func(sig, detail string, c atomCase) {
			res.Violate(report.Violation{Property: "C18", Oracle: "store-commits-both-or-neither", Signature: sig, Detail: detail,
				Replay: map[string]any{"suite": "sql-atomic", "case": c}})
		}
		base := atomCase{Prefix: prefix, Op: op, FailAt: -1, BadUTF8: bad}
		res.Eval(1)
		if bad {
			if err == nil {
				viol("unencodable-record-stored", "Store of a record whose outbox event cannot be encoded returned nil", base)
			} else if db.Snapshot() != before {
				viol("partial-commit-after-encoding-error", "the event encoding failed but the committed content changed: record row without its outbox row", base)
			}
		} else {
			if err != nil {
				viol("store-failed-without-fault", "Store failed with no injected failure: "+err.Error(), base)
			} else {
				wantRecs := recs0 + 1
				if exists {
					wantRecs = recs0
				}
				if db.Count(recTable) != wantRecs || db.Count(outTable) != out0+1 {
					viol("wrong-row-counts-after-store", fmt.Sprintf("records %d->%d (want %d), outbox %d->%d (want %d)", recs0, db.Count(recTable), wantRecs, out0, db.Count(outTable), out0+1), base)
				}
			}
			// one transaction on the writer around every statement
			txs := map[int]bool{}
			okShape := len(log) > 0 && log[0].Op == "begin"
			for _, e := range log {
				if e.Conn != "writer" {
					okShape = false
				}
				if e.Op == "exec" || e.Op == "query" {
					if !e.InTx {
						okShape = false
					}
					txs[e.Tx] = true
				}
			}
			if !okShape || len(txs) != 1 {
				viol("store-not-in-one-writer-transaction", fmt.Sprintf("statement log of Store: %+v", log), base)
			}
		}
		for _, p := range inspectLog(db) {
			viol(strings.SplitN(p, ":", 2)[0], p, base)
		}
		closeFn()
		// every failure position
		for k := 0; k < total; k++ {
			db, st, closeFn, _, err := build()
			if err != nil {
				return err
			}
			before := db.Snapshot()
			db.ResetLog()
			db.ArmFault(k)
			err = st.Store(ctx, mkRec(op, 50, bad))
			db.ArmFault(-1)
			failOp := ""
			for _, e := range db.Log {
				if e.Err != "" && strings.Contains(e.Err, "injected") {
					failOp = e.Op + " " + firstWords(e.SQL)
				}
			}
			c := atomCase{Prefix: prefix, Op: op, FailAt: k, FailOp: failOp, BadUTF8: bad}
			res.Eval(1)
			res.Count("fail-at:" + strings.Fields(failOp + " ?")[0])
			after := db.Snapshot()
			if err == nil {
				viol("failure-swallowed", fmt.Sprintf("operation %d (%s) of Store failed but Store returned nil", k, failOp), c)
			}
			if after != before {
				viol("partial-commit", fmt.Sprintf("operation %d (%s) of Store failed and the committed content changed", k, failOp), c)
			}
			// the store stays usable: a later read answers from the unchanged content
			if _, e2 := st.Lookup(ctx, "r"+strconv.Itoa(op.Rid)); e2 != nil && !strings.Contains(e2.Error(), "not found") {
				viol("store-unusable-after-failure", "Lookup after the failed Store: "+e2.Error(), c)
			}
			closeFn()
		}
		res.Traces++
	}
	return nil
}

func firstWords(q string) string {
	f := strings.Fields(q)
	if len(f) > 3 {
		f = f[:3]
	}
	return strings.Join(f, " ")
}

// ---- where builder: the text and parameters List emits vs the Lean model of the builder ----

func SQLWhereSuite(d *leandrv.Driver, r *rng.R, res *report.Result, thorough bool) error {
	res.Rule = "SQLStore.List for workflow name present/absent x foreign-ID/status/run-state filters (absent, 1, 2, 3 values) x limit {0,1,7} x offset {0,2} x order {asc,desc}: the where clause text and the bound parameters from the statement log " +
		"are compared with the Lean model of whereBuilder (whose placeholder balance is proved for all builder-call sequences)"
	ctx := context.Background()
	vals := func(p string, k int) ([]string, string) {
		if k == 0 {
			return nil, "-"
		}
		var xs []string
		for i := 0; i < k; i++ {
			xs = append(xs, p+strconv.Itoa(i+1))
		}
		return xs, strings.Join(xs, ",")
	}
	norm := func(s string) string { return strings.Join(strings.Fields(s), " ") }
	for _, wf := range []string{"", "w0"} {
		for nf := 0; nf < 4; nf++ {
			for ns := 0; ns < 4; ns++ {
				for nr := 0; nr < 4; nr++ {
					for _, lim := range []int{0, 1, 7} {
						for _, off := range []int64{0, 2} {
							for _, ord := range []workflow.OrderType{workflow.OrderTypeAscending, workflow.OrderTypeDescending} {
								db := newSQLDB()
								w, rd := db.Open("writer"), db.Open("reader")
								st := sqlstore.New(w, rd, recTable, outTable)
								var fs []workflow.RecordFilter
								fv, fm := vals("f", nf)
								if nf > 0 {
									fs = append(fs, workflow.FilterByForeignID(fv...))
								}
								_, sm := vals("", ns)
								if ns > 0 {
									var xs []int
									for i := 0; i < ns; i++ {
										xs = append(xs, i+1)
									}
									fs = append(fs, workflow.FilterByStatus(xs...))
								}
								_, rm := vals("", nr)
								if nr > 0 {
									var xs []workflow.RunState
									for i := 0; i < nr; i++ {
										xs = append(xs, workflow.RunState(i+1))
									}
									fs = append(fs, workflow.FilterByRunState(xs...))
								}
								_, err := st.List(ctx, wf, off, lim, ord, fs...)
								impl := "no-query"
								for _, e := range db.Log {
									if e.Op == "query" {
										i := strings.Index(e.SQL, " where ")
										impl = norm(e.SQL[i+7:]) + "|" + strconv.Itoa(e.Args)
										if e.Err != "" {
											impl += "|engine: " + e.Err
										}
									}
								}
								if err != nil {
									impl += "|err"
								}
								mwf := wf
								if wf == "" {
									mwf = "-"
								}
								m, e2 := d.Ask(fmt.Sprintf("wb %s %s %s %s %d %d %s", mwf, fm, sm, rm, lim, off, ord.String()))
								if e2 != nil {
									return e2
								}
								parts := strings.SplitN(m, "|", 2)
								model := m
								if len(parts) == 2 {
									np := 0
									if parts[1] != "" {
										np = len(strings.Split(parts[1], ","))
									}
									model = norm(parts[0]) + "|" + strconv.Itoa(np)
								}
								res.Eval(1)
								res.NonTrivial(impl)
								if impl != model && !d.Null {
									res.Disagree(report.Disagreement{Properties: []string{"C18"}, Where: "sql-where: List emits a where clause the model of whereBuilder does not",
										Input: map[string]any{"workflow": wf, "foreign_ids": nf, "statuses": ns, "run_states": nr, "limit": lim, "offset": off, "order": ord.String()},
										Impl:  impl, Model: model})
								}
								for _, p := range inspectLog(db) {
									res.Violate(report.Violation{Property: "C18", Oracle: "statement-log", Signature: strings.SplitN(p, ":", 2)[0], Detail: p,
										Replay: map[string]any{"suite": "sql-where", "workflow": wf, "foreign_ids": nf, "statuses": ns, "run_states": nr, "limit": lim, "offset": off, "order": ord.String()}})
								}
								w.Close()
								rd.Close()
							}
						}
					}
				}
			}
		}
	}
	res.Exhaustive = true
	return nil
}
