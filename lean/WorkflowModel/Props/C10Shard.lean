import WorkflowModel.Model.Routing
import WorkflowModel.Lemmas.Text
import WorkflowModel.Props.Tie
/-! # C10 (shards) — shards partition the events, for every event ID including negative ones

`Routing.shardOut` is built from the **generated** guard expressions of `shardFilter` (Go `%` is truncated
division = `Int.tmod`). Before the repair of defect F12 the expression was `id % n ≠ shard-1` and the full statement was
provably FALSE (id = -3, n = 2 was handled by no shard); the repaired expression shifts the remainder into [0, n). -/
namespace WorkflowModel.C10
open WorkflowModel Routing Text

/-- the remainder the repaired filter compares with: in [0, n) for every id -/
def posMod (id total : Int) : Int := (id.tmod total + total).tmod total

theorem shardOut_false_iff (shard total id : Int) :
    shardOut shard total id = false ↔ (total ≤ 1 ∨ posMod id total = shard - 1) := by
  unfold shardOut posMod
  simp only [Gen.G.shardActive, Gen.G.shardOutExpr, Gen.G.shardTotal]
  by_cases ht : total > 1
  · simp only [ht, decide_true, if_true, decide_eq_false_iff_not, ne_eq, Classical.not_not]
    constructor
    · intro h; exact Or.inr (Classical.not_not.mp (of_decide_eq_false h))
    · rintro (h | h)
      · omega
      · exact decide_eq_false (fun hn => hn h)
  · simp only [ht, decide_false, Bool.false_eq_true, if_false, true_iff]
    exact Or.inl (by omega)

theorem tmod_abs_lt (id total : Int) (ht : 0 < total) : -total < id.tmod total ∧ id.tmod total < total := by
  by_cases hn : id < 0
  · have h := Int.neg_tmod id total
    have h1 := Int.tmod_nonneg total (by omega : 0 ≤ -id)
    have h2 := Int.tmod_lt_of_pos (-id) ht
    omega
  · have h1 := Int.tmod_nonneg total (by omega : 0 ≤ id)
    have h2 := Int.tmod_lt_of_pos id ht
    omega

theorem posMod_range (id total : Int) (ht : 0 < total) : 0 ≤ posMod id total ∧ posMod id total < total := by
  unfold posMod
  have := tmod_abs_lt id total ht
  exact ⟨Int.tmod_nonneg total (by omega), Int.tmod_lt_of_pos _ ht⟩

/-- FULL STATEMENT: with n ≥ 2 shards EVERY event ID — negative ones derived from hashes included — is handled by exactly
one of the n shards (and filtered out, i.e. acknowledged unhandled, by all the others). -/
theorem C10_shard_partition (total id : Int) (ht : 1 < total) :
    ∃ s, 1 ≤ s ∧ s ≤ total ∧ shardOut s total id = false ∧
      ∀ s', 1 ≤ s' → s' ≤ total → shardOut s' total id = false → s' = s := by
  obtain ⟨h0, h1⟩ := posMod_range id total (by omega)
  refine ⟨posMod id total + 1, by omega, by omega, ?_, ?_⟩
  · rw [shardOut_false_iff]; exact Or.inr (by omega)
  · intro s' _ _ h3
    rw [shardOut_false_iff] at h3
    omega

/-- with fewer than two shards nothing is filtered -/
theorem C10_single_shard (shard total id : Int) (ht : total ≤ 1) : shardOut shard total id = false := by
  rw [shardOut_false_iff]; exact Or.inl ht

/-- T2: launch sequence of `Run` and the construction of every role name (stable identifiers only) -/
theorem C10_tie_launch_and_roles : Tie.runLaunches = true ∧ Tie.roles = true := by decide +kernel

/-- non-vacuity: the former counterexample -3 with two shards is now handled by shard 2 only -/
example : shardOut 1 2 (-3) = true ∧ shardOut 2 2 (-3) = false ∧ shardOut 1 2 4 = false ∧ shardOut 2 2 4 = true := by
  decide +kernel

end WorkflowModel.C10
