import WorkflowModel.Lemmas.HistLogic
/-! # Every operation of the engine only makes legal writes — when its reads are current

For each write path (controller, updater, delete consumer, trigger) the write is a legal extension of the run's history
provided the record it was built from is the persisted one (`Based`, `UBased`, `IsHead`). Handlers establish that by
reading at the start of the operation and making no other write to the run in between; the triples below thread it through
every handler, the timeout poller and the API calls, for every fault plan and every user-function outcome that does not
re-enter the API (`NoNested`). -/
namespace WorkflowModel.Engine
open WorkflowModel RS

variable {cfg : Cfg} {env : Env}

/-- the controller's in-memory record `mem` describes the persisted record of its run (possibly seen through `buildRun`'s
view of Initiated as Running) -/
def Based (R : List RunS) (mem : Rec) : Prop :=
  ∃ h, IsHead R h ∧ h.runId = mem.runId ∧ mem.version = h.version ∧ mem.fid = h.fid ∧ mem.createdAt = h.createdAt ∧
    mem.status = h.status ∧ mem.obj = h.obj ∧ mem.descr = h.descr ∧ (mem.runState = h.runState ∨ mem.runState = view h.runState)

/-- the in-memory run handed to a user function describes the persisted record, which is not stopped -/
def UBased (R : List RunS) (run : Rec) : Prop :=
  ∃ h, IsHead R h ∧ h.runId = run.runId ∧ run.version = h.version ∧ run.fid = h.fid ∧ run.createdAt = h.createdAt ∧
    (h.runState = 1 ∨ h.runState = 2 ∨ h.runState = 5)

theorem isHead_unique {R : List RunS} {h h' : Rec} (a : IsHead R h) (b : IsHead R h') (hid : h.runId = h'.runId) : h = h' := by
  obtain ⟨x, t, hx, hl⟩ := a
  obtain ⟨x', t', hx', hl'⟩ := b
  rw [hid, hx'] at hx
  cases hx
  rw [hl'] at hl
  cases hl
  rfl

theorem based_head {R : List RunS} {h : Rec} (hh : IsHead R h) : Based R h :=
  ⟨h, hh, rfl, rfl, rfl, rfl, rfl, rfl, rfl, Or.inl rfl⟩

theorem based_view {R : List RunS} {h : Rec} (hh : IsHead R h) : Based R (viewRec h) :=
  ⟨h, hh, rfl, rfl, rfl, rfl, rfl, rfl, rfl, Or.inr rfl⟩

theorem target_cases (op : CtlOp) : target op = 3 ∨ target op = 2 ∨ target op = 4 ∨ target op = 7 := by
  cases op <;> simp [target, Gen.ctlTargetPause, Gen.ctlTargetResume, Gen.ctlTargetCancel, Gen.ctlTargetDeleteData]

/-! ## legality of the four kinds of write -/

theorem legal_ctl {s : Sys} (hi : Inv cfg s) {mem : Rec} (hb : Based s.runs mem) (tgt : Int) (reason : Nat)
    (ht : tgt = 3 ∨ tgt = 2 ∨ tgt = 4 ∨ tgt = 7) (ha : allowed mem.runState tgt = true) :
    Legal cfg s.runs { mem with runState := tgt, reason := reason, version := mem.version + 1 } := by
  obtain ⟨h, hh, hid, hv, hf, hc, hs, ho, hd, hrs⟩ := hb
  have hrec := hh.recOK hi.hist
  obtain ⟨x, t, hx, hl⟩ := hh
  refine ⟨⟨by simp only; womega, by simp only; womega, fun h5 => by simp only at h5; womega, ?_⟩, ?_⟩
  · show mem.descr = mem.status
    rw [hd, hs]; exact hrec.descr
  · show match s.runs[mem.runId]? with
      | some x => mem.fid = x.fid ∧ ∃ h' t', x.hist = h' :: t' ∧ Edge cfg h' { mem with runState := tgt, reason := reason, version := mem.version + 1 }
      | none => mem.runId = s.runs.length ∧ InitOK cfg { mem with runState := tgt, reason := reason, version := mem.version + 1 }
    rw [← hid, hx]
    refine ⟨?_, h, t, hl, ⟨by simp [hv], by simp [hid], hf, hc, Or.inl ⟨hs, ho, ?_⟩⟩⟩
    · rw [hf]; exact IsHead.fid hi.hist hx (by rw [hl]; simp)
    · show allowed h.runState tgt = true ∨ allowed (view h.runState) tgt = true
      rcases hrs with e | e
      · left; rw [← e]; exact ha
      · right; rw [← e]; exact ha

theorem legal_advance {s : Sys} (hi : Inv cfg s) {run h : Rec} (hh : IsHead s.runs h) (hid : h.runId = run.runId)
    (hv : run.version = h.version) (hf : run.fid = h.fid) (hc : run.createdAt = h.createdAt)
    (hrs : h.runState = 1 ∨ h.runState = 2) (next : Status) (o : Obj) (now : Int) (he : (h.status, next) ∈ cfg.edges) :
    Legal cfg s.runs { updaterRec cfg next run o now with version := run.version + 1 } := by
  obtain ⟨x, t, hx, hl⟩ := hh
  refine ⟨⟨?_, ?_, ?_, rfl⟩, ?_⟩
  · show 1 ≤ (if Graph.isTerminal cfg.graph next then Gen.RunStateCompleted else Gen.RunStateRunning)
    split <;> simp [Gen.RunStateCompleted, Gen.RunStateRunning]
  · show (if Graph.isTerminal cfg.graph next then Gen.RunStateCompleted else Gen.RunStateRunning) ≤ 7
    split <;> simp [Gen.RunStateCompleted, Gen.RunStateRunning]
  · show (if Graph.isTerminal cfg.graph next then Gen.RunStateCompleted else Gen.RunStateRunning) = 5 → Graph.isTerminal cfg.graph next = true
    split
    · intro _; assumption
    · simp [Gen.RunStateRunning]
  · show match s.runs[run.runId]? with
      | some x => run.fid = x.fid ∧ ∃ h' t', x.hist = h' :: t' ∧ Edge cfg h' { updaterRec cfg next run o now with version := run.version + 1 }
      | none => run.runId = s.runs.length ∧ InitOK cfg { updaterRec cfg next run o now with version := run.version + 1 }
    rw [← hid, hx]
    refine ⟨?_, h, t, hl, ⟨by simp [hv], by simp [updaterRec, hid], by simp [updaterRec, hf], by simp [updaterRec, hc],
      Or.inr (Or.inl ⟨hrs, he, ?_⟩)⟩⟩
    · rw [hf]; exact IsHead.fid hi.hist hx (by rw [hl]; simp)
    · rfl

theorem legal_delete {s : Sys} (hi : Inv cfg s) {h : Rec} (hh : IsHead s.runs h) (hrs : h.runState = 7 ∨ h.runState = 6) (o : Obj) :
    Legal cfg s.runs { ({ h with obj := o, runState := Gen.RunStateDataDeleted } : Rec) with version := h.version + 1 } := by
  have hrec := hh.recOK hi.hist
  obtain ⟨x, t, hx, hl⟩ := hh
  refine ⟨⟨by simp [Gen.RunStateDataDeleted], by simp [Gen.RunStateDataDeleted], by simp [Gen.RunStateDataDeleted], hrec.descr⟩, ?_⟩
  show match s.runs[h.runId]? with
    | some x => h.fid = x.fid ∧ ∃ h' t', x.hist = h' :: t' ∧ Edge cfg h' { ({ h with obj := o, runState := Gen.RunStateDataDeleted } : Rec) with version := h.version + 1 }
    | none => h.runId = s.runs.length ∧ InitOK cfg { ({ h with obj := o, runState := Gen.RunStateDataDeleted } : Rec) with version := h.version + 1 }
  rw [hx]
  exact ⟨IsHead.fid hi.hist hx (by rw [hl]; simp), h, t, hl, ⟨rfl, rfl, rfl, rfl, Or.inr (Or.inr ⟨hrs, rfl, rfl⟩)⟩⟩

theorem legal_trigger {s : Sys} (fid : Fid) (st : Status) (n : Obj) (now : Int) (hv : Graph.isValid cfg.graph st = true) :
    Legal cfg s.runs { triggerRec fid st n now s.runs.length with version := (triggerRec fid st n now s.runs.length).version + 1 } := by
  refine ⟨⟨by simp [triggerRec, Gen.RunStateInitiated], by simp [triggerRec, Gen.RunStateInitiated],
    by simp [triggerRec, Gen.RunStateInitiated], rfl⟩, ?_⟩
  show match s.runs[s.runs.length]? with
    | some x => fid = x.fid ∧ ∃ h' t', x.hist = h' :: t' ∧ Edge cfg h' { triggerRec fid st n now s.runs.length with version := (triggerRec fid st n now s.runs.length).version + 1 }
    | none => s.runs.length = s.runs.length ∧ InitOK cfg { triggerRec fid st n now s.runs.length with version := (triggerRec fid st n now s.runs.length).version + 1 }
  have : s.runs[s.runs.length]? = none := List.getElem?_eq_none (Nat.le_refl _)
  rw [this]
  exact ⟨rfl, ⟨by simp [triggerRec], by simp [triggerRec, Gen.RunStateInitiated], hv⟩⟩

/-! ## the run-state controller -/

/-- `ctlUpdateMem` on a record that describes the persisted one (whenever the table lets the operation through): afterwards
either it succeeded, or nothing was touched and the controller still holds `mem`, or the controller holds the target state -/
theorem ctlUpdateMem_ht (mem : Rec) (op : CtlOp) (R0 : List RunS) :
    HT cfg env (fun R => R = R0 ∧ (allowed mem.runState (target op) = true → Based R mem))
      (ctlUpdateMem cfg mem op)
      (fun r R => r.2 = none ∨ (r.1 = mem ∧ R = R0) ∨ r.1.runState = target op) := by
  unfold ctlUpdateMem
  dsimp only
  split
  · rename_i ha
    refine HT.bind (HT.pre ?_ (HT.tryM (HT.store _))) (fun r => ?_)
    · intro s hi ⟨_, hb⟩
      refine ⟨legal_ctl hi (hb ha) (target op) (ctlReason op) (target_cases op) ha, ?_⟩
      obtain ⟨h, ⟨x, t, hx, _⟩, hid, _⟩ := hb ha
      exact legalNew_existing (x := x) (by rw [← hid] at *; exact hx)
    · cases r with
      | ok _ => exact HT.pure (fun _ _ => Or.inl rfl)
      | error a => exact HT.pure (fun _ _ => Or.inr (Or.inr rfl))
  · exact HT.pure (fun R hp => Or.inr (Or.inl ⟨rfl, hp.1⟩))

theorem ctlUpdate_ht (mem : Rec) (op : CtlOp) :
    HT cfg env (fun R => allowed mem.runState (target op) = true → Based R mem) (ctlUpdate cfg mem op) (fun _ _ => True) := by
  refine HT.ghost (fun R0 => ?_)
  unfold ctlUpdate
  refine HT.bind (ctlUpdateMem_ht mem op R0) (fun r => ?_)
  obtain ⟨mem', e⟩ := r
  cases e with
  | none => exact HT.pure (fun _ _ => trivial)
  | some a => exact HT.throwA _

end WorkflowModel.Engine

namespace WorkflowModel.Engine
open WorkflowModel RS
variable {cfg : Cfg} {env : Env}

/-! ## user functions -/

/-- what a user function leaves behind: a normal return either is a skip value or happened without any write; after an
error the controller's record still describes the persisted one, or is already in a state from which Pause is refused -/
@[reducible] def FnPost (R0 : List RunS) (r : Except Abort FnRes × Rec) (R : List RunS) : Prop :=
  (∀ res, r.1 = .ok res → Gen.skipValues.contains res.next = true ∨ R = R0) ∧
  (∀ a, r.1 = .error a → (allowed r.2.runState 3 = true → Based R r.2))

def FnSpec (cfg : Cfg) (env : Env) (fn : Rec → M (Except Abort FnRes × Rec)) : Prop :=
  ∀ R0 run, HT cfg env (fun R => R = R0 ∧ Based R0 run) (fn run) (FnPost R0)

theorem allowed_paused_pause : allowed 3 3 = false := by decide
theorem allowed_cancelled_pause : allowed 4 3 = false := by decide

theorem skip_runStateUpdate : Gen.skipValues.contains Gen.SkipTypeRunStateUpdate = true := by decide

theorem fnpost_ok {R0 R : List RunS} {mem : Rec} {res : FnRes} (h : Gen.skipValues.contains res.next = true ∨ R = R0) :
    FnPost R0 (.ok res, mem) R := ⟨fun r hr => by cases hr; exact h, fun _ hr => by cases hr⟩

theorem fnpost_err {R0 R : List RunS} {mem : Rec} {a : Abort} (h : allowed mem.runState 3 = true → Based R mem) :
    FnPost R0 (.error a, mem) R := ⟨fun _ hr => (by cases hr), fun _ _ => h⟩

theorem runFn_ht (hn : NoNested env) (kind : String) (run mem : Rec) (fuel : Nat) (first : Bool) (R0 : List RunS) :
    HT cfg env (fun R => R = R0 ∧ Based R0 mem) (runFn cfg kind run mem fuel first) (FnPost R0) := by
  refine HT.pull (fun hb0 => ?_)
  cases fuel with
  | zero =>
    unfold runFn
    exact HT.pure (fun R hp => fnpost_err (fun _ => by rw [hp]; exact hb0))
  | succ n =>
    unfold runFn
    refine HT.bind (HT.nextOutcome hn) (fun out => ?_)
    dsimp only
    split
    all_goals refine HT.bind (HT.emit _) (fun _ => ?_)
    all_goals cases out <;> dsimp only
    all_goals first
      | exact HT.pure (fun R hp => fnpost_ok (Or.inr hp.1))
      | exact HT.pure (fun R hp => fnpost_err (fun _ => by rw [hp.1]; exact hb0))
      | exact HT.absurd (fun R hp => hp.2 _ rfl)
      | (refine HT.bind (HT.pre (fun s _ hp => ⟨hp.1, fun _ => by rw [hp.1]; exact hb0⟩) (ctlUpdateMem_ht mem _ R0)) (fun r => ?_)
         obtain ⟨mem', e⟩ := r
         cases e with
         | none => exact HT.pure (fun R _ => fnpost_ok (Or.inl skip_runStateUpdate))
         | some a =>
           refine HT.pure (fun R hp => fnpost_err (fun hal => ?_))
           rcases hp with h | ⟨h1, h2⟩ | h
           · cases h
           · simp only at h1; subst h1; rw [h2]; exact hb0
           · simp only at h
             rw [h] at hal
             exact absurd hal (by decide))
end WorkflowModel.Engine

namespace WorkflowModel.Engine
open WorkflowModel RS
variable {cfg : Cfg} {env : Env}

/-! ## error counting, the updater, the step consumer -/

theorem maybePauseMem_ht (n : Int) (p : Proc) (mem : Rec) (e : Abort) :
    HT cfg env (fun R => allowed mem.runState 3 = true → Based R mem) (maybePauseMem cfg n p mem e) (fun _ _ => True) := by
  refine HT.fix (fun R0 hb0 => ?_)
  unfold maybePauseMem
  split
  · exact HT.pure (fun _ _ => trivial)
  · dsimp only
    refine HT.bind HT.getSys (fun s => ?_)
    refine HT.bind (HT.modifySys (fun _ => rfl) (fun s h => (RelayInv.stable cfg).setCount s _ _ h)) (fun _ => ?_)
    split
    · exact HT.pure (fun _ _ => trivial)
    · refine HT.bind (HT.pre (fun s _ hp => ⟨hp.1, fun _ => by rw [hp.1]; exact hb0 ‹_›⟩) (ctlUpdateMem_ht mem .pause R0)) (fun r => ?_)
      obtain ⟨mem', err⟩ := r
      cases err with
      | some a => exact HT.throwA _
      | none =>
        refine HT.bind (HT.modifySys (fun _ => rfl) (fun s h => (RelayInv.stable cfg).setCount s _ _ h)) (fun _ => ?_)
        exact HT.pure (fun _ _ => trivial)

theorem maybePause_ht (n : Int) (p : Proc) (mem : Rec) (e : Abort) :
    HT cfg env (fun R => allowed mem.runState 3 = true → Based R mem) (maybePause cfg n p mem e) (fun _ _ => True) := by
  unfold maybePause
  refine HT.bind (maybePauseMem_ht n p mem e) (fun r => ?_)
  exact HT.pure (fun _ _ => trivial)

theorem not_completed_of_edge {w : Rec} (hrec : RecOK cfg w) {next : Status} (he : (w.status, next) ∈ cfg.edges) : w.runState ≠ 5 := by
  intro h5
  have ht := hrec.completedTerminal h5
  unfold Cfg.graph at ht
  exact ((Graph.isTerminal_iff cfg.edges w.status).mp ht).2 ⟨next, he⟩

theorem updater_ht (current next : Status) (run : Rec) (o : Obj) :
    HT cfg env (fun R => UBased R run) (updater cfg current next run o) (fun _ _ => True) := by
  unfold updater
  refine HT.bind HT.getSys (fun s => ?_)
  dsimp only
  refine HT.bind (HT.lookup _) (fun v => ?_)
  cases v with
  | none => exact HT.throwA _
  | some latest =>
    dsimp only
    split
    · exact HT.pure (fun _ _ => trivial)
    · rename_i hst
      split
      · exact HT.throwA _
      · rename_i hval
        refine HT.pre ?_ (HT.updateRecord _)
        intro s' hi ⟨⟨hub, _, _⟩, hcur⟩
        obtain ⟨hl, hlid⟩ := isHead_of_curR hi.hist hcur.symm
        obtain ⟨h, hh, hid, hv, hf, hc, hrs⟩ := hub
        have heq : h = latest := isHead_unique hh hl (by rw [hid, hlid])
        subst heq
        have hstat : h.status = current := by simpa [Gen.G.updaterStatusChanged] using hst
        have hedge : (h.status, next) ∈ cfg.edges := by
          rw [hstat]; exact (C02.C02_validate_iff_declared cfg current next).mp (by simpa using hval)
        have hne := not_completed_of_edge (hh.recOK hi.hist) hedge
        have hrs' : h.runState = 1 ∨ h.runState = 2 := by
          rcases hrs with a | a | a
          · exact Or.inl a
          · exact Or.inr a
          · exact absurd a hne
        refine ⟨legal_advance hi hh hid hv hf hc hrs' next o s.now hedge, ?_⟩
        obtain ⟨x, t, hx, _⟩ := hh
        exact legalNew_existing (x := x) (by rw [hid] at hx; exact hx)

theorem not_stopped_range {rs : Int} (h1 : 1 ≤ rs) (h7 : rs ≤ 7) (hs : Gen.stopped rs = false) : rs = 1 ∨ rs = 2 ∨ rs = 5 := by
  have : rs = 1 ∨ rs = 2 ∨ rs = 3 ∨ rs = 4 ∨ rs = 5 ∨ rs = 6 ∨ rs = 7 := by omega
  rcases this with rfl | rfl | rfl | rfl | rfl | rfl | rfl <;> simp_all [Gen.stopped, Gen.stoppedCases]

theorem ubased_view {s : Sys} (hi : Inv cfg s) {record : Rec} (hh : IsHead s.runs record) (hs : Gen.stopped record.runState = false) :
    UBased s.runs (viewRec record) := by
  have hrec := hh.recOK hi.hist
  exact ⟨record, hh, rfl, rfl, rfl, rfl, not_stopped_range hrec.lo hrec.hi hs⟩

theorem stepRun_ht (p : Proc) (pa : Int) (record : Rec) (fn : Rec → M (Except Abort FnRes × Rec)) (hfn : FnSpec cfg env fn) :
    HT cfg env (fun R => IsHead R record ∧ Gen.stopped record.runState = false) (stepRun cfg p pa record fn) (fun _ _ => True) := by
  refine HT.fix (fun R0 hp0 => ?_)
  unfold stepRun
  dsimp only
  refine HT.bind (HT.pre (fun s _ hp => ⟨hp, based_view hp0.1⟩) (hfn R0 (viewRec record))) (fun r => ?_)
  obtain ⟨res, mem⟩ := r
  cases res with
  | error err =>
    dsimp only
    refine HT.bind (HT.pre (fun s _ hp => hp.2 err rfl) (maybePause_ht pa p mem err)) (fun paused => ?_)
    split
    · exact HT.pure (fun _ _ => trivial)
    · exact HT.throwA _
  | ok res =>
    dsimp only
    split
    · exact HT.pure (fun _ _ => trivial)
    · rename_i hskip
      refine HT.pre ?_ (updater_ht _ _ _ _)
      intro s hi hp
      rcases hp.1 res rfl with h | h
      · exact absurd h hskip
      · rw [h]
        have := ubased_view hi (record := record) (by rw [h]; exact hp0.1) hp0.2
        rw [h] at this; exact this

end WorkflowModel.Engine

namespace WorkflowModel.Engine
open WorkflowModel RS
variable {cfg : Cfg} {env : Env}

theorem stepGate_ht (p : Proc) (pa : Int) (e : Event) (record : Rec) (fn : Rec → M (Except Abort FnRes × Rec))
    (hfn : FnSpec cfg env fn) :
    HT cfg env (fun R => IsHead R record) (stepGate cfg p pa e record fn) (fun _ _ => True) := by
  unfold stepGate
  split
  · exact HT.pure (fun _ _ => trivial)
  · split
    · exact HT.throwA _
    · split
      · exact HT.pure (fun _ _ => trivial)
      · rename_i hs
        refine HT.pre (fun s _ hp => ⟨hp, ?_⟩) (stepRun_ht p pa record fn hfn)
        simpa [Gen.G.stepStopped] using hs

theorem stepHandle_ht (p : Proc) (status : Status) (pa : Int) (e : Event) (fn : Rec → M (Except Abort FnRes × Rec))
    (hfn : FnSpec cfg env fn) :
    HT cfg env (fun _ => True) (stepHandle cfg p status pa e fn) (fun _ _ => True) := by
  unfold stepHandle
  refine HT.bind (HT.lookup _) (fun v => ?_)
  cases v with
  | none => exact HT.pure (fun _ _ => trivial)
  | some record =>
    exact HT.pre (fun s hi hp => (isHead_of_curR hi.hist hp.2.symm).1) (stepGate_ht p pa e record fn hfn)

/-! ## the timeout inserter's consumer function never stores -/

theorem Fr.inserterOne (status : Status) (run : Rec) : Fr (inserterOne status run) := by
  unfold Engine.inserterOne
  refine Fr.bind Fr.nextOutcome (fun out => Fr.bind (Fr.emit _) (fun _ => Fr.bind Fr.getSys (fun s => ?_)))
  unfold Engine.inserterOutcome
  split
  · exact Fr.call (fun _ => rfl)
  · exact Fr.pure _
  · exact Fr.throwA _
  · exact Fr.throwA _
  · exact Fr.throwA _

theorem Fr.inserterFn (status : Status) (run : Rec) : Fr (inserterFn cfg status run) := by
  unfold Engine.inserterFn
  refine Fr.bind (Fr.tryM (Fr.forM _ (fun _ => Fr.inserterOne status run))) (fun r => ?_)
  cases r <;> exact Fr.pure _

theorem inserterFn_val (status : Status) (run : Rec) (env : Env) (st : OpSt) :
    (∃ st', inserterFn cfg status run env st = (.ok (.ok ⟨0, run.obj⟩, run), st')) ∨
    (∃ a st', inserterFn cfg status run env st = (.ok (.error a, run), st')) := by
  unfold Engine.inserterFn
  rw [bind_run]
  unfold Engine.tryM
  rcases ((cfg.timeoutsAt status).forM (fun _ => inserterOne status run)) env st with ⟨r, st'⟩
  cases r with
  | ok _ => exact Or.inl ⟨st', rfl⟩
  | error a => exact Or.inr ⟨a, st', rfl⟩

theorem skip_zero : Gen.skipValues.contains (0 : Int) = true := by decide

theorem inserterFn_spec (status : Status) : FnSpec cfg env (inserterFn cfg status) := by
  intro R0 run
  refine HT.post (Q' := fun r R => (R = R0 ∧ Based R0 run) ∧ (r = (.ok ⟨0, run.obj⟩, run) ∨ ∃ a, r = (.error a, run))) ?_ ?_
  · intro st hi hz hp
    obtain ⟨h1, h2, h3⟩ := HT.of_frame (cfg := cfg) (env := env) (P := fun R => R = R0 ∧ Based R0 run)
      (Fr.inserterFn status run) (Pres.inserterFn (RelayInv.stable cfg).toStableH status run) st hi hz hp
    refine ⟨h1, h2, fun a ha => ⟨h3 a ha, ?_⟩⟩
    rcases inserterFn_val (cfg := cfg) status run env st with ⟨st', h⟩ | ⟨b, st', h⟩
    · rw [h] at ha; cases ha; exact Or.inl rfl
    · rw [h] at ha; cases ha; exact Or.inr ⟨b, rfl⟩
  · intro r s _ ⟨⟨hR, hb⟩, hv⟩
    rcases hv with rfl | ⟨a, rfl⟩
    · exact fnpost_ok (Or.inl skip_zero)
    · exact fnpost_err (fun _ => by rw [hR]; exact hb)

theorem runFn_spec (hn : NoNested env) (kind : String) (fuel : Nat) :
    FnSpec cfg env (fun run => runFn cfg kind run run fuel true) :=
  fun R0 run => runFn_ht hn kind run run fuel true R0

/-! ## callbacks -/

theorem callbackGate_ht (status : Status) (wr : Rec) (runner : Rec → M (Except Abort FnRes × Rec)) (hfn : FnSpec cfg env runner) :
    HT cfg env (fun R => IsHead R wr) (callbackGate cfg status wr runner) (fun _ _ => True) := by
  refine HT.fix (fun R0 hp0 => ?_)
  unfold callbackGate
  split
  · exact HT.pure (fun _ _ => trivial)
  · split
    · exact HT.pure (fun _ _ => trivial)
    · rename_i hs
      dsimp only
      refine HT.bind (HT.pre (fun s _ hp => ⟨hp, based_view hp0⟩) (hfn R0 (viewRec wr))) (fun r => ?_)
      obtain ⟨res, mem⟩ := r
      cases res with
      | error a => exact HT.throwA _
      | ok res =>
        dsimp only
        split
        · exact HT.pure (fun _ _ => trivial)
        · rename_i hskip
          refine HT.pre ?_ (updater_ht _ _ _ _)
          intro s hi hp
          rcases hp.1 res rfl with h | h
          · exact absurd h hskip
          · rw [h]
            have := ubased_view hi (record := wr) (by rw [h]; exact hp0) (by simpa using hs)
            rw [h] at this; exact this

theorem isHead_of_latestR {s : Sys} (hi : HistInv cfg s) {fid : Fid} {h : Rec} (hl : latestR s.runs fid = some h) : IsHead s.runs h :=
  isHead_of_latestRes hi (by rw [latestRes_eq]; exact hl)

theorem callbackOne_ht (fid : Fid) (status : Status) (runner : Rec → M (Except Abort FnRes × Rec)) (hfn : FnSpec cfg env runner) :
    HT cfg env (fun _ => True) (callbackOne cfg fid status runner) (fun _ _ => True) := by
  unfold callbackOne
  refine HT.bind (HT.latest _) (fun v => ?_)
  cases v with
  | none => exact HT.throwA _
  | some wr => exact HT.pre (fun s hi hp => isHead_of_latestR hi.hist hp.2.symm) (callbackGate_ht status wr runner hfn)

theorem callbackApi_ht (hn : NoNested env) (fid : Fid) (status : Status) (fuel : Nat) :
    HT cfg env (fun _ => True) (callbackApi cfg fid status fuel) (fun _ _ => True) := by
  cases fuel with
  | zero => unfold callbackApi; exact HT.throwA _
  | succ n =>
    unfold callbackApi
    exact HT.forM _ (fun _ => callbackOne_ht fid status _ (runFn_spec hn "callback" n))

end WorkflowModel.Engine

namespace WorkflowModel.Engine
open WorkflowModel RS
variable {cfg : Cfg} {env : Env}

/-! ## hooks, the delete consumer, the paused-records retry consumer -/

theorem Fr.lookup (rid : RunId) : Fr (Engine.lookup rid) := by
  intro env st
  rcases hl : Engine.lookup rid env st with ⟨r, st'⟩
  cases r with
  | ok v =>
    obtain ⟨_, hsys, _, hst, _⟩ := lookup_ok hl
    exact ⟨by rw [hsys], Or.inr hst⟩
  | error e =>
    have h1 := (lookup_err hl).1
    have hst : st'.stale = 0 := by
      unfold Engine.lookup at hl
      have := call_stale (l := "lookup") (eff := fun s => ((lookupRes s rid st.stale).1, (.ok (lookupRes s rid st.stale).2 : Except Abort (Option Rec)), s)) env { st with stale := 0 }
      rw [hl] at this
      exact this
    exact ⟨by rw [h1], Or.inr hst⟩

theorem Fr.hookHandle (rs : RunState) (e : Event) : Fr (hookHandle cfg rs e) := by
  unfold Engine.hookHandle
  refine Fr.bind (Fr.lookup _) (fun v => ?_)
  cases v with
  | none => exact Fr.throwA _
  | some record =>
    dsimp only
    split
    · exact Fr.pure _
    · refine Fr.bind Fr.nextOutcome (fun out => Fr.bind (Fr.emit _) (fun _ => ?_))
      split
      · exact Fr.throwA _
      · exact Fr.bind Fr.loseLease (fun _ => Fr.throwA _)
      · exact Fr.throwA _
      · exact Fr.pure _

theorem Fr.deleteObj (record : Rec) : Fr (deleteObj cfg record) := by
  unfold Engine.deleteObj
  split
  · unfold Engine.customDeleteFn
    split
    · exact Fr.throwA _
    · refine Fr.bind Fr.nextOutcome (fun out => Fr.bind (Fr.emit _) (fun _ => ?_))
      split
      · exact Fr.throwA _
      · exact Fr.bind Fr.loseLease (fun _ => Fr.throwA _)
      · exact Fr.throwA _
      · exact Fr.pure _
  · exact Fr.pure _

/-- some write of the run was the delete request -/
def HasRDD (R : List RunS) (rid : RunId) : Prop := ∃ x, R[rid]? = some x ∧ ∃ w ∈ x.hist, w.runState = 7

theorem deleteHandle_ht (e : Event) :
    HT cfg env (fun R => HasRDD R e.runId) (deleteHandle cfg e) (fun _ _ => True) := by
  unfold deleteHandle
  refine HT.bind (HT.lookup _) (fun v => ?_)
  cases v with
  | none => exact HT.throwA _
  | some record =>
    dsimp only
    refine HT.bind (HT.of_frame (Fr.deleteObj record) (Pres.deleteObj record)) (fun newObj => ?_)
    refine HT.pre ?_ (HT.updateRecord _)
    intro s hi ⟨⟨x, hx, w, hw, h7⟩, hcur⟩
    obtain ⟨hh, hid⟩ := isHead_of_curR hi.hist hcur.symm
    have hrs : record.runState = 7 ∨ record.runState = 6 := by
      obtain ⟨x', t, hx', hl⟩ := hh
      rw [hid, hx] at hx'
      cases hx'
      exact chain_head_after_rdd x.hist record t hl (hi.hist _ _ hx).chain ⟨w, hw, h7⟩
    refine ⟨legal_delete hi hh hrs newObj, ?_⟩
    obtain ⟨x', t, hx', _⟩ := hh
    exact legalNew_existing (x := x') hx'

theorem retryHandle_ht (e : Event) : HT cfg env (fun _ => True) (retryHandle cfg e) (fun _ _ => True) := by
  unfold retryHandle
  refine HT.bind (HT.lookup _) (fun v => ?_)
  cases v with
  | none => exact HT.throwA _
  | some record =>
    dsimp only
    split
    · exact HT.pure (fun _ _ => trivial)
    · refine HT.bind HT.getSys (fun s => ?_)
      try dsimp only
      split
      · exact HT.pure (fun _ _ => trivial)
      · refine HT.bind (HT.pre ?_ (ctlUpdate_ht record .resume)) (fun _ => HT.pure (fun _ _ => trivial))
        intro s' hi hp _
        exact based_head (isHead_of_curR hi.hist hp.1.2.symm).1

theorem handle_ht (hn : NoNested env) (p : Proc) (e : Event) :
    HT cfg env (fun R => p = .delete → HasRDD R e.runId) (handle cfg p e) (fun _ _ => True) := by
  unfold handle
  split
  · exact HT.pre (fun _ _ _ => trivial) (stepHandle_ht _ _ _ e _ (runFn_spec hn "step" fuelDefault))
  · exact HT.pre (fun _ _ _ => trivial) (stepHandle_ht _ _ _ e _ (inserterFn_spec _))
  · exact HT.post (HT.of_frame (Fr.hookHandle _ e) (Pres.hookHandle _ e)) (fun _ _ _ _ => trivial)
  · exact HT.pre (fun _ _ hp => hp rfl) (deleteHandle_ht e)
  · exact HT.pre (fun _ _ _ => trivial) (retryHandle_ht e)
  · exact HT.pure (fun _ _ => trivial)

theorem deliver_ht (hn : NoNested env) (p : Proc) (i : Nat) (e : Event) :
    HT cfg env (fun R => p = .delete → HasRDD R e.runId) (deliver cfg p i e) (fun _ _ => True) := by
  unfold deliver
  split
  · exact HT.post (HT.ack p i) (fun _ _ _ _ => trivial)
  · exact HT.bind (handle_ht hn p e) (fun _ => HT.ack p i)

/-! ## events on the delete topic announce delete requests -/

theorem topicKind_delete {rs : Int} (h : Gen.outboxTopicKind rs = 1) : rs = 7 := by
  unfold Gen.outboxTopicKind at h
  simp only [Gen.RunStateRequestedDataDeleted, Gen.RunStatePaused, Gen.RunStateCancelled, Gen.RunStateDataDeleted,
    Gen.RunStateCompleted] at h
  by_cases h7 : rs = 7
  · exact h7
  · simp [h7] at h
    split at h <;> simp at h

theorem hasRDD_of_delete_event {s : Sys} (hi : Inv cfg s) {e : Event} (he : e ∈ s.log) (hk : e.topicKind = 1) :
    HasRDD s.runs e.runId := by
  obtain ⟨w, ⟨run, hrun, hw⟩, hc⟩ := hi.relay.log_written e he
  have h1 : (Routing.route w).topicKind = 1 := by rw [← hc]; exact hk
  have h2 : (Routing.route w).runId = e.runId := by rw [← hc]; rfl
  have h7 : w.runState = 7 := topicKind_delete h1
  obtain ⟨i, hlt, hget⟩ := List.getElem_of_mem hrun
  have hx : s.runs[i]? = some run := by rw [List.getElem?_eq_getElem hlt, hget]
  have hid := ((hi.hist _ _ hx).ids w hw).1
  have : e.runId = i := by rw [← h2]; exact hid
  exact ⟨run, by rw [this]; exact hx, w, hw, h7⟩

theorem nextIndexFrom_subscribed (p : Proc) (log : List Event) : ∀ (fuel i j : Nat),
    nextIndexFrom p log i fuel = some j → ∃ e, log[j]? = some e ∧ subscribed p e = true
  | 0, _, _, h => by simp [nextIndexFrom] at h
  | fuel + 1, i, j, h => by
    unfold nextIndexFrom at h
    cases hl : log[i]? with
    | none => rw [hl] at h; simp at h
    | some e =>
      rw [hl] at h
      simp only at h
      split at h
      · rename_i hs
        cases h
        exact ⟨e, hl, hs⟩
      · exact nextIndexFrom_subscribed p log fuel (i + 1) j h

theorem subscribed_delete {e : Event} (h : subscribed .delete e = true) : e.topicKind = 1 := by
  simpa [subscribed] using h

theorem recvOp_ht (hn : NoNested env) (p : Proc) : HT cfg env (fun _ => True) (recvOp cfg p) (fun _ _ => True) := by
  unfold recvOp
  refine HT.bind HT.getSys (fun s => ?_)
  cases hni : s.nextIndex p with
  | none => exact HT.throwA _
  | some i =>
    dsimp only
    cases hle : s.log[i]? with
    | none => exact HT.throwA _
    | some e =>
      dsimp only
      have hsub : ∃ e', s.log[i]? = some e' ∧ subscribed p e' = true := nextIndexFrom_subscribed p s.log _ _ _ hni
      have hsub' : subscribed p e = true := by
        obtain ⟨e', h1, h2⟩ := hsub
        rw [hle] at h1; cases h1; exact h2
      refine HT.bind (HT.call_frame (fun _ => rfl) (fun _ h => h)) (fun _ => ?_)
      split
      · exact HT.pure (fun _ _ => trivial)
      · refine HT.bind (HT.pre ?_ (deliver_ht hn p i e)) (fun _ => HT.pure (fun _ _ => trivial))
        intro s' _ hp hd
        subst hd
        have := hasRDD_of_delete_event hp.2.2 (List.mem_of_getElem? hle) (subscribed_delete hsub')
        rw [hp.2.1] at this
        exact this

end WorkflowModel.Engine

namespace WorkflowModel.Engine
open WorkflowModel RS
variable {cfg : Cfg} {env : Env}

/-! ## the timeout poller -/

/-- at most one timeout configuration per status (two share one timer and one record read: finding F19) -/
def OneTimeout (cfg : Cfg) : Prop := ∀ s, (cfg.timeoutsAt s).length ≤ 1

theorem processTimeout_ht (hn : NoNested env) (p : Proc) (status : Status) (shared : Rec) (t : Timer) :
    HT cfg env (fun R => IsHead R shared ∧ Gen.stopped shared.runState = false)
      (processTimeout cfg p status shared t) (fun _ _ => True) := by
  refine HT.fix (fun R0 hp0 => ?_)
  unfold processTimeout
  dsimp only
  refine HT.bind (HT.pre (fun s _ hp => ⟨hp, based_view hp0.1⟩) (runFn_ht hn "timeout" _ _ fuelDefault true R0)) (fun r => ?_)
  obtain ⟨res, mem⟩ := r
  cases res with
  | error err =>
    dsimp only
    refine HT.bind (HT.pre (fun s _ hp => hp.2 err rfl) (maybePauseMem_ht _ p mem err)) (fun r => ?_)
    exact HT.pure (fun _ _ => trivial)
  | ok res =>
    dsimp only
    split
    · exact HT.pure (fun _ _ => trivial)
    · rename_i hskip
      refine HT.bind (Q := fun _ _ => True) (HT.pre ?_ (updater_ht _ _ _ _)) (fun _ => ?_)
      · intro s hi hp
        rcases hp.1 res rfl with h | h
        · exact absurd h hskip
        · rw [h]
          have := ubased_view hi (record := shared) (by rw [h]; exact hp0.1) hp0.2
          rw [h] at this; exact this
      · refine HT.bind (HT.call_frame (fun _ => rfl) (fun s h => (RelayInv.stable cfg).timerComplete s _ h)) (fun _ => ?_)
        exact HT.pure (fun _ _ => trivial)

theorem list_le_one {γ : Type} (l : List γ) (h : l.length ≤ 1) : l = [] ∨ ∃ b, l = [b] := by
  cases l with
  | nil => exact Or.inl rfl
  | cons b t =>
    cases t with
    | nil => exact Or.inr ⟨b, rfl⟩
    | cons c t' => simp at h

theorem pollGate_ht (hn : NoNested env) (h1 : OneTimeout cfg) (p : Proc) (status : Status) (t : Timer) (r : Rec) :
    HT cfg env (fun R => IsHead R r) (pollGate cfg p status t r) (fun _ _ => True) := by
  unfold pollGate
  split
  · exact HT.post (HT.call_frame (fun _ => rfl) (fun s h => (RelayInv.stable cfg).timerCancel s _ h)) (fun _ _ _ _ => trivial)
  · split
    · exact HT.pure (fun _ _ => trivial)
    · rename_i hs
      have hs' : Gen.stopped r.runState = false := by simpa [Gen.G.pollSkipStopped] using hs
      rcases list_le_one _ (h1 status) with hl | ⟨b, hl⟩
      · rw [hl]
        exact HT.pure (fun _ _ => trivial)
      · rw [hl]
        simp only [List.foldlM]
        refine HT.bind (Q := fun _ _ => True)
          (HT.bind (Q := fun _ _ => True) (HT.pre (fun s _ hp => ⟨hp, hs'⟩) (processTimeout_ht hn p status r t)) (fun _ => ?_)) (fun _ => ?_)
        · exact HT.pure (fun _ _ => trivial)
        · exact HT.pure (fun _ _ => trivial)

theorem pollTimer_ht (hn : NoNested env) (h1 : OneTimeout cfg) (p : Proc) (status : Status) (t : Timer) :
    HT cfg env (fun _ => True) (pollTimer cfg p status t) (fun _ _ => True) := by
  unfold pollTimer
  refine HT.bind (HT.lookup _) (fun v => ?_)
  cases v with
  | none => exact HT.throwA _
  | some r => exact HT.pre (fun s hi hp => (isHead_of_curR hi.hist hp.2.symm).1) (pollGate_ht hn h1 p status t r)

theorem pollOp_ht (hn : NoNested env) (h1 : OneTimeout cfg) (p : Proc) (status : Status) (q : Int) :
    HT cfg env (fun _ => True) (pollOp cfg p status q) (fun _ _ => True) := by
  unfold pollOp
  refine HT.bind (HT.call_frame (fun _ => rfl) (fun _ h => h)) (fun due => ?_)
  exact HT.forM _ (fun t => pollTimer_ht hn h1 p status t)

/-! ## the relay never stores -/

theorem Fr.relayEntry (o : OutE) : Fr (relayEntry o) := by
  unfold Engine.relayEntry
  refine Fr.bind (Fr.call (fun _ => rfl)) (fun _ => ?_)
  refine Fr.bind (Fr.tryM (Fr.call (fun _ => rfl))) (fun r => ?_)
  refine Fr.bind (Fr.emit _) (fun _ => ?_)
  cases r with
  | error a => exact Fr.throwA _
  | ok _ => exact Fr.call (fun _ => rfl)

theorem Fr.relayOp : Fr (relayOp cfg) := by
  unfold Engine.relayOp
  exact Fr.bind (Fr.call (fun _ => rfl)) (fun batch => Fr.forM _ (fun o => Fr.relayEntry o))

/-! ## one operation of a background process -/

theorem procBody_ht (hn : NoNested env) (h1 : OneTimeout cfg) (p : Proc) (ps : PState) :
    HT cfg env (fun _ => True) (procBody cfg p ps) (fun _ _ => True) := by
  unfold procBody
  split
  · exact HT.pure (fun _ _ => trivial)
  · refine HT.bind (HT.emit _) (fun _ => ?_)
    split
    · exact HT.bind (HT.of_frame Fr.relayOp (Pres.relayOp cfg)) (fun _ => HT.pure (fun _ _ => trivial))
    · exact HT.bind HT.getSys (fun _ => HT.pure (fun _ _ => trivial))
    · refine HT.bind (Q := fun _ _ => True) ?_ (fun _ => HT.pure (fun _ _ => trivial))
      unfold newReceiver
      exact HT.post (HT.call_frame (fun _ => rfl) (fun _ h => h)) (fun _ _ _ _ => trivial)
  · split
    · refine HT.bind (pollOp_ht hn h1 _ _ _) (fun _ => ?_)
      exact HT.bind HT.getSys (fun _ => HT.pure (fun _ _ => trivial))
    · exact HT.pure (fun _ _ => trivial)
  · exact recvOp_ht hn p
  · rename_i i u
    refine HT.bind HT.getSys (fun s => ?_)
    cases hle : s.log[i]? with
    | none => exact HT.throwA _
    | some e =>
      dsimp only
      split
      · rename_i hsub
        refine HT.bind (HT.pre ?_ (deliver_ht hn p i e)) (fun _ => HT.pure (fun _ _ => trivial))
        intro s' _ hp hd
        subst hd
        have := hasRDD_of_delete_event hp.2.2 (List.mem_of_getElem? hle) (subscribed_delete hsub)
        rw [hp.2.1] at this
        exact this
      · exact HT.throwA _

theorem procOp_ht (hn : NoNested env) (h1 : OneTimeout cfg) (p : Proc) :
    HT cfg env (fun _ => True) (procOp cfg p) (fun _ _ => True) := by
  unfold procOp
  refine HT.bind HT.getSys (fun s => ?_)
  refine HT.bind (HT.tryM (HT.pre (fun _ _ _ => trivial) (procBody_ht hn h1 p (s.pstate p)))) (fun r => ?_)
  refine HT.bind HT.isCancelled (fun dead => ?_)
  have hset : ∀ x, HT cfg env (fun _ => True) (modifySys (·.setPState p x)) (fun _ _ => True) := fun x =>
    HT.post (HT.modifySys (fun _ => rfl) (fun s h => (RelayInv.stable cfg).setPState s _ _ h)) (fun _ _ _ _ => trivial)
  split
  · exact HT.pre (fun _ _ _ => trivial) (hset _)
  · refine HT.bind HT.openedReceiver (fun _ => HT.bind (HT.emitIf _ _) (fun _ => HT.bind HT.getSys (fun s' => ?_)))
    exact HT.pre (fun _ _ _ => trivial) (hset _)

theorem Fr.modifySys {f : Sys → Sys} (hf : ∀ s, (f s).runs = s.runs) : Fr (Engine.modifySys f) :=
  fun _ st => ⟨hf st.sys, Or.inl rfl⟩

theorem Fr.leaseLossOp (p : Proc) : Fr (leaseLossOp cfg p) := by
  unfold Engine.leaseLossOp
  refine Fr.bind Fr.getSys (fun s => ?_)
  split
  · exact Fr.pure _
  · exact Fr.modifySys (fun _ => rfl)
  · exact Fr.bind (Fr.emit _) (fun _ => Fr.bind (Fr.emit _) (fun _ => Fr.modifySys (fun _ => rfl)))
  · exact Fr.bind (Fr.emit _) (fun _ => Fr.modifySys (fun _ => rfl))
  · split
    · exact Fr.bind (Fr.emit _) (fun _ => Fr.modifySys (fun _ => rfl))
    · exact Fr.pure _

/-! ## API calls -/

theorem finished_spec_of_gen {rs : Int} (h1 : 1 ≤ rs) (h7 : rs ≤ 7) (hf : Gen.finished rs = true) : FinishedSpec rs := by
  have : rs = 1 ∨ rs = 2 ∨ rs = 3 ∨ rs = 4 ∨ rs = 5 ∨ rs = 6 ∨ rs = 7 := by omega
  unfold FinishedSpec
  rcases this with rfl | rfl | rfl | rfl | rfl | rfl | rfl <;> simp_all [Gen.finished, Gen.finishedCases]

/-- Trigger's test on the latest run of the foreign ID: when it lets the call through, every run of the foreign ID is finished -/
theorem othersFin_of_trigger_check {s : Sys} (hi : Inv cfg s) (fid : Fid) (last : Option Rec) (hl : last = latestR s.runs fid)
    (hc : ¬ Gen.G.triggerInProgress ((last.map (·.runState)).getD Gen.RunStateUnknown) = true) : OthersFin s.runs fid := by
  refine othersFin_of_last hi.one fid (fun y hfind => ?_)
  have hmem : y ∈ s.runs := by simpa using List.mem_of_find?_eq_some hfind
  obtain ⟨i, hlt, hget⟩ := List.getElem_of_mem hmem
  have hx : s.runs[i]? = some y := by rw [List.getElem?_eq_getElem hlt, hget]
  have hrun := hi.hist _ _ hx
  cases hh : y.hist with
  | nil => have := hrun.chain; rw [hh] at this; exact this.elim
  | cons h t =>
    have hrec := hrun.recs h (by rw [hh]; simp)
    have hlast : last = some h := by
      rw [hl]; unfold latestR; rw [hfind]; simp [hh]
    rw [hlast] at hc
    simp only [Option.map_some, Option.getD_some, Gen.G.triggerInProgress, Bool.and_eq_true, Bool.not_eq_true', not_and,
      Bool.not_eq_false] at hc
    have hvalid : Gen.valid h.runState = true := by
      have h1 := hrec.lo
      have h7 := hrec.hi
      unfold Gen.valid
      simp [Gen.RunStateUnknown, Gen.runStateSentinel]
      constructor
      · womega
      · exact decide_eq_true (by womega)
    exact ⟨h, t, hh, finished_spec_of_gen hrec.lo hrec.hi (hc hvalid)⟩

theorem triggerApi_ht (fid : Fid) (start : Status) (n : Obj) :
    HT cfg env (fun _ => True) (triggerApi cfg fid start n) (fun _ _ => True) := by
  unfold triggerApi
  cases hts : triggerStart cfg start with
  | none => exact HT.throwA _
  | some st =>
    dsimp only
    refine HT.bind (HT.latest _) (fun last => ?_)
    split
    · exact HT.throwA _
    · rename_i hc
      refine HT.bind HT.getSys (fun s => ?_)
      refine HT.bind (HT.pre ?_ (HT.updateRecord _)) (fun _ => HT.pure (fun _ _ => trivial))
      intro s' hi' hp
      have hof : OthersFin s'.runs fid := othersFin_of_trigger_check hi' fid last hp.1.2 hc
      rw [← hp.2.1]
      rw [← hp.2.1] at hof
      exact ⟨legal_trigger fid st n s.now (C02.C02_trigger_start_declared cfg start st hts).1, fun _ => hof⟩

theorem ctlFreshApi_ht (rid : RunId) (op : CtlOp) :
    HT cfg env (fun _ => True) (ctlFreshApi cfg rid op) (fun _ _ => True) := by
  unfold ctlFreshApi
  refine HT.bind HT.getSys (fun s => ?_)
  split
  · exact HT.throwA _
  · refine HT.bind (HT.lookup _) (fun v => ?_)
    cases v with
    | none => exact HT.throwA _
    | some r =>
      dsimp only
      refine HT.bind (HT.pre ?_ (ctlUpdate_ht r op)) (fun _ => HT.pure (fun _ _ => trivial))
      intro s' hi hp _
      exact based_head (isHead_of_curR hi.hist hp.2.symm).1

theorem Fr.handleApi (rid : RunId) : Fr (handleApi rid) := by
  unfold Engine.handleApi
  refine Fr.bind Fr.getSys (fun s => ?_)
  split
  · exact Fr.throwA _
  · refine Fr.bind (Fr.lookup _) (fun v => ?_)
    cases v with
    | none => exact Fr.throwA _
    | some r => exact Fr.bind (Fr.modifySys (fun _ => rfl)) (fun _ => Fr.pure _)

end WorkflowModel.Engine

/-! ## what a completed delivery to a step consumer means (C01, C04)

On a normal return of the step consumer's handler - the only way the event gets acknowledged - the announced version is no
longer a live head of the run: the record had moved on (old announcement), the run is stopped, or this very operation
persisted a write (the step's effect, or the pause/cancel it asked for, or the auto-pause). Needs user functions that do
not answer with a skip value (`NoSkip`: a skip consumes the event by design). -/
namespace WorkflowModel.Engine
open WorkflowModel RS
variable {cfg : Cfg} {env : Env}

def Live (w : Rec) : Prop := w.runState = 1 ∨ w.runState = 2

/-- the announcement `(rid, v)` needs no further handling -/
def Done (rid : RunId) (v : Int) (R : List RunS) : Prop := ∀ w, curR R rid = some w → Live w → w.version ≠ v

/-- no user function of the operation answers with a skip value -/
def NoSkip (env : Env) : Prop := ∀ o ∈ env.outcomes, ∀ next n, o = Outcome.ret next n → Gen.skipValues.contains next = false

theorem curR_writeRuns {R : List RunS} {w : Rec} (hle : w.runId ≤ R.length) : curR (writeRuns R w) w.runId = some w := by
  unfold curR
  rw [writeRuns_get _ _ _ hle, if_pos rfl]
  cases hR : R[w.runId]? with
  | some x => simp
  | none =>
    have : w.runId = R.length := by
      have := List.getElem?_eq_none_iff.mp hR
      exact Nat.le_antisymm hle this
    simp [this]

theorem legal_le {R : List RunS} {w : Rec} (hl : Legal cfg R w) : w.runId ≤ R.length := by
  obtain ⟨_, hl⟩ := hl
  cases hR : R[w.runId]? with
  | none => rw [hR] at hl; exact Nat.le_of_eq hl.1
  | some x0 => exact Nat.le_of_lt (List.getElem?_eq_some_iff.mp hR).1

/-- a `Store` that returns normally has made its record the persisted one (up to the store's own time stamp) -/
theorem HT.store_head (w : Rec) :
    HT cfg env (fun R => Legal cfg R w ∧ LegalNew R w) (Engine.store cfg w)
      (fun _ R => ∃ h, curR R w.runId = some h ∧ h.version = w.version ∧ h.runState = w.runState ∧ h.status = w.status) := by
  intro st hi hz hp
  obtain ⟨h1, h2, _⟩ := HT.store (cfg := cfg) (env := env) w st hi hz hp
  refine ⟨h1, h2, fun a ha => ?_⟩
  rcases hs : Engine.store cfg w env st with ⟨r, st'⟩
  rw [hs] at ha
  simp only at ha
  subst ha
  unfold Engine.store at hs
  have hok := call_ok hs
  simp only at hok
  rw [hok.2.1, write_runs']
  have hle := legal_le hp.1
  split
  · exact ⟨_, curR_writeRuns (w := { w with updatedAt := st.sys.now }) hle, rfl, rfl, rfl⟩
  · exact ⟨_, curR_writeRuns hle, rfl, rfl, rfl⟩

/-- `ctlUpdateMem` that succeeds leaves the run persisted in the target state -/
theorem ctlUpdateMem_done (mem : Rec) (op : CtlOp) :
    HT cfg env (fun R => allowed mem.runState (target op) = true → Based R mem) (ctlUpdateMem cfg mem op)
      (fun r R => r.1.runId = mem.runId ∧ (r.2 = none → ∃ h, curR R mem.runId = some h ∧ h.runState = target op)) := by
  unfold ctlUpdateMem
  dsimp only
  split
  · rename_i ha
    refine HT.bind (HT.pre ?_ (HT.tryM (HT.store_head _))) (fun r => ?_)
    · intro s hi hb
      refine ⟨legal_ctl hi (hb ha) (target op) (ctlReason op) (target_cases op) ha, ?_⟩
      obtain ⟨h, ⟨x, t, hx, _⟩, hid, _⟩ := hb ha
      exact legalNew_existing (x := x) (by rw [← hid] at *; exact hx)
    · cases r with
      | ok u =>
        refine HT.pure (fun R hp => ⟨rfl, fun _ => ?_⟩)
        obtain ⟨h, h1, _, h3, _⟩ := hp u rfl
        exact ⟨h, h1, h3⟩
      | error a => exact HT.pure (fun _ _ => ⟨rfl, fun h => by cases h⟩)
  · exact HT.pure (fun R _ => ⟨rfl, fun h => by cases h⟩)

end WorkflowModel.Engine

namespace WorkflowModel.Engine
open WorkflowModel RS
variable {cfg : Cfg} {env : Env}

theorem not_live_of_target_pause_cancel {rs : Int} (h : rs = target .pause ∨ rs = target .cancel) : ¬ (rs = 1 ∨ rs = 2) := by
  rcases h with h | h <;> rw [h] <;> decide

/-- user functions: a normal return with a skip value comes from a successful Pause/Cancel (no `ret` outcome is a skip value) -/
theorem runFn_done (hn : NoNested env) (hs : NoSkip env) (kind : String) (run mem : Rec) (fuel : Nat) (first : Bool) :
    HT cfg env (fun R => Based R mem) (runFn cfg kind run mem fuel first)
      (fun r R => r.2.runId = mem.runId ∧ ∀ res, r.1 = .ok res → Gen.skipValues.contains res.next = true →
        ∃ h, curR R mem.runId = some h ∧ ¬ Live h) := by
  cases fuel with
  | zero =>
    unfold runFn
    exact HT.pure (fun R _ => ⟨rfl, fun res h => by cases h⟩)
  | succ n =>
    unfold runFn
    refine HT.bind (Q := fun out R => Based R mem ∧ (∀ x, out ≠ Outcome.nested x) ∧
        (∀ next k, out = Outcome.ret next k → Gen.skipValues.contains next = false)) ?_ (fun out => ?_)
    · intro st hi hz hp
      obtain ⟨h1, h2, h3⟩ := HT.nextOutcome (cfg := cfg) (P := fun R => Based R mem) hn st hi hz hp
      refine ⟨h1, h2, fun o ho => ⟨(h3 o ho).1, (h3 o ho).2, fun next k hk => ?_⟩⟩
      simp only [Engine.nextOutcome, Except.ok.injEq] at ho
      subst ho
      cases hget : env.outcomes[st.outI]? with
      | none => rw [hget] at hk; simp at hk
      | some o' =>
        rw [hget] at hk
        simp only [Option.getD_some] at hk
        exact hs o' (List.mem_of_getElem? hget) next k hk
    · dsimp only
      split
      all_goals refine HT.bind (HT.emit _) (fun _ => ?_)
      all_goals cases out <;> dsimp only
      all_goals first
        | exact HT.pure (fun R hp => ⟨rfl, fun res h hsk => by cases h; rw [hp.2.2 _ _ rfl] at hsk; cases hsk⟩)
        | exact HT.pure (fun R hp => ⟨rfl, fun res h => by cases h⟩)
        | exact HT.absurd (fun R hp => hp.2.1 _ rfl)
        | (refine HT.bind (HT.pre (fun s _ hp _ => hp.1) (ctlUpdateMem_done mem _)) (fun r => ?_)
           obtain ⟨mem', e⟩ := r
           cases e with
           | none =>
             refine HT.pure (fun R hp => ⟨hp.1, fun res _ _ => ?_⟩)
             obtain ⟨h, h1, h2⟩ := hp.2 rfl
             exact ⟨h, h1, by unfold Live; rw [h2]; first | exact not_live_of_target_pause_cancel (Or.inl rfl) | exact not_live_of_target_pause_cancel (Or.inr rfl)⟩
           | some a => exact HT.pure (fun R hp => ⟨hp.1, fun res h => by cases h⟩))

/-- the auto-pause: when it reports that it paused, the run is persisted Paused -/
theorem maybePause_done (n : Int) (p : Proc) (mem : Rec) (e : Abort) :
    HT cfg env (fun R => allowed mem.runState 3 = true → Based R mem) (maybePause cfg n p mem e)
      (fun b R => b = true → ∃ h, curR R mem.runId = some h ∧ ¬ Live h) := by
  unfold maybePause maybePauseMem
  split
  · exact HT.bind (HT.pure (Q := fun r _ => r.1 = false) (fun _ _ => rfl)) (fun r => HT.pure (fun _ hp hb => by rw [hp] at hb; cases hb))
  · dsimp only
    refine HT.bind (Q := fun r R => r.1 = true → ∃ h, curR R mem.runId = some h ∧ ¬ Live h) ?_ (fun r => HT.pure (fun _ hp hb => hp hb))
    refine HT.bind HT.getSys (fun s => ?_)
    refine HT.bind (HT.modifySys (fun _ => rfl) (fun s h => (RelayInv.stable cfg).setCount s _ _ h)) (fun _ => ?_)
    split
    · exact HT.pure (fun _ _ h => by cases h)
    · refine HT.bind (HT.pre (fun s _ hp => hp.1) (ctlUpdateMem_done mem .pause)) (fun r => ?_)
      obtain ⟨mem', err⟩ := r
      cases err with
      | some a => exact HT.throwA _
      | none =>
        refine HT.bind (HT.modifySys (fun _ => rfl) (fun s h => (RelayInv.stable cfg).setCount s _ _ h)) (fun _ => ?_)
        refine HT.pure (fun R hp _ => ?_)
        obtain ⟨h, h1, h2⟩ := hp.2 rfl
        exact ⟨h, h1, by unfold Live; rw [h2]; exact not_live_of_target_pause_cancel (Or.inl rfl)⟩

end WorkflowModel.Engine

namespace WorkflowModel.Engine
open WorkflowModel RS
variable {cfg : Cfg} {env : Env}

theorem curR_of_isHead {R : List RunS} {h : Rec} (hh : IsHead R h) : curR R h.runId = some h := by
  obtain ⟨x, t, hx, hl⟩ := hh
  unfold curR
  rw [hx]; simp [hl]

/-- the updater, called while `rec0` (at the status the function ran on) is still the persisted record: a normal return means
the write happened -/
theorem updater_done (current next : Status) (run rec0 : Rec) (o : Obj) (R0 : List RunS) :
    HT cfg env (fun R => R = R0 ∧ IsHead R0 rec0 ∧ rec0.runId = run.runId ∧ rec0.status = current ∧ UBased R0 run)
      (updater cfg current next run o)
      (fun _ R => ∃ h, curR R run.runId = some h ∧ h.version = run.version + 1) := by
  unfold updater
  refine HT.bind HT.getSys (fun s => ?_)
  dsimp only
  refine HT.bind (HT.lookup _) (fun v => ?_)
  cases v with
  | none => exact HT.throwA _
  | some latest =>
    dsimp only
    split
    · rename_i hst
      refine HT.absurd (fun R hp => ?_)
      obtain ⟨⟨⟨hR, hh0, hid0, hs0, _⟩, _, _⟩, hcur⟩ := hp
      have : curR R run.runId = some rec0 := by rw [hR, ← hid0]; exact curR_of_isHead hh0
      rw [this] at hcur
      cases hcur
      simp [Gen.G.updaterStatusChanged, hs0] at hst
    · rename_i hst
      split
      · exact HT.throwA _
      · rename_i hval
        refine HT.post (HT.pre ?_ (HT.store_head _)) ?_
        · intro s' hi ⟨⟨⟨hR, _, _, _, hub⟩, _, _⟩, hcur⟩
          rw [← hR] at hub
          obtain ⟨hl, hlid⟩ := isHead_of_curR hi.hist hcur.symm
          obtain ⟨h, hh, hid, hv, hf, hc, hrs⟩ := hub
          have heq : h = latest := isHead_unique hh hl (by rw [hid, hlid])
          subst heq
          have hstat : h.status = current := by simpa [Gen.G.updaterStatusChanged] using hst
          have hedge : (h.status, next) ∈ cfg.edges := by
            rw [hstat]; exact (C02.C02_validate_iff_declared cfg current next).mp (by simpa using hval)
          have hne := not_completed_of_edge (hh.recOK hi.hist) hedge
          have hrs' : h.runState = 1 ∨ h.runState = 2 := by
            rcases hrs with a | a | a
            · exact Or.inl a
            · exact Or.inr a
            · exact absurd a hne
          refine ⟨legal_advance hi hh hid hv hf hc hrs' next o s.now hedge, ?_⟩
          obtain ⟨x, t, hx, _⟩ := hh
          exact legalNew_existing (x := x) (by rw [hid] at hx; exact hx)
        · intro _ s' _ ⟨h, h1, h2, _⟩
          exact ⟨h, h1, h2⟩

/-- the step consumer after its guards, for a record whose version is the announced one -/
theorem stepRun_done (hn : NoNested env) (hs : NoSkip env) (p : Proc) (pa : Int) (record : Rec) (fuel : Nat) :
    HT cfg env (fun R => IsHead R record ∧ Gen.stopped record.runState = false)
      (stepRun cfg p pa record (fun run => runFn cfg "step" run run fuel true))
      (fun _ R => Done record.runId record.version R) := by
  refine HT.fix (fun R0 hp0 => ?_)
  unfold stepRun
  dsimp only
  -- the user function: both specifications at once
  refine HT.bind (Q := fun r R => FnPost R0 r R ∧ r.2.runId = record.runId ∧ (∀ res, r.1 = .ok res → Gen.skipValues.contains res.next = true →
      ∃ h, curR R record.runId = some h ∧ ¬ Live h)) ?_ (fun r => ?_)
  · intro st hi hz hp
    obtain ⟨a1, a2, a3⟩ := runFn_ht (cfg := cfg) hn "step" (viewRec record) (viewRec record) fuel true R0 st hi hz ⟨hp, based_view hp0.1⟩
    obtain ⟨_, _, b3⟩ := runFn_done (cfg := cfg) hn hs "step" (viewRec record) (viewRec record) fuel true st hi hz (by rw [hp]; exact based_view hp0.1)
    exact ⟨a1, a2, fun a ha => ⟨a3 a ha, b3 a ha⟩⟩
  · obtain ⟨res, mem⟩ := r
    cases res with
    | error err =>
      dsimp only
      refine HT.assume (fun R hp => hp.2.1) (fun hid => ?_)
      refine HT.bind (HT.pre (fun s _ hp => hp.1.2 err rfl) (maybePause_done pa p mem err)) (fun paused => ?_)
      split
      · rename_i hpz
        refine HT.post (Q' := fun _ R => ∃ h, curR R record.runId = some h ∧ ¬ Live h) (HT.pure (fun R hp => by rw [← hid]; exact hp hpz)) ?_
        intro _ s _ ⟨h, h1, h2⟩ w hw hl
        rw [hw] at h1; cases h1
        exact absurd hl h2
      · exact HT.throwA _
    | ok res =>
      dsimp only
      split
      · rename_i hsk
        refine HT.pure (fun R hp w hw hl => ?_)
        obtain ⟨h, h1, h2⟩ := hp.2.2 res rfl hsk
        rw [hw] at h1; cases h1
        exact absurd hl h2
      · rename_i hskip
        refine HT.post (HT.pre ?_ (updater_done record.status res.next (viewRec record) record res.obj R0)) ?_
        · intro s hi hp
          rcases hp.1.1 res rfl with h | h
          · exact absurd h hskip
          · refine ⟨h, hp0.1, rfl, rfl, ?_⟩
            have := ubased_view hi (record := record) (by rw [h]; exact hp0.1) hp0.2
            rw [h] at this; exact this
        · intro _ s _ ⟨h, h1, h2⟩ w hw _
          have : curR s.runs record.runId = some h := h1
          rw [hw] at this; cases this
          intro hv
          rw [hv] at h2
          simp only [viewRec] at h2
          womega

end WorkflowModel.Engine

namespace WorkflowModel.Engine
open WorkflowModel RS
variable {cfg : Cfg} {env : Env}

theorem not_live_of_stopped {rs : Int} (h : Gen.stopped rs = true) : ¬ (rs = 1 ∨ rs = 2) := by
  intro hl
  rcases hl with rfl | rfl <;> simp [Gen.stopped, Gen.stoppedCases] at h

theorem stepGate_done (hn : NoNested env) (hs : NoSkip env) (p : Proc) (pa : Int) (e : Event) (record : Rec) (fuel : Nat) :
    HT cfg env (fun R => IsHead R record ∧ record.runId = e.runId)
      (stepGate cfg p pa e record (fun run => runFn cfg "step" run run fuel true))
      (fun _ R => Done e.runId e.version R) := by
  unfold stepGate
  split
  · rename_i hold
    refine HT.pure (fun R hp w hw _ => ?_)
    rw [← hp.2, curR_of_isHead hp.1] at hw
    cases hw
    simp only [Gen.G.stepSkipOld, decide_eq_true_eq] at hold
    womega
  · rename_i hold
    split
    · exact HT.throwA _
    · rename_i hstale
      split
      · rename_i hstop
        refine HT.pure (fun R hp w hw hl => ?_)
        rw [← hp.2, curR_of_isHead hp.1] at hw
        cases hw
        exact (not_live_of_stopped (by simpa [Gen.G.stepStopped] using hstop) hl).elim
      · rename_i hstop
        have hv : record.version = e.version := by
          simp only [Gen.G.stepSkipOld, decide_eq_true_eq] at hold
          simp only [Gen.G.stepStale, decide_eq_true_eq] at hstale
          womega
        refine HT.assume (fun R hp => hp.2) (fun hid => ?_)
        refine HT.post (HT.pre (fun s _ hp => ⟨hp.1, by simpa [Gen.G.stepStopped] using hstop⟩) (stepRun_done hn hs p pa record fuel)) ?_
        intro _ s _ hd
        rw [← hid, ← hv]; exact hd

theorem stepHandle_done (hn : NoNested env) (hs : NoSkip env) (p : Proc) (status : Status) (pa : Int) (e : Event) (fuel : Nat) :
    HT cfg env (fun _ => True) (stepHandle cfg p status pa e (fun run => runFn cfg "step" run run fuel true))
      (fun _ R => Done e.runId e.version R) := by
  unfold stepHandle
  refine HT.bind (HT.lookup _) (fun v => ?_)
  cases v with
  | none => exact HT.pure (fun R hp w hw _ => by rw [← hp.2] at hw; cases hw)
  | some record =>
    refine HT.pre (fun s hi hp => ?_) (stepGate_done hn hs p pa e record fuel)
    have := isHead_of_curR hi.hist hp.2.symm
    exact ⟨this.1, this.2⟩

/-- **A delivery to a step consumer that ends with the acknowledgement** (a normal return of `deliver`): the event was for
another shard, or the announced version needs no further handling. -/
theorem deliver_step_done (hn : NoNested env) (hs : NoSkip env) (s : Status) (shard total : Int) (i : Nat) (e : Event) :
    HT cfg env (fun _ => True) (deliver cfg (.step s shard total) i e)
      (fun _ R => filteredOut (.step s shard total) i e = true ∨ Done e.runId e.version R) := by
  unfold deliver
  split
  · rename_i hf
    exact HT.post (HT.ack _ i) (fun _ _ _ _ => Or.inl hf)
  · refine HT.bind (Q := fun _ R => Done e.runId e.version R) ?_ (fun _ => HT.post (HT.ack _ i) (fun _ _ _ h => Or.inr h))
    unfold handle
    exact stepHandle_done hn hs _ s _ e fuelDefault

end WorkflowModel.Engine

namespace WorkflowModel.Engine
open WorkflowModel RS
variable {cfg : Cfg} {env : Env}

/-- the delete consumer's handler returns normally only after the run is persisted DataDeleted -/
theorem deleteHandle_done (e : Event) :
    HT cfg env (fun R => HasRDD R e.runId) (deleteHandle cfg e)
      (fun _ R => ∃ h, curR R e.runId = some h ∧ h.runState = 6) := by
  unfold deleteHandle
  refine HT.bind (HT.lookup _) (fun v => ?_)
  cases v with
  | none => exact HT.throwA _
  | some record =>
    dsimp only
    refine HT.bind (HT.of_frame (Fr.deleteObj record) (Pres.deleteObj record)) (fun newObj => ?_)
    refine HT.assume (P := fun R => HasRDD R e.runId ∧ some record = curR R e.runId) (φ := True) (fun _ _ => trivial) (fun _ => ?_)
    unfold updateRecord
    intro st hi hz hp
    obtain ⟨hh, hid⟩ := isHead_of_curR hi.hist hp.2.symm
    have hrs : record.runState = 7 ∨ record.runState = 6 := by
      obtain ⟨x, hx, w, hw, h7⟩ := hp.1
      obtain ⟨x', t, hx', hl⟩ := hh
      rw [hid, hx] at hx'
      cases hx'
      exact chain_head_after_rdd x.hist record t hl (hi.hist _ _ hx).chain ⟨w, hw, h7⟩
    have hleg := legal_delete hi hh hrs newObj
    obtain ⟨x', t, hx', _⟩ := hh
    obtain ⟨b1, b2, b3⟩ := HT.store_head (cfg := cfg) (env := env) _ st hi hz ⟨hleg, legalNew_existing (x := x') hx'⟩
    refine ⟨b1, b2, fun a ha => ?_⟩
    obtain ⟨h, h1, _, h3, _⟩ := b3 a ha
    exact ⟨h, by rw [← hid]; exact h1, h3⟩

end WorkflowModel.Engine
