import WorkflowModel.Lemmas.Local
import WorkflowModel.Props.C03Engine
import WorkflowModel.Props.C15
import WorkflowModel.Props.C13
/-! # C16 — Record identity, versioning and object hand-over between steps are exact

What each write path puts into the record it stores, relative to the record it is based on; and when the object a user
function leaves behind is persisted. The whole-history statements (version 1, 2, 3 …; update time monotone) follow from
these per-write facts when every write is based on a CURRENT read; re-entrant functions, stale handles and lagging
reads break that (findings F20, F17, F16) and are reported by the harness's per-write monitors. -/
namespace WorkflowModel.C16
open WorkflowModel Engine

/-- Trigger: version 1, creation time = update time = now, description of the start status. -/
theorem C16_trigger_record (fid : Fid) (st : Status) (n : Obj) (now : Int) (rid : RunId) :
    let w : Rec := { triggerRec fid st n now rid with version := (triggerRec fid st n now rid).version + 1 }
    w.version = 1 ∧ w.createdAt = now ∧ w.updatedAt = now ∧ w.descr = w.status ∧ w.obj = n ∧ w.runState = 1 := by
  simp [triggerRec, Gen.RunStateInitiated]

/-- Updater: identity and creation time from the run, version + 1, update time now, status description of the NEW status
(since the repair of F13), the object the function left behind. -/
theorem C16_updater_record (cfg : Cfg) (next : Status) (run : Rec) (o : Obj) (now : Int) :
    let w : Rec := { updaterRec cfg next run o now with version := run.version + 1 }
    w.runId = run.runId ∧ w.fid = run.fid ∧ w.createdAt = run.createdAt ∧ w.version = run.version + 1 ∧
    w.updatedAt = now ∧ w.descr = w.status ∧ w.status = next ∧ w.obj = o := by
  simp [updaterRec]

/-- Controller: identity, creation time, status, object and description untouched; version + 1. -/
theorem C16_ctl_record (mem : Rec) (op : RS.CtlOp) :
    let w : Rec := { mem with runState := RS.target op, reason := ctlReason op, version := mem.version + 1 }
    w.runId = mem.runId ∧ w.fid = mem.fid ∧ w.createdAt = mem.createdAt ∧ w.version = mem.version + 1 ∧
    w.status = mem.status ∧ w.obj = mem.obj ∧ w.descr = mem.descr ∧ w.updatedAt = mem.updatedAt := by
  simp

/-- Delete consumer: identity, creation time, status untouched; version + 1 (object scrubbed: C15). -/
theorem C16_delete_record (cfg : Cfg) (record : Rec) :
    (C15.deletedRec cfg record).runId = record.runId ∧ (C15.deletedRec cfg record).fid = record.fid ∧
    (C15.deletedRec cfg record).createdAt = record.createdAt ∧ (C15.deletedRec cfg record).version = record.version + 1 ∧
    (C15.deletedRec cfg record).status = record.status ∧ (C15.deletedRec cfg record).descr = record.descr := by
  simp [C15.deletedRec]

/-- A store that stamps the update time (`cfg.stamp`) never moves it backwards under a clock that does not go backwards;
one that does not stamp keeps what the writer supplied (now, for trigger and updater). -/
theorem C16_stamped_update_time (s : Sys) (cfg : Cfg) (r : Rec) (h : cfg.stamp = true) :
    ∃ w, Written (s.write cfg r) w ∧ w.updatedAt = s.now ∧ w.version = r.version ∧ w.runId = r.runId := by
  refine ⟨{ r with updatedAt := s.now }, (written_write s cfg r _).mpr (Or.inr (by simp [h])), rfl, rfl, rfl⟩

/-- The object is persisted IFF the function returns a declared next status: a skip value (0, -1) persists nothing … -/
theorem C16_skip_persists_nothing (cfg : Cfg) (p : Proc) (pa : Int) (record : Rec) (res : FnRes) (mem : Rec)
    (env : Env) (st : OpSt) (hskip : res.next = 0 ∨ res.next = -1) :
    stepRun cfg p pa record (fun _ => pure (.ok res, mem)) env st = (.ok (), st) := by
  have : Gen.skipValues.contains res.next = true := by
    rcases hskip with h | h <;> simp [Gen.skipValues, h]
  unfold stepRun
  rw [bind_run]
  simp only [pure_run]
  rw [if_pos this]
  rfl

/-- … an error persists nothing when no error count is configured: the handler fails, nothing is written (with a count
configured the only possible write is the controller's Paused write, which stores the object of the record that was
read — `C16_ctl_record` — never the function's in-memory modifications) … -/
theorem C16_error_persists_nothing (cfg : Cfg) (p : Proc) (record mem : Rec) (err : Abort) (env : Env) (st : OpSt) :
    stepRun cfg p 0 record (fun _ => pure (.error err, mem)) env st = (.error err, st) := by
  unfold stepRun
  rw [bind_run]
  simp only [pure_run]
  rw [bind_run]
  unfold maybePause
  rw [bind_run, C13.C13_never_when_zero]
  rfl

/-- … an undeclared destination persists nothing (C02_undeclared_no_write), and a declared one persists exactly the
object the function left behind (`C16_updater_record`, `C03_updater_writes_only_that`). -/
theorem C16_advance_persists_object (cfg : Cfg) (next : Status) (run : Rec) (o : Obj) (now : Int) :
    (updaterRec cfg next run o now).obj = o := rfl

/-- The next function to run observes exactly the persisted object: a handler hands `viewRec record` — the record the
store returned, object untouched — to the function. -/
theorem C16_next_sees_persisted (record : Rec) : (viewRec record).obj = record.obj ∧ (viewRec record).version = record.version ∧
    (viewRec record).status = record.status := by simp [viewRec]

end WorkflowModel.C16
