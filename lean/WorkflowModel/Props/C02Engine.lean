import WorkflowModel.Lemmas.Local
import WorkflowModel.Props.C02Graph
import WorkflowModel.Props.Tie
/-! # C02 (engine part) — the updater writes a status change only along a declared transition

`validate` is the model of `validateTransition` (its two tests regenerated from update.go); `cfg.edges` are the
(from, to) pairs of all AddStep / AddCallback / AddTimeout calls in builder order. -/
namespace WorkflowModel.C02
open WorkflowModel Engine

/-- `validateTransition` accepts exactly the declared transitions — for every list of builder calls, hence every order -/
theorem C02_validate_iff_declared (cfg : Cfg) (a b : Status) : validate cfg a b = true ↔ (a, b) ∈ cfg.edges := by
  unfold validate Cfg.graph
  simp only [Gen.G.validateNoTransitions, Gen.G.validateFound]
  rw [← C02_transitions_are_declared cfg.edges a b]
  cases h : Graph.transitions (Graph.build cfg.edges) a with
  | nil => simp
  | cons x xs =>
    simp
    constructor
    · rintro ⟨_, h | h⟩
      · exact Or.inl h.symm
      · exact Or.inr h
    · rintro (h | h)
      · exact ⟨by omega, Or.inl h.symm⟩
      · exact ⟨by omega, Or.inr h⟩

/-- If the updater changes anything, the re-read record was still at the expected status and the transition is declared:
a persisted status change made by a step, callback or timeout function is along a declared edge from the status the
run was persisted at when the updater re-read it — for every environment. -/
theorem C02_updater_declared (cfg : Cfg) (current next : Status) (run : Rec) (o : Obj) (env : Env) (st : OpSt)
    (hchg : (updater cfg current next run o env st).2.sys ≠ st.sys) :
    (current, next) ∈ cfg.edges ∧ ∃ latest, (lookupRes st.sys run.runId st.stale).2 = some latest ∧ latest.status = current := by
  unfold updater at hchg
  rw [bind_run] at hchg
  simp only [Engine.getSys] at hchg
  rw [bind_run] at hchg
  rcases hl : lookup run.runId env st with ⟨v, st'⟩
  rw [hl] at hchg
  cases v with
  | error a => exact absurd (lookup_err hl).1 hchg
  | ok v =>
    obtain ⟨hv, hsys, _⟩ := lookup_ok hl
    cases v with
    | none => exact absurd hsys hchg
    | some latest =>
      simp only [] at hchg
      split at hchg
      · exact absurd hsys hchg
      · rename_i hst
        split at hchg
        · exact absurd hsys hchg
        · rename_i hval
          refine ⟨(C02_validate_iff_declared cfg current next).mp (by simpa using hval), latest, hv.symm, ?_⟩
          simpa [Gen.G.updaterStatusChanged] using hst

/-- An undeclared destination (that is not a skip value) returned while the run is still at the expected status:
nothing is written and the updater fails — `Callback` returns the error, a consumer does not acknowledge and retries. -/
theorem C02_undeclared_no_write (cfg : Cfg) (current next : Status) (run : Rec) (o : Obj) (env : Env) (st : OpSt)
    (latest : Rec) (hread : (lookupRes st.sys run.runId st.stale).2 = some latest) (hst : latest.status = current)
    (hund : (current, next) ∉ cfg.edges) :
    (updater cfg current next run o env st).2.sys = st.sys ∧ ∃ a, (updater cfg current next run o env st).1 = .error a := by
  have hv : validate cfg current next = false := by
    cases h : validate cfg current next with
    | false => rfl
    | true => exact absurd ((C02_validate_iff_declared cfg current next).mp h) hund
  unfold updater
  rw [bind_run]
  simp only [Engine.getSys]
  rw [bind_run]
  rcases hl : lookup run.runId env st with ⟨v, st'⟩
  cases v with
  | error a => exact ⟨(lookup_err hl).1, a, rfl⟩
  | ok v =>
    obtain ⟨hv', hsys, _⟩ := lookup_ok hl
    rw [hread] at hv'; subst hv'
    have hg : Gen.G.updaterStatusChanged latest.status current = false := by simp [Gen.G.updaterStatusChanged, hst]
    simp only [hg, hv, Bool.false_eq_true, if_false, Bool.not_false, if_true]
    exact ⟨hsys, _, rfl⟩

/-- Skip values (0 and -1, regenerated from status.go) never reach the updater: the step/callback/timeout paths test
`skipValues.contains next` first — also when a workflow declares 0 as a status. -/
theorem C02_skip_values : Gen.skipValues = [0, -1] := by decide

/-- Trigger starts a run only at a declared status: the requested one if non-zero, otherwise the default starting point
(first source in builder order that is never a destination). -/
theorem C02_trigger_start_declared (cfg : Cfg) (start s0 : Status) (h : triggerStart cfg start = some s0) :
    Graph.isValid cfg.graph s0 = true ∧ (start ≠ 0 → s0 = start) ∧ (start = 0 → Graph.defaultStart cfg.graph = some s0) := by
  unfold triggerStart at h
  split at h
  · simp at h
  · rename_i st hst
    split at h
    · rename_i hv
      simp at h; subst h
      refine ⟨hv, ?_, ?_⟩
      · intro hne
        have : Gen.G.triggerUseRequested start = true := by simp [Gen.G.triggerUseRequested, hne]
        simp [this] at hst; exact hst.symm
      · intro he
        have : Gen.G.triggerUseRequested start = false := by simp [Gen.G.triggerUseRequested, he]
        simp [this] at hst; exact hst
    · simp at h

/-- T2: the updater marshals, classifies the destination, re-reads, validates and only then stores -/
theorem C02_tie_order : Tie.updater = true ∧ Tie.processCallback = true ∧ Tie.trigger = true := by decide +kernel

/-- non-vacuity: an undeclared destination (3 from status 1, only 1→2 declared) is not persisted, the consumer backs off -/
example :
    let cfg : Cfg := { calls := [{ kind := .step, src := 1, dests := [2] }, { kind := .step, src := 2, dests := [3] }] }
    let s := runActs cfg {} [.trigger 0 0 7 {}, .step .outbox {}, .step (.step 1 1 1) {}, .step (.step 1 1 1) { outcomes := [.ret 3 9] }]
    (s.cur 0).map (fun r => (r.status, r.version)) = some (1, 1) ∧ s.pstate (.step 1 1 1) = .backoff 1 := by
  decide +kernel

end WorkflowModel.C02
