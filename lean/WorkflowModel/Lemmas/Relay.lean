import WorkflowModel.Lemmas.Stable
/-! # The relay invariant (C05), for every reachable state

`RelayInv`: (1) every outbox entry describes a write, (2) every published event describes a write, (3) every write
is pending in the outbox or published. It is preserved by every primitive except `relayDelete`, which needs the
entry's event to be in the stream log — exactly what `purgeOutbox` establishes by sending before deleting. -/
namespace WorkflowModel.Engine
open WorkflowModel

/-- an event with the streamer's time stamp removed -/
def core (e : Event) : Event := { e with createdAt := 0 }

/-- `w` is one of the record writes made so far -/
def Written (s : Sys) (w : Rec) : Prop := ∃ run ∈ s.runs, w ∈ run.hist

structure RelayInv (s : Sys) : Prop where
  outbox_written : ∀ o ∈ s.outbox, ∃ w, Written s w ∧ o.ev = Routing.route w
  log_written : ∀ e ∈ s.log, ∃ w, Written s w ∧ core e = Routing.route w
  written_pending_or_published : ∀ w, Written s w →
    (∃ o ∈ s.outbox, o.ev = Routing.route w) ∨ (∃ e ∈ s.log, core e = Routing.route w)
  ord_fresh : ∀ o ∈ s.outbox, o.ord < s.outN
  ord_unique : ∀ o1 ∈ s.outbox, ∀ o2 ∈ s.outbox, o1.ord = o2.ord → o1 = o2

theorem route_createdAt (r : Rec) : (Routing.route r).createdAt = 0 := rfl

theorem core_route (r : Rec) : core (Routing.route r) = Routing.route r := rfl

/-- what `Sys.write` does to the set of writes -/
theorem written_write (s : Sys) (cfg : Cfg) (r w : Rec) :
    Written (s.write cfg r) w ↔ Written s w ∨ w = (if cfg.stamp then { r with updatedAt := s.now } else r) := by
  unfold Written Sys.write
  simp only []
  generalize hr' : (if cfg.stamp = true then { r with updatedAt := s.now } else r) = r'
  have hid : r'.runId = r.runId := by rw [← hr']; split <;> rfl
  have hfid : r'.fid = r.fid := by rw [← hr']; split <;> rfl
  split
  · rename_i hlt
    constructor
    · rintro ⟨run, hrun, hw⟩
      rw [List.mem_mapIdx] at hrun
      obtain ⟨i, hi, rfl⟩ := hrun
      split at hw
      · simp only [List.mem_cons] at hw
        rcases hw with rfl | hw
        · exact Or.inr rfl
        · exact Or.inl ⟨s.runs[i], List.getElem_mem hi, hw⟩
      · exact Or.inl ⟨s.runs[i], List.getElem_mem hi, hw⟩
    · rintro (⟨run, hrun, hw⟩ | rfl)
      · obtain ⟨i, hi, rfl⟩ := List.getElem_of_mem hrun
        refine ⟨_, List.mem_mapIdx.mpr ⟨i, hi, rfl⟩, ?_⟩
        split
        · exact List.mem_cons_of_mem _ hw
        · exact hw
      · have hlt' : w.runId < s.runs.length := hlt
        refine ⟨_, List.mem_mapIdx.mpr ⟨w.runId, hlt', rfl⟩, ?_⟩
        simp
  · constructor
    · rintro ⟨run, hrun, hw⟩
      simp only [List.mem_append, List.mem_singleton] at hrun
      rcases hrun with hrun | rfl
      · exact Or.inl ⟨run, hrun, hw⟩
      · simp at hw; exact Or.inr hw
    · rintro (⟨run, hrun, hw⟩ | rfl)
      · exact ⟨run, by simp [hrun], hw⟩
      · exact ⟨{ fid := w.fid, hist := [w] }, by simp, by simp⟩

theorem write_outbox (s : Sys) (cfg : Cfg) (r : Rec) :
    (s.write cfg r).outbox = s.outbox ++ [{ ord := s.outN, ev := Routing.route (if cfg.stamp then { r with updatedAt := s.now } else r) }] ∧
    (s.write cfg r).outN = s.outN + 1 ∧ (s.write cfg r).log = s.log := by
  unfold Sys.write; simp

theorem RelayInv.write {s : Sys} (cfg : Cfg) (r : Rec) (h : RelayInv s) : RelayInv (s.write cfg r) := by
  obtain ⟨hob, hout, hlog⟩ := write_outbox s cfg r
  generalize hr' : (if cfg.stamp then { r with updatedAt := s.now } else r) = r' at hob
  have hw : ∀ w, Written (s.write cfg r) w ↔ Written s w ∨ w = r' := by
    intro w; rw [written_write, hr']
  constructor
  · intro o ho
    rw [hob] at ho
    simp only [List.mem_append, List.mem_singleton] at ho
    rcases ho with ho | rfl
    · obtain ⟨w, hw1, hw2⟩ := h.outbox_written o ho
      exact ⟨w, (hw w).mpr (Or.inl hw1), hw2⟩
    · exact ⟨r', (hw r').mpr (Or.inr rfl), rfl⟩
  · intro e he
    rw [hlog] at he
    obtain ⟨w, hw1, hw2⟩ := h.log_written e he
    exact ⟨w, (hw w).mpr (Or.inl hw1), hw2⟩
  · intro w hww
    rcases (hw w).mp hww with hww | rfl
    · rcases h.written_pending_or_published w hww with ⟨o, ho, he⟩ | ⟨e, he, hc⟩
      · exact Or.inl ⟨o, by rw [hob]; simp [ho], he⟩
      · exact Or.inr ⟨e, by rw [hlog]; exact he, hc⟩
    · exact Or.inl ⟨{ ord := s.outN, ev := Routing.route w }, by rw [hob]; simp, rfl⟩
  · intro o ho
    rw [hob] at ho; rw [hout]
    simp only [List.mem_append, List.mem_singleton] at ho
    rcases ho with ho | rfl
    · have := h.ord_fresh o ho; omega
    · simp
  · intro o1 h1 o2 h2 heq
    rw [hob] at h1 h2
    simp only [List.mem_append, List.mem_singleton] at h1 h2
    rcases h1 with h1 | rfl <;> rcases h2 with h2 | rfl
    · exact h.ord_unique o1 h1 o2 h2 heq
    · have := h.ord_fresh o1 h1; simp at heq; omega
    · have := h.ord_fresh o2 h2; simp at heq; omega
    · rfl

/-- publishing an event that describes a write -/
theorem RelayInv.relaySend {s : Sys} (e : Event) (h : RelayInv s) (he : ∃ w, Written s w ∧ core e = Routing.route w) :
    RelayInv (s.relaySend e) := by
  have hw : ∀ w, Written (s.relaySend e) w ↔ Written s w := fun w => Iff.rfl
  constructor
  · exact h.outbox_written
  · intro e' he'
    simp only [Sys.relaySend, List.mem_append, List.mem_singleton] at he'
    rcases he' with he' | rfl
    · exact h.log_written e' he'
    · exact he
  · intro w hww
    rcases h.written_pending_or_published w hww with ho | ⟨e', he', hc⟩
    · exact Or.inl ho
    · exact Or.inr ⟨e', by simp [Sys.relaySend, he'], hc⟩
  · exact h.ord_fresh
  · exact h.ord_unique

/-- removing an outbox entry whose event the streamer has accepted -/
theorem RelayInv.relayDelete {s : Sys} (ord : Nat) (h : RelayInv s)
    (hsent : ∀ o ∈ s.outbox, o.ord = ord → ∃ e ∈ s.log, core e = o.ev) : RelayInv (s.relayDelete ord) := by
  have hmem : ∀ o, o ∈ (s.relayDelete ord).outbox ↔ o ∈ s.outbox ∧ o.ord ≠ ord := by
    intro o; simp [Sys.relayDelete]
  constructor
  · intro o ho
    exact h.outbox_written o ((hmem o).mp ho).1
  · exact h.log_written
  · intro w hww
    rcases h.written_pending_or_published w hww with ⟨o, ho, he⟩ | hp
    · by_cases hord : o.ord = ord
      · obtain ⟨e, hel, hc⟩ := hsent o ho hord
        exact Or.inr ⟨e, hel, by rw [hc, he]⟩
      · exact Or.inl ⟨o, (hmem o).mpr ⟨ho, hord⟩, he⟩
    · exact Or.inr hp
  · intro o ho
    exact h.ord_fresh o ((hmem o).mp ho).1
  · intro o1 h1 o2 h2
    exact h.ord_unique o1 ((hmem o1).mp h1).1 o2 ((hmem o2).mp h2).1

/-- every other primitive leaves runs, outbox, log and the ordinal counter alone -/
theorem RelayInv.frame {s s' : Sys} (h : RelayInv s) (h1 : s'.runs = s.runs) (h2 : s'.outbox = s.outbox)
    (h3 : s'.log = s.log) (h4 : s'.outN = s.outN) : RelayInv s' := by
  have hw : ∀ w, Written s' w ↔ Written s w := by intro w; unfold Written; rw [h1]
  constructor
  · intro o ho; rw [h2] at ho
    obtain ⟨w, a, b⟩ := h.outbox_written o ho
    exact ⟨w, (hw w).mpr a, b⟩
  · intro e he; rw [h3] at he
    obtain ⟨w, a, b⟩ := h.log_written e he
    exact ⟨w, (hw w).mpr a, b⟩
  · intro w hww
    rw [h2, h3]
    exact h.written_pending_or_published w ((hw w).mp hww)
  · intro o ho; rw [h2] at ho; rw [h4]; exact h.ord_fresh o ho
  · rw [h2]; exact h.ord_unique

theorem RelayInv.stable (cfg : Cfg) : Stable RelayInv cfg where
  write := fun _ r h => h.write cfg r
  setCursor := fun _ _ _ h => h.frame rfl rfl rfl rfl
  timerCreate := fun _ _ _ _ _ h => h.frame rfl rfl rfl rfl
  timerComplete := fun _ _ h => h.frame rfl rfl rfl rfl
  timerCancel := fun _ _ h => h.frame rfl rfl rfl rfl
  setCount := fun _ _ _ h => h.frame rfl rfl rfl rfl
  setPState := fun _ _ _ h => h.frame rfl rfl rfl rfl
  setHandles := fun _ _ h => h.frame rfl rfl rfl rfl
  tick := fun _ _ h => h.frame rfl rfl rfl rfl

theorem RelayInv.init : RelayInv {} := by
  constructor <;> simp [Written]

/-! ## the relay cycle under every fault plan -/

theorem bind_run {α β : Type} (m : M α) (f : α → M β) (env : Env) (st : OpSt) :
    (m >>= f) env st = match m env st with
      | (.ok a, st') => f a env st'
      | (.error e, st') => (.error e, st') := rfl

/-- an adapter call leaves `Sys` alone or applies its effect; a normal return implies the effect was applied -/
theorem call_sys {α : Type} (l : String) (eff : Sys → (String × Except Abort α × Sys)) (env : Env) (st : OpSt) :
    ((call l eff env st).2.sys = st.sys ∧ ∃ e, (call l eff env st).1 = .error e) ∨
    ((call l eff env st).2.sys = (eff st.sys).2.2) := by
  unfold Engine.call
  split
  · exact Or.inl ⟨rfl, _, rfl⟩
  · split
    · exact Or.inl ⟨rfl, _, rfl⟩
    · exact Or.inr rfl
    · exact Or.inl ⟨rfl, _, rfl⟩
    · exact Or.inr rfl

/-- what relaying the batch needs to know about it: each entry is the only one with its ordinal, and describes a write -/
def BatchOK (batch : List OutE) (s : Sys) : Prop :=
  ∀ o ∈ batch, (∀ o' ∈ s.outbox, o'.ord = o.ord → o' = o) ∧ (∃ w, Written s w ∧ o.ev = Routing.route w)

theorem BatchOK.mono {batch : List OutE} {s s' : Sys} (h : BatchOK batch s) (h1 : s'.runs = s.runs)
    (h2 : ∀ o, o ∈ s'.outbox → o ∈ s.outbox) : BatchOK batch s' := by
  intro o ho
  obtain ⟨a, w, b, c⟩ := h o ho
  refine ⟨fun o' ho' => a o' (h2 o' ho'), w, ?_, c⟩
  unfold Written at *; rw [h1]; exact b

theorem BatchOK.tail {o : OutE} {rest : List OutE} {s : Sys} (h : BatchOK (o :: rest) s) : BatchOK rest s :=
  fun o' ho' => h o' (List.mem_cons_of_mem _ ho')

/-- one entry, any fault plan: the invariant holds wherever the relay was cut -/
theorem relayEntry_inv (o : OutE) (rest : List OutE) (env : Env) (st : OpSt)
    (hi : RelayInv st.sys) (hb : BatchOK (o :: rest) st.sys) :
    RelayInv ((relayEntry o) env st).2.sys ∧ BatchOK rest ((relayEntry o) env st).2.sys := by
  obtain ⟨huniq, w, hw, hev⟩ := hb o (by simp)
  have hcore : ∀ t, core { o.ev with createdAt := t } = Routing.route w := by
    intro t; rw [hev]; rfl
  unfold relayEntry
  rw [bind_run]
  -- new sender
  rcases h1 : call _ _ env st with ⟨r1, st1⟩
  have hs1 : st1.sys = st.sys := by
    have := call_sys (s!"newsender({topicStr o.ev})") (fun s => ("", (Except.ok () : Except Abort Unit), s)) env st
    rw [h1] at this
    rcases this with ⟨a, _⟩ | a <;> exact a
  cases r1 with
  | error e => simp only []; rw [hs1]; exact ⟨hi, hb.tail⟩
  | ok _ =>
    simp only []
    rw [bind_run]
    unfold Engine.tryM
    -- send
    rcases h2 : call "send" _ env st1 with ⟨r2, st2⟩
    have hs2 := call_sys "send" (fun s => ("(" ++ evStr s.log.length { o.ev with createdAt := s.now } ++ s!",t{o.ev.type})",
      (Except.ok () : Except Abort Unit), s.relaySend { o.ev with createdAt := s.now })) env st1
    rw [h2] at hs2
    simp only [] at hs2
    have hi1 : RelayInv st1.sys := hs1 ▸ hi
    have hb1 : BatchOK (o :: rest) st1.sys := hs1 ▸ hb
    have hsent : RelayInv (st1.sys.relaySend { o.ev with createdAt := st1.sys.now }) :=
      hi1.relaySend _ ⟨w, hs1 ▸ hw, hcore _⟩
    have hbsent : BatchOK (o :: rest) (st1.sys.relaySend { o.ev with createdAt := st1.sys.now }) :=
      hb1.mono rfl (fun _ h => h)
    cases r2 with
    | error e =>
      simp only [bind_run, Engine.emit, Engine.throwA]
      rcases hs2 with ⟨a, _⟩ | a
      · rw [a]; exact ⟨hi1, hb1.tail⟩
      · rw [a]; exact ⟨hsent, hbsent.tail⟩
    | ok _ =>
      have a : st2.sys = st1.sys.relaySend { o.ev with createdAt := st1.sys.now } := by
        rcases hs2 with ⟨_, e, he⟩ | a
        · simp at he
        · exact a
      simp only [bind_run, Engine.emit]
      -- delete
      have hs3 := call_sys (s!"delout({o.ord})") (fun s => ("", (Except.ok () : Except Abort Unit), s.relayDelete o.ord)) env
        { st2 with obs := "sendclose" :: st2.obs }
      simp only [] at hs3
      rcases hs3 with ⟨b, _⟩ | b
      · rw [b, a]; exact ⟨hsent, hbsent.tail⟩
      · rw [b, a]
        constructor
        · apply hsent.relayDelete
          intro o' ho' hord
          have : o' = o := (hbsent o (by simp)).1 o' ho' hord
          subst this
          exact ⟨{ o'.ev with createdAt := st1.sys.now }, by simp [Sys.relaySend], by rw [hcore, hev]⟩
        · exact hbsent.tail.mono rfl (fun o' ho' => by simp [Sys.relayDelete] at ho'; exact ho'.1)

/-- the three possible effects of relaying one entry, whatever the fault plan: nothing; the event was published;
the event was published and then the entry removed -/
theorem relayEntry_shape (o : OutE) (env : Env) (st : OpSt) :
    let e : Event := { o.ev with createdAt := st.sys.now }
    ((relayEntry o) env st).2.sys = st.sys ∨
    ((relayEntry o) env st).2.sys = st.sys.relaySend e ∨
    ((relayEntry o) env st).2.sys = (st.sys.relaySend e).relayDelete o.ord := by
  intro e
  unfold relayEntry
  rw [bind_run]
  rcases h1 : call _ _ env st with ⟨r1, st1⟩
  have hs1 : st1.sys = st.sys := by
    have := call_sys (s!"newsender({topicStr o.ev})") (fun s => ("", (Except.ok () : Except Abort Unit), s)) env st
    rw [h1] at this
    rcases this with ⟨a, _⟩ | a <;> exact a
  cases r1 with
  | error _ => simp only []; exact Or.inl hs1
  | ok _ =>
    simp only []
    rw [bind_run]
    unfold Engine.tryM
    rcases h2 : call "send" _ env st1 with ⟨r2, st2⟩
    have hs2 := call_sys "send" (fun s => ("(" ++ evStr s.log.length { o.ev with createdAt := s.now } ++ s!",t{o.ev.type})",
      (Except.ok () : Except Abort Unit), s.relaySend { o.ev with createdAt := s.now })) env st1
    rw [h2] at hs2
    simp only [] at hs2
    rw [hs1] at hs2
    cases r2 with
    | error _ =>
      simp only [bind_run, Engine.emit, Engine.throwA]
      rcases hs2 with ⟨a, _⟩ | a
      · exact Or.inl a
      · exact Or.inr (Or.inl a)
    | ok _ =>
      have a : st2.sys = st.sys.relaySend e := by
        rcases hs2 with ⟨_, e', he⟩ | a
        · simp at he
        · exact a
      simp only [bind_run, Engine.emit]
      have hs3 := call_sys (s!"delout({o.ord})") (fun s => ("", (Except.ok () : Except Abort Unit), s.relayDelete o.ord)) env
        { st2 with obs := "sendclose" :: st2.obs }
      simp only [] at hs3
      rcases hs3 with ⟨b, _⟩ | b
      · exact Or.inr (Or.inl (by rw [b, a]))
      · exact Or.inr (Or.inr (by rw [b, a]))

/-- the whole batch -/
theorem relayBatch_inv (batch : List OutE) (env : Env) (st : OpSt)
    (hi : RelayInv st.sys) (hb : BatchOK batch st.sys) : RelayInv ((batch.forM relayEntry) env st).2.sys := by
  induction batch generalizing st with
  | nil => exact hi
  | cons o rest ih =>
    show RelayInv ((List.forM (o :: rest) relayEntry) env st).2.sys
    unfold List.forM
    rw [bind_run]
    have := relayEntry_inv o rest env st hi hb
    rcases h : relayEntry o env st with ⟨r, st'⟩
    rw [h] at this
    cases r with
    | ok _ => exact ih st' this.1 this.2
    | error e => exact this.1

theorem Pres.relayOp (cfg : Cfg) : Pres RelayInv (relayOp cfg) := by
  intro env st hi
  unfold Engine.relayOp
  rw [bind_run]
  rcases h : Engine.call "listoutbox" _ env st with ⟨r, st'⟩
  have hs := call_sys "listoutbox" (fun s => ("(" ++ " ".intercalate ((s.outbox.take cfg.outboxLimit.toNat).map (fun o => toString o.ord)) ++ ")",
      (Except.ok (s.outbox.take cfg.outboxLimit.toNat) : Except Abort (List OutE)), s)) env st
  rw [h] at hs
  have hsys : st'.sys = st.sys := by rcases hs with ⟨a, _⟩ | a <;> exact a
  cases r with
  | error e => simp only []; rw [hsys]; exact hi
  | ok batch =>
    simp only []
    have hbatch : batch = st.sys.outbox.take cfg.outboxLimit.toNat := by
      unfold Engine.call at h
      split at h
      · simp at h
      · split at h <;> simp at h
        exact h.1.symm
    apply relayBatch_inv batch env st' (hsys ▸ hi)
    intro o ho
    rw [hsys]
    have hmem : o ∈ st.sys.outbox := by rw [hbatch] at ho; exact List.mem_of_mem_take ho
    refine ⟨fun o' ho' hord => hi.ord_unique o' ho' o hmem hord, ?_⟩
    exact hi.outbox_written o hmem

end WorkflowModel.Engine
