// Package report: the result format every harness suite writes (consumed by /verif/check).
package report

import (
	"crypto/sha256"
	"encoding/hex"
	"encoding/json"
	"os"
	"sort"
	"sync"
)

// Violation: the implementation (the real Go code) broke a property on a concrete input/history.
type Violation struct {
	Property  string `json:"property"`
	Oracle    string `json:"oracle"`    // which monitor flagged it
	Signature string `json:"signature"` // stable identification of *what* fails (matched against known-findings.json)
	Detail    string `json:"detail"`
	Replay    any    `json:"replay"` // input / operation sequence / history that reproduces it
}

// Disagreement: model and implementation behaved differently on the same input (broken correspondence T3).
type Disagreement struct {
	Properties []string `json:"properties"` // properties whose tie this breaks
	Where      string   `json:"where"`
	Input      any      `json:"input"`
	Impl       string   `json:"impl"`
	Model      string   `json:"model"`
}

type Result struct {
	NoModel            bool `json:"no_model"` // the Lean driver was unavailable: only implementation-side monitors ran
	mu                 sync.Mutex
	Suite              string          `json:"suite"`
	Seed               uint64          `json:"seed"`
	Tier               string          `json:"tier"`
	Evaluations        int             `json:"evaluations"`
	ModelLines         int             `json:"model_lines"` // lines exchanged with the Lean driver
	Nontrivial         map[string]bool `json:"-"`
	DistinctNontrivial int             `json:"distinct_nontrivial"`
	Rule               string          `json:"rule"`
	Samples            []any           `json:"samples"`
	Exhaustive         bool            `json:"exhaustive"`
	Dist               map[string]int  `json:"dist"`
	Violations         []Violation     `json:"violations"`
	Disagreements      []Disagreement  `json:"disagreements"`
	Traces             int             `json:"traces_validated_against_impl"`
}

func New(suite string, seed uint64, tier string) *Result {
	return &Result{Suite: suite, Seed: seed, Tier: tier, Nontrivial: map[string]bool{}, Dist: map[string]int{}}
}

func (r *Result) Count(k string) {
	r.mu.Lock()
	r.Dist[k]++
	r.mu.Unlock()
}

func (r *Result) CountN(k string, n int) {
	r.mu.Lock()
	r.Dist[k] += n
	r.mu.Unlock()
}

func (r *Result) Eval(n int) {
	r.mu.Lock()
	r.Evaluations += n
	r.mu.Unlock()
}

// NonTrivial records one distinct non-trivial case by its canonical key.
func (r *Result) NonTrivial(key string) {
	h := sha256.Sum256([]byte(key))
	r.mu.Lock()
	r.Nontrivial[hex.EncodeToString(h[:8])] = true
	r.mu.Unlock()
}

func (r *Result) Sample(s any) {
	r.mu.Lock()
	if len(r.Samples) < 4 {
		r.Samples = append(r.Samples, s)
	}
	r.mu.Unlock()
}

func (r *Result) Violate(v Violation) {
	r.mu.Lock()
	// keep the first few per signature
	n := 0
	for _, x := range r.Violations {
		if x.Signature == v.Signature && x.Property == v.Property {
			n++
		}
	}
	if n < 3 {
		r.Violations = append(r.Violations, v)
	}
	r.Dist["violation:"+v.Property+":"+v.Signature]++
	r.mu.Unlock()
}

func (r *Result) Disagree(d Disagreement) {
	if r.NoModel {
		return
	}
	r.mu.Lock()
	if len(r.Disagreements) < 10 {
		r.Disagreements = append(r.Disagreements, d)
	}
	r.Dist["disagreement:"+d.Where]++
	r.mu.Unlock()
}

func (r *Result) Write(path string) error {
	r.DistinctNontrivial = len(r.Nontrivial)
	sort.SliceStable(r.Violations, func(i, j int) bool { return r.Violations[i].Signature < r.Violations[j].Signature })
	b, err := json.MarshalIndent(r, "", " ")
	if err != nil {
		return err
	}
	return os.WriteFile(path, b, 0o644)
}
