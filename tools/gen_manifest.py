#!/usr/bin/env python3
"""Regenerates MANIFEST.json from props.py (claimed checks) + manifest_texts.py (level texts, not-applicable reasons)."""
import json, os, sys
V = os.path.dirname(os.path.dirname(os.path.abspath(__file__)))
sys.path.insert(0, V)
from props import PROPS
from manifest_texts import TEXTS, NOT_APPLICABLE, NOTES

ids = [json.loads(l)["id"] for l in open(os.path.join(V, "properties.jsonl"))]
checks = []
for pid in ids:
    if pid not in PROPS:
        continue
    t = TEXTS[pid]
    checks.append({
        "property_id": pid,
        "quick_cmd": "./check %s quick" % pid,
        "thorough_cmd": "./check %s thorough" % pid,
        "evidence_file": "/verif/evidence/%s.json" % pid,
        "replay_cmd_template": "./check replay {path}",
        "engine": "lean4-proof+cosim",
        "level_claimed": {"category": t.get("category", "proof"), "text": t["text"], "design_ref": t.get("design_ref", "DESIGN.md §6 " + pid)},
        "level_note": t["note"],
        "technique": t["technique"],
    })
na = [{"property_id": p, "reason": NOT_APPLICABLE[p]} for p in ids if p not in PROPS]
m = {
    "version": 1,
    "setup_cmd": "cd /verif && ./check setup",
    "hooks": {
        "guard": "verif",
        "enable": "go build -tags verif (the harness module /verif/harness replaces github.com/luno/workflow => /repo and is built with -tags verif)",
        "baseline_off_cmd": "for m in $(cat /w/out/gomods.txt); do MF=$(cd /repo/$m && . /w/out/goenv.sh && gomodflag); (cd /repo/$m && go test $MF -json -vet=off -count=1 -timeout 25m ./...); done",
        "source_commits": json.load(open(os.path.join(V, "hooks.json")))["source_commits"],
        "add_only": True,
    },
    "engines": [
        {"name": "lean4-proof+cosim", "path": "/verif/lean", "serves_properties": [c["property_id"] for c in checks],
         "kind_free_text": "Lean 4 model + kernel-checked theorems (lean/WorkflowModel/Props), tied to /repo by a go/ast extractor that regenerates lean/WorkflowModel/Generated on every run (T1/T2) and by co-simulation of the real Go code against the compiled Lean driver (T3, /verif/harness), with implementation-side monitors that search for the failing input"},
    ],
    "checks": checks,
    "notes": NOTES,
    "not_applicable": na,
}
json.dump(m, open(os.path.join(V, "MANIFEST.json"), "w"), indent=1)
print("checks:", [c["property_id"] for c in checks], "not claimed:", [x["property_id"] for x in na])
