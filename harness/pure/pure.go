// Package pure: direct drivers (T3-c) for the pure decision logic — routing (C06), shards and roles (C10),
// the run-state controller and web UI update handler (C03), the status graph and transition validation
// (C02). Each driver runs the real Go code and the Lean model on the same inputs, diffs the answers
// (correspondence), and independently checks an implementation-side oracle written from the property text.
package pure

import (
	"bytes"
	"context"
	"encoding/json"
	"fmt"
	"net/http/httptest"
	"sort"
	"strconv"
	"strings"

	"google.golang.org/protobuf/proto"

	"github.com/luno/workflow"
	"github.com/luno/workflow/adapters/webui"
	"github.com/luno/workflow/internal/graph"
	"github.com/luno/workflow/internal/outboxpb"
	"github.com/luno/workflow/verifharness/leandrv"
	"github.com/luno/workflow/verifharness/report"
	"github.com/luno/workflow/verifharness/rng"
)

type St int

func (s St) String() string { return "St" + strconv.Itoa(int(s)) }

var names = []string{strings.Repeat("long name ", 24), strings.Repeat("n", 300), "w", "my flow", "a b  c", "order-flow", "x_y", "Über fluß", "日本 語", "-", " ", "a-1", "run-state-change", "delete", "", "W-1 of 2"}

var statuses = []int{-2147483648, -2147483649, -9223372036854775808, -10, -1, 0, 1, 2, 7, 9, 10, 11, 99, 100, 2147483647, 2147483648, 4294967296 + 5, 9223372036854775807}

func hx(s string) string { return leandrv.Hex(s) }

// ---------------------------------------------------------------- C06

func expectedTopic(name string, rs, status int) string {
	n := strings.ReplaceAll(name, " ", "_")
	switch rs {
	case 3, 4, 5, 6: // Paused, Cancelled, Completed, DataDeleted
		return n + "-run-state-change"
	case 7:
		return n + "-delete"
	default:
		return n + "-" + strconv.Itoa(status)
	}
}

func Routing(d *leandrv.Driver, r *rng.R, res *report.Result, thorough bool) error {
	res.Rule = "records enumerated over run states -2..10 x status set (negative, 0, int32/int64 limits) x names (spaces, separators, unicode) x versions; " +
		"non-trivial = distinct (run-state, status sign/size class, name class); topics additionally on random int64 statuses"
	var lines []string
	type kase struct {
		name, fid, rid string
		rs, st         int
		v              uint
	}
	var cases []kase
	versions := []uint{0, 1, 2, 10, 255, 1 << 40}
	extraNames := 0
	if thorough {
		extraNames = 200
	}
	nm := append([]string{}, names...)
	for i := 0; i < extraNames; i++ {
		n := 1 + r.Intn(12)
		var b strings.Builder
		for j := 0; j < n; j++ {
			b.WriteString(rng.Pick(r, []string{" ", "-", "_", "a", "B", "9", "é", "  ", "x y"}))
		}
		nm = append(nm, b.String())
	}
	for _, name := range nm {
		for rs := -2; rs <= 10; rs++ {
			for _, st := range statuses {
				v := versions[(rs+2+len(name)+int(uint(st)%7))%len(versions)]
				cases = append(cases, kase{name, "fid " + strconv.Itoa(st%5), "run-" + strconv.Itoa(rs), rs, st, v})
			}
		}
	}
	for _, c := range cases {
		lines = append(lines, fmt.Sprintf("route %s %s %s %d %d %d", hx(c.name), hx(c.fid), hx(c.rid), c.rs, c.st, c.v))
	}
	ans, err := d.AskAll(lines)
	if err != nil {
		return err
	}
	seenTopics := map[string]map[string]string{} // name -> topic -> class
	for i, c := range cases {
		rec := workflow.Record{WorkflowName: c.name, ForeignID: c.fid, RunID: c.rid, RunState: workflow.RunState(c.rs), Status: c.st,
			Meta: workflow.Meta{Version: c.v}}
		od, err := workflow.MakeOutboxEventData(rec)
		res.Eval(1)
		if err != nil {
			res.Violate(report.Violation{Property: "C06", Oracle: "outbox-event-data", Signature: "MakeOutboxEventData-error", Detail: err.Error(), Replay: c})
			continue
		}
		var ob outboxpb.OutboxRecord
		if err := proto.Unmarshal(od.Data, &ob); err != nil {
			return err
		}
		// implementation answer in the model's output format
		keys := []string{"foreign_id", "workflow_name", "topic", "run_id", "run_state", "record_version"}
		parts := []string{fmt.Sprintf("type=%d", ob.Type)}
		for _, k := range keys {
			v, ok := ob.Headers[k]
			if !ok {
				parts = append(parts, hx(k)+"=<missing>")
				continue
			}
			parts = append(parts, hx(k)+"="+hx(v))
		}
		if len(ob.Headers) != len(keys) {
			parts = append(parts, fmt.Sprintf("extra-headers=%d", len(ob.Headers)-len(keys)))
		}
		impl := strings.Join(parts, " ")
		if impl != ans[i] {
			res.Disagree(report.Disagreement{Properties: []string{"C06", "C05"}, Where: "MakeOutboxEventData vs Routing.route/headers", Input: c, Impl: impl, Model: ans[i]})
		}
		// oracle from the property text
		want := expectedTopic(c.name, c.rs, c.st)
		if ob.Headers["topic"] != want {
			res.Violate(report.Violation{Property: "C06", Oracle: "topic-of-record", Signature: fmt.Sprintf("route-topic rs=%d", c.rs),
				Detail: fmt.Sprintf("record with run state %d status %d routed to %q, expected %q", c.rs, c.st, ob.Headers["topic"], want), Replay: c})
		}
		if ob.RunId != c.rid || ob.Headers["run_id"] != c.rid || ob.Headers["foreign_id"] != c.fid || ob.Headers["workflow_name"] != c.name ||
			ob.Headers["run_state"] != strconv.Itoa(c.rs) || ob.Headers["record_version"] != strconv.FormatUint(uint64(c.v), 10) {
			res.Violate(report.Violation{Property: "C06", Oracle: "headers-of-record", Signature: "route-headers",
				Detail: fmt.Sprintf("headers %v runId %q do not carry the record's identifiers/state/version", ob.Headers, ob.RunId), Replay: c})
		}
		if od.WorkflowName != c.name {
			res.Violate(report.Violation{Property: "C06", Oracle: "headers-of-record", Signature: "outbox-workflow-name", Detail: od.WorkflowName, Replay: c})
		}
		cls := "status"
		switch c.rs {
		case 3, 4, 5, 6:
			cls = "rsc"
		case 7:
			cls = "delete"
		}
		full := cls
		if cls == "status" {
			full = "status:" + strconv.Itoa(c.st)
		}
		m := seenTopics[c.name]
		if m == nil {
			m = map[string]string{}
			seenTopics[c.name] = m
		}
		if prev, ok := m[ob.Headers["topic"]]; ok && prev != full {
			res.Violate(report.Violation{Property: "C06", Oracle: "topics-disjoint", Signature: "topic-collision",
				Detail: fmt.Sprintf("workflow %q: topic %q used for %s and %s", c.name, ob.Headers["topic"], prev, full), Replay: c})
		}
		m[ob.Headers["topic"]] = full
		sc := "pos"
		if c.st < 0 {
			sc = "neg"
		} else if c.st == 0 {
			sc = "zero"
		}
		if c.st > 2147483647 || c.st < -2147483648 {
			sc += "-wide"
		}
		nc := "plain"
		if strings.Contains(c.name, " ") {
			nc = "space"
		}
		if strings.Contains(c.name, "-") {
			nc += "-sep"
		}
		res.NonTrivial(fmt.Sprintf("%d/%s/%s", c.rs, sc, nc))
		res.Count("topic-class:" + cls)
		if i%997 == 0 {
			res.Sample(map[string]any{"record": c, "impl": impl})
		}
	}
	// topic functions on random statuses
	n := 2000
	if thorough {
		n = 50000
	}
	lines = lines[:0]
	type tk struct {
		name string
		st   int
	}
	var tks []tk
	for i := 0; i < n; i++ {
		st := int(r.I64())
		switch r.Intn(4) {
		case 0:
			st = r.Intn(2000) - 1000
		case 1:
			st = int(int32(r.U64()))
		}
		name := rng.Pick(r, nm)
		tks = append(tks, tk{name, st})
		lines = append(lines, fmt.Sprintf("topic %s %d", hx(name), st))
	}
	for _, name := range nm {
		lines = append(lines, "deltopic "+hx(name), "rsctopic "+hx(name))
	}
	ans, err = d.AskAll(lines)
	if err != nil {
		return err
	}
	for i, k := range tks {
		impl := hx(workflow.Topic(k.name, k.st))
		res.Eval(1)
		if impl != ans[i] {
			res.Disagree(report.Disagreement{Properties: []string{"C06"}, Where: "Topic vs Routing.topic", Input: k, Impl: impl, Model: ans[i]})
		}
		if workflow.Topic(k.name, k.st) == workflow.DeleteTopic(k.name) || workflow.Topic(k.name, k.st) == workflow.RunStateChangeTopic(k.name) {
			res.Violate(report.Violation{Property: "C06", Oracle: "topics-disjoint", Signature: "topic-collision", Detail: "status topic equals a special topic", Replay: k})
		}
	}
	for j, name := range nm {
		if a, b := hx(workflow.DeleteTopic(name)), ans[len(tks)+2*j]; a != b {
			res.Disagree(report.Disagreement{Properties: []string{"C06"}, Where: "DeleteTopic", Input: name, Impl: a, Model: b})
		}
		if a, b := hx(workflow.RunStateChangeTopic(name)), ans[len(tks)+2*j+1]; a != b {
			res.Disagree(report.Disagreement{Properties: []string{"C06"}, Where: "RunStateChangeTopic", Input: name, Impl: a, Model: b})
		}
		if workflow.DeleteTopic(name) == workflow.RunStateChangeTopic(name) {
			res.Violate(report.Violation{Property: "C06", Oracle: "topics-disjoint", Signature: "topic-collision", Detail: "delete topic equals run-state-change topic", Replay: name})
		}
	}
	res.Exhaustive = false
	return nil
}

// ---------------------------------------------------------------- C10 shards and roles

func Shards(d *leandrv.Driver, r *rng.R, res *report.Result, thorough bool) error {
	res.Rule = "shard filter on every (n in 0..8, shard in 1..max(n,1), id) with ids covering every residue class of n and both signs, int64 limits, " +
		"random int64 and FNV-hashed connector ids; non-trivial = distinct (n, residue, sign); roles: makeRole on ASCII parts"
	var ids []int64
	for i := int64(-20); i <= 20; i++ {
		ids = append(ids, i)
	}
	ids = append(ids, 1<<63-1, -1<<63, 1<<62, -(1 << 62), 1<<31, -(1 << 31))
	n := 2000
	if thorough {
		n = 100000
	}
	for i := 0; i < n; i++ {
		ids = append(ids, r.I64())
	}
	// connector event IDs: fnv64 of random strings, cast to signed (through the real conversion)
	for i := 0; i < n/4; i++ {
		ce := &workflow.ConnectorEvent{ID: fmt.Sprintf("ev-%d-%d", i, r.Intn(1000000))}
		e, err := workflow.VerifConnectorEventToEvent(ce)
		if err != nil {
			return err
		}
		ids = append(ids, e.ID)
		if e.ID < 0 {
			res.Count("connector-id:negative")
		} else {
			res.Count("connector-id:nonneg")
		}
	}
	var lines []string
	type q struct {
		shard, total int
		id           int64
	}
	var qs []q
	for total := 0; total <= 8; total++ {
		maxs := total
		if maxs < 1 {
			maxs = 1
		}
		for _, id := range ids {
			handled := 0
			for s := 1; s <= maxs; s++ {
				out := workflow.VerifShardFilter(s, total)(&workflow.Event{ID: id})
				res.Eval(1)
				if !out {
					handled++
				}
				qs = append(qs, q{s, total, id})
				lines = append(lines, fmt.Sprintf("shard %d %d %d", s, total, id))
			}
			sign := "nonneg"
			if id < 0 {
				sign = "neg"
			}
			resid := int64(0)
			if total > 0 {
				resid = id % int64(total)
			}
			res.NonTrivial(fmt.Sprintf("%d/%d/%s", total, resid, sign))
			if handled != 1 {
				sig := "shard-partition-nonneg"
				if id < 0 {
					sig = "shard-partition-negative-id"
				}
				res.Violate(report.Violation{Property: "C10", Oracle: "exactly-one-shard", Signature: sig,
					Detail: fmt.Sprintf("event id %d with %d shards is handled by %d shards", id, total, handled),
					Replay: map[string]any{"total_shards": total, "event_id": id}})
			}
		}
	}
	ans, err := d.AskAll(lines)
	if err != nil {
		return err
	}
	for i, k := range qs {
		impl := "0"
		if workflow.VerifShardFilter(k.shard, k.total)(&workflow.Event{ID: k.id}) {
			impl = "1"
		}
		if impl != ans[i] {
			res.Disagree(report.Disagreement{Properties: []string{"C10"}, Where: "shardFilter vs Routing.shardOut", Input: k, Impl: impl, Model: ans[i]})
		}
	}
	// roles
	parts := []string{"My Workflow", "w", "1", "-3", "consumer", "of", "12", "Data Deleted", "timeout-consumer", "A B", "x_y", "UPPER lower"}
	lines = lines[:0]
	var inputs [][]string
	m := 500
	if thorough {
		m = 5000
	}
	for i := 0; i < m; i++ {
		k := 1 + r.Intn(6)
		var in []string
		for j := 0; j < k; j++ {
			in = append(in, rng.Pick(r, parts))
		}
		inputs = append(inputs, in)
		hs := make([]string, len(in))
		for j, p := range in {
			hs[j] = hx(p)
		}
		lines = append(lines, "role "+strings.Join(hs, ","))
	}
	ans, err = d.AskAll(lines)
	if err != nil {
		return err
	}
	for i, in := range inputs {
		impl := hx(workflow.VerifMakeRole(in...))
		res.Eval(1)
		if impl != ans[i] {
			res.Disagree(report.Disagreement{Properties: []string{"C10"}, Where: "makeRole vs Routing.makeRole", Input: in, Impl: impl, Model: ans[i]})
		}
	}
	res.Sample(map[string]any{"shard": 1, "total": 2, "id": -3, "filtered_out": workflow.VerifShardFilter(1, 2)(&workflow.Event{ID: -3})})
	return nil
}

// ---------------------------------------------------------------- C03 controller + web UI handler

// lifecycle edge per the property text (not the code's table)
func lifecycleEdge(a, b int) bool {
	if a == b {
		return true
	}
	switch a {
	case 1:
		return b == 2 || b == 3 || b == 4 || b == 5
	case 2:
		return b == 3 || b == 4 || b == 5
	case 3:
		return b == 2 || b == 4
	case 4, 5:
		return b == 7
	case 7:
		return b == 6
	case 6:
		return b == 7
	}
	return false
}

type capStore struct {
	workflow.RecordStore
	rec    *workflow.Record
	stored []workflow.Record
	fail   bool
}

func (c *capStore) Lookup(ctx context.Context, id string) (*workflow.Record, error) {
	if c.rec == nil || c.rec.RunID != id {
		return nil, workflow.ErrRecordNotFound
	}
	cp := *c.rec
	return &cp, nil
}

func (c *capStore) Store(ctx context.Context, r *workflow.Record) error {
	if c.fail {
		return fmt.Errorf("injected")
	}
	c.stored = append(c.stored, *r)
	cp := *r
	c.rec = &cp
	return nil
}

var ops = []string{"pause", "resume", "cancel", "delete"}

func applyOp(ctl workflow.RunStateController, op string) error {
	ctx := context.Background()
	switch op {
	case "pause":
		return ctl.Pause(ctx, "r")
	case "resume":
		return ctl.Resume(ctx)
	case "cancel":
		return ctl.Cancel(ctx, "r")
	default:
		return ctl.DeleteData(ctx, "r")
	}
}

func Controller(d *leandrv.Driver, r *rng.R, res *report.Result, thorough bool) error {
	res.Rule = "exhaustive: all run states -1..9 x 4 operations on a fresh controller; all sequences of 2 (thorough: 3) operations on ONE controller from every state; " +
		"the same single operations through the web UI update handler; non-trivial = distinct (state, op sequence)"
	res.Exhaustive = true
	depth := 2
	if thorough {
		depth = 3
	}
	var seqs [][]string
	var gen func(prefix []string, k int)
	gen = func(prefix []string, k int) {
		if len(prefix) > 0 {
			seqs = append(seqs, append([]string{}, prefix...))
		}
		if k == 0 {
			return
		}
		for _, o := range ops {
			gen(append(prefix, o), k-1)
		}
	}
	gen(nil, depth)
	target := map[string]int{"pause": 3, "resume": 2, "cancel": 4, "delete": 7}
	for rs := -1; rs <= 9; rs++ {
		for _, seq := range seqs {
			cs := &capStore{}
			rec := &workflow.Record{WorkflowName: "w", ForeignID: "f", RunID: "r1", RunState: workflow.RunState(rs), Status: 5, Object: []byte("{}"),
				Meta: workflow.Meta{Version: 4}}
			ctl := workflow.NewRunStateController(cs.Store, rec)
			cur := rs      // persisted state as the oracle tracks it
			modelCur := rs // state as the model tracks it
			ver := uint(4)
			for i, op := range seq {
				before := len(cs.stored)
				err := applyOp(ctl, op)
				res.Eval(1)
				wrote := len(cs.stored) > before
				// model
				ans, e := d.Ask(fmt.Sprintf("ctl %d %s", modelCur, op))
				if e != nil {
					return e
				}
				impl := "reject"
				if err == nil {
					impl = fmt.Sprintf("ok %d", int(cs.stored[len(cs.stored)-1].RunState))
				}
				if impl != ans {
					res.Disagree(report.Disagreement{Properties: []string{"C03", "C15"}, Where: "rsc.update vs RS.allowed (op " + strconv.Itoa(i) + " of sequence on one controller)",
						Input: map[string]any{"initial_run_state": rs, "ops": seq}, Impl: impl, Model: ans})
				}
				if strings.HasPrefix(ans, "ok") {
					modelCur = target[op]
				}
				// oracle
				if err != nil && wrote {
					res.Violate(report.Violation{Property: "C03", Oracle: "rejected-without-write", Signature: "ctl-rejected-but-wrote",
						Detail: fmt.Sprintf("%s from state %d returned an error but stored a record", op, cur), Replay: map[string]any{"initial_run_state": rs, "ops": seq}})
				}
				if err == nil {
					if !wrote {
						res.Violate(report.Violation{Property: "C03", Oracle: "accepted-writes", Signature: "ctl-accepted-no-write",
							Detail: fmt.Sprintf("%s from state %d accepted without a write", op, cur), Replay: map[string]any{"initial_run_state": rs, "ops": seq}})
						continue
					}
					w := cs.stored[len(cs.stored)-1]
					if !lifecycleEdge(cur, int(w.RunState)) || cur < 1 || cur > 7 {
						res.Violate(report.Violation{Property: "C03", Oracle: "lifecycle-path", Signature: fmt.Sprintf("ctl-illegal-edge %d->%d", cur, int(w.RunState)),
							Detail: fmt.Sprintf("controller %s moved a run from run state %d to %d (op %d of %v on one controller)", op, cur, int(w.RunState), i, seq),
							Replay: map[string]any{"initial_run_state": rs, "ops": seq}})
					}
					if (cur == 4 || cur == 6 || cur == 7) && int(w.RunState) != cur && !lifecycleEdge(cur, int(w.RunState)) {
						// C08: a cancelled (or deletion-requested / deleted) run is left alone: no controller request may revive it
						res.Violate(report.Violation{Property: "C08", Oracle: "stopped-runs-left-alone", Signature: fmt.Sprintf("ctl-revived-stopped-run %d->%d", cur, int(w.RunState)),
							Detail: fmt.Sprintf("controller %s moved a run from run state %d to %d (op %d of %v on one controller)", op, cur, int(w.RunState), i, seq),
							Replay: map[string]any{"initial_run_state": rs, "ops": seq}})
					}
					if int(w.RunState) != target[op] {
						res.Violate(report.Violation{Property: "C03", Oracle: "lifecycle-path", Signature: "ctl-wrong-target",
							Detail: fmt.Sprintf("%s wrote run state %d", op, int(w.RunState)), Replay: map[string]any{"initial_run_state": rs, "ops": seq}})
					}
					if w.Meta.Version != ver+1 {
						res.Violate(report.Violation{Property: "C16", Oracle: "version-plus-one", Signature: "ctl-version-step",
							Detail: fmt.Sprintf("controller write has version %d after %d", w.Meta.Version, ver), Replay: map[string]any{"initial_run_state": rs, "ops": seq}})
					}
					if w.Status != 5 || w.RunID != "r1" || w.ForeignID != "f" || w.WorkflowName != "w" || string(w.Object) != "{}" {
						res.Violate(report.Violation{Property: "C16", Oracle: "identity", Signature: "ctl-changed-identity",
							Detail: fmt.Sprintf("controller write changed identity/status/object: %+v", w), Replay: map[string]any{"initial_run_state": rs, "ops": seq}})
					}
					ver = w.Meta.Version
					cur = int(w.RunState)
				}
			}
			res.NonTrivial(fmt.Sprintf("%d/%v", rs, seq))
			if rs == 5 && len(seq) == 2 && seq[0] == "pause" && seq[1] == "resume" {
				res.Sample(map[string]any{"initial_run_state": rs, "ops": seq, "stored": len(cs.stored)})
			}
		}
		// web UI handler: one fresh lookup + controller per request
		for _, op := range ops {
			cs := &capStore{rec: &workflow.Record{WorkflowName: "w", ForeignID: "f", RunID: "r1", RunState: workflow.RunState(rs), Status: 5, Object: []byte("{}"),
				Meta: workflow.Meta{Version: 4}}}
			h := webui.UpdateHandlerFunc(cs)
			body, _ := json.Marshal(map[string]string{"run_id": "r1", "action": op})
			rr := httptest.NewRecorder()
			h(rr, httptest.NewRequest("POST", "/update", bytes.NewReader(body)))
			res.Eval(1)
			ans, e := d.Ask(fmt.Sprintf("ctl %d %s", rs, op))
			if e != nil {
				return e
			}
			impl := "reject"
			if rr.Code == 200 {
				impl = "ok"
				if len(cs.stored) == 1 {
					impl = fmt.Sprintf("ok %d", int(cs.stored[0].RunState))
				}
			}
			if impl != ans {
				res.Disagree(report.Disagreement{Properties: []string{"C03"}, Where: "webui Update handler vs RS.allowed", Input: map[string]any{"run_state": rs, "action": op}, Impl: impl, Model: ans})
			}
			if rr.Code != 200 && len(cs.stored) > 0 {
				res.Violate(report.Violation{Property: "C03", Oracle: "rejected-without-write", Signature: "webui-rejected-but-wrote",
					Detail: fmt.Sprintf("HTTP %d but a record was stored", rr.Code), Replay: map[string]any{"run_state": rs, "action": op}})
			}
			if rr.Code == 200 && (len(cs.stored) != 1 || !lifecycleEdge(rs, int(cs.stored[0].RunState)) || rs < 1 || rs > 7) {
				res.Violate(report.Violation{Property: "C03", Oracle: "lifecycle-path", Signature: fmt.Sprintf("webui-illegal-edge from %d by %s", rs, op),
					Detail: fmt.Sprintf("HTTP 200, stored %d records", len(cs.stored)), Replay: map[string]any{"run_state": rs, "action": op}})
			}
			res.Count(fmt.Sprintf("webui:%d", rr.Code))
		}
		// flags
		ans, e := d.Ask(fmt.Sprintf("rsflags %d", rs))
		if e != nil {
			return e
		}
		b := func(x bool) string {
			if x {
				return "1"
			}
			return "0"
		}
		x := workflow.RunState(rs)
		if impl := b(x.Valid()) + " " + b(x.Finished()) + " " + b(x.Stopped()); impl != ans {
			res.Disagree(report.Disagreement{Properties: []string{"C03", "C08", "C09"}, Where: "Valid/Finished/Stopped", Input: rs, Impl: impl, Model: ans})
		}
	}
	return nil
}

// ---------------------------------------------------------------- C02 graph + validateTransition

func GraphSuite(d *leandrv.Driver, r *rng.R, res *report.Result, thorough bool) error {
	res.Rule = "random status graphs (2-7 nodes incl. 0 and negative ids; DAG edges, joins, declared self-loops, duplicate edges), builder calls in several random orders; " +
		"queries IsValid/IsTerminal/Transitions on every node and two absent ones, Info().StartingNodes/TerminalNodes, validateTransition on all pairs; " +
		"non-trivial = distinct edge multiset with at least one join, branch or self-loop"
	n := 400
	if thorough {
		n = 6000
	}
	pool := []int{1, 2, 3, 4, 5, 6, 7, 0, -1, 10, 100}
	for it := 0; it < n; it++ {
		k := 2 + r.Intn(6)
		nodes := append([]int{}, pool...)
		rng.Shuffle(r, nodes)
		nodes = nodes[:k]
		var edges [][2]int
		ne := 1 + r.Intn(2*k)
		for i := 0; i < ne; i++ {
			a, b := r.Intn(k), r.Intn(k)
			switch {
			case r.Chance(1, 8):
				b = a // self loop
			case a > b:
				a, b = b, a
			}
			if a == b && !r.Chance(1, 3) {
				b = (a + 1) % k
			}
			edges = append(edges, [2]int{nodes[a], nodes[b]})
		}
		perms := 3
		var firstTerm map[int]bool
		for p := 0; p < perms; p++ {
			es := append([][2]int{}, edges...)
			if p > 0 {
				rng.Shuffle(r, es)
			}
			g := graph.New()
			var parts []string
			for _, e := range es {
				g.AddTransition(e[0], e[1])
				parts = append(parts, fmt.Sprintf("%d>%d", e[0], e[1]))
			}
			qn := append(append([]int{}, nodes...), 55, -77)
			var qs []string
			for _, x := range qn {
				qs = append(qs, strconv.Itoa(x))
			}
			ans, err := d.Ask("graph " + strings.Join(parts, ",") + " " + strings.Join(qs, ","))
			if err != nil {
				return err
			}
			b := func(x bool) string {
				if x {
					return "1"
				}
				return "0"
			}
			is := func(xs []int) string {
				if len(xs) == 0 {
					return "-"
				}
				var s []string
				for _, x := range xs {
					s = append(s, strconv.Itoa(x))
				}
				return strings.Join(s, ",")
			}
			info := g.Info()
			var per []string
			for _, x := range qn {
				per = append(per, fmt.Sprintf("%d:%s%s[%s]", x, b(g.IsValid(x)), b(g.IsTerminal(x)), is(g.Transitions(x))))
			}
			impl := fmt.Sprintf("start=%s term=%s %s", is(info.StartingNodes), is(info.TerminalNodes), strings.Join(per, " "))
			res.Eval(1)
			if impl != ans {
				res.Disagree(report.Disagreement{Properties: []string{"C02", "C03"}, Where: "internal/graph vs Graph.build", Input: parts, Impl: impl, Model: ans})
			}
			// oracle from the property text
			term := map[int]bool{}
			for _, x := range qn {
				isSrc, isDst := false, false
				declared := map[int]bool{}
				for _, e := range es {
					if e[0] == x {
						isSrc = true
						declared[e[1]] = true
					}
					if e[1] == x {
						isDst = true
					}
				}
				wantTerm := isDst && !isSrc
				term[x] = g.IsTerminal(x)
				if g.IsTerminal(x) != wantTerm {
					res.Violate(report.Violation{Property: "C03", Oracle: "terminal-classification", Signature: "terminal-misclassified",
						Detail: fmt.Sprintf("status %d: IsTerminal=%v but it %s outgoing transitions and %s a destination", x, g.IsTerminal(x), map[bool]string{true: "has", false: "has no"}[isSrc], map[bool]string{true: "is", false: "is not"}[isDst]),
						Replay: map[string]any{"builder_calls": parts}})
				}
				if g.IsValid(x) != (isSrc || isDst) {
					res.Violate(report.Violation{Property: "C02", Oracle: "declared-nodes", Signature: "valid-node-misclassified",
						Detail: fmt.Sprintf("status %d: IsValid=%v", x, g.IsValid(x)), Replay: map[string]any{"builder_calls": parts}})
				}
				got := map[int]bool{}
				for _, t := range g.Transitions(x) {
					got[t] = true
				}
				if fmt.Sprint(sortedKeys(got)) != fmt.Sprint(sortedKeys(declared)) {
					res.Violate(report.Violation{Property: "C02", Oracle: "declared-edges", Signature: "transitions-differ-from-declared",
						Detail: fmt.Sprintf("status %d: Transitions=%v declared=%v", x, sortedKeys(got), sortedKeys(declared)), Replay: map[string]any{"builder_calls": parts}})
				}
				for _, y := range qn {
					err := workflow.VerifValidateTransition(St(x), St(y), g)
					if (err == nil) != declared[y] {
						res.Violate(report.Violation{Property: "C02", Oracle: "validate-transition", Signature: "validateTransition-wrong",
							Detail: fmt.Sprintf("validateTransition(%d,%d) err=%v declared=%v", x, y, err, declared[y]), Replay: map[string]any{"builder_calls": parts}})
					}
				}
			}
			if p == 0 {
				firstTerm = term
			} else if fmt.Sprint(firstTerm) != fmt.Sprint(term) {
				res.Violate(report.Violation{Property: "C03", Oracle: "terminal-order-independent", Signature: "terminal-depends-on-builder-order",
					Detail: fmt.Sprintf("terminal classification differs between two orders of the same builder calls: %v vs %v", firstTerm, term), Replay: map[string]any{"builder_calls": parts}})
			}
			if p == 0 && it%97 == 0 {
				res.Sample(map[string]any{"builder_calls": parts, "impl": impl})
			}
		}
		// non-trivial: has join / branch / self-loop
		indeg, outdeg, self := map[int]int{}, map[int]int{}, false
		for _, e := range edges {
			outdeg[e[0]]++
			indeg[e[1]]++
			if e[0] == e[1] {
				self = true
			}
		}
		nt := self
		for _, v := range indeg {
			if v > 1 {
				nt = true
			}
		}
		for _, v := range outdeg {
			if v > 1 {
				nt = true
			}
		}
		if nt {
			se := append([][2]int{}, edges...)
			sort.Slice(se, func(i, j int) bool { return se[i][0] < se[j][0] || (se[i][0] == se[j][0] && se[i][1] < se[j][1]) })
			res.NonTrivial(fmt.Sprint(se))
		}
		if self {
			res.Count("graph:self-loop")
		}
	}
	return nil
}

func sortedKeys(m map[int]bool) []int {
	var ks []int
	for k := range m {
		ks = append(ks, k)
	}
	sort.Ints(ks)
	return ks
}
