import WorkflowModel.Lemmas.HistOps
/-! # No run is stranded at a step: the announcement of every live run is still ahead of its consumer (C01)

`TokInv s`: for every run whose persisted record `w` is Initiated or Running, the announcement of `w` is pending: it sits in
the outbox, or it has been published at an index that every step-consumer process of `w`'s status which does not filter it
out (its shard) has not passed yet. The invariant is preserved by every write and by everything that does not move a step
consumer's cursor; a step consumer's acknowledgement preserves it because a delivery ends with the acknowledgement only when
the announced version needs no further handling (`deliver_step_done`); the relay preserves it because it deletes an entry
only after sending it, to the end of the log, where no cursor has been yet. -/
namespace WorkflowModel.Engine
open WorkflowModel RS

def PendingAt (s : Sys) (w : Rec) : Prop :=
  (∃ o ∈ s.outbox, o.ev = Routing.route w) ∨
  (∃ i e, s.log[i]? = some e ∧ core e = Routing.route w ∧
    ∀ k n, filteredOut (.step w.status k n) i e = false → s.cursor (.step w.status k n) ≤ i)

/-- what the step consumer's `Recv` established: nothing of its topic lies between its cursor and the event it is handling -/
def NoGap (s : Sys) (p : Proc) (i : Nat) : Prop :=
  ∀ j e, s.cursor p ≤ j → j < i → s.log[j]? = some e → subscribed p e = false

/-- a consumer parked in the lag wait holds event `i` of its own topic, the first one at or after its cursor -/
def LagOk (s : Sys) (p : Proc) (i : Nat) : Prop := (∃ e, s.log[i]? = some e ∧ subscribed p e = true) ∧ NoGap s p i

/-- the delete request `w` (a RequestedDataDeleted record) is still ahead of the delete consumer -/
def PendingDel (s : Sys) (w : Rec) : Prop :=
  (∃ o ∈ s.outbox, o.ev = Routing.route w) ∨
  (∃ i e, s.log[i]? = some e ∧ core e = Routing.route w ∧ s.cursor .delete ≤ i)

structure TokInv (s : Sys) : Prop where
  pending : ∀ rid w, s.cur rid = some w → Live w → PendingAt s w
  cursorLe : ∀ st k n, s.cursor (.step st k n) ≤ s.log.length
  lag : ∀ st k n i u, s.pstate (.step st k n) = .lagWait i u → LagOk s (.step st k n) i
  pendingDel : ∀ rid w, s.cur rid = some w → w.runState = 7 → PendingDel s w
  cursorLeDel : s.cursor .delete ≤ s.log.length
  noLagDel : ∀ i u, s.pstate .delete ≠ .lagWait i u

theorem TokInv.init : TokInv {} := by
  refine ⟨fun rid w h => ?_, fun _ _ _ => by simp [Sys.cursor], fun _ _ _ _ _ h => by simp [Sys.pstate] at h,
    fun rid w h => ?_, by simp [Sys.cursor], fun _ _ => by simp [Sys.pstate]⟩
  · simp [Sys.cur] at h
  · simp [Sys.cur] at h

/-- the log only grew and the consumer's cursor did not move back -/
theorem LagOk.mono {s s' : Sys} {p : Proc} {i : Nat} (h : LagOk s p i)
    (hlog : ∀ j, j < s.log.length → s'.log[j]? = s.log[j]?) (hcur : s.cursor p ≤ s'.cursor p) : LagOk s' p i := by
  obtain ⟨⟨e, he, hsub⟩, hg⟩ := h
  have hi : i < s.log.length := (List.getElem?_eq_some_iff.mp he).1
  refine ⟨⟨e, by rw [hlog i hi]; exact he, hsub⟩, fun j e' h1 h2 h3 => ?_⟩
  rw [hlog j (by omega)] at h3
  exact hg j e' (by omega) h2 h3

/-- nothing the invariant reads has changed -/
theorem TokInv.frame {s s' : Sys} (h : TokInv s) (h1 : s'.runs = s.runs) (h2 : s'.outbox = s.outbox) (h3 : s'.log = s.log)
    (h4 : s'.cursors = s.cursors) (h5 : s'.pst = s.pst) : TokInv s' := by
  have hcur : ∀ rid, s'.cur rid = s.cur rid := fun rid => by unfold Sys.cur; rw [h1]
  have hc : ∀ p, s'.cursor p = s.cursor p := fun p => by unfold Sys.cursor; rw [h4]
  refine ⟨fun rid w hw hl => ?_, fun st k n => by rw [hc, h3]; exact h.cursorLe st k n,
    fun st k n i u hp => (h.lag st k n i u (by unfold Sys.pstate at hp ⊢; rw [← h5]; exact hp)).mono (fun j _ => by rw [h3]) (by rw [hc]; exact Nat.le_refl _),
    fun rid w hw hl => ?_, by rw [hc, h3]; exact h.cursorLeDel,
    fun i u => by unfold Sys.pstate; rw [h5]; exact h.noLagDel i u⟩
  · rw [hcur] at hw
    rcases h.pending rid w hw hl with ⟨o, ho, he⟩ | ⟨i, e, hi, hc', hk⟩
    · exact Or.inl ⟨o, by rw [h2]; exact ho, he⟩
    · exact Or.inr ⟨i, e, by rw [h3]; exact hi, hc', fun k n hf => by rw [hc]; exact hk k n hf⟩
  · rw [hcur] at hw
    rcases h.pendingDel rid w hw hl with ⟨o, ho, he⟩ | ⟨i, e, hi, hc', hk⟩
    · exact Or.inl ⟨o, by rw [h2]; exact ho, he⟩
    · exact Or.inr ⟨i, e, by rw [h3]; exact hi, hc', by rw [hc]; exact hk⟩

/-- the persisted records after a write: the written one (as stamped), or what was there -/
theorem cur_write (s : Sys) (cfg : Cfg) (r : Rec) (rid : RunId) (w : Rec) (h : (s.write cfg r).cur rid = some w) :
    w = (if cfg.stamp then { r with updatedAt := s.now } else r) ∨ s.cur rid = some w := by
  unfold Sys.cur at *
  rw [write_runs'] at h
  generalize (if cfg.stamp then { r with updatedAt := s.now } else r) = r' at *
  unfold writeRuns at h
  split at h
  · rw [List.getElem?_mapIdx] at h
    cases hx : s.runs[rid]? with
    | none => rw [hx] at h; simp at h
    | some x =>
      rw [hx] at h
      simp only [Option.map_some, Option.bind_some] at h
      split at h
      · simp at h; exact Or.inl h.symm
      · exact Or.inr (by simpa using h)
  · by_cases hlt : rid < s.runs.length
    · rw [List.getElem?_append_left hlt] at h
      exact Or.inr h
    · have hge : s.runs.length ≤ rid := by womega
      rw [List.getElem?_append_right hge] at h
      by_cases h0 : rid - s.runs.length = 0
      · rw [h0] at h; simp at h; exact Or.inl h.symm
      · obtain ⟨m, hm⟩ : ∃ m, rid - s.runs.length = m + 1 := ⟨rid - s.runs.length - 1, by womega⟩
        rw [hm] at h; simp at h

theorem TokInv.write {s : Sys} (cfg : Cfg) (r : Rec) (h : TokInv s) : TokInv (s.write cfg r) := by
  obtain ⟨hob, _, hlog⟩ := write_outbox s cfg r
  have hcurs : (s.write cfg r).cursors = s.cursors := rfl
  have hpst : (s.write cfg r).pst = s.pst := rfl
  have hc : ∀ p, (s.write cfg r).cursor p = s.cursor p := fun p => rfl
  refine ⟨fun rid w hw hl => ?_, fun st k n => by rw [hc, hlog]; exact h.cursorLe st k n,
    fun st k n i u hp => (h.lag st k n i u hp).mono (fun j _ => by rw [hlog]) (Nat.le_refl _), fun rid w hw hl => ?_, by rw [hc, hlog]; exact h.cursorLeDel, h.noLagDel⟩
  · rcases cur_write s cfg r rid w hw with rfl | hold
    · exact Or.inl ⟨{ ord := s.outN, ev := Routing.route (if cfg.stamp then { r with updatedAt := s.now } else r) }, by rw [hob]; simp, rfl⟩
    · rcases h.pending rid w hold hl with ⟨o, ho, he⟩ | ⟨i, e, hi, hc', hk⟩
      · exact Or.inl ⟨o, by rw [hob]; simp [ho], he⟩
      · exact Or.inr ⟨i, e, by rw [hlog]; exact hi, hc', fun k n hf => hk k n hf⟩
  · rcases cur_write s cfg r rid w hw with rfl | hold
    · exact Or.inl ⟨{ ord := s.outN, ev := Routing.route (if cfg.stamp then { r with updatedAt := s.now } else r) }, by rw [hob]; simp, rfl⟩
    · rcases h.pendingDel rid w hold hl with ⟨o, ho, he⟩ | ⟨i, e, hi, hc', hk⟩
      · exact Or.inl ⟨o, by rw [hob]; simp [ho], he⟩
      · exact Or.inr ⟨i, e, by rw [hlog]; exact hi, hc', hk⟩

theorem TokInv.stableH (cfg : Cfg) : StableH TokInv cfg where
  write := fun _ r h => h.write cfg r
  timerCreate := fun _ _ _ _ _ h => h.frame rfl rfl rfl rfl rfl
  timerComplete := fun _ _ h => h.frame rfl rfl rfl rfl rfl
  timerCancel := fun _ _ h => h.frame rfl rfl rfl rfl rfl
  setCount := fun _ _ _ h => h.frame rfl rfl rfl rfl rfl
  setHandles := fun _ _ h => h.frame rfl rfl rfl rfl rfl

/-- the consumers whose cursors the invariant constrains: step consumers and the delete consumer -/
def IsStep : Proc → Bool
  | .step _ _ _ => true
  | .delete => true
  | _ => false

/-- a process that is not a step consumer moves its own cursor only -/
theorem TokInv.setCursor_other {s : Sys} (h : TokInv s) (p : Proc) (n : Nat) (hp : IsStep p = false) : TokInv (s.setCursor p n) := by
  have hc : ∀ st k m, (s.setCursor p n).cursor (.step st k m) = s.cursor (.step st k m) := by
    intro st k m
    exact cursor_setCursor_ne s p _ n (by intro heq; rw [← heq] at hp; simp [IsStep] at hp)
  have hcd : (s.setCursor p n).cursor .delete = s.cursor .delete :=
    cursor_setCursor_ne s p _ n (by intro heq; rw [← heq] at hp; simp [IsStep] at hp)
  refine ⟨fun rid w hw hl => ?_, fun st k m => by rw [hc]; exact h.cursorLe st k m,
    fun st k m i u hps => (h.lag st k m i u hps).mono (fun j _ => rfl) (by rw [hc]; exact Nat.le_refl _),
    fun rid w hw hl => ?_, by rw [hcd]; exact h.cursorLeDel, h.noLagDel⟩
  · rcases h.pending rid w hw hl with ho | ⟨i, e, hi, hc', hk⟩
    · exact Or.inl ho
    · exact Or.inr ⟨i, e, hi, hc', fun k m hf => by rw [hc]; exact hk k m hf⟩
  · rcases h.pendingDel rid w hw hl with ho | ⟨i, e, hi, hc', hk⟩
    · exact Or.inl ho
    · exact Or.inr ⟨i, e, hi, hc', by rw [hcd]; exact hk⟩

theorem TokInv.setPState {s : Sys} (h : TokInv s) (p : Proc) (x : PState)
    (hx : ∀ i u, x = .lagWait i u → (∀ st k n, p = .step st k n → LagOk s p i) ∧ p ≠ .delete) :
    TokInv (s.setPState p x) := by
  refine ⟨h.pending, h.cursorLe, fun st k n i u hps => ?_, h.pendingDel, h.cursorLeDel, fun i u => ?_⟩
  · by_cases hp : Proc.step st k n = p
    · rw [hp, pstate_setPState] at hps
      have := (hx i u hps).1 st k n hp.symm
      rw [← hp] at this
      exact this.mono (fun j _ => rfl) (Nat.le_refl _)
    · rw [pstate_setPState_ne s p _ x hp] at hps
      exact (h.lag st k n i u hps).mono (fun j _ => rfl) (Nat.le_refl _)
  · by_cases hp : Proc.delete = p
    · rw [hp, pstate_setPState]
      intro hxx
      exact (hx i u hxx).2 hp.symm
    · rw [pstate_setPState_ne s p _ x hp]; exact h.noLagDel i u

theorem TokInv.tick {s : Sys} (h : TokInv s) (d : Int) : TokInv (s.tick d) := h.frame rfl rfl rfl rfl rfl

/-- publishing (or duplicating) an event: the log only grows -/
theorem TokInv.relaySend {s : Sys} (h : TokInv s) (e : Event) : TokInv (s.relaySend e) := by
  have hlog : (s.relaySend e).log = s.log ++ [e] := rfl
  refine ⟨fun rid w hw hl => ?_, fun st k n => ?_,
    fun st k n i u hps => (h.lag st k n i u hps).mono (fun j hj => by rw [hlog, List.getElem?_append_left hj]) (Nat.le_refl _),
    fun rid w hw hl => ?_, ?_, h.noLagDel⟩
  · rcases h.pending rid w hw hl with ho | ⟨i, e', hi, hc', hk⟩
    · exact Or.inl ho
    · refine Or.inr ⟨i, e', ?_, hc', hk⟩
      rw [hlog, List.getElem?_append_left (List.getElem?_eq_some_iff.mp hi).1]; exact hi
  · have := h.cursorLe st k n
    rw [hlog, List.length_append]
    show s.cursor _ ≤ _
    omega
  · rcases h.pendingDel rid w hw hl with ho | ⟨i, e', hi, hc', hk⟩
    · exact Or.inl ho
    · refine Or.inr ⟨i, e', ?_, hc', hk⟩
      rw [hlog, List.getElem?_append_left (List.getElem?_eq_some_iff.mp hi).1]; exact hi
  · have := h.cursorLeDel
    rw [hlog, List.length_append]
    show s.cursor _ ≤ _
    omega

/-- the announcement of a live record is on its status' topic -/
theorem live_route_subscribed {w : Rec} (hl : Live w) {e : Event} (hc : core e = Routing.route w) (k n : Int) :
    subscribed (.step w.status k n) e = true := by
  have h1 : e.topicKind = (Routing.route w).topicKind := by rw [← hc]; rfl
  have h2 : e.topicStatus = (Routing.route w).topicStatus := by rw [← hc]; rfl
  have hk : Gen.outboxTopicKind w.runState = 0 := by
    rcases hl with h | h <;> rw [h] <;> decide
  simp [subscribed, h1, h2, Routing.route, hk]


/-- a step consumer's acknowledgement of event `i`: filtered out for this shard, or the announced version is done with -/
theorem TokInv.setCursor_step {cfg : Cfg} {s : Sys} (h : TokInv s) (hh : HistInv cfg s) (st : Status) (k n : Int) (i : Nat) (e : Event)
    (he : s.log[i]? = some e) (hgap : NoGap s (.step st k n) i)
    (hps : ∀ i' u, s.pstate (.step st k n) = .lagWait i' u → i' = i)
    (hdone : filteredOut (.step st k n) i e = true ∨ Done e.runId e.version s.runs) :
    TokInv (s.setCursor (.step st k n) (i + 1)) := by
  have hilt : i < s.log.length := (List.getElem?_eq_some_iff.mp he).1
  have hcd : (s.setCursor (.step st k n) (i + 1)).cursor .delete = s.cursor .delete :=
    cursor_setCursor_ne s _ _ _ (by intro heq; cases heq)
  refine ⟨fun rid w hw hl => ?_, fun st' k' n' => ?_, fun st' k' n' i' u hp' => ?_, fun rid w hw hl => ?_, by rw [hcd]; exact h.cursorLeDel, h.noLagDel⟩
  rotate_left 2
  · have hp'' : s.pstate (.step st' k' n') = .lagWait i' u := hp'
    have hold := h.lag st' k' n' i' u hp''
    by_cases hpe : Proc.step st' k' n' = Proc.step st k n
    · rw [hpe] at hp'' hold ⊢
      have := hps i' u hp''
      subst this
      refine ⟨hold.1, fun j e' h1 h2 _ => ?_⟩
      rw [cursor_setCursor] at h1
      omega
    · exact hold.mono (fun j _ => rfl) (by rw [cursor_setCursor_ne s _ _ _ hpe]; exact Nat.le_refl _)
  · rcases h.pendingDel rid w hw hl with ho | ⟨j, e', hj, hc', hk⟩
    · exact Or.inl ho
    · exact Or.inr ⟨j, e', hj, hc', by rw [hcd]; exact hk⟩
  · rcases h.pending rid w hw hl with ho | ⟨j, e', hj, hc', hk⟩
    · exact Or.inl ho
    · refine Or.inr ⟨j, e', hj, hc', fun k' n' hf => ?_⟩
      by_cases hp : Proc.step w.status k' n' = Proc.step st k n
      · rw [hp, cursor_setCursor]
        -- this very process: the witness lies at or after i, and is not i itself
        have hold := hk k' n' hf
        rw [hp] at hold hf
        have hsub : subscribed (.step st k n) e' = true := by rw [← hp]; exact live_route_subscribed hl hc' k' n'
        have hji : i ≤ j := by
          by_cases hlt : j < i
          · have := hgap j e' hold hlt hj
            rw [hsub] at this; cases this
          · omega
        by_cases heq : j = i
        · exfalso
          subst heq
          rw [he] at hj; cases hj
          rcases hdone with hfo | hd
          · rw [hfo] at hf; cases hf
          · have hid : e.runId = w.runId := by
              have : e.runId = (Routing.route w).runId := by rw [← hc']; rfl
              exact this
            have hver : e.version = w.version := by
              have : e.version = (Routing.route w).version := by rw [← hc']; rfl
              exact this
            -- `w` is the head of run `rid`, and records of run `rid` carry run ID `rid`
            have hcur : curR s.runs e.runId = some w := by
              have hw' : curR s.runs rid = some w := hw
              rw [hid, (isHead_of_curR hh hw').2]; exact hw'
            exact hd w hcur hl hver.symm
        · omega
      · rw [cursor_setCursor_ne s _ _ _ hp]; exact hk k' n' hf
  · by_cases hp : Proc.step st' k' n' = Proc.step st k n
    · rw [hp, cursor_setCursor]
      show i + 1 ≤ s.log.length
      omega
    · rw [cursor_setCursor_ne s _ _ _ hp]; exact h.cursorLe st' k' n'

end WorkflowModel.Engine

namespace WorkflowModel.Engine
open WorkflowModel RS

/-! ## the relay: an entry is deleted only after its event went to the end of the log, where no cursor has been -/

theorem TokInv.relaySendDelete {s : Sys} (h : TokInv s) (o : OutE) (t : Int)
    (huniq : ∀ o' ∈ s.outbox, o'.ord = o.ord → o' = o) :
    TokInv ((s.relaySend { o.ev with createdAt := t }).relayDelete o.ord) := by
  have hlog : ((s.relaySend { o.ev with createdAt := t }).relayDelete o.ord).log = s.log ++ [{ o.ev with createdAt := t }] := rfl
  have hcur : ∀ p, ((s.relaySend { o.ev with createdAt := t }).relayDelete o.ord).cursor p = s.cursor p := fun _ => rfl
  have hmem : ∀ o', o' ∈ ((s.relaySend { o.ev with createdAt := t }).relayDelete o.ord).outbox ↔ o' ∈ s.outbox ∧ o'.ord ≠ o.ord := by
    intro o'; simp [Sys.relayDelete, Sys.relaySend]
  refine ⟨fun rid w hw hl => ?_, fun st k n => ?_,
    fun st k n i u hps => (h.lag st k n i u hps).mono (fun j hj => by rw [hlog, List.getElem?_append_left hj]) (by rw [hcur]; exact Nat.le_refl _),
    fun rid w hw hl => ?_, ?_, h.noLagDel⟩
  rotate_left 2
  · have hw' : s.cur rid = some w := hw
    rcases h.pendingDel rid w hw' hl with ⟨o', ho', he⟩ | ⟨i, e', hi, hc', hk⟩
    · by_cases hord : o'.ord = o.ord
      · have : o' = o := huniq o' ho' hord
        subst this
        refine Or.inr ⟨s.log.length, { o'.ev with createdAt := t }, ?_, ?_, ?_⟩
        · rw [hlog, List.getElem?_append_right (Nat.le_refl _)]; simp
        · rw [he]; rfl
        · rw [hcur]; exact h.cursorLeDel
      · exact Or.inl ⟨o', (hmem o').mpr ⟨ho', hord⟩, he⟩
    · refine Or.inr ⟨i, e', ?_, hc', by rw [hcur]; exact hk⟩
      rw [hlog, List.getElem?_append_left (List.getElem?_eq_some_iff.mp hi).1]; exact hi
  · rw [hcur, hlog, List.length_append]
    have := h.cursorLeDel
    omega
  · have hw' : s.cur rid = some w := hw
    rcases h.pending rid w hw' hl with ⟨o', ho', he⟩ | ⟨i, e', hi, hc', hk⟩
    · by_cases hord : o'.ord = o.ord
      · have : o' = o := huniq o' ho' hord
        subst this
        refine Or.inr ⟨s.log.length, { o'.ev with createdAt := t }, ?_, ?_, fun k n _ => ?_⟩
        · rw [hlog, List.getElem?_append_right (Nat.le_refl _)]; simp
        · rw [he]; rfl
        · rw [hcur]; exact h.cursorLe w.status k n
      · exact Or.inl ⟨o', (hmem o').mpr ⟨ho', hord⟩, he⟩
    · refine Or.inr ⟨i, e', ?_, hc', fun k n hf => by rw [hcur]; exact hk k n hf⟩
      rw [hlog, List.getElem?_append_left (List.getElem?_eq_some_iff.mp hi).1]; exact hi
  · rw [hcur, hlog, List.length_append]
    have := h.cursorLe st k n
    omega

theorem relayEntry_tok (o : OutE) (rest : List OutE) (env : Env) (st : OpSt)
    (hb : BatchOK (o :: rest) st.sys) (ht : TokInv st.sys) : TokInv ((relayEntry o) env st).2.sys := by
  have hu := (hb o (by simp)).1
  rcases relayEntry_shape o env st with h | h | h
  · rw [h]; exact ht
  · rw [h]; exact ht.relaySend _
  · rw [h]; exact ht.relaySendDelete o _ hu

theorem relayBatch_tok (batch : List OutE) (env : Env) (st : OpSt)
    (hi : RelayInv st.sys) (hb : BatchOK batch st.sys) (ht : TokInv st.sys) : TokInv ((batch.forM relayEntry) env st).2.sys := by
  induction batch generalizing st with
  | nil => exact ht
  | cons o rest ih =>
    show TokInv ((List.forM (o :: rest) relayEntry) env st).2.sys
    unfold List.forM
    rw [bind_run]
    have h1 := relayEntry_inv o rest env st hi hb
    have h2 := relayEntry_tok o rest env st hb ht
    rcases h : relayEntry o env st with ⟨r, st'⟩
    rw [h] at h1 h2
    cases r with
    | ok _ => exact ih st' h1.1 h1.2 h2
    | error e => exact h2

theorem relayOp_tok (cfg : Cfg) (env : Env) (st : OpSt) (hi : RelayInv st.sys) (ht : TokInv st.sys) :
    TokInv ((relayOp cfg) env st).2.sys := by
  unfold Engine.relayOp
  rw [bind_run]
  rcases h : Engine.call "listoutbox" _ env st with ⟨r, st'⟩
  have hs := call_sys "listoutbox" (fun s => ("(" ++ " ".intercalate ((s.outbox.take cfg.outboxLimit.toNat).map (fun o => toString o.ord)) ++ ")",
      (Except.ok (s.outbox.take cfg.outboxLimit.toNat) : Except Abort (List OutE)), s)) env st
  rw [h] at hs
  have hsys : st'.sys = st.sys := by rcases hs with ⟨a, _⟩ | a <;> exact a
  cases r with
  | error e => simp only []; rw [hsys]; exact ht
  | ok batch =>
    simp only []
    have hbatch : batch = st.sys.outbox.take cfg.outboxLimit.toNat := by
      unfold Engine.call at h
      split at h
      · simp at h
      · split at h <;> simp at h
        exact h.1.symm
    apply relayBatch_tok batch env st' (hsys ▸ hi) ?_ (hsys ▸ ht)
    intro o ho
    rw [hsys]
    have hmem : o ∈ st.sys.outbox := by rw [hbatch] at ho; exact List.mem_of_mem_take ho
    exact ⟨fun o' ho' hord => hi.ord_unique o' ho' o hmem hord, hi.outbox_written o hmem⟩

end WorkflowModel.Engine

namespace WorkflowModel.Engine
open WorkflowModel RS

/-! ## processes that are not step consumers: everything they do preserves the invariant unconditionally -/

/-- relay invariant + token invariant: what the non-step processes preserve -/
def RT (s : Sys) : Prop := RelayInv s ∧ TokInv s

theorem RT.stableH (cfg : Cfg) : StableH RT cfg where
  write := fun s r h => ⟨h.1.write cfg r, h.2.write cfg r⟩
  timerCreate := fun s a b c d h => ⟨(RelayInv.stable cfg).timerCreate s a b c d h.1, (TokInv.stableH cfg).timerCreate s a b c d h.2⟩
  timerComplete := fun s a h => ⟨(RelayInv.stable cfg).timerComplete s a h.1, (TokInv.stableH cfg).timerComplete s a h.2⟩
  timerCancel := fun s a h => ⟨(RelayInv.stable cfg).timerCancel s a h.1, (TokInv.stableH cfg).timerCancel s a h.2⟩
  setCount := fun s a b h => ⟨(RelayInv.stable cfg).setCount s a b h.1, (TokInv.stableH cfg).setCount s a b h.2⟩
  setHandles := fun s a h => ⟨(RelayInv.stable cfg).setHandles s a h.1, (TokInv.stableH cfg).setHandles s a h.2⟩

theorem Pres.relayOp_RT (cfg : Cfg) : Pres RT (Engine.relayOp cfg) :=
  fun env st h => ⟨Pres.relayOp cfg env st h.1, relayOp_tok cfg env st h.1 h.2⟩

variable {cfg : Cfg}

attribute [local irreducible] Engine.lookup Engine.latest Engine.store Engine.ack Engine.handle Engine.deliver Engine.recvOp
  Engine.pollOp Engine.relayOp Engine.newReceiver Engine.procBody Engine.call Engine.tryM Engine.modifySys

theorem Pres.ackP {I : Sys → Prop} (p : Proc) (hc : ∀ s n, I s → I (Sys.setCursor s p n)) (i : Nat) : Pres I (Engine.ack p i) := by
  have hcall : Pres I (Engine.call s!"ack(e{i})" (fun s => (("", .ok (), s.setCursor p (i + 1)) : String × Except Abort Unit × Sys))) :=
    Pres.call (fun s hi => hc s (i + 1) hi)
  intro env st hi
  unfold Engine.ack
  split
  · exact hcall env { st with cancelled := false } hi
  · exact hcall env st hi

theorem Pres.deliverP {I : Sys → Prop} (h : StableH I cfg) (p : Proc) (hc : ∀ s n, I s → I (Sys.setCursor s p n)) (i : Nat) (e : Event) :
    Pres I (Engine.deliver cfg p i e) := by
  unfold Engine.deliver
  repeat (first | exact Pres.ackP p hc _ | exact Pres.handle h _ _ | pres_core)

theorem Pres.recvOpP {I : Sys → Prop} (h : StableH I cfg) (p : Proc) (hc : ∀ s n, I s → I (Sys.setCursor s p n)) : Pres I (Engine.recvOp cfg p) := by
  unfold Engine.recvOp
  repeat (first | exact Pres.deliverP h p hc _ _ | exact Pres.call_ro (fun _ => rfl) | pres_core)

theorem Pres.procBodyP {I : Sys → Prop} (h : StableH I cfg) (hrel : Pres I (Engine.relayOp cfg)) (p : Proc)
    (hc : ∀ s n, I s → I (Sys.setCursor s p n)) (ps : PState) : Pres I (Engine.procBody cfg p ps) := by
  unfold Engine.procBody
  have hnr : Pres I (Engine.newReceiver p) := by unfold Engine.newReceiver; exact Pres.call_ro (fun _ => rfl)
  repeat (first | exact hrel | exact Pres.pollOp h _ _ _ | exact Pres.recvOpP h p hc | exact Pres.deliverP h p hc _ _ | exact hnr | pres_core)

theorem Pres.procOpP {I : Sys → Prop} (h : StableH I cfg) (hrel : Pres I (Engine.relayOp cfg)) (p : Proc)
    (hc : ∀ s n, I s → I (Sys.setCursor s p n)) (hps : ∀ s x, I s → I (Sys.setPState s p x)) : Pres I (Engine.procOp cfg p) := by
  unfold Engine.procOp
  have hop : Pres I Engine.openedReceiver := fun _ _ hi => hi
  repeat (first | exact Pres.procBodyP h hrel p hc _ | exact Pres.modifySys (fun s hi => hps s _ hi) | exact hop | pres_core)

/-- one operation of a process that is not a step consumer -/
theorem procOp_other_RT (p : Proc) (hp : IsStep p = false) : Pres RT (Engine.procOp cfg p) :=
  Pres.procOpP (RT.stableH cfg) (Pres.relayOp_RT cfg) p
    (fun s n h => ⟨(RelayInv.stable cfg).setCursor s p n h.1, h.2.setCursor_other p n hp⟩)
    (fun s x h => ⟨(RelayInv.stable cfg).setPState s p x h.1, h.2.setPState p x (fun i u _ =>
      ⟨fun st k n hpe => by rw [hpe] at hp; simp [IsStep] at hp, fun hpe => by rw [hpe] at hp; simp [IsStep] at hp⟩)⟩)

end WorkflowModel.Engine

namespace WorkflowModel.Engine
open WorkflowModel RS
variable {cfg : Cfg} {env : Env}

/-! ## step consumers -/

theorem ack_sys (p : Proc) (i : Nat) (env : Env) (st : OpSt) :
    (ack p i env st).2.sys = st.sys ∨ (ack p i env st).2.sys = st.sys.setCursor p (i + 1) := by
  unfold Engine.ack
  split
  · have := call_sys (s!"ack(e{i})") (fun s => (("", .ok (), s.setCursor p (i + 1)) : String × Except Abort Unit × Sys)) env { st with cancelled := false }
    rcases this with ⟨a, _⟩ | a
    · exact Or.inl a
    · exact Or.inr a
  · have := call_sys (s!"ack(e{i})") (fun s => (("", .ok (), s.setCursor p (i + 1)) : String × Except Abort Unit × Sys)) env st
    rcases this with ⟨a, _⟩ | a
    · exact Or.inl a
    · exact Or.inr a

theorem nextIndexFrom_nogap (p : Proc) (log : List Event) : ∀ (fuel i j : Nat), nextIndexFrom p log i fuel = some j →
    i ≤ j ∧ ∀ m e, i ≤ m → m < j → log[m]? = some e → subscribed p e = false
  | 0, _, _, h => by simp [nextIndexFrom] at h
  | fuel + 1, i, j, h => by
    unfold nextIndexFrom at h
    cases hl : log[i]? with
    | none => rw [hl] at h; simp at h
    | some e0 =>
      rw [hl] at h
      simp only at h
      split at h
      · cases h
        exact ⟨Nat.le_refl _, fun m e h1 h2 _ => by omega⟩
      · rename_i hns
        obtain ⟨h1, h2⟩ := nextIndexFrom_nogap p log fuel (i + 1) j h
        refine ⟨by omega, fun m e hm1 hm2 hme => ?_⟩
        by_cases hmi : m = i
        · subst hmi; rw [hl] at hme; cases hme; simpa using hns
        · exact h2 m e (by omega) hm2 hme

/-- a step consumer's handler: the three facts about one run of it -/
theorem handle_step_facts (hn : NoNested env) (hs : NoSkip env) (S : Status) (k n : Int) (e : Event) (st : OpSt)
    (hi : Inv cfg st.sys) (hz : st.stale = 0) (ht : TokInv st.sys) :
    Inv cfg (handle cfg (.step S k n) e env st).2.sys ∧ (handle cfg (.step S k n) e env st).2.stale = 0 ∧
    TokInv (handle cfg (.step S k n) e env st).2.sys ∧
    ((handle cfg (.step S k n) e env st).1 = .ok () → Done e.runId e.version (handle cfg (.step S k n) e env st).2.sys.runs) ∧
    (handle cfg (.step S k n) e env st).2.sys.cursors = st.sys.cursors ∧ (handle cfg (.step S k n) e env st).2.sys.log = st.sys.log := by
  have hd : HT cfg env (fun _ => True) (handle cfg (.step S k n) e) (fun _ R => Done e.runId e.version R) := by
    unfold handle
    exact stepHandle_done hn hs _ S _ e fuelDefault
  obtain ⟨a1, a2, a3⟩ := hd st hi hz trivial
  have hf := handle_frame cfg (.step S k n) e env st
  exact ⟨a1, a2, Pres.handle (TokInv.stableH cfg) _ e env st ht, fun hok => a3 () hok, hf.1, hf.2.2⟩

theorem deliver_step_tok (hn : NoNested env) (hs : NoSkip env) (S : Status) (k n : Int) (i : Nat) (e : Event) (st : OpSt)
    (hi : Inv cfg st.sys) (hz : st.stale = 0) (ht : TokInv st.sys) (he : st.sys.log[i]? = some e)
    (hgap : NoGap st.sys (.step S k n) i) (hps : ∀ i' u, st.sys.pstate (.step S k n) = .lagWait i' u → i' = i) :
    TokInv (deliver cfg (.step S k n) i e env st).2.sys := by
  unfold deliver
  split
  · rename_i hfo
    rcases ack_sys (.step S k n) i env st with h | h
    · rw [h]; exact ht
    · rw [h]; exact ht.setCursor_step hi.hist S k n i e he hgap hps (Or.inl hfo)
  · rw [bind_run]
    obtain ⟨b1, _, b3, b4, b5, b6⟩ := handle_step_facts (cfg := cfg) hn hs S k n e st hi hz ht
    have b7 := (handle_frame cfg (.step S k n) e env st).2.1
    rcases hh : handle cfg (.step S k n) e env st with ⟨r, st1⟩
    rw [hh] at b1 b3 b4 b5 b6 b7
    cases r with
    | error a => exact b3
    | ok u =>
      simp only
      have he1 : st1.sys.log[i]? = some e := by rw [b6]; exact he
      have hgap1 : NoGap st1.sys (.step S k n) i := by
        intro j e' h1 h2 h3
        have hc : st1.sys.cursor (.step S k n) = st.sys.cursor (.step S k n) := by unfold Sys.cursor; rw [b5]
        rw [hc] at h1; rw [b6] at h3
        exact hgap j e' h1 h2 h3
      have hps1 : ∀ i' u, st1.sys.pstate (.step S k n) = .lagWait i' u → i' = i := by
        intro i' u hp
        have : st1.sys.pstate (.step S k n) = st.sys.pstate (.step S k n) := by unfold Sys.pstate; rw [b7]
        rw [this] at hp; exact hps i' u hp
      rcases ack_sys (.step S k n) i env st1 with h | h
      · rw [h]; exact b3
      · rw [h]; exact b3.setCursor_step b1.hist S k n i e he1 hgap1 hps1 (Or.inr (b4 rfl))

end WorkflowModel.Engine

namespace WorkflowModel.Engine
open WorkflowModel RS
variable {cfg : Cfg} {env : Env}

/-- `Recv` of a step consumer that is not parked in the lag wait: afterwards it is back at `Recv`, or parked in the lag wait
with the event it received in hand -/
theorem recvOp_step_tok (hn : NoNested env) (hs : NoSkip env) (S : Status) (k n : Int) (st : OpSt)
    (hi : Inv cfg st.sys) (hz : st.stale = 0) (ht : TokInv st.sys) (hps : ∀ i u, st.sys.pstate (.step S k n) ≠ .lagWait i u) :
    TokInv (recvOp cfg (.step S k n) env st).2.sys ∧
    ∀ ps', (recvOp cfg (.step S k n) env st).1 = .ok ps' →
      ∀ i u, ps' = .lagWait i u → LagOk (recvOp cfg (.step S k n) env st).2.sys (.step S k n) i := by
  unfold recvOp
  rw [bind_run]
  simp only [Engine.getSys]
  cases hni : st.sys.nextIndex (.step S k n) with
  | none => exact ⟨ht, fun _ h => by cases h⟩
  | some i =>
    simp only
    cases hle : st.sys.log[i]? with
    | none => exact ⟨ht, fun _ h => by cases h⟩
    | some e =>
      simp only
      rw [bind_run]
      rcases hc : Engine.call "recv" (fun s => ("(" ++ evStr i e ++ ")", (Except.ok () : Except Abort Unit), s)) env st with ⟨r, st1⟩
      have hsys : st1.sys = st.sys := by
        have := call_sys "recv" (fun s => ("(" ++ evStr i e ++ ")", (Except.ok () : Except Abort Unit), s)) env st
        rw [hc] at this
        rcases this with ⟨a, _⟩ | a <;> exact a
      have hst : st1.stale = st.stale := by
        have := call_stale (l := "recv") (eff := fun s => ("(" ++ evStr i e ++ ")", (Except.ok () : Except Abort Unit), s)) env st
        rw [hc] at this; exact this
      have hsub : subscribed (.step S k n) e = true := by
        unfold Sys.nextIndex at hni
        obtain ⟨e', h1, h2⟩ := nextIndexFrom_subscribed _ _ _ _ _ hni
        rw [hle] at h1; cases h1; exact h2
      have hgap : NoGap st1.sys (.step S k n) i := by
        intro j e' h1 h2 h3
        rw [hsys] at h1 h3
        unfold Sys.nextIndex at hni
        exact (nextIndexFrom_nogap _ _ _ _ _ hni).2 j e' h1 h2 h3
      cases r with
      | error a => exact ⟨by rw [hsys]; exact ht, fun _ h => by cases h⟩
      | ok u =>
        simp only []
        split
        · refine ⟨by show TokInv st1.sys; rw [hsys]; exact ht, fun ps' h i' u' hl => ?_⟩
          cases h
          cases hl
          exact ⟨⟨e, by show st1.sys.log[i]? = some e; rw [hsys]; exact hle, hsub⟩, hgap⟩
        · rw [bind_run]
          have htok := deliver_step_tok (cfg := cfg) hn hs S k n i e st1 (by rw [hsys]; exact hi) (by rw [hst]; exact hz)
            (by rw [hsys]; exact ht) (by rw [hsys]; exact hle) hgap (fun i' u hp => by rw [hsys] at hp; exact absurd hp (hps i' u))
          rcases hd : deliver cfg (.step S k n) i e env st1 with ⟨r2, st2⟩
          rw [hd] at htok
          cases r2 with
          | error a => exact ⟨htok, fun _ h => by cases h⟩
          | ok _ => exact ⟨htok, fun ps' h i' u' hl => by cases h; cases hl⟩

theorem procBody_step_tok (hn : NoNested env) (hs : NoSkip env) (S : Status) (k n : Int) (st : OpSt)
    (hi : Inv cfg st.sys) (hz : st.stale = 0) (ht : TokInv st.sys) :
    TokInv (procBody cfg (.step S k n) (st.sys.pstate (.step S k n)) env st).2.sys ∧
    ∀ ps', (procBody cfg (.step S k n) (st.sys.pstate (.step S k n)) env st).1 = .ok ps' →
      ∀ i u, ps' = .lagWait i u → LagOk (procBody cfg (.step S k n) (st.sys.pstate (.step S k n)) env st).2.sys (.step S k n) i := by
  cases hps : st.sys.pstate (.step S k n) with
  | lagWait i u =>
    unfold procBody
    simp only []
    rw [bind_run]
    simp only [Engine.getSys]
    obtain ⟨⟨e, he, hsub⟩, hgap⟩ := ht.lag S k n i u hps
    rw [he]
    simp only [hsub, if_true]
    rw [bind_run]
    have htok := deliver_step_tok (cfg := cfg) hn hs S k n i e st hi hz ht he hgap
      (fun i' u' hp => by rw [hps] at hp; cases hp; rfl)
    rcases hd : deliver cfg (.step S k n) i e env st with ⟨r2, st2⟩
    rw [hd] at htok
    cases r2 with
    | error a => exact ⟨htok, fun _ h => by cases h⟩
    | ok _ => exact ⟨htok, fun ps' h i' u' hl => by cases h; cases hl⟩
  | backoff u =>
    unfold procBody
    exact ⟨ht, fun ps' h i u hl => by cases h; cases hl⟩
  | atPoll since =>
    unfold procBody
    exact ⟨ht, fun ps' h i u hl => by cases h; cases hl⟩
  | atRecv =>
    unfold procBody
    exact recvOp_step_tok (cfg := cfg) hn hs S k n st hi hz ht (fun i u hp => by rw [hps] at hp; cases hp)
  | needRole =>
    unfold procBody
    simp only
    rw [bind_run]
    simp only [Engine.emit]
    rw [bind_run]
    unfold newReceiver
    rcases hc : Engine.call _ _ env _ with ⟨r, st1⟩
    have hsys := call_sys (s!"newrecv({topicOf (.step S k n)})") (fun s => (("", .ok (), s) : String × Except Abort Unit × Sys)) env
      { st with obs := "await" :: st.obs }
    rw [hc] at hsys
    have hs1 : st1.sys = st.sys := by rcases hsys with ⟨a, _⟩ | a <;> exact a
    cases r with
    | error a => exact ⟨by rw [hs1]; exact ht, fun _ h => by cases h⟩
    | ok _ =>
      refine ⟨?_, fun ps' h i u hl => by cases h; cases hl⟩
      show TokInv st1.sys
      rw [hs1]; exact ht

theorem procOp_step_tok (hn : NoNested env) (hs : NoSkip env) (S : Status) (k n : Int) (st : OpSt)
    (hi : Inv cfg st.sys) (hz : st.stale = 0) (ht : TokInv st.sys) :
    TokInv (procOp cfg (.step S k n) env st).2.sys := by
  unfold procOp
  rw [bind_run]
  simp only [Engine.getSys]
  rw [bind_run]
  unfold Engine.tryM
  obtain ⟨h1, h2⟩ := procBody_step_tok (cfg := cfg) hn hs S k n st hi hz ht
  rcases hb : procBody cfg (.step S k n) (st.sys.pstate (.step S k n)) env st with ⟨r, st1⟩
  rw [hb] at h1 h2
  have hvac : ∀ (x : PState), (∀ i u, x ≠ .lagWait i u) →
      ∀ i u, x = .lagWait i u → (∀ st' k' n', Proc.step S k n = .step st' k' n' → LagOk st1.sys (.step S k n) i) ∧ Proc.step S k n ≠ .delete :=
    fun x hx i u hl => absurd hl (hx i u)
  cases r with
  | ok ps' =>
    simp only
    rw [bind_run]
    simp only [Engine.isCancelled]
    cases hdead : st1.cancelled with
    | false =>
      simp only [Engine.modifySys]
      exact h1.setPState _ ps' (fun i u hl => ⟨fun _ _ _ _ => h2 ps' rfl i u hl, by intro h; cases h⟩)
    | true =>
      simp only [bind_run, Engine.openedReceiver, Engine.emitIf, Engine.getSys, Engine.modifySys]
      split <;> exact h1.setPState _ _ (hvac _ (fun i u => by simp))
  | error a =>
    simp only
    rw [bind_run]
    simp only [Engine.isCancelled]
    simp only [bind_run, Engine.openedReceiver, Engine.emitIf, Engine.getSys, Engine.modifySys]
    split <;> (try split) <;> exact h1.setPState _ _ (hvac _ (fun i u => by first | simp | (split <;> simp)))

end WorkflowModel.Engine

namespace WorkflowModel.Engine
open WorkflowModel RS
variable {cfg : Cfg} {env : Env}

/-! ## the delete consumer -/

theorem rdd_route_subscribed {w : Rec} (h7 : w.runState = 7) {e : Event} (hc : core e = Routing.route w) :
    subscribed .delete e = true := by
  have h1 : e.topicKind = (Routing.route w).topicKind := by rw [← hc]; rfl
  have hk : Gen.outboxTopicKind w.runState = 1 := by rw [h7]; decide
  simp [subscribed, h1, Routing.route, hk]

/-- the delete consumer's acknowledgement of event `i`, after which the run is not RequestedDataDeleted -/
theorem TokInv.setCursor_delete {cfg : Cfg} {s : Sys} (h : TokInv s) (hh : HistInv cfg s) (i : Nat) (e : Event)
    (he : s.log[i]? = some e) (hgap : NoGap s .delete i)
    (hdone : ∀ w, curR s.runs e.runId = some w → w.runState ≠ 7) :
    TokInv (s.setCursor .delete (i + 1)) := by
  have hilt : i < s.log.length := (List.getElem?_eq_some_iff.mp he).1
  have hcs : ∀ st k n, (s.setCursor .delete (i + 1)).cursor (.step st k n) = s.cursor (.step st k n) :=
    fun st k n => cursor_setCursor_ne s _ _ _ (by intro heq; cases heq)
  refine ⟨fun rid w hw hl => ?_, fun st k n => by rw [hcs]; exact h.cursorLe st k n,
    fun st k n i' u hps => (h.lag st k n i' u hps).mono (fun j _ => rfl) (by rw [hcs]; exact Nat.le_refl _),
    fun rid w hw h7 => ?_, ?_, h.noLagDel⟩
  · rcases h.pending rid w hw hl with ho | ⟨j, e', hj, hc', hk⟩
    · exact Or.inl ho
    · exact Or.inr ⟨j, e', hj, hc', fun k n hf => by rw [hcs]; exact hk k n hf⟩
  · rcases h.pendingDel rid w hw h7 with ho | ⟨j, e', hj, hc', hk⟩
    · exact Or.inl ho
    · refine Or.inr ⟨j, e', hj, hc', ?_⟩
      rw [cursor_setCursor]
      have hsub := rdd_route_subscribed h7 hc'
      have hji : i ≤ j := by
        by_cases hlt : j < i
        · have := hgap j e' hk hlt hj
          rw [hsub] at this; cases this
        · omega
      by_cases heq : j = i
      · exfalso
        subst heq
        rw [he] at hj; cases hj
        have hid : e.runId = w.runId := by
          have : e.runId = (Routing.route w).runId := by rw [← hc']; rfl
          exact this
        have hcur : curR s.runs e.runId = some w := by
          have hw' : curR s.runs rid = some w := hw
          rw [hid, (isHead_of_curR hh hw').2]; exact hw'
        exact hdone w hcur h7
      · omega
  · rw [cursor_setCursor]
    show i + 1 ≤ s.log.length
    omega

theorem handle_delete_facts (e : Event) (st : OpSt) (hi : Inv cfg st.sys) (hz : st.stale = 0) (ht : TokInv st.sys)
    (he : e ∈ st.sys.log) (hk : e.topicKind = 1) :
    Inv cfg (handle cfg .delete e env st).2.sys ∧ TokInv (handle cfg .delete e env st).2.sys ∧
    ((handle cfg .delete e env st).1 = .ok () → ∀ w, curR (handle cfg .delete e env st).2.sys.runs e.runId = some w → w.runState ≠ 7) ∧
    (handle cfg .delete e env st).2.sys.cursors = st.sys.cursors ∧ (handle cfg .delete e env st).2.sys.log = st.sys.log := by
  have hd : HT cfg env (fun R => HasRDD R e.runId) (handle cfg .delete e) (fun _ R => ∃ h, curR R e.runId = some h ∧ h.runState = 6) := by
    unfold handle
    exact deleteHandle_done e
  obtain ⟨a1, _, a3⟩ := hd st hi hz (hasRDD_of_delete_event hi he hk)
  have hf := handle_frame cfg .delete e env st
  refine ⟨a1, Pres.handle (TokInv.stableH cfg) _ e env st ht, fun hok w hw => ?_, hf.1, hf.2.2⟩
  obtain ⟨h, h1, h2⟩ := a3 () hok
  rw [hw] at h1; cases h1
  rw [h2]; decide

theorem deliver_delete_tok (i : Nat) (e : Event) (st : OpSt)
    (hi : Inv cfg st.sys) (hz : st.stale = 0) (ht : TokInv st.sys) (he : st.sys.log[i]? = some e) (hk : e.topicKind = 1)
    (hgap : NoGap st.sys .delete i) : TokInv (deliver cfg .delete i e env st).2.sys := by
  unfold deliver
  split
  · rename_i hfo; simp [filteredOut] at hfo
  · rw [bind_run]
    obtain ⟨b1, b3, b4, b5, b6⟩ := handle_delete_facts (cfg := cfg) (env := env) e st hi hz ht (List.mem_of_getElem? he) hk
    rcases hh : handle cfg .delete e env st with ⟨r, st1⟩
    rw [hh] at b1 b3 b4 b5 b6
    cases r with
    | error a => exact b3
    | ok u =>
      simp only
      have he1 : st1.sys.log[i]? = some e := by rw [b6]; exact he
      have hgap1 : NoGap st1.sys .delete i := by
        intro j e' h1 h2 h3
        have hc : st1.sys.cursor .delete = st.sys.cursor .delete := by unfold Sys.cursor; rw [b5]
        rw [hc] at h1; rw [b6] at h3
        exact hgap j e' h1 h2 h3
      rcases ack_sys .delete i env st1 with h | h
      · rw [h]; exact b3
      · rw [h]; exact b3.setCursor_delete b1.hist i e he1 hgap1 (b4 rfl)

theorem recvOp_delete_tok (st : OpSt) (hi : Inv cfg st.sys) (hz : st.stale = 0) (ht : TokInv st.sys) :
    TokInv (recvOp cfg .delete env st).2.sys ∧ ∀ ps', (recvOp cfg .delete env st).1 = .ok ps' → ps' = .atRecv := by
  unfold recvOp
  rw [bind_run]
  simp only [Engine.getSys]
  cases hni : st.sys.nextIndex .delete with
  | none => exact ⟨ht, fun _ h => by cases h⟩
  | some i =>
    simp only
    cases hle : st.sys.log[i]? with
    | none => exact ⟨ht, fun _ h => by cases h⟩
    | some e =>
      simp only
      rw [bind_run]
      rcases hc : Engine.call "recv" (fun s => ("(" ++ evStr i e ++ ")", (Except.ok () : Except Abort Unit), s)) env st with ⟨r, st1⟩
      have hsys : st1.sys = st.sys := by
        have := call_sys "recv" (fun s => ("(" ++ evStr i e ++ ")", (Except.ok () : Except Abort Unit), s)) env st
        rw [hc] at this
        rcases this with ⟨a, _⟩ | a <;> exact a
      have hst : st1.stale = st.stale := by
        have := call_stale (l := "recv") (eff := fun s => ("(" ++ evStr i e ++ ")", (Except.ok () : Except Abort Unit), s)) env st
        rw [hc] at this; exact this
      cases r with
      | error a => exact ⟨by rw [hsys]; exact ht, fun _ h => by cases h⟩
      | ok u =>
        simp only []
        split
        · rename_i hmw
          simp [procLag, Gen.G.consumeMustWait] at hmw
        rw [bind_run]
        have hsub : subscribed .delete e = true := by
          unfold Sys.nextIndex at hni
          obtain ⟨e', h1, h2⟩ := nextIndexFrom_subscribed _ _ _ _ _ hni
          rw [hle] at h1; cases h1; exact h2
        have hgap : NoGap st1.sys .delete i := by
          intro j e' h1 h2 h3
          rw [hsys] at h1 h3
          unfold Sys.nextIndex at hni
          exact (nextIndexFrom_nogap _ _ _ _ _ hni).2 j e' h1 h2 h3
        have htok := deliver_delete_tok (cfg := cfg) (env := env) i e st1 (by rw [hsys]; exact hi) (by rw [hst]; exact hz)
          (by rw [hsys]; exact ht) (by rw [hsys]; exact hle) (subscribed_delete hsub) hgap
        rcases hd : deliver cfg .delete i e env st1 with ⟨r2, st2⟩
        rw [hd] at htok
        cases r2 with
        | error a => exact ⟨htok, fun _ h => by cases h⟩
        | ok _ => exact ⟨htok, fun ps' h => by cases h; rfl⟩

theorem procBody_delete_tok (ps : PState) (hps : ∀ i u, ps ≠ .lagWait i u) (st : OpSt) (hi : Inv cfg st.sys) (hz : st.stale = 0)
    (ht : TokInv st.sys) :
    TokInv (procBody cfg .delete ps env st).2.sys ∧
    ∀ ps', (procBody cfg .delete ps env st).1 = .ok ps' → ∀ i u, ps' ≠ .lagWait i u := by
  cases ps with
  | lagWait i u => exact absurd rfl (hps i u)
  | backoff u =>
    unfold procBody
    exact ⟨ht, fun ps' h i u => by cases h; simp⟩
  | atPoll since =>
    unfold procBody
    exact ⟨ht, fun ps' h i u => by cases h; simp⟩
  | atRecv =>
    unfold procBody
    obtain ⟨h1, h2⟩ := recvOp_delete_tok (cfg := cfg) (env := env) st hi hz ht
    exact ⟨h1, fun ps' h i u => by rw [h2 ps' h]; simp⟩
  | needRole =>
    unfold procBody
    simp only
    rw [bind_run]
    simp only [Engine.emit]
    rw [bind_run]
    unfold newReceiver
    rcases hc : Engine.call _ _ env _ with ⟨r, st1⟩
    have hsys := call_sys (s!"newrecv({topicOf .delete})") (fun s => (("", .ok (), s) : String × Except Abort Unit × Sys)) env
      { st with obs := "await" :: st.obs }
    rw [hc] at hsys
    have hs1 : st1.sys = st.sys := by rcases hsys with ⟨a, _⟩ | a <;> exact a
    cases r with
    | error a => exact ⟨by rw [hs1]; exact ht, fun _ h => by cases h⟩
    | ok _ =>
      refine ⟨?_, fun ps' h i u => by cases h; simp⟩
      show TokInv st1.sys
      rw [hs1]; exact ht

theorem procOp_delete_tok (st : OpSt) (hi : Inv cfg st.sys) (hz : st.stale = 0) (ht : TokInv st.sys) :
    TokInv (procOp cfg .delete env st).2.sys := by
  unfold procOp
  rw [bind_run]
  simp only [Engine.getSys]
  rw [bind_run]
  unfold Engine.tryM
  obtain ⟨h1, h2⟩ := procBody_delete_tok (cfg := cfg) (env := env) (st.sys.pstate .delete) (fun i u => ht.noLagDel i u) st hi hz ht
  rcases hb : procBody cfg .delete (st.sys.pstate .delete) env st with ⟨r, st1⟩
  rw [hb] at h1 h2
  cases r with
  | ok ps' =>
    simp only
    rw [bind_run]
    simp only [Engine.isCancelled]
    cases hdead : st1.cancelled with
    | false =>
      simp only [Engine.modifySys]
      exact h1.setPState _ ps' (fun i u hl => absurd hl (h2 ps' rfl i u))
    | true =>
      simp only [bind_run, Engine.openedReceiver, Engine.emitIf, Engine.getSys, Engine.modifySys]
      split <;> exact h1.setPState _ _ (fun i u hl => by simp at hl)
  | error a =>
    simp only
    rw [bind_run]
    simp only [Engine.isCancelled]
    simp only [bind_run, Engine.openedReceiver, Engine.emitIf, Engine.getSys, Engine.modifySys]
    split <;> (try split) <;> exact h1.setPState _ _ (fun i u hl => by first | (simp at hl) | (split at hl <;> simp at hl))

end WorkflowModel.Engine

namespace WorkflowModel.Engine
open WorkflowModel RS
variable {cfg : Cfg}

theorem leaseLossOp_tok (p : Proc) : Pres TokInv (leaseLossOp cfg p) := by
  unfold Engine.leaseLossOp
  repeat (first | exact Pres.modifySys (fun s hi => TokInv.setPState hi _ .needRole (fun i u hl => by simp at hl)) | pres_core)

end WorkflowModel.Engine

namespace WorkflowModel.Engine
open WorkflowModel RS

/-! ## a pending announcement keeps its consumer enabled -/

theorem nextIndexFrom_some (p : Proc) (log : List Event) : ∀ (fuel i m : Nat) (e : Event), i ≤ m → log[m]? = some e →
    subscribed p e = true → m - i < fuel → (nextIndexFrom p log i fuel).isSome = true
  | 0, _, _, _, _, _, _, h => by omega
  | fuel + 1, i, m, e, him, hm, hs, hf => by
    unfold nextIndexFrom
    have hilt : i < log.length := by
      have := (List.getElem?_eq_some_iff.mp hm).1
      omega
    rw [List.getElem?_eq_getElem hilt]
    simp only
    split
    · rfl
    · rename_i hns
      by_cases heq : i = m
      · subst heq
        rw [List.getElem?_eq_getElem hilt] at hm
        cases hm
        exact absurd hs hns
      · exact nextIndexFrom_some p log fuel (i + 1) m e (by omega) hm hs (by omega)

/-- a consumer parked at `Recv` whose cursor has not passed a published event of its topic can take a step -/
theorem enabled_of_pending (s : Sys) (p : Proc) (i : Nat) (e : Event) (hp : s.pstate p = .atRecv)
    (he : s.log[i]? = some e) (hs : subscribed p e = true) (hc : s.cursor p ≤ i) : s.enabled p = true := by
  unfold Sys.enabled
  rw [hp]
  unfold Sys.nextIndex
  have hilt : i < s.log.length := (List.getElem?_eq_some_iff.mp he).1
  exact nextIndexFrom_some p s.log _ _ i e hc he hs (by omega)

end WorkflowModel.Engine

namespace WorkflowModel.Engine
open WorkflowModel RS

/-! ## the executable mirror `tokOK` is implied by the invariant -/

theorem pendingAtB_of {s : Sys} {w : Rec} (h : PendingAt s w) : pendingAtB s w = true := by
  unfold pendingAtB
  rcases h with ⟨o, ho, he⟩ | ⟨i, e, hi, hc, hk⟩
  · simp only [Bool.or_eq_true, List.any_eq_true]
    exact Or.inl ⟨o, ho, by rw [he]; exact beq_self_eq_true _⟩
  · simp only [Bool.or_eq_true, List.any_eq_true]
    refine Or.inr ⟨i, List.mem_range.mpr (List.getElem?_eq_some_iff.mp hi).1, ?_⟩
    rw [hi]
    simp only [Bool.and_eq_true, List.all_eq_true]
    refine ⟨by have : coreEv e = Routing.route w := hc
               rw [this]; exact beq_self_eq_true _, fun pc _ => ?_⟩
    split
    · rename_i st k n _
      by_cases hst : st = w.status
      · subst hst
        cases hf : filteredOut (Proc.step w.status k n) i e with
        | true => simp
        | false => simp [hk k n hf]
      · simp [hst]
    · rfl

theorem tokOK_of {s : Sys} (ht : TokInv s) : tokOK s = true := by
  unfold tokOK
  simp only [List.all_eq_true]
  intro x hx
  obtain ⟨idx, hlt, hget⟩ := List.getElem_of_mem hx
  have hcur : s.cur idx = x.hist.head? := by
    unfold Sys.cur
    rw [List.getElem?_eq_getElem hlt, hget]; rfl
  cases hh : x.hist.head? with
  | none => rfl
  | some w =>
    simp only
    by_cases hl : w.runState = 1 ∨ w.runState = 2
    · have := pendingAtB_of (ht.pending idx w (by rw [hcur, hh]) hl)
      rw [this]; simp
    · have : (w.runState == 1 || w.runState == 2) = false := by
        simp only [not_or] at hl
        simp [hl.1, hl.2]
      rw [this]; rfl

end WorkflowModel.Engine
