import WorkflowModel.Lemmas.Hist
/-! # A Hoare logic for the operation monad, over the write histories

`HT cfg env P m Q`: run `m` in environment `env` (fault plan, user-function outcomes) from a state that satisfies the
invariant `Inv` (legal histories + relay invariant), whose next read is current (`stale = 0`) and whose histories satisfy
`P`. Then — wherever the fault plan cuts the operation — the final state satisfies `Inv` again and reads stay current;
and if `m` returns normally with `a`, the histories satisfy `Q a`. Pre- and postconditions speak about the histories
(`Sys.runs`) only: nothing but `Store` changes them, so every other adapter call is a frame step. -/
namespace WorkflowModel.Engine
open WorkflowModel

structure Inv (cfg : Cfg) (s : Sys) : Prop where
  hist : HistInv cfg s
  relay : RelayInv s
  one : OneUnf s.runs

theorem Inv.frame {cfg : Cfg} {s s' : Sys} (h : Inv cfg s) (hr : s'.runs = s.runs) (hrel : RelayInv s') : Inv cfg s' :=
  ⟨h.hist.frame hr, hrel, by rw [hr]; exact h.one⟩

def HT (cfg : Cfg) (env : Env) {α : Type} (P : List RunS → Prop) (m : M α) (Q : α → List RunS → Prop) : Prop :=
  ∀ st : OpSt, Inv cfg st.sys → st.stale = 0 → P st.sys.runs →
    Inv cfg (m env st).2.sys ∧ (m env st).2.stale = 0 ∧ ∀ a, (m env st).1 = .ok a → Q a (m env st).2.sys.runs

variable {cfg : Cfg} {env : Env} {α β : Type} {P P' : List RunS → Prop} {Q Q' : α → List RunS → Prop}

theorem HT.pure {a : α} (h : ∀ R, P R → Q a R) : HT cfg env P (Pure.pure a : M α) Q := by
  intro st hi hz hp
  exact ⟨hi, hz, fun b hb => by cases hb; exact h _ hp⟩

theorem HT.bind {m : M α} {f : α → M β} {R : β → List RunS → Prop}
    (h1 : HT cfg env P m Q) (h2 : ∀ a, HT cfg env (Q a) (f a) R) : HT cfg env P (m >>= f) R := by
  intro st hi hz hp
  obtain ⟨hi', hz', hq⟩ := h1 st hi hz hp
  rw [bind_run]
  rcases hm : m env st with ⟨r, st'⟩
  rw [hm] at hi' hz' hq
  cases r with
  | ok a => exact h2 a st' hi' hz' (hq a rfl)
  | error e => exact ⟨hi', hz', fun a h => by cases h⟩

/-- strengthen the precondition; the invariant may be used -/
theorem HT.pre {m : M α} (hp : ∀ s, Inv cfg s → P s.runs → P' s.runs) (h : HT cfg env P' m Q) : HT cfg env P m Q :=
  fun st hi hz hpp => h st hi hz (hp st.sys hi hpp)

/-- weaken the postcondition; the invariant may be used -/
theorem HT.post {m : M α} (h : HT cfg env P m Q') (hq : ∀ a s, Inv cfg s → Q' a s.runs → Q a s.runs) : HT cfg env P m Q := by
  intro st hi hz hp
  obtain ⟨hi', hz', hq'⟩ := h st hi hz hp
  exact ⟨hi', hz', fun a ha => hq a _ hi' (hq' a ha)⟩

/-- name the histories the operation starts from -/
theorem HT.ghost {m : M α} (h : ∀ R0, HT cfg env (fun R => R = R0 ∧ P R) m Q) : HT cfg env P m Q :=
  fun st hi hz hp => h st.sys.runs st hi hz ⟨rfl, hp⟩

/-- fix the histories the operation starts from; what the precondition says about them becomes a hypothesis -/
theorem HT.fix {m : M α} (h : ∀ R0, P R0 → HT cfg env (fun R => R = R0) m Q) : HT cfg env P m Q :=
  fun st hi hz hp => h st.sys.runs hp st hi hz rfl

/-- a state-independent part of the precondition becomes a hypothesis -/
theorem HT.pull {φ : Prop} {m : M α} (h : φ → HT cfg env P m Q) : HT cfg env (fun R => P R ∧ φ) m Q :=
  fun st hi hz hp => h hp.2 st hi hz hp.1

/-- a state-independent consequence of the precondition becomes a hypothesis -/
theorem HT.assume {φ : Prop} {m : M α} (hp : ∀ R, P R → φ) (h : φ → HT cfg env P m Q) : HT cfg env P m Q :=
  fun st hi hz hpp => h (hp _ hpp) st hi hz hpp

/-- a precondition that cannot hold -/
theorem HT.absurd {m : M α} (h : ∀ R, ¬ P R) : HT cfg env P m Q := fun st _ _ hp => (h _ hp).elim

theorem HT.throwA (a : Abort) : HT cfg env P (Engine.throwA a : M α) Q :=
  fun _ hi hz _ => ⟨hi, hz, fun _ h => by cases h⟩

theorem HT.getSys : HT cfg env P Engine.getSys (fun s R => P R ∧ s.runs = R ∧ Inv cfg s) :=
  fun _ hi hz hp => ⟨hi, hz, fun a h => by cases h; exact ⟨hp, rfl, hi⟩⟩

theorem HT.emit (l : String) : HT cfg env P (Engine.emit l) (fun _ => P) :=
  fun _ hi hz hp => ⟨hi, hz, fun _ _ => hp⟩

theorem HT.emitIf (c : Bool) (l : String) : HT cfg env P (Engine.emitIf c l) (fun _ => P) := by
  intro st hi hz hp
  unfold Engine.emitIf
  cases c <;> exact ⟨hi, hz, fun _ _ => hp⟩

theorem HT.isCancelled : HT cfg env P Engine.isCancelled (fun _ => P) :=
  fun _ hi hz hp => ⟨hi, hz, fun _ _ => hp⟩

theorem HT.openedReceiver : HT cfg env P Engine.openedReceiver (fun _ => P) :=
  fun _ hi hz hp => ⟨hi, hz, fun _ _ => hp⟩

theorem HT.loseLease : HT cfg env P Engine.loseLease (fun _ => P) :=
  fun _ hi hz hp => ⟨hi, hz, fun _ _ => hp⟩

/-- the environment never lets a user function re-enter the API -/
def NoNested (env : Env) : Prop := ∀ o ∈ env.outcomes, ∀ x, o ≠ Outcome.nested x

theorem HT.nextOutcome (hn : NoNested env) :
    HT cfg env P Engine.nextOutcome (fun o R => P R ∧ ∀ x, o ≠ Outcome.nested x) := by
  intro st hi hz hp
  refine ⟨hi, hz, fun o ho => ⟨hp, ?_⟩⟩
  simp only [Engine.nextOutcome, Except.ok.injEq] at ho
  subst ho
  intro x
  cases hget : env.outcomes[st.outI]? with
  | none => simp
  | some o =>
    simp only [Option.getD_some]
    exact hn o (List.mem_of_getElem? hget) x

theorem HT.modifySys {f : Sys → Sys} (hf : ∀ s, (f s).runs = s.runs) (hr : ∀ s, RelayInv s → RelayInv (f s)) :
    HT cfg env P (Engine.modifySys f) (fun _ => P) := by
  intro st hi hz hp
  refine ⟨hi.frame (hf _) (hr _ hi.relay), hz, fun _ _ => ?_⟩
  show P (f st.sys).runs
  rw [hf]; exact hp

theorem HT.tryM {m : M α} (h : HT cfg env P m Q) :
    HT cfg env P (Engine.tryM m) (fun r R => ∀ a, r = .ok a → Q a R) := by
  intro st hi hz hp
  obtain ⟨hi', hz', hq⟩ := h st hi hz hp
  unfold Engine.tryM
  rcases hm : m env st with ⟨r, st'⟩
  rw [hm] at hi' hz' hq
  cases r with
  | ok a => exact ⟨hi', hz', fun r hr a' ha' => by cases hr; cases ha'; exact hq a rfl⟩
  | error e => exact ⟨hi', hz', fun r hr a' ha' => by cases hr; cases ha'⟩

theorem call_stale {l : String} {eff : Sys → (String × Except Abort α × Sys)} (env : Env) (st : OpSt) :
    (Engine.call l eff env st).2.stale = st.stale := by
  unfold Engine.call
  split
  · rfl
  · split <;> rfl

/-- an adapter call that leaves the histories alone -/
theorem HT.call_frame {l : String} {eff : Sys → (String × Except Abort α × Sys)}
    (hf : ∀ s, (eff s).2.2.runs = s.runs) (hr : ∀ s, RelayInv s → RelayInv (eff s).2.2) :
    HT cfg env P (Engine.call l eff) (fun _ => P) := by
  intro st hi hz hp
  have hs := call_sys l eff env st
  refine ⟨?_, by rw [call_stale]; exact hz, fun _ _ => ?_⟩
  · rcases hs with ⟨h, _⟩ | h
    · rw [h]; exact hi
    · rw [h]; exact hi.frame (hf _) (hr _ hi.relay)
  · rcases hs with ⟨h, _⟩ | h
    · rw [h]; exact hp
    · rw [h, hf]; exact hp

/-- a read: `Sys` untouched, the value is the one computed from the state -/
theorem HT.call_read {l : String} {eff : Sys → (String × Except Abort α × Sys)} (hro : ∀ s, (eff s).2.2 = s) :
    HT cfg env P (Engine.call l eff) (fun a R => P R ∧ ∃ s, Inv cfg s ∧ s.runs = R ∧ (eff s).2.1 = .ok a) := by
  intro st hi hz hp
  have hs := call_sys l eff env st
  have hsys : (Engine.call l eff env st).2.sys = st.sys := by
    rcases hs with ⟨h, _⟩ | h
    · exact h
    · rw [h, hro]
  refine ⟨by rw [hsys]; exact hi, by rw [call_stale]; exact hz, fun a ha => ?_⟩
  rw [hsys]
  refine ⟨hp, st.sys, hi, rfl, ?_⟩
  rcases hc : Engine.call l eff env st with ⟨r, st'⟩
  rw [hc] at ha
  simp only at ha
  subst ha
  exact (call_ok hc).1

theorem HT.lookup (rid : RunId) : HT cfg env P (Engine.lookup rid) (fun v R => P R ∧ v = curR R rid) := by
  intro st hi hz hp
  rcases hl : Engine.lookup rid env st with ⟨r, st'⟩
  cases r with
  | error e =>
    have := lookup_err hl
    have hst : st'.stale = 0 := by
      unfold Engine.lookup at hl
      have := call_stale (l := "lookup") (eff := fun s => ((lookupRes s rid st.stale).1, (.ok (lookupRes s rid st.stale).2 : Except Abort (Option Rec)), s)) env { st with stale := 0 }
      rw [hl] at this
      exact this
    exact ⟨by rw [this.1]; exact hi, hst, fun _ h => by cases h⟩
  | ok v =>
    obtain ⟨hv, hsys, _, hst, _⟩ := lookup_ok hl
    refine ⟨by rw [hsys]; exact hi, hst, fun a ha => ?_⟩
    cases ha
    simp only
    rw [hsys]
    refine ⟨hp, ?_⟩
    rw [hv, hz, lookupRes_fresh, cur_eq_curR]

/-- what `Latest` answers, as a function of the histories -/
def latestR (R : List RunS) (fid : Fid) : Option Rec := (R.reverse.find? (fun r => r.fid == fid)).bind (·.hist.head?)

theorem latestRes_eq (s : Sys) (fid : Fid) : latestRes s fid = latestR s.runs fid := rfl

theorem HT.latest (fid : Fid) : HT cfg env P (Engine.latest fid) (fun v R => P R ∧ v = latestR R fid) := by
  unfold Engine.latest
  refine HT.post (HT.call_read (fun _ => rfl)) ?_
  intro a s _ ⟨hp, s', _, hs', hv⟩
  refine ⟨hp, ?_⟩
  simp only [Except.ok.injEq] at hv
  rw [← hv, latestRes_eq, hs']

theorem LegalNew.stamp {R : List RunS} {w : Rec} (h : LegalNew R w) (t : Int) : LegalNew R { w with updatedAt := t } := h

theorem HT.store (w : Rec) : HT cfg env (fun R => Legal cfg R w ∧ LegalNew R w) (Engine.store cfg w) (fun _ _ => True) := by
  intro st hi hz hp
  have hs := store_run_any cfg w env st
  refine ⟨?_, ?_, fun _ _ => trivial⟩
  · rcases hs.1 with h | h
    · rw [h]; exact hi
    · rw [h]
      refine ⟨hi.hist.write hp.1, hi.relay.write cfg w, ?_⟩
      rw [write_runs']
      split
      · exact hi.one.writeRuns (hp.1.stamp _) (hp.2.stamp _)
      · exact hi.one.writeRuns hp.1 hp.2
  · unfold Engine.store; rw [call_stale]; exact hz

theorem HT.updateRecord (r : Rec) :
    HT cfg env (fun R => Legal cfg R { r with version := r.version + 1 } ∧ LegalNew R { r with version := r.version + 1 })
      (Engine.updateRecord cfg r) (fun _ _ => True) := by
  unfold Engine.updateRecord; exact HT.store _

theorem HT.ack (p : Proc) (i : Nat) : HT cfg env P (Engine.ack p i) (fun _ => P) := by
  have hc : HT cfg env P (Engine.call s!"ack(e{i})" (fun s => (("", .ok (), s.setCursor p (i + 1)) : String × Except Abort Unit × Sys))) (fun _ => P) :=
    HT.call_frame (fun _ => rfl) (fun s h => (RelayInv.stable cfg).setCursor s p (i + 1) h)
  intro st hi hz hp
  unfold Engine.ack
  split
  · exact hc { st with cancelled := false } hi hz hp
  · exact hc st hi hz hp

theorem HT.forM {γ : Type} {f : γ → M PUnit} (l : List γ) (h : ∀ x, HT cfg env P (f x) (fun _ => P)) :
    HT cfg env P (l.forM f) (fun _ => P) := by
  induction l with
  | nil => exact HT.pure (fun _ hp => hp)
  | cons x xs ih =>
    show HT cfg env P (List.forM (x :: xs) f) (fun _ => P)
    unfold List.forM
    exact HT.bind (h x) (fun _ => ih)

/-- a composite operation that never stores: from the unconditional preservation lemmas -/
theorem HT.of_pres {m : M α} (hr : Pres RelayInv m) (hruns : ∀ R, Pres (fun s => s.runs = R) m)
    (hz : ∀ st, st.stale = 0 → (m env st).2.stale = 0) : HT cfg env P m (fun _ => P) := by
  intro st hi hzz hp
  have h1 := hruns st.sys.runs env st rfl
  exact ⟨hi.frame h1 (hr env st hi.relay), hz st hzz, fun _ _ => by rw [h1]; exact hp⟩

end WorkflowModel.Engine

namespace WorkflowModel.Engine
open WorkflowModel
/-! ## operations that never touch the histories: a frame judgement that also covers aborted runs -/

/-- `m` leaves the histories alone and keeps reads current, however it ends -/
def Fr {α : Type} (m : M α) : Prop :=
  ∀ env st, (m env st).2.sys.runs = st.sys.runs ∧ ((m env st).2.stale = st.stale ∨ (m env st).2.stale = 0)

variable {α β : Type}

theorem Fr.pure (a : α) : Fr (Pure.pure a : M α) := fun _ _ => ⟨rfl, Or.inl rfl⟩
theorem Fr.throwA (a : Abort) : Fr (Engine.throwA a : M α) := fun _ _ => ⟨rfl, Or.inl rfl⟩
theorem Fr.emit (l : String) : Fr (Engine.emit l) := fun _ _ => ⟨rfl, Or.inl rfl⟩
theorem Fr.getSys : Fr Engine.getSys := fun _ _ => ⟨rfl, Or.inl rfl⟩
theorem Fr.nextOutcome : Fr Engine.nextOutcome := fun _ _ => ⟨rfl, Or.inl rfl⟩
theorem Fr.loseLease : Fr Engine.loseLease := fun _ _ => ⟨rfl, Or.inl rfl⟩

theorem Fr.bind {m : M α} {f : α → M β} (h1 : Fr m) (h2 : ∀ a, Fr (f a)) : Fr (m >>= f) := by
  intro env st
  rw [bind_run]
  have := h1 env st
  rcases hm : m env st with ⟨r, st'⟩
  rw [hm] at this
  cases r with
  | error e => exact this
  | ok a =>
    have h := h2 a env st'
    refine ⟨by rw [h.1, this.1], ?_⟩
    rcases h.2 with h' | h'
    · rw [h']; exact this.2
    · exact Or.inr h'

theorem Fr.tryM {m : M α} (h : Fr m) : Fr (Engine.tryM m) := by
  intro env st
  have := h env st
  unfold Engine.tryM
  rcases hm : m env st with ⟨r, st'⟩
  rw [hm] at this
  cases r <;> exact this

theorem Fr.call {l : String} {eff : Sys → (String × Except Abort α × Sys)} (hf : ∀ s, (eff s).2.2.runs = s.runs) :
    Fr (Engine.call l eff) := by
  intro env st
  refine ⟨?_, Or.inl (call_stale env st)⟩
  rcases call_sys l eff env st with ⟨h, _⟩ | h
  · rw [h]
  · rw [h, hf]

theorem Fr.forM {γ : Type} {f : γ → M PUnit} (l : List γ) (h : ∀ x, Fr (f x)) : Fr (l.forM f) := by
  induction l with
  | nil => exact Fr.pure _
  | cons x xs ih =>
    show Fr (List.forM (x :: xs) f)
    unfold List.forM
    exact Fr.bind (h x) (fun _ => ih)

variable {cfg : Cfg} {env : Env} {P : List RunS → Prop}

/-- a frame operation preserves any statement about the histories -/
theorem HT.of_frame {m : M α} (hf : Fr m) (hr : Pres RelayInv m) : HT cfg env P m (fun _ => P) := by
  intro st hi hz hp
  have h := hf env st
  refine ⟨hi.frame h.1 (hr env st hi.relay), ?_, fun _ _ => by rw [h.1]; exact hp⟩
  rcases h.2 with h' | h'
  · rw [h']; exact hz
  · exact h'

end WorkflowModel.Engine
