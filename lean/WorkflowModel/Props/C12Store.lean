import WorkflowModel.Model.Adapters.RefTimeouts
import WorkflowModel.Generated.Guards
/-! # C12 (store clauses) — the bundled timeout stores against the contract `RefTimeouts`

"list a timer as due exactly when it matches workflow and status, is neither completed nor cancelled and expired before
the queried instant (at the exact instant either answer is accepted), and cancelling or completing one timer — or an
unknown ID — never affects another". Laws of the contract; `memtimeoutstore` (and `sqltimeout`, C18) are tied to it by
the differential suites `mem-timeoutstore` / `sql-timeoutstore`. -/
namespace WorkflowModel.C12Store
open WorkflowModel.RefTimeouts

theorem C12_due_iff (s : TStore) (wf : Nat) (status now : Int) (t : T) :
    t ∈ s.listValid wf status now false ↔ (t ∈ s.ts ∧ t.wf = wf ∧ t.status = status ∧ t.completed = false ∧ t.expire < now) := by
  simp [TStore.listValid, and_assoc]

/-- at the exact instant either answer is accepted: the inclusive listing adds exactly the timers expiring AT `now` -/
theorem C12_due_incl_iff (s : TStore) (wf : Nat) (status now : Int) (t : T) :
    t ∈ s.listValid wf status now true ↔ (t ∈ s.ts ∧ t.wf = wf ∧ t.status = status ∧ t.completed = false ∧ t.expire ≤ now) := by
  simp only [TStore.listValid, List.mem_filter, Bool.and_eq_true, beq_iff_eq, Bool.not_eq_true', Bool.or_eq_true,
    decide_eq_true_iff, Bool.true_and, and_assoc]
  constructor
  · rintro ⟨h1, h2, h3, h4, h5⟩; exact ⟨h1, h2, h3, h4, by omega⟩
  · rintro ⟨h1, h2, h3, h4, h5⟩; exact ⟨h1, h2, h3, h4, by omega⟩

/-- an unknown ID changes nothing — for complete and for cancel -/
theorem C12_unknown_id_noop (s : TStore) (id : Nat) (h : ∀ t ∈ s.ts, t.id ≠ id) :
    s.complete id = s ∧ s.cancel id = s := by
  constructor
  · unfold TStore.complete
    have : s.ts.map (fun t => if t.id = id then { t with completed := true } else t) = s.ts := by
      conv => rhs; rw [← List.map_id s.ts]
      apply List.map_congr_left
      intro t ht; simp [h t ht]
    rw [this]
  · unfold TStore.cancel
    have : s.ts.filter (fun t => t.id != id) = s.ts := by
      rw [List.filter_eq_self]; intro t ht; simpa using h t ht
    rw [this]

/-- completing or cancelling one timer never affects another: every other timer is still there, unchanged -/
theorem C12_other_untouched (s : TStore) (id : Nat) (t : T) (ht : t.id ≠ id) :
    (t ∈ (s.complete id).ts ↔ t ∈ s.ts) ∧ (t ∈ (s.cancel id).ts ↔ t ∈ s.ts) := by
  constructor
  · simp only [TStore.complete, List.mem_map]
    constructor
    · rintro ⟨u, hu, rfl⟩
      by_cases h : u.id = id
      · simp [h] at ht
      · simpa [h] using hu
    · intro h; exact ⟨t, h, by simp [ht]⟩
  · simp [TStore.cancel, ht]

/-- a completed or cancelled timer is never listed as due again -/
theorem C12_never_again (s : TStore) (id : Nat) (wf : Nat) (status now : Int) (incl : Bool) :
    (∀ t ∈ (s.complete id).listValid wf status now incl, t.id ≠ id) ∧
    (∀ t ∈ (s.cancel id).listValid wf status now incl, t.id ≠ id) := by
  constructor
  · intro t ht
    simp only [TStore.listValid, TStore.complete, List.mem_filter, List.mem_map] at ht
    obtain ⟨⟨u, _, rfl⟩, h2⟩ := ht
    by_cases h : u.id = id
    · simp [h] at h2
    · simpa [h] using h
  · intro t ht
    simp only [TStore.listValid, TStore.cancel, List.mem_filter] at ht
    simpa using ht.1.2

/-- IDs are unique in every reachable store -/
def Inv (s : TStore) : Prop := (∀ t ∈ s.ts, t.id < s.next) ∧ s.ts.Pairwise (fun a b => a.id ≠ b.id)

theorem inv_init : Inv {} := ⟨by simp, by simp⟩

theorem inv_create (s : TStore) (wf fid rid : Nat) (st ex : Int) (h : Inv s) : Inv (s.create wf fid rid st ex) := by
  refine ⟨?_, ?_⟩
  · intro t ht
    simp only [TStore.create, List.mem_append, List.mem_singleton] at ht ⊢
    rcases ht with ht | rfl
    · have := h.1 t ht; omega
    · simp
  · simp only [TStore.create]
    rw [List.pairwise_append]
    refine ⟨h.2, by simp, ?_⟩
    intro a ha b hb
    simp only [List.mem_singleton] at hb; subst hb
    have := h.1 a ha; simp; omega

theorem inv_complete (s : TStore) (id : Nat) (h : Inv s) : Inv (s.complete id) := by
  refine ⟨?_, ?_⟩
  · intro t ht
    simp only [TStore.complete, List.mem_map] at ht
    obtain ⟨u, hu, rfl⟩ := ht
    have := h.1 u hu
    by_cases hi : u.id = id <;> simp [hi] <;> simpa [TStore.complete, hi] using this
  · simp only [TStore.complete]
    rw [List.pairwise_map]
    refine h.2.imp ?_
    intro a b hab
    by_cases ha : a.id = id <;> by_cases hb : b.id = id <;> simp [ha, hb] <;> simp_all

theorem inv_cancel (s : TStore) (id : Nat) (h : Inv s) : Inv (s.cancel id) :=
  ⟨fun t ht => h.1 t (List.mem_filter.mp ht).1, h.2.sublist List.filter_sublist⟩

/-- regenerated tie (T2): memtimeoutstore's "not yet due" test, as extracted from the current source, skips exactly the
timers expiring after the queried instant (so it lists the inclusive variant) -/
theorem C12_tie_mem_due (e n : Int) : Gen.G.memTimeoutNotDue e n = false ↔ e ≤ n := by
  simp only [Gen.G.memTimeoutNotDue, decide_eq_false_iff_not]; omega

/-- non-vacuity: two timers, the first completed, the second due at 6 but not at 5 (strict) -/
example :
    let s := (({} : TStore).create 0 0 0 3 5).create 0 1 1 3 5 |>.complete 1
    (s.listValid 0 3 6 false).map (·.id) = [2] ∧ (s.listValid 0 3 5 false).map (·.id) = [] ∧
    (s.listValid 0 3 5 true).map (·.id) = [2] ∧ (s.cancel 99).ts.length = 2 := by decide

end WorkflowModel.C12Store
