import WorkflowModel.Lemmas.Local
import WorkflowModel.Props.C03Table
import WorkflowModel.Props.C02Graph
/-! # C03 (engine part) — what the four write paths write, and when they refuse

Every write to a run is made by `trigger`, the updater, the run-state controller or the delete consumer. Here: the
controller rejects without any write; accepted controller writes, updater writes and delete writes are lifecycle edges
from the record they are based on; Completed is written exactly for terminal destinations. The path statement over
whole histories needs every write to be based on a CURRENT read; on the unchanged tree that fails for re-entrant user
functions, stale handles and lagging reads (findings F20, F17, F16), which is where the harness's lifecycle monitor
reports them. -/
namespace WorkflowModel.C03
open WorkflowModel Engine RS

/-- A controller operation the table does not allow is rejected without any adapter call: state, trace and fault
position are untouched — for all run states (also out of range) and all four operations. -/
theorem C03_ctl_rejects_without_write (cfg : Cfg) (mem : Rec) (op : CtlOp) (env : Env) (st : OpSt)
    (h : allowed mem.runState (target op) = false) :
    ctlUpdateMem cfg mem op env st = (.ok (mem, some (.err (errInvalidRunState mem.runState (target op)))), st) := by
  simp [ctlUpdateMem, h, pure_run]

/-- An accepted controller operation writes — if anything — the record it holds with the target run state, the next
version, and nothing else changed (status, object, identity, creation time). The edge is a lifecycle edge. -/
theorem C03_ctl_accepted_write (cfg : Cfg) (mem : Rec) (op : CtlOp) (env : Env) (st : OpSt)
    (h : allowed mem.runState (target op) = true) :
    let w : Rec := { mem with runState := target op, reason := ctlReason op, version := mem.version + 1 }
    ((ctlUpdateMem cfg mem op env st).2.sys = st.sys ∨ (ctlUpdateMem cfg mem op env st).2.sys = st.sys.write cfg w) ∧
    Lifecycle mem.runState w.runState ∧ w.status = mem.status ∧ w.obj = mem.obj ∧ w.runId = mem.runId := by
  intro w
  refine ⟨?_, C03_table_sound _ _ h, rfl, rfl, rfl⟩
  unfold ctlUpdateMem
  simp only [h, if_true]
  rw [bind_run]
  unfold Engine.tryM
  have := store_run_any cfg w env st
  rcases hst : store cfg w env st with ⟨r, st'⟩
  rw [hst] at this
  cases r <;> exact this.1

/-- The web-UI handler and `ctlFresh` look the run up and operate at once: when the table rejects, nothing is stored. -/
theorem C03_fresh_ctl_rejects_without_write (cfg : Cfg) (rid : RunId) (op : CtlOp) (env : Env) (st : OpSt) (r : Rec)
    (hread : (lookupRes st.sys rid st.stale).2 = some r) (h : allowed r.runState (target op) = false) :
    (ctlFreshApi cfg rid op env st).2.sys = st.sys ∧ ∃ a, (ctlFreshApi cfg rid op env st).1 = .error a := by
  unfold ctlFreshApi
  rw [bind_run]
  simp only [Engine.getSys]
  split
  · exact ⟨rfl, _, rfl⟩
  · rw [bind_run]
    rcases hl : lookup rid env st with ⟨v, st'⟩
    cases v with
    | error a => exact ⟨(lookup_err hl).1, a, rfl⟩
    | ok v =>
      obtain ⟨hv, hsys, _⟩ := lookup_ok hl
      rw [hread] at hv; subst hv
      simp only []
      rw [bind_run]
      unfold ctlUpdate
      rw [bind_run, C03_ctl_rejects_without_write cfg r op env st' h]
      exact ⟨hsys, _, rfl⟩

/-- The updater writes Completed exactly when the destination is terminal, Running otherwise — and terminal is
"a destination that is never a source", whatever the order of the builder calls (C02Graph). -/
theorem C03_updater_completed_iff_terminal (cfg : Cfg) (next : Status) (run : Rec) (o : Obj) (now : Int) :
    ((updaterRec cfg next run o now).runState = 5 ↔ Graph.isTerminal cfg.graph next = true) ∧
    ((updaterRec cfg next run o now).runState = 2 ↔ Graph.isTerminal cfg.graph next = false) ∧
    (updaterRec cfg next run o now).status = next := by
  unfold updaterRec
  cases Graph.isTerminal cfg.graph next <;> simp [Gen.RunStateCompleted, Gen.RunStateRunning]

/-- … and that record, with the next version, is the only thing the updater can write. -/
theorem C03_updater_writes_only_that (cfg : Cfg) (current next : Status) (run : Rec) (o : Obj) (env : Env) (st : OpSt) :
    (updater cfg current next run o env st).2.sys = st.sys ∨
    (updater cfg current next run o env st).2.sys =
      st.sys.write cfg { updaterRec cfg next run o st.sys.now with version := run.version + 1 } := by
  unfold updater
  rw [bind_run]
  simp only [Engine.getSys]
  rw [bind_run]
  rcases hl : lookup run.runId env st with ⟨v, st'⟩
  cases v with
  | error a => exact Or.inl (lookup_err hl).1
  | ok v =>
    obtain ⟨_, hsys, _⟩ := lookup_ok hl
    cases v with
    | none => exact Or.inl hsys
    | some latest =>
      simp only []
      split
      · exact Or.inl hsys
      · split
        · exact Or.inl hsys
        · unfold updateRecord
          have := store_run_any cfg { updaterRec cfg next run o st.sys.now with version := run.version + 1 } env st'
          rw [hsys] at this
          exact this.1

/-- From Initiated or Running (the only states in which a step, callback or timeout function is run — C08) an updater
write is a lifecycle edge. -/
theorem C03_updater_edge (a : Int) (term : Bool) (h : a = 1 ∨ a = 2) : Lifecycle a (if term then 5 else 2) := by
  unfold Lifecycle; cases term <;> simp <;> omega

/-- The delete consumer writes DataDeleted; from RequestedDataDeleted or DataDeleted (the only states reachable once the
delete request was written — `C03_after_rdd`) that is a lifecycle edge. -/
theorem C03_delete_edge (a : Int) (h : a = 6 ∨ a = 7) : Lifecycle a 6 := by
  unfold Lifecycle; omega

end WorkflowModel.C03
