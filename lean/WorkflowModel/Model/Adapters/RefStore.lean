/-! # RefStore: the transactional record-store contract (reference model for C17 / C18)

Simple by construction: the runs in creation order, each with its latest stored record; the outbox as a list. `Store`
saves a private copy and appends one outbox entry; `Lookup`/`Latest` return copies (values are immutable here, so
caller-side mutation cannot reach the store); `Latest` = newest CREATED run of (workflow, foreign ID); `List` =
filter |> order |> drop offset |> take limit; the outbox lists undeleted entries oldest first up to the limit. -/
namespace WorkflowModel.RefStore

structure SRec where
  wf : Nat
  fid : Nat
  rid : Nat
  rs : Int
  st : Int
  obj : Nat
  ver : Nat
deriving DecidableEq, Repr, Inhabited

structure OEntry where
  id : Nat
  wf : Nat
  srec : SRec
deriving DecidableEq, Repr, Inhabited

structure Store where
  recs : List SRec := []      -- creation order; one entry per run ID (its latest record)
  outbox : List OEntry := []
  nextId : Nat := 0
deriving Repr, Inhabited

def Store.store (s : Store) (r : SRec) : Store :=
  { recs := if s.recs.any (·.rid == r.rid) then s.recs.map (fun x => if x.rid == r.rid then r else x) else s.recs ++ [r],
    outbox := s.outbox ++ [{ id := s.nextId, wf := r.wf, srec := r }],
    nextId := s.nextId + 1 }

def Store.lookup (s : Store) (rid : Nat) : Option SRec := s.recs.find? (·.rid == rid)

def Store.latest (s : Store) (wf fid : Nat) : Option SRec := s.recs.reverse.find? (fun r => r.wf == wf && r.fid == fid)

/-- a filter: none = disabled, some vs = any of the values -/
structure Filter where
  fids : Option (List Nat) := none
  sts : Option (List Int) := none
  rss : Option (List Int) := none
deriving Repr, Inhabited

def Filter.matches (f : Filter) (r : SRec) : Bool :=
  (match f.fids with | none => true | some l => l.contains r.fid) &&
  (match f.sts with | none => true | some l => l.contains r.st) &&
  (match f.rss with | none => true | some l => l.contains r.rs)

def defaultListLimit : Nat := 25

/-- the matching runs in the requested order: creation order, newest first when descending.
`wf = none` means "all workflows" (empty workflow name) -/
def Store.matching (s : Store) (wf : Option Nat) (desc : Bool) (f : Filter) : List SRec :=
  let l := s.recs.filter (fun r => (match wf with | none => true | some w => r.wf == w) && f.matches r)
  if desc then l.reverse else l

/-- `List`: limit 0 means the default limit -/
def Store.list (s : Store) (wf : Option Nat) (offset : Nat) (limit : Nat) (desc : Bool) (f : Filter) : List SRec :=
  ((s.matching wf desc f).drop offset).take (if limit = 0 then defaultListLimit else limit)

def Store.listOutbox (s : Store) (wf : Nat) (limit : Int) : List OEntry :=
  (s.outbox.filter (·.wf == wf)).take limit.toNat

def Store.deleteOutbox (s : Store) (id : Nat) : Store := { s with outbox := s.outbox.filter (·.id != id) }

end WorkflowModel.RefStore
