import WorkflowModel.Model.Engine
/-! # Executable mirror of the history invariant

`histOK cfg s` decides whether every run of `s` has a legal write history (`Lemmas/Hist.lean` proves it equivalent to
`HistInv`). The model driver evaluates it on co-simulated histories; `Props/History.lean` uses it for the witnesses that
each hypothesis of `history_inv` is necessary. -/
namespace WorkflowModel.Engine
open WorkflowModel RS

def recOKb (cfg : Cfg) (w : Rec) : Bool :=
  decide (1 ≤ w.runState) && decide (w.runState ≤ 7) &&
  (w.runState != 5 || Graph.isTerminal cfg.graph w.status) && w.descr == w.status

def initOKb (cfg : Cfg) (w : Rec) : Bool :=
  w.version == 1 && w.runState == 1 && Graph.isValid cfg.graph w.status

def edgeb (cfg : Cfg) (a b : Rec) : Bool :=
  b.version == a.version + 1 && b.runId == a.runId && b.fid == a.fid && b.createdAt == a.createdAt &&
  ( (b.status == a.status && b.obj == a.obj && (allowed a.runState b.runState || allowed (view a.runState) b.runState)) ||
    ((a.runState == 1 || a.runState == 2) && cfg.edges.contains (a.status, b.status) &&
      b.runState == (if Graph.isTerminal cfg.graph b.status then 5 else 2)) ||
    ((a.runState == 7 || a.runState == 6) && b.runState == 6 && b.status == a.status) )

def chainb (cfg : Cfg) : List Rec → Bool
  | [] => false
  | [w] => initOKb cfg w
  | b :: a :: t => edgeb cfg a b && chainb cfg (a :: t)

def runOKb (cfg : Cfg) (i : Nat) (x : RunS) : Bool :=
  chainb cfg x.hist && x.hist.all (fun w => w.runId == i && w.fid == x.fid && recOKb cfg w)

def histOK (cfg : Cfg) (s : Sys) : Bool := (s.runs.zipIdx).all (fun p => runOKb cfg p.2 p.1)

end WorkflowModel.Engine

namespace WorkflowModel.Engine
open WorkflowModel RS

/-- an event with the streamer's time stamp removed (same as `core` of the lemma files) -/
def coreEv (e : Event) : Event := { e with createdAt := 0 }

/-- executable mirror of `PendingAt` (Lemmas/Token.lean): the announcement of `w` is in the outbox, or published at an index
that no step-consumer process of `w`'s status which handles it has passed. Processes without a stored cursor are at 0. -/
def pendingAtB (s : Sys) (w : Rec) : Bool :=
  s.outbox.any (fun o => o.ev == Routing.route w) ||
  (List.range s.log.length).any (fun i =>
    match s.log[i]? with
    | none => false
    | some e => coreEv e == Routing.route w &&
        s.cursors.all (fun pc => match pc.1 with
          | .step st k n => st != w.status || filteredOut (.step st k n) i e || decide (s.cursor (.step st k n) ≤ i)
          | _ => true))

/-- every run persisted Initiated or Running has its announcement pending -/
def tokOK (s : Sys) : Bool :=
  s.runs.all (fun x => match x.hist.head? with
    | none => true
    | some w => !(w.runState == 1 || w.runState == 2) || pendingAtB s w)

end WorkflowModel.Engine

namespace WorkflowModel.Engine
open WorkflowModel RS

/-- the persisted record of the run is finished -/
def finHeadB (x : RunS) : Bool :=
  match x.hist.head? with
  | some h => h.runState == 4 || h.runState == 5 || h.runState == 6 || h.runState == 7
  | none => false

/-- executable mirror of `OneUnf`: of two runs of one foreign ID the earlier created one is finished -/
def oneUnfB (s : Sys) : Bool :=
  (List.range s.runs.length).all (fun i => (List.range s.runs.length).all (fun j =>
    !(decide (i < j)) ||
      match s.runs[i]?, s.runs[j]? with
      | some x, some y => x.fid != y.fid || finHeadB x
      | _, _ => true))

end WorkflowModel.Engine
