import WorkflowModel.Lemmas.Local
import WorkflowModel.Props.C06
import WorkflowModel.Props.C03Table
/-! # C08 — Paused and cancelled runs are left alone; resume continues from the same status

"No function is invoked" = no user-function outcome is consumed (`outI` unchanged) and the handler does not depend on
the function. The stopped tests are `Gen.G.stepStopped`, `Gen.stopped` (callback path, since the repair of F1),
`Gen.G.pollCancel`, `Gen.G.pollSkipStopped`: regenerated from the source on every run. Stopped = Paused(3),
Cancelled(4), DataDeleted(6), RequestedDataDeleted(7). -/
namespace WorkflowModel.C08
open WorkflowModel Engine

def Stopped (rs : Int) : Prop := rs = 3 ∨ rs = 4 ∨ rs = 6 ∨ rs = 7

/-- Step consumers and the timeout inserter (decision logic): whatever the versions, for a stopped run the function is
not run: the gate returns at once (skip) or fails at once (stale read) — it never reaches `stepRun`. -/
theorem C08_step_gate_stopped (cfg : Cfg) (p : Proc) (pa : Int) (e : Event) (record : Rec)
    (fn : Rec → M (Except Abort FnRes × Rec)) (env : Env) (st : OpSt) (hs : Stopped record.runState) :
    stepGate cfg p pa e record fn env st = (.ok (), st) ∨ stepGate cfg p pa e record fn env st = (.error (.err errStale), st) := by
  have h : Gen.G.stepStopped record.runState = true := by
    simp [Gen.G.stepStopped, (C03.C03_stopped_agrees record.runState).mpr hs]
  unfold stepGate
  split
  · exact Or.inl rfl
  · split
    · exact Or.inr rfl
    · first | exact Or.inl rfl | (rw [if_pos h]; exact Or.inl rfl)

/-- … lifted to the handler, for every environment: nothing written, nothing invoked. -/
theorem C08_step_not_invoked_while_stopped (cfg : Cfg) (p : Proc) (status : Status) (pa : Int) (e : Event)
    (fn : Rec → M (Except Abort FnRes × Rec)) (env : Env) (st : OpSt) (record : Rec)
    (hread : (lookupRes st.sys e.runId st.stale).2 = some record) (hs : Stopped record.runState) :
    (stepHandle cfg p status pa e fn env st).2.sys = st.sys ∧ (stepHandle cfg p status pa e fn env st).2.outI = st.outI := by
  rw [stepHandle_run]
  rcases hl : lookup e.runId env st with ⟨r, st'⟩
  cases r with
  | error a => exact lookup_err hl
  | ok v =>
    obtain ⟨hv, hsys, hout, _⟩ := lookup_ok hl
    rw [hread] at hv; subst hv
    simp only []
    rcases C08_step_gate_stopped cfg p pa e record fn env st' hs with h | h <;> rw [h] <;> exact ⟨hsys, hout⟩

/-- Callback (decision logic): for a stopped run the callback function is not run and nothing is written. -/
theorem C08_callback_gate_stopped (cfg : Cfg) (status : Status) (wr : Rec) (runner : Rec → M (Except Abort FnRes × Rec))
    (env : Env) (st : OpSt) (hs : Stopped wr.runState) : callbackGate cfg status wr runner env st = (.ok (), st) := by
  have h : Gen.stopped wr.runState = true := (C03.C03_stopped_agrees wr.runState).mpr hs
  unfold callbackGate
  split
  · rfl
  · first | rfl | (rw [if_pos h]; rfl)

/-- … for every registered callback of the status, in every environment. -/
theorem C08_callback_not_invoked_while_stopped (cfg : Cfg) (fid : Fid) (status : Status)
    (runner : Rec → M (Except Abort FnRes × Rec)) (env : Env) (st : OpSt) (record : Rec)
    (hlatest : latestRes st.sys fid = some record) (hs : Stopped record.runState) :
    (callbackOne cfg fid status runner env st).2.sys = st.sys ∧ (callbackOne cfg fid status runner env st).2.outI = st.outI := by
  rw [callbackOne_run]
  rcases hl : latest fid env st with ⟨r, st'⟩
  cases r with
  | error a => exact latest_err hl
  | ok v =>
    obtain ⟨hv, hsys, hout, _⟩ := latest_ok hl
    rw [hlatest] at hv; subst hv
    simp only [C08_callback_gate_stopped cfg status record runner env st' hs]
    exact ⟨hsys, hout⟩

/-- Timeout poller (decision logic): for a due timer whose run is stopped the timer is cancelled (run finished, or no
longer at the status) or skipped (paused at the status); no timeout function runs. -/
theorem C08_poll_gate_stopped (cfg : Cfg) (p : Proc) (status : Status) (t : Timer) (r : Rec) (env : Env) (st : OpSt)
    (hs : Stopped r.runState) :
    pollGate cfg p status t r env st = (.ok (), st) ∨
    pollGate cfg p status t r env st = call s!"tcancel({t.id})" (fun s => ("", .ok (), s.timerCancel t.id)) env st := by
  have h : Gen.G.pollSkipStopped r.runState = true := by
    simp [Gen.G.pollSkipStopped, (C03.C03_stopped_agrees r.runState).mpr hs]
  unfold pollGate
  split
  · exact Or.inr rfl
  · first | exact Or.inl rfl | (rw [if_pos h]; exact Or.inl rfl)

/-- A paused run at the timer's status is skipped — the timer stays, nothing else happens. -/
theorem C08_poll_gate_paused (cfg : Cfg) (p : Proc) (status : Status) (t : Timer) (r : Rec) (env : Env) (st : OpSt)
    (hp : r.runState = 3) (hst : r.status = status) : pollGate cfg p status t r env st = (.ok (), st) := by
  have h1 : Gen.G.pollCancel r.status status r.runState = false := by
    simp [Gen.G.pollCancel, hst, hp, Gen.finished, Gen.finishedCases]
  have h2 : Gen.G.pollSkipStopped r.runState = true := by simp [Gen.G.pollSkipStopped, hp, Gen.stopped, Gen.stoppedCases]
  simp [pollGate, h1, h2, pure_run]

/-- Resume: on a Paused record the controller writes Running at the SAME status with the SAME object and the next
version, and that write is announced on the status topic of that status — so the step (or timeout insertion) of that
status runs again on the object as it was when paused. -/
theorem C08_resume_reannounces (cfg : Cfg) (mem : Rec) (st : OpSt) (hp : mem.runState = 3) (hc : st.cancelled = false) :
    let w : Rec := { mem with runState := 2, reason := 0, version := mem.version + 1 }
    ((ctlUpdateMem cfg mem .resume) {} st).2.sys = st.sys.write cfg w ∧
    w.status = mem.status ∧ w.obj = mem.obj ∧
    (Routing.route w).topicKind = 0 ∧ (Routing.route w).topicStatus = mem.status ∧ (Routing.route w).version = mem.version + 1 := by
  intro w
  have ht : RS.target .resume = 2 := by decide
  have ha : RS.allowed mem.runState 2 = true := by rw [hp]; decide
  refine ⟨?_, rfl, rfl, ?_, rfl, rfl⟩
  · have hs := store_run_ok cfg w {} st hc (by simp)
    unfold ctlUpdateMem
    simp only [ht, ha, if_true]
    rw [bind_run]
    unfold Engine.tryM
    have hw : ({ mem with runState := 2, reason := ctlReason .resume, version := mem.version + 1 } : Rec) = w := rfl
    rw [hw]
    rcases hst : store cfg w {} st with ⟨r, st'⟩
    rw [hst] at hs
    cases r with
    | ok _ => exact hs.2.1
    | error _ => simp at hs
  · simp [Routing.route, Gen.outboxTopicKind, w, Gen.RunStateRequestedDataDeleted, Gen.RunStatePaused, Gen.RunStateCancelled,
      Gen.RunStateDataDeleted, Gen.RunStateCompleted]

/-- A refused request leaves the CONTROLLER'S OWN record exactly as it was: the next request made through the same controller
(handle) is judged from the state the run was really in — in particular Pause, refused on a cancelled run, cannot make a
following Resume look legal. For every environment; nothing is written, no adapter is called. -/
theorem C08_refused_request_leaves_handle (cfg : Cfg) (mem : Rec) (op : RS.CtlOp) (env : Env) (st : OpSt)
    (h : RS.allowed mem.runState (RS.target op) = false) :
    (ctlUpdateMem cfg mem op env st).1 = .ok (mem, some (.err (errInvalidRunState mem.runState (RS.target op)))) ∧
    (ctlUpdateMem cfg mem op env st).2 = st := by
  unfold ctlUpdateMem
  simp only [h, Bool.false_eq_true, if_false]
  exact ⟨rfl, rfl⟩

/-- … so on a cancelled, data-deleted or deletion-requested run every Pause / Resume / Cancel made through one controller, in
any order and any number, is refused: the handle never leaves the stopped state it started in. -/
theorem C08_stopped_handle_stays (mem : Rec) (op : RS.CtlOp) (hs : mem.runState = 4 ∨ mem.runState = 6 ∨ mem.runState = 7)
    (hop : op = .pause ∨ op = .resume ∨ op = .cancel) : RS.allowed mem.runState (RS.target op) = false := by
  rcases hs with h | h | h <;> rcases hop with rfl | rfl | rfl <;> rw [h] <;> decide +kernel

/-- non-vacuity: pause at status 1 through a fresh controller, a redelivered pre-pause event does nothing, resume, the
step then runs once on the object it was paused with (7) and advances the run -/
example :
    let cfg : Cfg := { calls := [{ kind := .step, src := 1, dests := [2] }] }
    let s1 := runActs cfg {} [.trigger 0 0 7 {}, .step .outbox {}, .step (.step 1 1 1) {}, .ctl 0 .pause {},
      .step (.step 1 1 1) { outcomes := [.ret 2 99] }]
    let s2 := runActs cfg s1 [.ctl 0 .resume {}, .step .outbox {}, .step .outbox {}, .step (.step 1 1 1) { outcomes := [.ret 2 8] }]
    (s1.cur 0).map (fun r => (r.runState, r.status, r.obj)) = some (3, 1, 7) ∧
    (s2.cur 0).map (fun r => (r.runState, r.status, r.obj)) = some (5, 2, 8) := by
  decide +kernel

end WorkflowModel.C08
