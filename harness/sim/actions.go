package sim

import (
	"context"
	"errors"
	"fmt"
	"sort"
	"strconv"
	"strings"
	"time"

	"github.com/luno/workflow"
)

// Sim drives one real workflow through a list of actions.
type Sim struct {
	W      *World
	WF     *WF
	ctx    context.Context
	cancel context.CancelFunc
	nProcs int
	// role string -> canonical process token; and back
	Tok     map[string]string
	Role    map[string]string
	handles []*handle
	stopped bool
}

type handle struct {
	run int
	rec *workflow.Record
	ctl workflow.RunStateController
}

// expectedProcs lists the processes the property text demands for a configuration (C10), as token -> role.
func expectedProcs(c Config) map[string]string {
	out := map[string]string{}
	mk := workflow.VerifMakeRole
	out["ob"] = mk(c.Name, "outbox", "consumer")
	seenStep := map[int]bool{}
	seenTO := map[int]bool{}
	for _, b := range c.Calls {
		switch b.Kind {
		case "step":
			if seenStep[b.From] {
				continue
			}
			seenStep[b.From] = true
			p := c.EffectiveParallel(b.From)
			if p < 2 {
				out[fmt.Sprintf("st:%d:1:1", b.From)] = mk(c.Name, strconv.Itoa(b.From), "consumer", "1", "of", "1")
			} else {
				for i := 1; i <= p; i++ {
					out[fmt.Sprintf("st:%d:%d:%d", b.From, i, p)] = mk(c.Name, strconv.Itoa(b.From), "consumer", strconv.Itoa(i), "of", strconv.Itoa(p))
				}
			}
		case "timeout":
			if seenTO[b.From] {
				continue
			}
			seenTO[b.From] = true
			out[fmt.Sprintf("pol:%d", b.From)] = mk(c.Name, strconv.Itoa(b.From), "timeout-consumer")
			out[fmt.Sprintf("ins:%d", b.From)] = mk(c.Name, strconv.Itoa(b.From), "timeout-auto-inserter-consumer")
		}
	}
	for _, h := range c.Hooks {
		out[fmt.Sprintf("hk:%d", h)] = mk(c.Name, workflow.RunState(h).String(), "run-state-change-hook", "consumer")
	}
	out["del"] = mk(c.Name, "delete", "consumer")
	if c.RetryEnabled {
		out["rty"] = mk(c.Name, "paused", "records", "retry", "consumer")
	}
	return out
}

// NewSim builds the workflow, calls Run and waits until every process is parked at its role gate.
func NewSim(c Config) (*Sim, error) {
	runDecoyWorkflow()
	w := NewWorld(c.Name)
	s := &Sim{W: w, Tok: map[string]string{}, Role: map[string]string{}}
	for tok, role := range expectedProcs(c) {
		s.Tok[role] = tok
		s.Role[tok] = role
	}
	w.sim = s
	s.WF = w.Build(c)
	s.ctx, s.cancel = context.WithCancel(context.Background())
	s.WF.Run(s.ctx)
	s.nProcs = len(s.WF.States())
	if !w.S.waitParked(s.nProcs) {
		return nil, fmt.Errorf("sim: processes did not park after Run (states %v)", s.WF.States())
	}
	w.Mon.afterRun(s)
	return s, nil
}

// ProcInfo: where a process is parked and whether it can take a step.
type ProcInfo struct {
	Tok     string
	Gate    string
	Enabled bool
}

func (s *Sim) Procs() []ProcInfo {
	w := s.W
	w.S.mu.Lock()
	defer w.S.mu.Unlock()
	var out []ProcInfo
	for role, p := range w.S.parked {
		tok, ok := s.Tok[role]
		if !ok {
			continue
		}
		en := true
		switch p.kind {
		case gRecv:
			en = w.nextIndex(p.recv) >= 0
		case gTimer:
			en = !p.deadline.After(w.S.now)
		}
		out = append(out, ProcInfo{tok, p.kind.String(), en})
	}
	sort.Slice(out, func(i, j int) bool { return out[i].Tok < out[j].Tok })
	return out
}

// NextDeadline: the earliest timer deadline among parked processes after now (0 if none).
func (s *Sim) NextDeadline() time.Duration {
	w := s.W
	w.S.mu.Lock()
	defer w.S.mu.Unlock()
	var best time.Duration
	for role, p := range w.S.parked {
		if _, ok := s.Tok[role]; !ok || p.kind != gTimer {
			continue
		}
		d := p.deadline.Sub(w.S.now)
		if d > 0 && (best == 0 || d < best) {
			best = d
		}
	}
	return best
}

func (s *Sim) wait() error {
	// a process goroutine that has exited for good (state Shutdown while the workflow runs) will never park again: give up at once
	// instead of waiting for the full timeout
	done := make(chan bool, 1)
	go func() { done <- s.W.S.waitParked(s.nProcs) }()
	tick := time.NewTicker(50 * time.Millisecond)
	defer tick.Stop()
	for {
		select {
		case ok := <-done:
			if !ok {
				return fmt.Errorf("sim: processes did not come to rest (current=%q)", s.W.S.Current())
			}
			return nil
		case <-tick.C:
			if s.stopped {
				continue
			}
			// (also while a process is "current": the one that was released may be the one that exited)
			for _, st := range s.WF.States() {
				if st == workflow.StateShutdown {
					return fmt.Errorf("sim: processes did not come to rest (a process has shut down; current=%q)", s.W.S.Current())
				}
			}
		}
	}
}

var errNotEnabled = fmt.Errorf("not enabled")

// Step releases one parked process for one operation (gate to gate).
func (s *Sim) Step(tok string, env Env) ([]string, error) {
	role, ok := s.Role[tok]
	if !ok {
		return nil, fmt.Errorf("sim: unknown process %s", tok)
	}
	w := s.W
	w.beginOp(env)
	// a process that cannot take a step right now (nothing to receive, timer not due): the action is a no-op
	enabled := false
	for _, p := range s.Procs() {
		if p.Tok == tok && p.Enabled {
			enabled = true
		}
	}
	if !enabled {
		return nil, errNotEnabled
	}
	w.Mon.beginOp(role, tok)
	w.S.release(role)
	if err := s.wait(); err != nil {
		return w.obs, err
	}
	w.Mon.afterStep(s, role, tok)
	w.Mon.endOp()
	return w.obs, nil
}

// LeaseLoss cancels the lease of a process (the role scheduler took the role away) and lets it run to its next gate.
func (s *Sim) LeaseLoss(tok string) ([]string, error) {
	role := s.Role[tok]
	w := s.W
	w.S.mu.Lock()
	l := w.S.leases[role]
	p := w.S.parked[role]
	w.S.mu.Unlock()
	w.beginOp(Env{})
	if l == nil || p == nil || p.kind == gRole {
		return nil, nil // holds no lease right now
	}
	w.Mon.beginOp(role, tok)
	w.Mon.leaseLost(role)
	w.S.mu.Lock()
	delete(w.S.parked, role)
	w.S.current = role
	w.S.mu.Unlock()
	l.cancel()
	if p.kind != gTimer {
		close(p.grant)
	} else {
		// a process waiting on a timer sits in `select { <-ctx.Done(); <-timer }` on its ROLE context: it must wake by itself. One that
		// does not (it waits on another context) has not noticed that it lost its role.
		woke := make(chan bool, 1)
		go func() { woke <- w.S.waitParked(s.nProcs) }()
		select {
		case <-woke:
		case <-time.After(400 * time.Millisecond): // waking on a cancelled context takes microseconds; generous even on a loaded machine
			w.S.mu.Lock()
			w.S.parked[role] = p
			w.S.current = ""
			w.S.cond.Broadcast()
			w.S.mu.Unlock()
			<-woke
			w.Mon.violate("C11", "role-loss-stops-work", "role-loss-ignored-while-waiting:"+strings.SplitN(tok, ":", 2)[0],
				fmt.Sprintf("process %s lost its role while waiting on a timer (deadline %v) and keeps waiting: it does not go back to asking for its role", tok, p.deadline.Sub(Epoch)))
			w.Mon.endOp()
			return w.obs, nil
		}
	}
	if err := s.wait(); err != nil {
		return w.obs, err
	}
	w.Mon.endOp()
	return w.obs, nil
}

func (s *Sim) api(env Env, name string, f func()) {
	w := s.W
	w.beginOp(env)
	w.S.setCurrent("api")
	w.Mon.beginOp("api", "api:"+name)
	f()
	w.S.setCurrent("")
	w.Mon.endOp()
}

func errClass(err error) string {
	switch {
	case err == nil:
		return "ok"
	case errors.Is(err, workflow.ErrWorkflowInProgress):
		return "err:inprogress"
	case errors.Is(err, workflow.ErrRecordNotFound):
		return "err:notfound"
	case errors.Is(err, ErrInjected):
		return "err:injected"
	case errors.Is(err, context.Canceled):
		return "err:cancelled"
	case strings.Contains(err.Error(), "status provided is not configured"):
		return "err:notconfigured"
	case strings.Contains(err.Error(), "invalid RunState"):
		return "err:invalidrunstate"
	case strings.Contains(err.Error(), "current status not defined in graph"):
		return "err:invalidtransition"
	case strings.Contains(err.Error(), "err-"):
		return "err:user"
	}
	return "err:other"
}

// Trigger: start = 0 means "default starting point".
func (s *Sim) Trigger(fid int, start int, n int, env Env) ([]string, string) {
	var res string
	s.api(env, "trigger", func() {
		o := MkObj(n)
		opts := []workflow.TriggerOption[Obj, St]{workflow.WithInitialValue[Obj, St](&o)}
		if start != 0 {
			opts = append(opts, workflow.WithStartingPoint[Obj, St](St(start)))
		}
		before := len(s.W.runs)
		id, err := s.WF.Trigger(s.ctx, "f"+strconv.Itoa(fid), opts...)
		res = errClass(err)
		if err == nil {
			res = fmt.Sprintf("ok:r%d", s.W.RunOrd(id))
		}
		s.W.Mon.afterTrigger(fid, start, n, err, before)
	})
	return s.W.obs, res
}

func (s *Sim) Callback(fid int, status int, env Env) ([]string, string) {
	var res string
	s.api(env, "callback", func() {
		err := s.WF.Callback(s.ctx, "f"+strconv.Itoa(fid), St(status), nil)
		res = errClass(err)
		s.W.Mon.afterCallback(fid, status, err)
	})
	return s.W.obs, res
}

func applyCtl(ctx context.Context, ctl workflow.RunStateController, op string) error {
	switch op {
	case "pause":
		return ctl.Pause(ctx, "api pause")
	case "resume":
		return ctl.Resume(ctx)
	case "cancel":
		return ctl.Cancel(ctx, "api cancel")
	case "delete":
		return ctl.DeleteData(ctx, "api delete")
	}
	return fmt.Errorf("unknown op %s", op)
}

// CtlFresh: look the run up and operate on it at once (what the web UI update handler does).
func (s *Sim) CtlFresh(run int, op string, env Env) ([]string, string) {
	var res string
	s.api(env, "ctl-"+op, func() {
		if run >= len(s.W.runs) {
			res = "err:norun"
			return
		}
		rec, err := Store{s.W}.Lookup(s.ctx, s.W.runs[run].id)
		if err != nil {
			res = errClass(err)
			return
		}
		ctl := workflow.NewRunStateController(Store{s.W}.Store, rec)
		before := len(s.W.runs[run].versions)
		err = applyCtl(s.ctx, ctl, op)
		res = errClass(err)
		s.W.Mon.afterCtl(run, op, err, before, false)
	})
	return s.W.obs, res
}

// Handle: obtain a long-lived handle on a run (like the *Run returned by Await); returns its index.
func (s *Sim) Handle(run int) ([]string, string) {
	var res string
	s.api(Env{}, "handle", func() {
		if run >= len(s.W.runs) {
			res = "err:norun"
			return
		}
		rec, err := Store{s.W}.Lookup(s.ctx, s.W.runs[run].id)
		if err != nil {
			res = errClass(err)
			return
		}
		s.handles = append(s.handles, &handle{run: run, rec: rec, ctl: workflow.NewRunStateController(Store{s.W}.Store, rec)})
		res = fmt.Sprintf("ok:h%d", len(s.handles)-1)
	})
	return s.W.obs, res
}

// CtlHandle: operate through a previously obtained (possibly stale) handle.
func (s *Sim) CtlHandle(h int, op string, env Env) ([]string, string) {
	var res string
	s.api(env, "hctl-"+op, func() {
		if h >= len(s.handles) {
			res = "err:nohandle"
			return
		}
		hd := s.handles[h]
		before := len(s.W.runs[hd.run].versions)
		stale := hd.rec.Meta.Version != s.W.runs[hd.run].versions[before-1].Meta.Version
		s.W.Mon.handleStale = stale
		if stale && s.W.Mon.after == "" {
			s.W.Mon.after = "stale-handle"
		}
		err := applyCtl(s.ctx, hd.ctl, op)
		res = errClass(err)
		s.W.Mon.afterCtl(hd.run, op, err, before, stale)
		s.W.Mon.handleStale = false
	})
	return s.W.obs, res
}

func (s *Sim) Tick(d time.Duration) {
	s.W.S.mu.Lock()
	s.W.S.now = s.W.S.now.Add(d)
	s.W.S.mu.Unlock()
}

// Rewind moves the stored cursor of a consumer back (a lost cursor / replay).
func (s *Sim) Rewind(tok string, idx int) bool {
	role := s.Role[tok]
	if idx < 0 || idx > s.W.cursors[role] {
		return false
	}
	s.W.cursors[role] = idx
	s.W.rewinds[role]++
	s.W.Mon.adversary(role)
	return true
}

// Dup re-publishes a copy of an already published event at the end of the log (duplicate / out-of-order delivery).
func (s *Sim) Dup(i int) bool {
	if i < 0 || i >= len(s.W.log) {
		return false
	}
	e := *s.W.log[i]
	e.ID = int64(len(s.W.log)) + 1
	s.W.log = append(s.W.log, &e)
	if aw, ok := s.W.Mon.evWrite[i]; ok {
		s.W.Mon.evWrite[len(s.W.log)-1] = aw
	}
	s.W.Mon.dups++
	return true
}

// Stop shuts the workflow down: gates open, Stop must return, afterwards no adapter may be called.
func (s *Sim) Stop() error {
	if s.stopped {
		return nil
	}
	s.stopped = true
	s.W.beginOp(Env{})
	s.W.Mon.stopping = true
	s.cancel()
	s.W.S.freeRun()
	done := make(chan struct{})
	go func() { s.WF.Stop(); close(done) }()
	select {
	case <-done:
	case <-time.After(20 * time.Second):
		return fmt.Errorf("sim: Stop did not return")
	}
	s.W.Mon.afterStop(s)
	return nil
}

// Digest renders the adapter state in the format of the Lean driver.
func (s *Sim) Digest() string {
	w := s.W
	var b strings.Builder
	for _, rr := range w.runs {
		r := rr.versions[len(rr.versions)-1]
		fmt.Fprintf(&b, "r%d:f%d:rs%d:st%d:v%d:o%d:c%d:u%d ", rr.ord, fidOrd(rr.fid), int(r.RunState), r.Status, r.Meta.Version, ObjToken(r.Object),
			w.offset(r.CreatedAt), w.offset(r.UpdatedAt))
	}
	b.WriteString("ob=")
	for i, e := range w.outbox {
		if i > 0 {
			b.WriteString(",")
		}
		b.WriteString(strconv.Itoa(e.ord))
	}
	fmt.Fprintf(&b, " log=%d cur=", len(w.log))
	var toks []string
	for tok := range s.Role {
		toks = append(toks, tok)
	}
	sort.Strings(toks)
	first := true
	for _, tok := range toks {
		if c, ok := w.cursors[s.Role[tok]]; ok && c > 0 {
			if !first {
				b.WriteString(",")
			}
			first = false
			fmt.Fprintf(&b, "%s=%d", tok, c)
		}
	}
	b.WriteString(" tm=")
	for i, t := range w.timers {
		if i > 0 {
			b.WriteString(",")
		}
		c := 0
		if t.Completed {
			c = 1
		}
		fmt.Fprintf(&b, "%d:r%d:st%d:%d:%d", t.ID, w.RunOrd(t.RunID), t.Status, w.offset(t.ExpireAt), c)
	}
	// where every process is parked (role gates omitted)
	b.WriteString(" ps=")
	first = true
	w.S.mu.Lock()
	for _, tok := range toks {
		p := w.S.parked[s.Role[tok]]
		if p == nil || p.kind == gRole {
			continue
		}
		if !first {
			b.WriteString(",")
		}
		first = false
		switch p.kind {
		case gRecv:
			fmt.Fprintf(&b, "%s=V", tok)
		case gPoll:
			fmt.Fprintf(&b, "%s=P", tok)
		case gTimer:
			fmt.Fprintf(&b, "%s=T%d", tok, int64(p.deadline.Sub(Epoch)/time.Second))
		}
	}
	w.S.mu.Unlock()
	fmt.Fprintf(&b, " now=%d", w.offset(w.Clk.Now()))
	return b.String()
}
