import WorkflowModel.Lemmas.Pres
/-! # Invariants that every primitive preserves are preserved by every operation

`Stable I cfg`: each primitive the handlers may apply preserves `I` unconditionally. Then every handler, every
API call and every process operation other than the relay cycle preserves `I`, for all environments (fault plans,
user-function outcomes incl. re-entrant ones, stale reads). The relay primitives (`relaySend`, `relayDelete`) are
guarded and are dealt with per invariant. -/
namespace WorkflowModel.Engine

/-- the primitives event handlers, the timeout poller and the API calls may apply -/
structure StableH (I : Sys → Prop) (cfg : Cfg) : Prop where
  write : ∀ s r, I s → I (s.write cfg r)
  timerCreate : ∀ s f r st e, I s → I (s.timerCreate f r st e)
  timerComplete : ∀ s id, I s → I (s.timerComplete id)
  timerCancel : ∀ s id, I s → I (s.timerCancel id)
  setCount : ∀ s k v, I s → I (s.setCount k v)
  setHandles : ∀ s h, I s → I { s with handles := h }

/-- … plus those of the consume loop, the supervision loop and the clock -/
structure Stable (I : Sys → Prop) (cfg : Cfg) : Prop extends StableH I cfg where
  setCursor : ∀ s p n, I s → I (s.setCursor p n)
  setPState : ∀ s p st, I s → I (s.setPState p st)
  tick : ∀ s d, I s → I (s.tick d)

/-- one structural step of a preservation proof; leaf lemmas go first: `repeat (first | exact leaf | pres_core)` -/
macro "pres_core" : tactic => `(tactic| first
  | exact Pres.pure _ | exact Pres.getSys | exact Pres.emit _ | exact Pres.throwA _ | exact Pres.nextOutcome
  | exact Pres.isCancelled | exact Pres.emitIf _ _ | assumption
  | refine Pres.bind ?_ (fun _ => ?_) | refine Pres.tryM ?_ | refine Pres.forM _ (fun _ => ?_)
  | refine Pres.foldlM _ _ (fun _ _ => ?_)
  | split
  | dsimp only)

variable {I : Sys → Prop} {cfg : Cfg}

-- handler-level definitions are opaque to the unifier in this file (they are opened with `unfold` only)
attribute [local irreducible] Engine.lookup Engine.latest Engine.store Engine.ack Engine.updateRecord Engine.ctlUpdateMem
  Engine.ctlUpdate Engine.updater Engine.runFn Engine.callbackApi Engine.maybePauseMem Engine.maybePause Engine.stepHandle
  Engine.inserterFn Engine.hookHandle Engine.deleteHandle Engine.retryHandle Engine.handle Engine.deliver Engine.recvOp
  Engine.processTimeout Engine.pollGate Engine.pollTimer Engine.pollOp Engine.inserterOne Engine.inserterOutcome Engine.deleteObj Engine.stepRun Engine.stepGate Engine.callbackGate Engine.callbackOne Engine.call Engine.tryM Engine.modifySys

theorem Pres.lookup (rid : RunId) : Pres I (lookup rid) := by
  intro env st hi
  unfold Engine.lookup
  exact Pres.call_ro (I := I) (fun _ => rfl) env { st with stale := 0 } hi

theorem Pres.latest (fid : Fid) : Pres I (latest fid) := by
  unfold Engine.latest
  exact Pres.call_ro (fun _ => rfl)

theorem Pres.store (h : StableH I cfg) (r : Rec) : Pres I (store cfg r) := by
  unfold Engine.store
  exact Pres.call (fun s hi => h.write s r hi)

/-- `ack` touches the cursor only, whether or not the streamer looks at the context -/
theorem Pres.ack' (hI : ∀ s p n, I s → I (Sys.setCursor s p n)) (p : Proc) (i : Nat) : Pres I (ack p i) := by
  have hc : Pres I (Engine.call s!"ack(e{i})" (fun s => (("", .ok (), s.setCursor p (i + 1)) : String × Except Abort Unit × Sys))) :=
    Pres.call (fun s hi => hI s p (i + 1) hi)
  intro env st hi
  unfold Engine.ack
  split
  · exact hc env { st with cancelled := false } hi
  · exact hc env st hi

theorem Pres.ack (h : Stable I cfg) (p : Proc) (i : Nat) : Pres I (ack p i) :=
  Pres.ack' (fun s p n hi => h.setCursor s p n hi) p i

theorem Pres.updateRecord (h : StableH I cfg) (r : Rec) : Pres I (updateRecord cfg r) := by
  unfold Engine.updateRecord; exact Pres.store h _

theorem Pres.ctlUpdateMem (h : StableH I cfg) (mem : Rec) (op : RS.CtlOp) : Pres I (ctlUpdateMem cfg mem op) := by
  unfold Engine.ctlUpdateMem
  repeat (first | exact Pres.store h _ | pres_core)

theorem Pres.ctlUpdate (h : StableH I cfg) (mem : Rec) (op : RS.CtlOp) : Pres I (ctlUpdate cfg mem op) := by
  unfold Engine.ctlUpdate
  repeat (first | exact Pres.ctlUpdateMem h _ _ | pres_core)

theorem Pres.updater (h : StableH I cfg) (c n : Status) (run : Rec) (o : Obj) : Pres I (updater cfg c n run o) := by
  unfold Engine.updater
  repeat (first | exact Pres.updateRecord h _ | exact Pres.lookup _ | pres_core)

theorem Pres.callbackGate (h : StableH I cfg) (status : Status) (wr : Rec) (runner : Rec → M (Except Abort FnRes × Rec))
    (hr : ∀ r, Pres I (runner r)) : Pres I (callbackGate cfg status wr runner) := by
  unfold Engine.callbackGate
  repeat (first | exact hr _ | exact Pres.updater h _ _ _ _ | pres_core)

theorem Pres.callbackOne (h : StableH I cfg) (fid : Fid) (status : Status) (runner : Rec → M (Except Abort FnRes × Rec))
    (hr : ∀ r, Pres I (runner r)) : Pres I (callbackOne cfg fid status runner) := by
  unfold Engine.callbackOne
  repeat (first | exact Pres.latest _ | exact Pres.callbackGate h _ _ _ hr | pres_core)

/-- user functions (with re-entrant `Callback`s to any depth) and the callback API -/
theorem Pres.runFn_callbackApi (h : StableH I cfg) (fuel : Nat) :
    (∀ kind run mem first, Pres I (runFn cfg kind run mem fuel first)) ∧
    (∀ fid status, Pres I (callbackApi cfg fid status fuel)) := by
  induction fuel with
  | zero =>
    constructor
    · intro kind run mem first; unfold Engine.runFn; exact Pres.pure _
    · intro fid status; unfold Engine.callbackApi; exact Pres.throwA _
  | succ n ih =>
    have hrun : ∀ kind run mem first, Pres I (runFn cfg kind run mem (n + 1) first) := by
      intro kind run mem first
      unfold Engine.runFn
      repeat (first | exact Pres.ctlUpdateMem h _ _ | exact ih.2 _ _ | exact ih.1 _ _ _ _ | pres_core)
    refine ⟨hrun, ?_⟩
    intro fid status
    unfold Engine.callbackApi
    refine Pres.forM _ (fun _ => ?_)
    exact Pres.callbackOne h _ _ _ (fun r => ih.1 _ _ _ _)

theorem Pres.runFn (h : StableH I cfg) (kind : String) (run mem : Rec) (fuel : Nat) (first : Bool) :
    Pres I (runFn cfg kind run mem fuel first) := (Pres.runFn_callbackApi h fuel).1 _ _ _ _

theorem Pres.callbackApi (h : StableH I cfg) (fid : Fid) (status : Status) (fuel : Nat) :
    Pres I (callbackApi cfg fid status fuel) := (Pres.runFn_callbackApi h fuel).2 _ _

theorem Pres.maybePauseMem (h : StableH I cfg) (n : Int) (p : Proc) (mem : Rec) (e : Abort) :
    Pres I (maybePauseMem cfg n p mem e) := by
  unfold Engine.maybePauseMem
  repeat (first | exact Pres.ctlUpdateMem h _ _ | exact Pres.modifySys (fun s hi => h.setCount s _ _ hi) | pres_core)

theorem Pres.maybePause (h : StableH I cfg) (n : Int) (p : Proc) (mem : Rec) (e : Abort) :
    Pres I (maybePause cfg n p mem e) := by
  unfold Engine.maybePause
  repeat (first | exact Pres.maybePauseMem h _ _ _ _ | pres_core)

theorem Pres.stepRun (h : StableH I cfg) (p : Proc) (pa : Int) (record : Rec)
    (fn : Rec → M (Except Abort FnRes × Rec)) (hfn : ∀ r, Pres I (fn r)) : Pres I (stepRun cfg p pa record fn) := by
  unfold Engine.stepRun
  repeat (first | exact hfn _ | exact Pres.maybePause h _ _ _ _ | exact Pres.updater h _ _ _ _ | pres_core)

theorem Pres.stepGate (h : StableH I cfg) (p : Proc) (pa : Int) (e : Event) (record : Rec)
    (fn : Rec → M (Except Abort FnRes × Rec)) (hfn : ∀ r, Pres I (fn r)) : Pres I (stepGate cfg p pa e record fn) := by
  unfold Engine.stepGate
  repeat (first | exact Pres.stepRun h _ _ _ _ hfn | pres_core)

theorem Pres.stepHandle (h : StableH I cfg) (p : Proc) (status : Status) (pa : Int) (e : Event)
    (fn : Rec → M (Except Abort FnRes × Rec)) (hfn : ∀ r, Pres I (fn r)) : Pres I (stepHandle cfg p status pa e fn) := by
  unfold Engine.stepHandle
  repeat (first | exact Pres.lookup _ | exact Pres.stepGate h _ _ _ _ _ hfn | pres_core)

theorem Pres.inserterOne (h : StableH I cfg) (status : Status) (run : Rec) : Pres I (inserterOne status run) := by
  unfold Engine.inserterOne
  have : ∀ now out, Pres I (inserterOutcome status run now out) := by
    intro now out
    unfold Engine.inserterOutcome
    repeat (first | exact Pres.call (fun s hi => h.timerCreate s _ _ _ _ hi) | pres_core)
  repeat (first | exact this _ _ | pres_core)

theorem Pres.inserterFn (h : StableH I cfg) (status : Status) (run : Rec) : Pres I (inserterFn cfg status run) := by
  unfold Engine.inserterFn
  repeat (first | exact Pres.inserterOne h _ _ | pres_core)

theorem Pres.hookHandle (rs : RunState) (e : Event) : Pres I (hookHandle cfg rs e) := by
  unfold Engine.hookHandle
  repeat (first | exact Pres.lookup _ | pres_core)

theorem Pres.deleteObj (record : Rec) : Pres I (deleteObj cfg record) := by
  unfold Engine.deleteObj Engine.customDeleteFn
  repeat pres_core

theorem Pres.deleteHandle (h : StableH I cfg) (e : Event) : Pres I (deleteHandle cfg e) := by
  unfold Engine.deleteHandle
  repeat (first | exact Pres.lookup _ | exact Pres.updateRecord h _ | exact Pres.deleteObj _ | pres_core)

theorem Pres.retryHandle (h : StableH I cfg) (e : Event) : Pres I (retryHandle cfg e) := by
  unfold Engine.retryHandle
  repeat (first | exact Pres.lookup _ | exact Pres.ctlUpdate h _ _ | pres_core)

theorem Pres.handle (h : StableH I cfg) (p : Proc) (e : Event) : Pres I (handle cfg p e) := by
  unfold Engine.handle
  split
  · exact Pres.stepHandle h _ _ _ _ _ (fun r => Pres.runFn h _ _ _ _ _)
  · exact Pres.stepHandle h _ _ _ _ _ (fun r => Pres.inserterFn h _ _)
  · exact Pres.hookHandle _ _
  · exact Pres.deleteHandle h _
  · exact Pres.retryHandle h _
  · exact Pres.pure _

theorem Pres.deliver (h : Stable I cfg) (p : Proc) (i : Nat) (e : Event) : Pres I (deliver cfg p i e) := by
  unfold Engine.deliver
  repeat (first | exact Pres.ack h _ _ | exact Pres.handle h.toStableH _ _ | pres_core)

theorem Pres.recvOp (h : Stable I cfg) (p : Proc) : Pres I (recvOp cfg p) := by
  unfold Engine.recvOp
  repeat (first | exact Pres.deliver h _ _ _ | exact Pres.call_ro (fun _ => rfl) | pres_core)

theorem Pres.processTimeout (h : StableH I cfg) (p : Proc) (status : Status) (shared : Rec) (t : Timer) :
    Pres I (processTimeout cfg p status shared t) := by
  unfold Engine.processTimeout
  repeat (first | exact Pres.runFn h _ _ _ _ _ | exact Pres.maybePauseMem h _ _ _ _ | exact Pres.updater h _ _ _ _ | exact Pres.call (fun s hi => h.timerComplete s _ hi) | pres_core)

theorem Pres.pollGate (h : StableH I cfg) (p : Proc) (status : Status) (t : Timer) (r : Rec) : Pres I (pollGate cfg p status t r) := by
  unfold Engine.pollGate
  repeat (first | exact Pres.processTimeout h _ _ _ _ | exact Pres.call (fun s hi => h.timerCancel s _ hi) | pres_core)

theorem Pres.pollTimer (h : StableH I cfg) (p : Proc) (status : Status) (t : Timer) : Pres I (pollTimer cfg p status t) := by
  unfold Engine.pollTimer
  repeat (first | exact Pres.lookup _ | exact Pres.pollGate h _ _ _ _ | pres_core)

theorem Pres.pollOp (h : StableH I cfg) (p : Proc) (status : Status) (q : Int) : Pres I (pollOp cfg p status q) := by
  unfold Engine.pollOp
  repeat (first | exact Pres.pollTimer h _ _ _ | exact Pres.call_ro (fun _ => rfl) | pres_core)

theorem Pres.leaseLossOp (h : Stable I cfg) (p : Proc) : Pres I (leaseLossOp cfg p) := by
  unfold Engine.leaseLossOp
  repeat (first | exact Pres.modifySys (fun s hi => h.setPState s _ _ hi) | pres_core)

theorem Pres.triggerApi (h : StableH I cfg) (fid : Fid) (start : Status) (n : Obj) : Pres I (triggerApi cfg fid start n) := by
  unfold Engine.triggerApi
  repeat (first | exact Pres.latest _ | exact Pres.updateRecord h _ | pres_core)

theorem Pres.ctlFreshApi (h : StableH I cfg) (rid : RunId) (op : RS.CtlOp) : Pres I (ctlFreshApi cfg rid op) := by
  unfold Engine.ctlFreshApi
  repeat (first | exact Pres.lookup _ | exact Pres.ctlUpdate h _ _ | pres_core)

theorem Pres.handleApi (h : StableH I cfg) (rid : RunId) : Pres I (handleApi rid) := by
  unfold Engine.handleApi
  repeat (first | exact Pres.lookup _ | exact Pres.modifySys (fun s hi => h.setHandles s _ hi) | pres_core)

theorem Pres.hctlApi (h : StableH I cfg) (hd : Nat) (op : RS.CtlOp) : Pres I (hctlApi cfg hd op) := by
  unfold Engine.hctlApi
  repeat (first | exact Pres.store h _ | exact Pres.modifySys (fun s hi => h.setHandles s _ hi) | pres_core)

end WorkflowModel.Engine
