TB = ("Trusted: Lean 4.33 kernel; axioms propext/Classical.choice/Quot.sound only (audited per theorem on every run, no sorry/native_decide/bv_decide/own axioms); "
      "the go/ast extractor (T1/T2) and the Go harness (T3: drivers, simulator, canonicalisation, monitors); the statement files Props/*.lean. ")

TEXTS = {
    "C17": {
        "text": "Kernel-checked properties of the store contract RefStore: pages of any positive limit at offsets 0,limit,2*limit.. concatenate to exactly the matching runs in creation order (newest first when descending) for every workflow selection / "
                "order / multi-value filter combination; Latest = newest CREATED run; Store = one record per run ID + exactly one outbox entry; outbox oldest first up to the limit (none for limit <= 0); deleting one entry never affects another. "
                "The bundled memrecordstore is tied to the contract by a differential suite (every answer of every operation compared with the compiled Lean reference; caller mutations after Store/after reads; invalid-UTF-8 Store; corpus of the five repaired defects first).",
        "note": TB + "memrecordstore itself is not modelled in Lean: refinement is established by differential testing against the reference, which is the statement of the property.",
        "technique": "Lean 4 proof of the reference store's laws + differential co-simulation of memrecordstore against the compiled reference",
    },
    'C02': {
        "text": 'Kernel-checked: Transitions/IsValid/IsTerminal of the transcribed AddTransition = declared pairs for every list (order) of builder calls; validateTransition accepts exactly the declared pairs; if the updater changes anything, (current,next) is declared and the re-read record is at `current`; an undeclared destination writes nothing and fails (every fault plan); Trigger starts only at declared statuses. Whole-history status paths are checked on the implementation by a per-write monitor over simulated histories incl. re-entrant user functions. Engine model = lean/WorkflowModel/Model/Engine.lean (executable, adapter-call granularity, fault plans, user-function outcomes as parameters), tied to the code by co-simulation under the gated deterministic simulator: every observation line of every explored history must be identical; guards/tables are regenerated from source (T1), call orders are tripwires (T2). ',
        "note": TB,
        "technique": 'Lean 4 proof (graph invariant over builder-call folds; handler-level theorems for all environments) + differential/co-simulation',
    },
    'C03': {
        "text": 'Kernel-checked: regenerated controller table inside the documented lifecycle (decide over table + lifting), closed on finished states, out-of-range rejected; the controller rejects WITHOUT any adapter call, accepted/updater/delete writes are lifecycle edges from the record they are based on; Completed written exactly for terminal destinations (order-independent). Tie: exhaustive controller/web-UI differential (sequences on one controller), graph differential, co-simulated histories with a lifecycle monitor on every Store. Engine model = lean/WorkflowModel/Model/Engine.lean (executable, adapter-call granularity, fault plans, user-function outcomes as parameters), tied to the code by co-simulation under the gated deterministic simulator: every observation line of every explored history must be identical; guards/tables are regenerated from source (T1), call orders are tripwires (T2). ',
        "note": TB,
        "technique": 'Lean 4 proof over regenerated table + handler-level theorems + exhaustive differential + co-simulation',
    },
    'C07': {
        "text": 'Kernel-checked for every consumer kind and every fault plan: a cursor moves during a delivery only if a filter excluded the event or the handler returned without error; a failing handler moves no cursor; a failing operation closes the receiver and backs off (needRole directly when the lease is gone); an event younger than the lag parks the consumer until exactly createdAt+lag and nothing runs meanwhile (lag test regenerated). Connector events: the two real conversions (ConnectorEvent -> stream Event -> ConnectorEvent) are run back to back on generated events and every field compared, the timestamp as an instant (pure-connector; encoding/json is external, no model side). Engine model = lean/WorkflowModel/Model/Engine.lean (executable, adapter-call granularity, fault plans, user-function outcomes as parameters), tied to the code by co-simulation under the gated deterministic simulator: every observation line of every explored history must be identical; guards/tables are regenerated from source (T1), call orders are tripwires (T2). ',
        "note": TB,
        "technique": 'Lean 4 proof (Hoare-style frame + decision theorems over the fault-injected monad) + co-simulation with faults at every call',
    },
    'C08': {
        "text": "Kernel-checked (decision logic regenerated from source): a refused controller request leaves the controller's own record untouched, so Pause/Resume/Cancel through one handle on a cancelled or deleted run are all refused, in any order (pure-ctl drives such sequences on the real controller); for a stopped run the step gate, the callback gate (since fix F1) and the poller gate never reach the user function - in every environment nothing is written and no outcome consumed; a paused run's timer is kept; Resume writes Running at the same status/object with version+1 and that write is routed to the status topic. Engine model = lean/WorkflowModel/Model/Engine.lean (executable, adapter-call granularity, fault plans, user-function outcomes as parameters), tied to the code by co-simulation under the gated deterministic simulator: every observation line of every explored history must be identical; guards/tables are regenerated from source (T1), call orders are tripwires (T2). ",
        "note": TB,
        "technique": 'Lean 4 proof (gate functions over regenerated guards) + co-simulation with pause/cancel/delete at every point',
    },
    'C09': {
        "text": 'Kernel-checked: in-progress guard = {Initiated,Running,Paused}; Trigger writes nothing or exactly one brand-new run (fresh ID, Initiated, v1, initial value, declared start) for every fault plan; refused with no write while the latest run is unfinished; undeclared start rejected before any adapter call. Engine model = lean/WorkflowModel/Model/Engine.lean (executable, adapter-call granularity, fault plans, user-function outcomes as parameters), tied to the code by co-simulation under the gated deterministic simulator: every observation line of every explored history must be identical; guards/tables are regenerated from source (T1), call orders are tripwires (T2). ',
        "note": TB,
        "technique": 'Lean 4 proof (handler-level, all fault plans) + co-simulation with a per-action unfinished-run counter',
    },
    'C01': {
        "text": "FAULT ENUMERATION with co-simulation, on top of kernel-checked mechanism theorems. Enumeration (sim-recovery): for generated workflows (steps, callbacks, timeouts, hooks; 1-2 runs; user functions deterministic in the record, failing their first 0-1 invocations) "
                "the failure-free execution is recorded, then EVERY placement of one fault - error before the effect, error after the effect, lease loss at the call - at every adapter call of every background operation of that execution, and a lease loss before every operation "
                "(thorough: also sampled pairs), each followed by fault-free settling with callbacks re-issued; the final status, object, run state AND version of every run must equal the failure-free ones and the quiescence monitors (every write published, hooks ran) must be silent; "
                "every action of every such execution is co-simulated on the Lean engine model. Kernel-checked for all environments: (1) every write is pending or published in every reachable state; (2) a failing delivery moves no cursor and fails the consume loop; a failing relay step keeps the entry; "
                "(3) once the effect of an announcement is persisted, handling that announcement again - any shard, ANY step function, any fault plan - changes nothing and consumes no outcome (exactly-once persisted effect); (4) a failing operation parks its process in back-off or at the role gate and no parking state is a dead end.",
        "note": TB + "The convergence clause is established by enumeration over sampled workflows and process orders, not by a theorem (it needs determinism and fairness as hypotheses on whole executions); two service instances are covered only through lease loss/re-acquisition of one instance.",
        "technique": "exhaustive single-fault (and sampled pair) enumeration at every adapter call of the real workflow under the gated simulator, co-simulated on the Lean engine model + Lean 4 proofs of the outbox / ack / version-gate / supervision mechanisms",
        "category": "fault_enumeration",
    },
    'C20': {
        "text": "Kernel-checked over the scheduler model (cron instants as a parameter, so for every specification): a run is created only when a timer was armed and its deadline has passed; the deadline armed is the first cron instant strictly after the creation of the latest run "
                "(or after the reading instant when there is none); nothing is created while the filter answers false, the previous run is unfinished or the deadline has not passed; and for EVERY sequence of iterations, non-decreasing clock readings, filter answers, completions and role losses "
                "there is a cron instant between any two runs the scheduler created (at most one run per tick; invariant + induction over the operation sequence). Tie: sim-schedule runs the real Workflow.Schedule as a gated process of the simulator for 8 cron specifications "
                "(every minute, steps, hourly, daily, monthly, lists/ranges/weekdays), starts around boundaries, clock advances from 1 s to 40 days, filter flips, run completions by the real processes, role losses; every armed deadline and iteration outcome is compared with the model, "
                "an oracle from the property text checks each created run (not early, one per tick, filter, unfinished, initial value, creation instant), Schedule must end with Stop, invalid specifications and a workflow that is not running must be rejected at once without starting anything.",
        "note": TB + "Cron arithmetic itself (robfig/cron) is external and trusted.",
        "technique": "Lean 4 proof (invariant over all operation sequences of the scheduler model, cron instants abstract) + co-simulation of Workflow.Schedule under the gated simulator clock",
    },
    'C11': {
        "text": "Kernel-checked over the engine model: losing the role changes no run, outbox entry, stream entry, cursor, timer or error counter and no other process (for every parking state and process kind) and sends the process back to asking for its role with its receiver closed; "
                "a failing operation never ends the process (back-off, or the role again when the lease is gone) and from back-off it only asks for the role again; no parking state is a dead end (after a finite wait a step is enabled, or the process idles at an empty stream). "
                "Role scheduler contract RefRoles: in EVERY reachable state no role has two live holders (induction over request/grant/cancel sequences); a grant while held is refused; a cancelled holder frees the role. "
                "Ties and runtime clauses: co-simulation with a lease monitor on every adapter call, adapter-call-after-Stop, process-not-shutdown-after-Stop, receiver/sender closed (simulator); mem-roles monitors the real memrolescheduler under concurrent Await calls against RefRoles; "
                "sim-schedule loses the schedule process's role while it waits on its timer (it must go back to asking for the role); live-supervise runs the real workflow (sharded step, callback, timeout, connector, hook; injected adapter failures; two instances) on real goroutines and checks no process ends before Stop, Stop waits, nothing is called afterwards, everything opened is closed, Run is idempotent - "
                "and again in a binary built with the Go race detector; pure-launch checks that Run registered every process when it returns.",
        "note": TB + "PARTIAL for the runtime clauses: goroutine interleavings, context propagation and data races are not expressible in the Lean model; they are exercised (race detector, real goroutines), not proved.",
        "technique": "Lean 4 proof (frame and supervision theorems over the engine model; mutual exclusion invariant of the role-scheduler contract) + co-simulation with lease/stop monitors + concurrent monitoring of memrolescheduler + race-detector runs",
    },
    'C12': {
        "text": "Kernel-checked: a timer is marked completed only after its transition was persisted (if the updater fails the timers are untouched and the failure is returned); the poller reaches a timeout function only for the timer's OWN run (lookup by run ID, since fix F10), still at the status, neither finished nor stopped; moved-on runs get exactly that timer cancelled; timers created only for non-zero times; "
                "a successful timeout completes its timer, a failing one leaves it for later polls. Store clauses proved on the contract RefTimeouts: due iff workflow/status match, not completed, not cancelled, expired before the instant (either answer AT the instant); "
                "Complete/Cancel of one ID - or an unknown ID - leaves every other timer untouched; completed/cancelled never due again; IDs unique in every reachable store. Ties: regenerated due-test of memtimeoutstore (T2), differential suite "
                "mem-timeoutstore (all answers vs the compiled reference incl. unknown/zero IDs, empty store, instants before/at/after expiry; corpus of repaired defect F9 first), engine co-simulation with clock positions around expiry.",
        "note": TB + "sqltimeout is covered under C18.",
        "technique": 'Lean 4 proof (gate functions over the engine model + laws of the store contract) + co-simulation and differential run of memtimeoutstore against the compiled reference',
    },
    'C18': {
        "text": "Kernel-checked: (1) SQLStore.Store modelled as a transaction on a working copy (begin; select; insert|update; event encoding; outbox insert; commit): for EVERY failure position the committed state is the state before and the call fails, "
                "otherwise it is exactly RefStore.store (record row inserted/updated + exactly one outbox row) and succeeds; success iff nothing fails. (2) whereBuilder: for ANY sequence of Where/WhereNotNull/OrderBy/Limit/Offset calls with '?'-free field names, any values, "
                "limits, offsets, the finalised text has exactly as many placeholders as bound parameters (invariant + induction over the call list); instantiated for every List call. (3) laws of RefStore/RefTimeouts (C17, C12 store clauses). "
                "Ties: the real sqlstore/sqltimeout run over an in-process database/sql engine (harness/minisql): sql-atomic injects a failure at every driver operation of Store in turn over random pre-states (new run, existing run, unencodable record) and compares the committed "
                "content, and checks the statement log for ONE transaction on the writer connection; sql-where compares the where text and parameter count of all 1536 List shapes with the Lean builder; sql-recordstore / sql-timeoutstore replay random operation sequences "
                "(and the C17 corpus) against the compiled reference stores; every logged statement must bind as many arguments as it has placeholders and be understood by the engine.",
        "note": TB + "Also trusted: harness/minisql (the reference SQL engine, ~900 lines of Go). A real MySQL server is not available in the sandbox and is not modelled (collations, datetime ties, isolation anomalies).",
        "technique": "Lean 4 proof (transaction atomicity for all failure positions; placeholder balance of the where builder by induction; reference-store laws) + fault-enumeration and differential co-simulation of the SQL adapters over an in-process SQL engine",
    },
    'C19': {
        "text": "Kernel-checked laws of the stream contract RefStream for every state: a delivery is the FIRST event of the receiver's topic at or after its start (order, nothing skipped); it does not block while such an event exists; an unacknowledged delivery is "
                "delivered again (also to a reconnecting receiver); after ack(i) every later delivery - with or without StreamFromLatest - is beyond i; acks/receives under one name change neither position, floor nor log of another; a StreamFromLatest receiver with no "
                "stored position starts at the log length AT CREATION (also 0) whatever is sent afterwards, and the option is ignored once a position is stored. Tie: decisions of memstreamer's Recv loop regenerated from source (T2); differential suites: every sequence "
                "over a 6-letter alphabet up to depth 6 (quick) / 8 (thorough) plus random sequences over 4 names, 3 topics; the connector against the same contract; corpus of repaired defect F8 first.",
        "note": TB + "memstreamer's Go loop is not modelled in Lean: refinement is established by exhaustive-short + random differential runs against the reference.",
        "technique": "Lean 4 proof of the reference stream's laws + exhaustive short-sequence and random differential co-simulation of memstreamer/connector against the compiled reference",
    },
    'C13': {
        "text": 'Kernel-checked over regenerated tests: (search suites: random pause histories with the simulated clock ahead of AND behind the wall clock; sim-pause-faults: an always-failing step / timeout function under n=1..3 with one fault at every adapter call of every operation - the run must be Paused after n failing invocations, n+1 when the fault cut the pausing write) n=0 never pauses nor counts; below threshold counts exactly that (error,process,run) key, other keys untouched; at the n-th occurrence one Paused write (version+1) and the count restarts at 0; retry consumer writes nothing unless still Paused and the full interval has elapsed since updatedAt; Cancelled cannot be resumed. Engine model = lean/WorkflowModel/Model/Engine.lean (executable, adapter-call granularity, fault plans, user-function outcomes as parameters), tied to the code by co-simulation under the gated deterministic simulator: every observation line of every explored history must be identical; guards/tables are regenerated from source (T1), call orders are tripwires (T2). ',
        "note": TB,
        "technique": 'Lean 4 proof (decision theorems) + co-simulation with n in 1..3, several runs/errors, stamping store',
    },
    'C14': {
        "text": 'Kernel-checked: hook consumer handles only events whose run_state header is its state; Paused/Cancelled/Completed writes are routed to the hook topic with that header; ack only after the hook returned nil (C07 instance), never writes; undecodable (deleted) objects are skipped. At-least-once = C05 (published) + C07 (no ack before success). Engine model = lean/WorkflowModel/Model/Engine.lean (executable, adapter-call granularity, fault plans, user-function outcomes as parameters), tied to the code by co-simulation under the gated deterministic simulator: every observation line of every explored history must be identical; guards/tables are regenerated from source (T1), call orders are tripwires (T2). ',
        "note": TB,
        "technique": 'Lean 4 proof (filter/routing/ack theorems) + co-simulation with failing hooks and faults',
    },
    'C15': {
        "text": 'Kernel-checked: a redelivered request on an already DataDeleted run succeeds and is acknowledged (default delete, nothing injected); DeleteData accepted iff Completed/Cancelled/DataDeleted (regenerated table); the delete consumer writes nothing or exactly the scrubbed record (DataDeleted, same status/ids/createdAt, version+1, custom-delete result or marker) for every fault plan and delete outcome; a failing delete function writes nothing and fails; scrubbing is idempotent under redelivery. Engine model = lean/WorkflowModel/Model/Engine.lean (executable, adapter-call granularity, fault plans, user-function outcomes as parameters), tied to the code by co-simulation under the gated deterministic simulator: every observation line of every explored history must be identical; guards/tables are regenerated from source (T1), call orders are tripwires (T2). ',
        "note": TB,
        "technique": 'Lean 4 proof (handler-level, all environments) + co-simulation with delete requests at every point',
    },
    'C16': {
        "text": 'Kernel-checked per write path: trigger v=1/created=updated=now; updater keeps identity/createdAt, version+1, updatedAt now, description of the NEW status (since fix F13), object = what the function left; controller/delete keep status/object resp. identity; skip and error (no count) persist nothing. Whole-history version/identity/updatedAt statements are checked per write by the Store monitor. Engine model = lean/WorkflowModel/Model/Engine.lean (executable, adapter-call granularity, fault plans, user-function outcomes as parameters), tied to the code by co-simulation under the gated deterministic simulator: every observation line of every explored history must be identical; guards/tables are regenerated from source (T1), call orders are tripwires (T2). ',
        "note": TB,
        "technique": 'Lean 4 proof (record-construction theorems) + per-write monitors under co-simulation',
    },
    "C04": {
        "text": "Kernel-checked over the engine model (stepHandle = stepConsumer, gate operators REGENERATED from step.go): an announcement older than the record returned by the store writes nothing, "
                "consumes no user-function outcome, does not depend on the step function at all, and returns normally (ack); a newer one fails without write/invocation and the consume loop moves no cursor; "
                "redelivering any list of old announcements, any number of times, in any order, to any shards, under any fault plans leaves runs/outbox/log/timers unchanged (induction). The engine model is tied to the code "
                "by co-simulation of the real workflow under a gated simulator (adversarial stream: rewinds, duplicates; stale reads) against the compiled Lean model, line by line.",
        "note": TB + "Current reads assumed for 'acted only when current'; lagging-equal reads are the listed finding F16.",
        "technique": "Lean 4 proof (handler-level theorems for all fault plans + induction over delivery lists) + co-simulation under an adversarial stream",
    },
    "C05": {
        "text": "Kernel-checked over the whole engine model: RelayInv (every write pending or published; everything published/pending was written; entries unique) holds in EVERY reachable state - any interleaving of "
                "writers with relay cycles, any fault plan (error before/after effect, crash at any adapter call) inside every operation, any batch size/limit; an entry that disappears was accepted by the streamer; "
                "a failure leaves the entry in place. Proved via a preservation logic for the fault-injected operation monad plus a shape lemma for one relay step. Tie: T2 order of purgeOutbox; co-simulation; relay monitor on the real code.",
        "note": TB,
        "technique": "Lean 4 proof (invariant over all reachable states, all fault plans) + co-simulation with fault injection at every relay call",
    },
    "C06": {
        "text": "Kernel-checked for every record (all Int run states incl. out of range, all Int statuses, all names): topic selection of MakeOutboxEventData (if-chain regenerated from event.go), "
                "injectivity of status topics (decimal rendering is injective), pairwise disjointness of status/delete/run-state-change topics, headers carry run ID, foreign ID, run state, version; "
                "Await (test regenerated from await.go): a release requires the event to pass the foreign-ID/run-ID filters AND to have been written at the awaited status (failed to prove before the repair of defect F2). "
                "Tie: real MakeOutboxEventData/Topic functions vs the Lean model on an enumerated record space incl. int32/int64 limits and unicode names, plus an oracle from the property text; live-await runs the real Await against scripted pause/resume/cancel/advance histories and late events of an older run of the same foreign ID.",
        "note": TB + "protobuf encode/decode of the outbox record is external (decoded with the generated Go code).",
        "technique": "Lean 4 proof (decision logic + injectivity of decimal rendering) + differential co-simulation of event.go/topic.go",
    },
    "C10": {
        "text": "Kernel-checked (1) over the shard expression REGENERATED from eventfilter.go (Go % = Int.tmod): for n>=2 and EVERY event ID, negative ones included, exactly one shard handles the event "
                "(before the repair of defect F12 the full statement was proved FALSE: id=-3, n=2). (2) over the launch model (Workflow.Run transcribed over REGENERATED decisions): a step or connector with effective count n (own, else workflow default) gets exactly shards 1..n of n "
                "for n>=2 and one un-sharded process otherwise (the connector statement failed to prove before the repair of defect F11); no process is launched twice for any configuration with one entry per status/connector/hook; "
                "(3) the role NAMES of all launched processes are pairwise distinct as STRINGS for every workflow name (spaces, upper case, dashes), all statuses incl. negative ones, all counts - proved by parsing role names back "
                "(makeRole is a byte-wise map after the join; '-' comes only from '-'; decimal renderings contain no letters), given connector names distinct after normalisation and statuses shorter than 13 characters. "
                "Ties: real shardFilter/makeRole vs model over all residues x both signs x n<=8, int64 limits, random and FNV-hashed connector IDs; pure-connshards runs n shard processes, each with its OWN real connector streamer and start offset (restarts), through the real shard filter: one shard per connector event, IDs independent of what a streamer hashed before; pure-launch starts the real Run on a recording role scheduler for generated configurations "
                "(own/default counts in {-1,0,1,2,3,5,8}, timeouts, connectors, hooks, retry on/off, names with spaces/dashes/upper case) and compares the awaited roles with the model and with the property's own list, calls Run twice, and rebuilds with other status display strings.",
        "note": TB,
        "technique": "Lean 4 proof (Int.tmod arithmetic; launch-list theorems over regenerated loop guards) + exhaustive/differential check of shardFilter, makeRole and the processes Run launches",
    },
}

NOT_APPLICABLE = {p: "check under construction in this session; will be claimed once its theorems and tie exist" for p in
                  []}

NOTES = ("One engine: Lean 4 model + theorems, regenerated facts (T1/T2), co-simulation (T3). ./check <id> quick|thorough; ./check replay <path>. "
         "known-findings.json lists genuine defects that are recorded rather than repaired.")

# ---- additions after the fifth round of seeded changes ----
TEXTS["C04"]["text"] += ("Monitor added: a delivery whose announcement is OLDER than the record the store answered with must end in an acknowledgement when nothing was injected and no function ran "
                         "(older-announcement-not-acknowledged; e.g. a stale event of a run whose data was erased). ")
TEXTS["C07"]["text"] += ("Receiver-closed clause on the implementation: a process that is back at the role scheduler with a receiver it opened still open is flagged (receiver-left-open), as is any receiver not closed at Stop; "
                         "sim-roleloss adds role loss INSIDE hook/delete functions and acknowledgements that ignore a cancelled context (model: Outcome.lost, Env.ackIgn; Pres.ack' covers both kinds of acknowledgement). ")
TEXTS["C09"]["text"] += ("'Latest = newest created run' is the contract theorem of RefStore (C17); the in-memory and the SQL store are tied to it under C09 too (mem-recordstore, sql-recordstore): "
                         "a Latest answer that names another run or another run state than the reference is reported as a C09 violation with the operation sequence as replay. ")
TEXTS["C11"]["text"] += ("live-supervise also has 2-16 goroutines call Run at the same moment on workflows of 9-323 processes: every caller's Run must return with all processes registered and Stop must then reach all of them "
                         "(also under the race detector); sim-roleloss co-simulates role loss in the middle of a hook or delete function. ")
TEXTS["C14"]["text"] += ("Added theorem C14_failed_hook_never_acked: whatever made the hook fail - its own error or the loss of the role while it ran (Outcome.lost) - and whether or not the streamer's acknowledgement looks at the "
                         "cancelled context (Env.ackIgn), the cursor stays; suite sim-roleloss co-simulates exactly these executions and checks at quiescence that every hooked entry had a successful invocation. ")
TEXTS["C15"]["text"] += ("Monitor added at quiescence: after a fault-free drain no run may still be RequestedDataDeleted (delete-request-never-executed; the simulated streamer never loses events); "
                         "sim-roleloss adds delete functions that fail while the delete consumer loses its role. ")
