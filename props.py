"""Per-property configuration of ./check: Lean modules holding the property theorems, harness suites
(T3 + monitors), what is modelled rather than verified, assumptions."""

PROPS = {
    "C02": {
        "lean": ["WorkflowModel.Props.C02Graph"],
        "suites": ["pure-graph"],
        "assumptions": [],
    },
    "C03": {
        "lean": ["WorkflowModel.Props.C03Table", "WorkflowModel.Props.C02Graph"],
        "suites": ["pure-ctl", "pure-graph"],
        "assumptions": [],
    },
    "C04": {
        "lean": ["WorkflowModel.Props.C04"],
        "suites": ["corpus", "sim-random", "sim-adversary"],
        "modelled": ["strconv.ParseInt of the record_version header (canonical decimal renderings only)"],
        "assumptions": ["reads are current for the 'acted only when current' clause; with a replica lagging at exactly the event's version the clause fails on the unchanged tree (known finding F16)"],
    },
    "C05": {
        "lean": ["WorkflowModel.Props.C05"],
        "suites": ["corpus", "sim-random"],
        "modelled": ["protobuf round trip of the outbox record (sampled by the relay monitor: the event sent must equal the decoded entry)",
                     "the reference store contract (Store = record + one outbox entry atomically); bundled stores are tied to it by C17/C18"],
        "assumptions": ["outbox lookup limit >= 1 for progress"],
    },
    "C06": {
        "lean": ["WorkflowModel.Props.C06"],
        "suites": ["pure-routing"],
        "modelled": ["protobuf encoding of OutboxRecord (decoded by the harness with the generated Go code)"],
        "assumptions": ["workflow names are valid UTF-8 (proto string fields)"],
    },
    "C10": {
        "lean": ["WorkflowModel.Props.C10Shard"],
        "suites": ["pure-shards"],
        "assumptions": [],
    },
}
