import WorkflowModel.Model.Adapters.RefRoles
/-! # C11 (role scheduler clause) — two holders of one role never overlap

Invariant of the contract `RefRoles` in every reachable state, for every sequence of requests, grants (legal or refused)
and cancellations. The bundled `memrolescheduler` is tied to the contract by the suite `mem-roles`: real `Await` calls from
concurrent goroutines; every observed grant must be a legal `grant` of the model at that moment. -/
namespace WorkflowModel.C11Roles
open WorkflowModel.RefRoles

/-- no two live holders share a role -/
def Exclusive (s : RState) : Prop := s.holders.Pairwise (fun a b => a.2 ≠ b.2)

theorem exclusive_init : Exclusive {} := List.Pairwise.nil

theorem exclusive_step (s : RState) (op : Op) (h : Exclusive s) : Exclusive (s.apply op) := by
  cases op with
  | request id r => exact h
  | finish id => exact List.Pairwise.sublist List.filter_sublist h
  | grant id =>
    simp only [RState.apply, RState.grant]
    cases hf : s.waiting.find? (·.1 == id) with
    | none => exact h
    | some w =>
      simp only []
      by_cases hh : s.held w.2 = true
      · simp only [hh, if_true]; exact h
      · simp only [hh, Bool.false_eq_true, if_false]
        unfold Exclusive
        rw [List.pairwise_append]
        refine ⟨h, by simp, ?_⟩
        intro a ha b hb
        simp only [List.mem_singleton] at hb; subst hb
        intro e
        apply hh
        simp only [RState.held, List.any_eq_true, beq_iff_eq]
        exact ⟨a, ha, e⟩

/-- In every reachable state of the scheduler contract no role has two live holders. -/
theorem C11_roles_exclusive (ops : List Op) : Exclusive (ops.foldl RState.apply {}) := by
  suffices ∀ s, Exclusive s → Exclusive (ops.foldl RState.apply s) from this {} exclusive_init
  induction ops with
  | nil => intro s h; exact h
  | cons op ops ih => intro s h; exact ih _ (exclusive_step s op h)

/-- a grant while the role is held is refused and changes nothing -/
theorem C11_grant_refused_while_held (s : RState) (id : Nat) (w : Nat × Nat) (hw : s.waiting.find? (·.1 == id) = some w)
    (hh : s.held w.2 = true) : s.grant id = (s, false) := by
  simp [RState.grant, hw, hh]

/-- once the holder's context is cancelled the role is free again (given it was the only holder: Exclusive) -/
theorem C11_finish_frees (s : RState) (id role : Nat) (h : Exclusive s) (hm : (id, role) ∈ s.holders) :
    (s.finish id).held role = false := by
  simp only [RState.held, RState.finish, List.any_eq_false, List.mem_filter, beq_iff_eq, and_imp]
  intro x hx hne hr
  -- x and (id, role) are two holders of the same role, so they are the same entry
  by_cases hxe : x = (id, role)
  · subst hxe; simp at hne
  · rcases List.mem_iff_getElem.mp hx with ⟨i, hi, rfl⟩
    rcases List.mem_iff_getElem.mp hm with ⟨j, hj, hjeq⟩
    have hij : i ≠ j := by intro e; subst e; exact hxe hjeq
    have hp := List.pairwise_iff_getElem.mp h
    rcases Nat.lt_or_gt_of_ne hij with hlt | hgt
    · exact hp i j hi hj hlt (by rw [hjeq]; exact hr)
    · exact hp j i hj hi hgt (by rw [hjeq]; exact hr.symm)

example : (((({} : RState).request 1 7).request 2 7 |>.grant 1).1.grant 2).2 = false := by decide
example : (((({} : RState).request 1 7).request 2 7 |>.grant 1).1.finish 1 |>.grant 2).2 = true := by decide

end WorkflowModel.C11Roles
