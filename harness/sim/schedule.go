package sim

import (
	"context"
	"fmt"
	"sort"
	"strconv"
	"strings"
	"time"

	"github.com/robfig/cron/v3"

	"github.com/luno/workflow"
	"github.com/luno/workflow/verifharness/leandrv"
	"github.com/luno/workflow/verifharness/report"
	"github.com/luno/workflow/verifharness/rng"
)

// schedProc is a Workflow.Schedule call running as one more gated process of the simulator.
type schedProc struct {
	tok      string
	role     string
	fid      int
	filter   bool // what the schedule filter answers
	useFilt  bool
	initial  int
	returned chan error
	filterN  int
}

// StartSchedule launches w.Schedule in its own goroutine and waits until it parks at its role gate.
func (s *Sim) StartSchedule(fid int, spec string, initial int, useFilter bool) (*schedProc, error) {
	p := &schedProc{tok: "sch:" + strconv.Itoa(fid), fid: fid, filter: true, useFilt: useFilter, initial: initial, returned: make(chan error, 1)}
	p.role = workflow.VerifMakeRole(s.W.Name, "f"+strconv.Itoa(fid), "scheduler", spec)
	s.Tok[p.role] = p.tok
	s.Role[p.tok] = p.role
	o := MkObj(initial)
	opts := []workflow.ScheduleOption[Obj, St]{workflow.WithScheduleInitialValue[Obj, St](&o)}
	if useFilter {
		opts = append(opts, workflow.WithScheduleFilter[Obj, St](func(ctx context.Context) (bool, error) {
			p.filterN++
			return p.filter, nil
		}))
	}
	s.nProcs++
	go func() { p.returned <- s.WF.Schedule("f"+strconv.Itoa(fid), spec, opts...) }()
	if !s.W.S.waitParked(s.nProcs) {
		return nil, fmt.Errorf("sim: the schedule process did not park at its role gate")
	}
	return p, nil
}

var cronSpecs = []string{"* * * * *", "*/15 * * * *", "0 * * * *", "0 0 * * *", "0 0 1 * *", "0,30 9-17 * * 1-5", "5 4 * * 0", "*/7 */5 * * *"}

type schOp struct {
	Kind string `json:"kind"` // step | tick | filter | finish | lease
	Sec  int    `json:"sec,omitempty"`
	On   bool   `json:"on,omitempty"`
}

func (o schOp) String() string {
	switch o.Kind {
	case "tick":
		return fmt.Sprintf("tick %ds", o.Sec)
	case "filter":
		return fmt.Sprintf("filter=%v", o.On)
	}
	return o.Kind
}

type schCase struct {
	Spec         string   `json:"spec"`
	StartSec     int      `json:"start_offset_sec"`
	UseFilter    bool     `json:"use_filter"`
	IgnoreCancel bool     `json:"adapters_ignore_cancelled_context"`
	External     bool     `json:"external_triggers"` // other callers trigger the same foreign ID meanwhile (C09); the scheduler model is not consulted
	Initial      int      `json:"initial_value"`
	Ops          []schOp  `json:"ops"`
	Readable     []string `json:"readable,omitempty"`
}

func schConfig() Config {
	return Config{Name: "sched wf", Calls: []BuilderCall{{Kind: "step", From: 1, Dests: []int{2}}}, ErrBackOffSec: 1, OutboxLimit: 1000, RetryEnabled: false, RetryAfterSec: 3600}
}

// runScheduleCase drives one history; the model is asked the same questions. Returns a violation or disagreement text.
func runScheduleCase(d *leandrv.Driver, c schCase, res *report.Result) error {
	if c.External {
		d = &leandrv.Driver{Null: true}
	}
	s, err := NewSim(schConfig())
	if err != nil {
		return err
	}
	defer s.Stop()
	s.W.IgnoreCancel = c.IgnoreCancel
	off := func(t time.Time) int64 { return int64(t.Sub(Epoch) / time.Second) }
	s.Tick(time.Duration(c.StartSec) * time.Second)
	sched, err := cron.ParseStandard(c.Spec)
	if err != nil {
		return err
	}
	// cron instants handed to the model, computed with the library the code uses: the first instant after every clock
	// reading that occurs in this history (exactly the arguments the process can pass to schedule.Next)
	seenT := map[int64]bool{}
	var tickT []int64
	addNext := func(t time.Time) {
		n := off(sched.Next(t))
		if !seenT[n] {
			seenT[n] = true
			tickT = append(tickT, n)
		}
	}
	cur := s.W.S.now
	addNext(cur)
	for _, o := range c.Ops {
		if o.Kind == "tick" {
			cur = cur.Add(time.Duration(o.Sec) * time.Second)
			addNext(cur)
		}
	}
	sort.Slice(tickT, func(i, j int) bool { return tickT[i] < tickT[j] })
	var ticks []string
	for _, t := range tickT {
		ticks = append(ticks, strconv.FormatInt(t, 10))
	}
	if _, err := d.Ask("sch reset " + strings.Join(ticks, ",")); err != nil {
		return err
	}
	firstTickAfter := func(t int64) int64 { return off(sched.Next(Epoch.Add(time.Duration(t) * time.Second))) }
	p, err := s.StartSchedule(0, c.Spec, c.Initial, c.UseFilter)
	if err != nil {
		return err
	}
	start := off(s.W.S.now)
	viol := func(sig, detail string, upto int) {
		cc := c
		cc.Ops = c.Ops[:upto+1]
		cc.Readable = nil
		for _, o := range cc.Ops {
			cc.Readable = append(cc.Readable, o.String())
		}
		res.Violate(report.Violation{Property: "C20", Oracle: "schedule-oracle", Signature: sig, Detail: detail, Replay: map[string]any{"suite": "sim-schedule", "case": cc}})
	}
	disagree := func(where, impl, model string, upto int) {
		cc := c
		cc.Ops = c.Ops[:upto+1]
		res.Disagree(report.Disagreement{Properties: []string{"C20"}, Where: "sim-schedule: " + where, Input: cc, Impl: impl, Model: model})
	}
	var created []int64 // creation instants of the runs (all by the scheduler)
	lastFinished := true
	anchor := start // the later of the schedule's start and the creation of the latest run
	for i, o := range c.Ops {
		res.Count("op:" + o.Kind)
		switch o.Kind {
		case "tick":
			s.Tick(time.Duration(o.Sec) * time.Second)
		case "filter":
			p.filter = o.On
		case "finish":
			// let the other processes complete the run: relay, step 1 -> 2 (terminal), relay
			if len(s.W.runs) == 0 || lastFinished {
				continue
			}
			for k := 0; k < 12; k++ {
				for _, pi := range s.Procs() {
					if pi.Tok == p.tok || !pi.Enabled {
						continue
					}
					env := Env{}
					if strings.HasPrefix(pi.Tok, "st:") {
						env = Env{Outcomes: []string{"r:2:" + strconv.Itoa(1000+i)}}
					}
					if _, err := s.Step(pi.Tok, env); err != nil && err != errNotEnabled {
						return err
					}
				}
			}
			rr := s.W.runs[len(s.W.runs)-1]
			last := rr.versions[len(rr.versions)-1]
			if last.RunState.Finished() {
				lastFinished = true
				if _, err := d.Ask("sch finish"); err != nil {
					return err
				}
				res.Count("run-finished")
			}
		case "ext":
			// somebody else triggers the same foreign ID (sequential trigger, connector): accepted only when the latest run is finished
			nb := len(s.W.runs)
			s.Trigger(0, 0, 2*(100+i), Env{})
			if len(s.W.runs) > nb {
				now := off(s.W.S.now)
				if !lastFinished {
					res.Violate(report.Violation{Property: "C09", Oracle: "one-unfinished-run", Signature: "two-unfinished-runs-for-one-foreign-id",
						Detail: fmt.Sprintf("an external Trigger at %d created a run while the previous run is unfinished", now), Replay: map[string]any{"suite": "sim-schedule", "case": c}})
				}
				created = append(created, now)
				anchor = now
				lastFinished = false
			}
		case "lease":
			pk, ok := s.W.S.parkedAt(p.role)
			if ok && pk.kind == gTimer {
				if _, err := d.Ask("sch lose"); err != nil {
					return err
				}
			}
			nb := len(s.W.runs)
			if _, err := s.LeaseLoss(p.tok); err != nil {
				return err
			}
			if len(s.W.runs) != nb {
				now := off(s.W.S.now)
				need := firstTickAfter(anchor)
				sig := "run-created-on-role-loss"
				if now < need {
					sig = "run-created-early"
				}
				viol(sig, fmt.Sprintf("the schedule process lost its role at %d while waiting for %d and a run was created (first cron instant after %d is %d)", now, off(pk.deadline), anchor, need), i)
				created = append(created, now)
				anchor = now
				lastFinished = false
			}
		case "step":
			pk, ok := s.W.S.parkedAt(p.role)
			if !ok {
				return fmt.Errorf("sim-schedule: the schedule process is not parked")
			}
			now := off(s.W.S.now)
			before := len(s.W.runs)
			fBefore := p.filterN
			if pk.kind == gTimer && pk.deadline.After(s.W.S.now) {
				res.Count("step:not-due")
				m, err := d.Ask(fmt.Sprintf("sch wake %d %s", now, b2s(p.filter || !p.useFilt)))
				if err != nil {
					return err
				}
				if m != "not-due" && !d.Null {
					disagree("the timer of the schedule process is not due", "not-due", m, i)
				}
				continue
			}
			wasTimer := pk.kind == gTimer
			if _, err := s.Step(p.tok, Env{}); err != nil {
				return err
			}
			after := len(s.W.runs)
			if !wasTimer {
				// role gate -> reads Latest, arms the timer
				nk, ok := s.W.S.parkedAt(p.role)
				impl := "?"
				if ok && nk.kind == gTimer {
					impl = fmt.Sprintf("deadline:%d", off(nk.deadline))
				}
				m, err := d.Ask(fmt.Sprintf("sch park %d", now))
				if err != nil {
					return err
				}
				res.Eval(1)
				res.Count("step:park")
				if impl != m && !d.Null {
					disagree("deadline armed by the schedule process", impl, m, i)
				}
				if after != before {
					viol("run-created-without-waiting", fmt.Sprintf("a run was created while arming the timer at %d", now), i)
				}
				continue
			}
			// timer fired: filter, Trigger
			impl := "skip"
			if after == before+1 {
				impl = "created"
			} else if after != before {
				impl = fmt.Sprintf("created-%d-runs", after-before)
			}
			m, err := d.Ask(fmt.Sprintf("sch wake %d %s", now, b2s(p.filter || !p.useFilt)))
			if err != nil {
				return err
			}
			res.Eval(1)
			res.Count("step:wake:" + m)
			if (m == "created") != (impl == "created") && !d.Null {
				disagree("outcome of a schedule iteration", impl, m, i)
			}
			// the property's own oracle
			if after > before {
				if c.UseFilter && !p.filter {
					viol("run-created-while-filter-false", fmt.Sprintf("the schedule filter answers false but a run was created at %d", now), i)
				}
				if !lastFinished {
					viol("run-created-while-previous-unfinished", fmt.Sprintf("the previous run is unfinished but a run was created at %d", now), i)
					cc := c
					cc.Ops = c.Ops[:i+1]
					res.Violate(report.Violation{Property: "C09", Oracle: "one-unfinished-run", Signature: "scheduled-trigger-while-in-progress",
						Detail: fmt.Sprintf("the scheduler created a run at %d although the latest run of the foreign ID is unfinished: two unfinished runs for one foreign ID", now), Replay: map[string]any{"suite": "sim-schedule", "case": cc}})
				}
				if after-before > 1 {
					viol("several-runs-in-one-iteration", fmt.Sprintf("%d runs created at %d", after-before, now), i)
				}
				need := firstTickAfter(anchor)
				if c.External {
					need = now // with other callers triggering, the scheduler's deadline was computed from what it read earlier: not compared
				}
				if now < need {
					viol("run-created-early", fmt.Sprintf("run created at %d, before the first cron instant %d that follows %d (the later of the schedule's start and the latest run's creation)", now, need, anchor), i)
				}
				if len(created) > 0 {
					prev := created[len(created)-1]
					if firstTickAfter(prev) > now && !c.External {
						viol("two-runs-in-one-tick", fmt.Sprintf("runs created at %d and %d with no cron instant in between", prev, now), i)
					}
				}
				rr := s.W.runs[len(s.W.runs)-1]
				if got := ObjToken(rr.versions[0].Object); got != c.Initial {
					viol("initial-value-not-passed", fmt.Sprintf("the scheduled run starts from object %d, configured initial value %d", got, c.Initial), i)
				}
				if c0 := off(rr.versions[0].CreatedAt); c0 != now {
					viol("run-created-at-other-instant", fmt.Sprintf("run created at %d while the clock reads %d", c0, now), i)
				}
				created = append(created, now)
				anchor = now
				lastFinished = false
			} else if c.UseFilter && !p.filter && p.filterN == fBefore {
				// nothing demanded here: the filter may or may not be consulted
				_ = fBefore
			}
		}
	}
	// the schedule ends when the workflow stops
	if err := s.Stop(); err != nil {
		return err
	}
	select {
	case <-p.returned:
	case <-time.After(5 * time.Second):
		viol("schedule-did-not-end-with-stop", "Schedule has not returned 5s after Stop returned", len(c.Ops)-1)
	}
	for _, v := range s.W.Mon.Viol {
		if v.Property == "C20" || v.Property == "C11" {
			v.Replay = map[string]any{"suite": "sim-schedule", "case": c}
			res.Violate(v)
		}
	}
	return nil
}

func b2s(b bool) string {
	if b {
		return "1"
	}
	return "0"
}

// ParseEnvOrEmpty parses "f=.. o=.. s=.." fragments (as in action lines); errors give the empty environment.
func ParseEnvOrEmpty(s string) Env {
	a, err := ParseAction("act step ob f=- " + s + " s=0")
	if err != nil {
		return Env{}
	}
	return a.Env
}

func genSchCase(r *rng.R, long bool) schCase {
	c := schCase{Spec: rng.Pick(r, cronSpecs), StartSec: rng.Pick(r, []int{0, 1, 59, 60, 3599, 3600, 86399, 86400 * 3, 12345}), UseFilter: r.Chance(2, 3), IgnoreCancel: r.Chance(1, 2), External: r.Chance(1, 4), Initial: 2 * (1 + r.Intn(40))}
	n := 30
	if long {
		n = 60
	}
	ticks := []int{1, 7, 59, 60, 61, 600, 899, 900, 3600, 3601, 7200, 86400, 90000, 3 * 86400, 31 * 86400, 40 * 86400}
	for i := 0; i < n; i++ {
		switch k := r.Intn(100); {
		case k < 40:
			c.Ops = append(c.Ops, schOp{Kind: "step"})
		case k < 70:
			c.Ops = append(c.Ops, schOp{Kind: "tick", Sec: rng.Pick(r, ticks)})
		case k < 80 && c.UseFilter:
			c.Ops = append(c.Ops, schOp{Kind: "filter", On: r.Chance(1, 2)})
		case k < 86 && c.External:
			c.Ops = append(c.Ops, schOp{Kind: "ext"})
		case k < 93:
			c.Ops = append(c.Ops, schOp{Kind: "finish"})
		default:
			c.Ops = append(c.Ops, schOp{Kind: "lease"})
		}
	}
	return c
}

// ScheduleSuite: the real Workflow.Schedule under the gated clock vs the Lean scheduler model and the property's oracle.
func ScheduleSuite(d *leandrv.Driver, r *rng.R, res *report.Result, thorough bool) error {
	res.Rule = "cron specifications " + strings.Join(cronSpecs, " | ") + "; schedule started at offsets around minute/hour/day boundaries; histories of schedule-process steps, clock advances from 1 s to 40 days (jumps across many ticks), " +
		"filter answers, completions of the scheduled run by the other processes, role losses while the timer is armed; each armed deadline and each iteration outcome compared with the Lean scheduler model (tick list from the cron library); " +
		"oracle from the property text on every created run; rejected calls (invalid specification, workflow not running) checked to start nothing"
	n := 150
	if thorough {
		n = 2500
	}
	// rejected immediately
	for _, spec := range []string{"", "not a cron", "* * * *", "61 * * * *", "* * * * * * *"} {
		s, err := NewSim(schConfig())
		if err != nil {
			return err
		}
		before := len(s.WF.States())
		done := make(chan error, 1)
		go func() { done <- s.WF.Schedule("f0", spec) }()
		select {
		case e := <-done:
			if e == nil {
				res.Violate(report.Violation{Property: "C20", Oracle: "schedule-oracle", Signature: "invalid-spec-accepted", Detail: fmt.Sprintf("Schedule(%q) returned nil", spec), Replay: map[string]any{"suite": "sim-schedule", "spec": spec}})
			}
		case <-time.After(2 * time.Second):
			res.Violate(report.Violation{Property: "C20", Oracle: "schedule-oracle", Signature: "invalid-spec-not-rejected-immediately", Detail: fmt.Sprintf("Schedule(%q) did not return", spec), Replay: map[string]any{"suite": "sim-schedule", "spec": spec}})
		}
		if len(s.WF.States()) != before {
			res.Violate(report.Violation{Property: "C20", Oracle: "schedule-oracle", Signature: "invalid-spec-started-a-process", Detail: fmt.Sprintf("Schedule(%q) registered a process", spec), Replay: map[string]any{"suite": "sim-schedule", "spec": spec}})
		}
		res.Eval(1)
		res.Count("rejected:invalid-spec")
		s.Stop()
	}
	{
		// not running
		w := NewWorld("sched wf")
		wf := w.Build(schConfig())
		done := make(chan error, 1)
		go func() { done <- wf.Schedule("f0", "* * * * *") }()
		select {
		case e := <-done:
			if e == nil {
				res.Violate(report.Violation{Property: "C20", Oracle: "schedule-oracle", Signature: "schedule-accepted-before-run", Detail: "Schedule on a workflow that is not running returned nil", Replay: map[string]any{"suite": "sim-schedule", "not_running": true}})
			}
		case <-time.After(2 * time.Second):
			res.Violate(report.Violation{Property: "C20", Oracle: "schedule-oracle", Signature: "schedule-before-run-not-rejected-immediately", Detail: "Schedule on a workflow that is not running did not return", Replay: map[string]any{"suite": "sim-schedule", "not_running": true}})
		}
		if len(wf.States()) != 0 {
			res.Violate(report.Violation{Property: "C20", Oracle: "schedule-oracle", Signature: "schedule-before-run-started-a-process", Detail: "Schedule on a workflow that is not running registered a process", Replay: map[string]any{"suite": "sim-schedule", "not_running": true}})
		}
		res.Eval(1)
		res.Count("rejected:not-running")
	}
	for it := 0; it < n; it++ {
		c := genSchCase(r, thorough)
		if err := runScheduleCase(d, c, res); err != nil {
			return fmt.Errorf("history %d (%+v): %w", it, c, err)
		}
		var hs []string
		for _, o := range c.Ops {
			hs = append(hs, o.String())
		}
		res.NonTrivial(c.Spec + "|" + strconv.Itoa(c.StartSec) + "|" + strings.Join(hs, ";"))
		if it < 2 {
			res.Sample(map[string]any{"spec": c.Spec, "start": c.StartSec, "ops": hs[:10]})
		}
		res.Traces++
	}
	return nil
}
