import WorkflowModel.Lemmas.Reach
import WorkflowModel.Props.Tie
/-! # C05 — Outbox relay: every write is published at least once and removed only afterwards

Model: `Engine` (the whole engine, not a relay-only toy): `Sys.write` is the reference store contract (record and
one outbox entry in one step), `relayOp` is `purgeOutbox` at adapter-call granularity. The theorems quantify over
EVERY list of actions — any interleaving of writers (Trigger, Callback, controllers, every consumer, the timeout
poller) with relay cycles — and, inside every operation, over EVERY fault plan (error before / after the effect,
crash, at any adapter call), every batch size and every lookup limit. -/
namespace WorkflowModel.C05
open WorkflowModel Engine

/-- Every record write leaves exactly one new pending outbox entry, and that entry describes the write
(reference-store contract; `memrecordstore`/`sqlstore` are tied to it by C17/C18). -/
theorem C05_store_one_entry (s : Sys) (cfg : Cfg) (r : Rec) :
    ∃ w, (s.write cfg r).outbox = s.outbox ++ [{ ord := s.outN, ev := Routing.route w }] ∧
      Written (s.write cfg r) w ∧ w.runId = r.runId ∧ w.status = r.status ∧ w.runState = r.runState ∧ w.version = r.version := by
  refine ⟨if cfg.stamp then { r with updatedAt := s.now } else r, (write_outbox s cfg r).1,
    (written_write s cfg r _).mpr (Or.inr rfl), ?_⟩
  split <;> simp

/-- In every reachable state: every write is still pending in the outbox or has been published; nothing is published
or pending that was not written; the published event equals the entry recorded for the write (topic, run ID, status,
run state, version) up to the streamer's time stamp. -/
theorem C05_inv (cfg : Cfg) (as : List Act) :
    let s := runActs cfg {} as
    (∀ w, Written s w → (∃ o ∈ s.outbox, o.ev = Routing.route w) ∨ (∃ e ∈ s.log, core e = Routing.route w)) ∧
    (∀ e ∈ s.log, ∃ w, Written s w ∧ core e = Routing.route w) ∧
    (∀ o ∈ s.outbox, ∃ w, Written s w ∧ o.ev = Routing.route w) := by
  have h := reachable_inv (RelayInv.stepInv cfg) as
  exact ⟨h.written_pending_or_published, h.log_written, h.outbox_written⟩

/-- One relay cycle, any fault plan: an entry is removed only if the stream log contains its event; a failure or crash
while creating the sender, sending or deleting leaves the invariant intact (the entry stays unless it was sent). -/
theorem C05_cycle_any_fault (cfg : Cfg) (env : Env) (st : OpSt) (h : RelayInv st.sys) :
    RelayInv ((relayOp cfg) env st).2.sys := Pres.relayOp cfg env st h

/-- An entry that was pending before its relay step and is gone afterwards has been accepted by the streamer: the log
holds its event. For every fault plan (the step may be cut anywhere). -/
theorem C05_removed_only_after_send (o : OutE) (env : Env) (st : OpSt)
    (hin : o ∈ st.sys.outbox) (hgone : o ∉ ((relayEntry o) env st).2.sys.outbox) :
    ∃ e ∈ ((relayEntry o) env st).2.sys.log, e = { o.ev with createdAt := st.sys.now } := by
  rcases relayEntry_shape o env st with h | h | h
  · rw [h] at hgone; exact absurd hin hgone
  · rw [h] at hgone; exact absurd (by simpa [Sys.relaySend] using hin) hgone
  · rw [h]; exact ⟨_, by simp [Sys.relaySend, Sys.relayDelete], rfl⟩

/-- A failure or crash while creating the sender, sending or deleting never removes an entry that was not sent: whenever
the log did not grow, the outbox is untouched. -/
theorem C05_failure_keeps_entry (o : OutE) (env : Env) (st : OpSt)
    (hlog : ((relayEntry o) env st).2.sys.log = st.sys.log) :
    ((relayEntry o) env st).2.sys.outbox = st.sys.outbox := by
  rcases relayEntry_shape o env st with h | h | h
  · rw [h]
  · rw [h]; rfl
  · rw [h] at hlog; simp [Sys.relaySend, Sys.relayDelete] at hlog

/-- Progress: a fault-free relay step on a pending entry publishes it and removes it. -/
theorem C05_progress_one (o : OutE) (st : OpSt) (hc : st.cancelled = false) :
    ((relayEntry o) {} st).2.sys = (st.sys.relaySend { o.ev with createdAt := st.sys.now }).relayDelete o.ord ∧
    ((relayEntry o) {} st).1 = .ok () := by
  simp [relayEntry, Engine.call, Engine.tryM, Engine.emit, hc, Bind.bind]

/-- T2: the order of the relay's adapter calls in the current source: list, new sender, send, close, delete -/
theorem C05_tie_order : Tie.purgeOutbox = true ∧ Tie.updateRecord = true ∧ Tie.memStore = true := by decide +kernel

/-- non-vacuity: trigger, relay with a crash right after the send took effect, relay again — the entry survives the
first cycle, the process backs off and returns, the event is published twice (at-least-once), and the outbox is empty at the end -/
example :
    let cfg : Cfg := { calls := [{ kind := .step, src := 1, dests := [2] }] }
    let s := runActs cfg {} [.trigger 0 0 7 {}, .step .outbox { faults := [(2, .after)] }, .tick 1, .step .outbox {}, .step .outbox {}]
    s.outbox = [] ∧ s.log.length = 2 := by decide +kernel

end WorkflowModel.C05
