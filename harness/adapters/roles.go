package adapters

import (
	"context"
	"fmt"
	"sort"
	"strings"
	"sync"
	"time"

	"github.com/luno/workflow"
	"github.com/luno/workflow/adapters/memrolescheduler"
	"github.com/luno/workflow/verifharness/leandrv"
	"github.com/luno/workflow/verifharness/report"
	"github.com/luno/workflow/verifharness/rng"
)

type roOp struct {
	Kind string // req | end
	ID   int
	Role int
}

func (o roOp) String() string { return fmt.Sprintf("%s id%d role%d", o.Kind, o.ID, o.Role) }

type roEvent struct {
	id    int
	alive bool // the returned context was still live when the requester reported
	err   error
}

// RolesSuite: memrolescheduler under concurrent Await calls, monitored by the Lean contract RefRoles: every grant that is
// observed must be a legal grant of the model at that moment (requester waiting, role free).
func RolesSuite(mk func() workflow.RoleScheduler) func(d *leandrv.Driver, r *rng.R, res *report.Result, thorough bool) error {
	return func(d *leandrv.Driver, r *rng.R, res *report.Result, thorough bool) error {
		res.Rule = "sequences of Await requests (fresh contexts, 3 roles, up to 10 requesters) and context cancellations of holders and of waiters; each requester runs in its own goroutine and reports when Await returns; " +
			"after every operation the observed returns are fed to the Lean contract RefRoles as grants (returns with an already cancelled context first, as grant+end): an illegal grant = two live holders of one role"
		n, L := 60, 24
		if thorough {
			n, L = 600, 40
		}
		for it := 0; it < n; it++ {
			rs := mk()
			if _, err := d.Ask("ro reset"); err != nil {
				return err
			}
			events := make(chan roEvent, 64)
			cancels := map[int]context.CancelFunc{}
			roleOf := map[int]int{}
			state := map[int]string{} // waiting | holding | done
			var wg sync.WaitGroup
			var ops []roOp
			var hist []string
			nextID := 0
			bad := false
			settle := func() error {
				// collect returns until nothing arrives for a while
				var batch []roEvent
				idle := time.NewTimer(4 * time.Millisecond)
				for {
					select {
					case e := <-events:
						batch = append(batch, e)
						if !idle.Stop() {
							select {
							case <-idle.C:
							default:
							}
						}
						idle.Reset(4 * time.Millisecond)
						continue
					case <-idle.C:
					}
					break
				}
				sort.SliceStable(batch, func(i, j int) bool { return !batch[i].alive && batch[j].alive })
				for _, e := range batch {
					if e.err != nil { // refused: context was already cancelled when Await started
						d.Ask(fmt.Sprintf("ro end %d", e.id))
						state[e.id] = "done"
						continue
					}
					ans, err := d.Ask(fmt.Sprintf("ro grant %d", e.id))
					if err != nil {
						return err
					}
					res.Eval(1)
					if ans != "ok" && !d.Null {
						holders, _ := d.Ask("ro holders")
						res.Violate(report.Violation{Property: "C11", Oracle: "role-held-by-one", Signature: "two-holders-of-one-role",
							Detail: fmt.Sprintf("requester %d was granted role %d while the reference scheduler has holders [%s] (live context: %v)", e.id, roleOf[e.id], holders, e.alive),
							Replay: map[string]any{"suite": "mem-roles", "ops": append([]roOp{}, ops...), "readable": append([]string{}, hist...)}})
						bad = true
						return nil
					}
					if e.alive {
						state[e.id] = "holding"
						res.Count("grant:live")
					} else {
						d.Ask(fmt.Sprintf("ro end %d", e.id))
						state[e.id] = "done"
						res.Count("grant:already-cancelled")
					}
				}
				return nil
			}
			for i := 0; i < L && !bad; i++ {
				var o roOp
				var live []int
				for id, st := range state {
					if st != "done" {
						live = append(live, id)
					}
				}
				sort.Ints(live)
				if len(live) == 0 || (nextID < 10 && r.Chance(1, 2)) {
					o = roOp{Kind: "req", ID: nextID, Role: r.Intn(3)}
					nextID++
				} else {
					id := rng.Pick(r, live)
					o = roOp{Kind: "end", ID: id, Role: roleOf[id]}
				}
				ops = append(ops, o)
				hist = append(hist, o.String())
				res.Count("op:" + o.Kind)
				switch o.Kind {
				case "req":
					ctx, cancel := context.WithCancel(context.Background())
					cancels[o.ID] = cancel
					roleOf[o.ID] = o.Role
					state[o.ID] = "waiting"
					if _, err := d.Ask(fmt.Sprintf("ro req %d %d", o.ID, o.Role)); err != nil {
						return err
					}
					wg.Add(1)
					go func(id, role int) {
						defer wg.Done()
						c, _, err := rs.Await(ctx, fmt.Sprintf("role-%d", role))
						if err != nil {
							events <- roEvent{id: id, err: err}
							return
						}
						events <- roEvent{id: id, alive: c.Err() == nil}
					}(o.ID, o.Role)
				case "end":
					cancels[o.ID]()
					if state[o.ID] == "holding" {
						d.Ask(fmt.Sprintf("ro end %d", o.ID))
						state[o.ID] = "done"
						res.Count("end:holder")
					} else {
						res.Count("end:waiter") // stays in the model's waiting list until its Await returns
					}
				}
				if err := settle(); err != nil {
					return err
				}
			}
			// drain: cancel everything; every Await must return
			for _, c := range cancels {
				c()
			}
			done := make(chan struct{})
			go func() { wg.Wait(); close(done) }()
			select {
			case <-done:
			case <-time.After(5 * time.Second):
				res.Violate(report.Violation{Property: "C11", Oracle: "role-held-by-one", Signature: "await-never-returns-after-cancel",
					Detail: "after cancelling every context some Await call did not return within 5s", Replay: map[string]any{"suite": "mem-roles", "ops": ops, "readable": hist}})
			}
			res.NonTrivial(strings.Join(hist, ";"))
			if it < 2 {
				res.Sample(hist)
			}
			res.Traces++
		}
		return nil
	}
}

func MemRoles() workflow.RoleScheduler { return memrolescheduler.New() }
