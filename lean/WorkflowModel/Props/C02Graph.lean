import WorkflowModel.Lemmas.Graph
/-! # C02 / C03 (graph part) — the declared-edge relation and the terminal classification

`Graph.build es` is the fold of the transcription of `AddTransition` over the builder calls `es` in call
order. The statements hold for every list of calls, hence for every order of the same calls. -/
namespace WorkflowModel.C02
open WorkflowModel Graph

/-- the transitions the updater validates against are exactly the declared (from, to) pairs -/
theorem C02_transitions_are_declared (es : List (Int × Int)) (a b : Int) :
    b ∈ transitions (build es) a ↔ (a, b) ∈ es := mem_transitions_iff es a b

/-- a status is a valid starting status iff it occurs in some builder call -/
theorem C02_valid_iff_declared (es : List (Int × Int)) (n : Int) :
    isValid (build es) n = true ↔ ∃ p ∈ es, p.1 = n ∨ p.2 = n := isValid_iff es n

/-- declared edges do not depend on the order of the builder calls -/
theorem C02_transitions_perm (es es' : List (Int × Int)) (h : ∀ p, p ∈ es ↔ p ∈ es') (a b : Int) :
    b ∈ transitions (build es) a ↔ b ∈ transitions (build es') a := by
  rw [C02_transitions_are_declared, C02_transitions_are_declared, h]

/-- (C03) terminal = is a destination and never a source -/
theorem C03_terminal_iff (es : List (Int × Int)) (n : Int) :
    isTerminal (build es) n = true ↔ ((∃ a, (a, n) ∈ es) ∧ ¬ ∃ b, (n, b) ∈ es) := isTerminal_iff es n

/-- (C03) the terminal classification is independent of the order of the builder calls -/
theorem C03_terminal_perm (es es' : List (Int × Int)) (h : ∀ p, p ∈ es ↔ p ∈ es') (n : Int) :
    isTerminal (build es) n = isTerminal (build es') n := isTerminal_perm es es' h n

/-- (C03) a terminal status has no outgoing transitions, so `validateTransition` rejects everything there -/
theorem C03_terminal_no_transitions (es : List (Int × Int)) (n : Int) (h : isTerminal (build es) n = true) :
    transitions (build es) n = [] := by
  have h2 := ((C03_terminal_iff es n).mp h).2
  cases hx : transitions (build es) n with
  | nil => rfl
  | cons b bs =>
    exfalso; apply h2
    exact ⟨b, (C02_transitions_are_declared es n b).mp (by rw [hx]; simp)⟩

/-- non-vacuity: a join, a branch and a self-loop, declared in "non-flow" order -/
example : transitions (build [(2, 3), (1, 2), (1, 3), (2, 2)]) 2 = [3, 2] ∧
    isTerminal (build [(2, 3), (1, 2), (1, 3), (2, 2)]) 3 = true ∧
    isTerminal (build [(2, 3), (1, 2), (1, 3), (2, 2)]) 2 = false := by decide

end WorkflowModel.C02
