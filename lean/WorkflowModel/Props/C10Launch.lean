import WorkflowModel.Model.Launch
import WorkflowModel.Props.Tie
/-! # C10 (launch clauses) — every configured process is launched exactly once

Over the launch model (`Launch.launches`, decisions regenerated from `Workflow.Run`): a unit with effective parallel
count n — its own count, or the workflow default when it has none — gets exactly the shards 1..n of n when n ≥ 2 and
exactly one un-sharded process otherwise; for steps AND for connectors; and no process is launched twice. Role names are
functions of stable identifiers only (the model has no access to display strings; T2 pins the makeRole arguments). -/
namespace WorkflowModel.C10Launch
open WorkflowModel Launch

theorem shards_le (p : Int) (f : Nat) (i : Int) :
    shards (fun j => decide (j ≤ p)) f i = (List.range (min f (p + 1 - i).toNat)).map (fun (k : Nat) => i + (k : Int)) := by
  induction f generalizing i with
  | zero => simp [shards]
  | succ f ih =>
    unfold shards
    by_cases h : i ≤ p
    · simp only [h, decide_true, if_true, ih]
      have e : min (f + 1) (p + 1 - i).toNat = min f (p + 1 - (i + 1)).toNat + 1 := by omega
      rw [e, List.range_succ_eq_map]
      simp only [List.map_cons, List.map_map, Int.natCast_zero, Int.add_zero]
      congr 1
      apply List.map_congr_left
      intro k _
      simp only [Function.comp]
      omega
    · simp only [h, decide_false, Bool.false_eq_true, if_false]
      have e : (p + 1 - i).toNat = 0 := by omega
      simp [e]

/-- the shards 1..n of n -/
def oneToN (n : Int) : List Int := (List.range n.toNat).map (fun (k : Nat) => 1 + (k : Int))

/-- effective parallel count: the unit's own count, or the default when it has none -/
def eff (dflt own : Int) : Int := if own ≠ 0 then own else dflt

/-- Steps: exactly one process per shard of the effective count (own or default), one un-sharded process below 2. -/
theorem C10_step_unit (dflt : Int) (s : Int × Int) :
    stepUnit dflt s = if eff dflt s.2 < 2 then [P.step s.1 1 1] else (oneToN (eff dflt s.2)).map (fun i => P.step s.1 i (eff dflt s.2)) := by
  unfold stepUnit eff
  simp only [Gen.G.runStepOverride, Gen.G.runStepSingle, Gen.G.runStepLoop, decide_eq_true_iff]
  by_cases ho : s.2 ≠ 0
  · simp only [ho, if_true, ne_eq, not_false_eq_true]
    by_cases h2 : s.2 < 2
    · simp [h2]
    · simp only [h2, if_false, shards_le, oneToN, fuelFor]
      have : min ((max s.2 s.2).toNat + 1) (s.2 + 1 - 1).toNat = s.2.toNat := by omega
      rw [this]
  · have ho' : s.2 = 0 := by simpa using ho
    simp only [ho', ne_eq, not_true_eq_false, if_false]
    by_cases h2 : dflt < 2
    · simp [h2]
    · simp only [h2, if_false, shards_le, oneToN, fuelFor]
      have : min ((max dflt 0).toNat + 1) (dflt + 1 - 1).toNat = dflt.toNat := by omega
      rw [this]

/-- Connectors: the same — in particular a connector WITHOUT its own count under a workflow default of n ≥ 2 is launched
as n shards of n (this is the statement that failed before the repair of defect F11). -/
theorem C10_conn_unit (dflt : Int) (c : Str × Int) :
    connUnit dflt c = if eff dflt c.2 < 2 then [P.conn c.1 1 1] else (oneToN (eff dflt c.2)).map (fun i => P.conn c.1 i (eff dflt c.2)) := by
  unfold connUnit eff
  simp only [Gen.G.runConnOverride, Gen.G.runConnSingle, Gen.G.runConnLoop, decide_eq_true_iff]
  by_cases ho : c.2 ≠ 0
  · simp only [ho, if_true, ne_eq, not_false_eq_true]
    by_cases h2 : c.2 < 2
    · simp [h2]
    · simp only [h2, if_false, shards_le, oneToN, fuelFor]
      have : min ((max c.2 c.2).toNat + 1) (c.2 + 1 - 1).toNat = c.2.toNat := by omega
      rw [this]
  · have ho' : c.2 = 0 := by simpa using ho
    simp only [ho', ne_eq, not_true_eq_false, if_false]
    by_cases h2 : dflt < 2
    · simp [h2]
    · simp only [h2, if_false, shards_le, oneToN, fuelFor]
      have : min ((max dflt 0).toNat + 1) (dflt + 1 - 1).toNat = dflt.toNat := by omega
      rw [this]

theorem oneToN_nodup (n : Int) : (oneToN n).Nodup := by
  unfold oneToN List.Nodup
  rw [List.pairwise_map]
  exact List.nodup_range.imp (fun h e => h (by omega))

theorem mem_oneToN (n i : Int) : i ∈ oneToN n ↔ 1 ≤ i ∧ i ≤ n := by
  simp only [oneToN, List.mem_map, List.mem_range]
  constructor
  · rintro ⟨k, hk, rfl⟩; omega
  · rintro ⟨h1, h2⟩; exact ⟨(i - 1).toNat, by omega, by omega⟩

/-- how many processes a unit gets -/
theorem C10_unit_count (dflt : Int) (s : Int × Int) :
    (stepUnit dflt s).length = (if eff dflt s.2 < 2 then 1 else (eff dflt s.2).toNat) := by
  rw [C10_step_unit]; split <;> simp [oneToN]

theorem stepUnit_nodup (dflt : Int) (s : Int × Int) : (stepUnit dflt s).Nodup := by
  rw [C10_step_unit]
  split
  · simp
  · unfold List.Nodup; rw [List.pairwise_map]
    exact (oneToN_nodup _).imp (fun h e => h (by injection e))

theorem connUnit_nodup (dflt : Int) (c : Str × Int) : (connUnit dflt c).Nodup := by
  rw [C10_conn_unit]
  split
  · simp
  · unfold List.Nodup; rw [List.pairwise_map]
    exact (oneToN_nodup _).imp (fun h e => h (by injection e))

theorem mem_stepUnit (dflt : Int) (s : Int × Int) (p : P) (h : p ∈ stepUnit dflt s) : ∃ i n, p = P.step s.1 i n := by
  rw [C10_step_unit] at h
  split at h
  · simp at h; exact ⟨1, 1, h⟩
  · simp only [List.mem_map] at h; obtain ⟨i, _, rfl⟩ := h; exact ⟨i, _, rfl⟩

theorem mem_connUnit (dflt : Int) (c : Str × Int) (p : P) (h : p ∈ connUnit dflt c) : ∃ i n, p = P.conn c.1 i n := by
  rw [C10_conn_unit] at h
  split at h
  · simp at h; exact ⟨1, 1, h⟩
  · simp only [List.mem_map] at h; obtain ⟨i, _, rfl⟩ := h; exact ⟨i, _, rfl⟩

def kind : P → Nat
  | .outbox => 0 | .step .. => 1 | .poller _ => 2 | .inserter _ => 3 | .conn .. => 4 | .hook _ => 5 | .delete => 6 | .retry => 7

/-- No process is launched twice: with one builder entry per step status, timeout status, connector name and hook state
(they are map keys / checked by the builder), all launched processes are pairwise different. -/
theorem C10_launched_once (c : Cfg) (hs : (c.steps.map (·.1)).Nodup) (ht : c.timeouts.Nodup)
    (hc : (c.connectors.map (·.1)).Nodup) (hh : c.hooks.Nodup) : (launches c).Nodup := by
  have hsteps : (c.steps.flatMap (stepUnit c.defaultPar)).Nodup := by
    unfold List.Nodup; rw [List.pairwise_flatMap]
    refine ⟨fun a _ => stepUnit_nodup _ a, ?_⟩
    have := List.pairwise_map.mp hs
    refine this.imp ?_
    intro a b hab x hxa y hyb e
    obtain ⟨i, n, rfl⟩ := mem_stepUnit _ _ _ hxa
    obtain ⟨j, m, rfl⟩ := mem_stepUnit _ _ _ hyb
    injection e with e1; exact hab e1
  have hconns : (c.connectors.flatMap (connUnit c.defaultPar)).Nodup := by
    unfold List.Nodup; rw [List.pairwise_flatMap]
    refine ⟨fun a _ => connUnit_nodup _ a, ?_⟩
    have := List.pairwise_map.mp hc
    refine this.imp ?_
    intro a b hab x hxa y hyb e
    obtain ⟨i, n, rfl⟩ := mem_connUnit _ _ _ hxa
    obtain ⟨j, m, rfl⟩ := mem_connUnit _ _ _ hyb
    injection e with e1; exact hab e1
  have htos : (c.timeouts.flatMap (fun s => [P.poller s, P.inserter s])).Nodup := by
    unfold List.Nodup; rw [List.pairwise_flatMap]
    refine ⟨fun a _ => by simp, ?_⟩
    refine ht.imp ?_
    intro a b hab x hxa y hyb e
    simp only [List.mem_cons, List.mem_nil_iff, or_false] at hxa hyb
    rcases hxa with rfl | rfl <;> rcases hyb with rfl | rfl <;> first | (injection e with e; exact hab e) | cases e
  have hhooks : (c.hooks.map P.hook).Nodup := by
    unfold List.Nodup; rw [List.pairwise_map]
    exact hh.imp (fun h e => h (by injection e))
  have ksteps : ∀ x ∈ c.steps.flatMap (stepUnit c.defaultPar), kind x = 1 := by
    intro x hx
    simp only [List.mem_flatMap] at hx
    obtain ⟨a, _, hxa⟩ := hx
    obtain ⟨i, n, rfl⟩ := mem_stepUnit _ _ _ hxa; rfl
  have kconns : ∀ x ∈ c.connectors.flatMap (connUnit c.defaultPar), kind x = 4 := by
    intro x hx
    simp only [List.mem_flatMap] at hx
    obtain ⟨a, _, hxa⟩ := hx
    obtain ⟨i, n, rfl⟩ := mem_connUnit _ _ _ hxa; rfl
  have ktos : ∀ x ∈ (if c.timeoutStore then c.timeouts.flatMap (fun s => [P.poller s, P.inserter s]) else []), kind x = 2 ∨ kind x = 3 := by
    intro x hx
    split at hx
    · simp only [List.mem_flatMap, List.mem_cons, List.mem_nil_iff, or_false] at hx
      obtain ⟨a, _, rfl | rfl⟩ := hx
      · exact Or.inl rfl
      · exact Or.inr rfl
    · cases hx
  have khooks : ∀ x ∈ c.hooks.map P.hook, kind x = 5 := by
    intro x hx; simp only [List.mem_map] at hx; obtain ⟨a, _, rfl⟩ := hx; rfl
  have htos' : (if c.timeoutStore then c.timeouts.flatMap (fun s => [P.poller s, P.inserter s]) else []).Nodup := by
    split
    · exact htos
    · exact List.nodup_nil
  have hretry : (if c.retry then [P.retry] else []).Nodup := by split <;> simp
  have kretry : ∀ x ∈ (if c.retry then [P.retry] else []), kind x = 7 := by
    intro x hx; split at hx
    · simp at hx; subst hx; rfl
    · cases hx
  have ne_of_kind : ∀ {a b : P}, kind a ≠ kind b → a ≠ b := fun h e => h (by rw [e])
  unfold launches
  generalize (if c.timeoutStore then c.timeouts.flatMap (fun s => [P.poller s, P.inserter s]) else []) = tos at ktos htos'
  generalize (if c.retry then [P.retry] else []) = rty at kretry hretry
  generalize c.steps.flatMap (stepUnit c.defaultPar) = sts at ksteps hsteps
  generalize c.connectors.flatMap (connUnit c.defaultPar) = cns at kconns hconns
  generalize c.hooks.map P.hook = hks at khooks hhooks
  simp only [List.nodup_append, List.mem_append, List.mem_cons, List.mem_nil_iff, or_false, List.nodup_cons, List.not_mem_nil,
    not_false_eq_true, List.nodup_nil, and_true, true_and]
  refine ⟨⟨⟨⟨⟨⟨hsteps, ?_⟩, htos', ?_⟩, hconns, ?_⟩, hhooks, ?_⟩, ?_⟩, hretry, ?_⟩
  · intro a ha b hb; subst ha; exact ne_of_kind (by rw [ksteps b hb]; decide)
  · intro a ha b hb
    rcases ha with rfl | ha
    · rcases ktos b hb with h | h <;> exact ne_of_kind (by rw [h]; decide)
    · rcases ktos b hb with h | h <;> exact ne_of_kind (by rw [h, ksteps a ha]; decide)
  · intro a ha b hb
    rcases ha with (rfl | ha) | ha
    · exact ne_of_kind (by rw [kconns b hb]; decide)
    · exact ne_of_kind (by rw [kconns b hb, ksteps a ha]; decide)
    · rcases ktos a ha with h | h <;> exact ne_of_kind (by rw [kconns b hb, h]; decide)
  · intro a ha b hb
    rcases ha with ((rfl | ha) | ha) | ha
    · exact ne_of_kind (by rw [khooks b hb]; decide)
    · exact ne_of_kind (by rw [khooks b hb, ksteps a ha]; decide)
    · rcases ktos a ha with h | h <;> exact ne_of_kind (by rw [khooks b hb, h]; decide)
    · exact ne_of_kind (by rw [khooks b hb, kconns a ha]; decide)
  · intro a ha b hb; subst hb
    rcases ha with (((rfl | ha) | ha) | ha) | ha
    · exact ne_of_kind (by decide)
    · exact ne_of_kind (by rw [ksteps a ha]; decide)
    · rcases ktos a ha with h | h <;> exact ne_of_kind (by rw [h]; decide)
    · exact ne_of_kind (by rw [kconns a ha]; decide)
    · exact ne_of_kind (by rw [khooks a ha]; decide)
  · intro a ha b hb
    rcases ha with ((((rfl | ha) | ha) | ha) | ha) | rfl
    · exact ne_of_kind (by rw [kretry b hb]; decide)
    · exact ne_of_kind (by rw [kretry b hb, ksteps a ha]; decide)
    · rcases ktos a ha with h | h <;> exact ne_of_kind (by rw [kretry b hb, h]; decide)
    · exact ne_of_kind (by rw [kretry b hb, kconns a ha]; decide)
    · exact ne_of_kind (by rw [kretry b hb, khooks a ha]; decide)
    · exact ne_of_kind (by rw [kretry b hb]; decide)

/-- T2: the launch calls and role constructions of the current source are the ones the model transcribes -/
theorem C10_tie_launch : Tie.runLaunches = true ∧ Tie.roles = true := by decide +kernel

/-- non-vacuity: default 3; a step with its own count 2, a step without, a connector without its own count -/
example :
    launches { name := S "wf", defaultPar := 3, steps := [(1, 2), (2, 0)], timeouts := [1], connectors := [(S "c", 0)], hooks := [3] } =
      [.outbox, .step 1 1 2, .step 1 2 2, .step 2 1 3, .step 2 2 3, .step 2 3 3, .poller 1, .inserter 1,
       .conn (S "c") 1 3, .conn (S "c") 2 3, .conn (S "c") 3 3, .hook 3, .delete, .retry] := by decide +kernel

end WorkflowModel.C10Launch
