#!/usr/bin/env python3
# usage: viol.py result.json <signature-substring>  -> writes /tmp/replay.json for the first matching violation and replays it
import json,sys,subprocess,os
r=json.load(open(sys.argv[1]))
for v in r['violations']:
    if sys.argv[2] in v['signature']:
        json.dump({'replay':v['replay']}, open('/tmp/replay.json','w'))
        print(v['property'], v['signature'], v['detail'])
        env=dict(os.environ)
        if len(sys.argv)>3: env['WFH_NOMODEL']='1'
        subprocess.run(['/verif/bin/wfh','sim-replay','-file','/tmp/replay.json'],env=env)
        break
