import WorkflowModel.Lemmas.Local
import WorkflowModel.Props.C03Table
import WorkflowModel.Props.Tie
/-! # C09 — One unfinished run per foreign ID; Trigger creates exactly one run or nothing

`triggerApi` is the model of `trigger`; the in-progress test is `Gen.G.triggerInProgress` (regenerated from
trigger.go: `Valid() && !Finished()`); `latestRes` is the reference-store `Latest`: the newest CREATED run of the foreign
ID (bundled stores are tied to that contract by C17/C18). -/
namespace WorkflowModel.C09
open WorkflowModel Engine

/-- the guard: a new run is refused exactly when the latest run's state is Initiated, Running or Paused -/
theorem C09_in_progress_iff (rs : Int) : Gen.G.triggerInProgress rs = true ↔ (rs = 1 ∨ rs = 2 ∨ rs = 3) := by
  have hv := C03.C03_valid_agrees rs
  have hf := C03.C03_finished_agrees rs
  unfold RS.FinishedSpec at hf
  unfold Gen.G.triggerInProgress
  cases h1 : Gen.valid rs <;> cases h2 : Gen.finished rs <;> simp_all <;> omega

/-- Trigger writes at most one record, and if it writes, it is a brand-new run: fresh run ID (the next ordinal),
Initiated, version 1, the given initial value, at a declared start status, created now — for every fault plan. -/
theorem C09_trigger_writes_one_new_run (cfg : Cfg) (fid : Fid) (start : Status) (n : Obj) (env : Env) (st : OpSt) :
    (triggerApi cfg fid start n env st).2.sys = st.sys ∨
    ∃ s0, triggerStart cfg start = some s0 ∧ (triggerApi cfg fid start n env st).2.sys =
      st.sys.write cfg { triggerRec fid s0 n st.sys.now st.sys.runs.length with version := 1 } := by
  unfold triggerApi
  cases hs : triggerStart cfg start with
  | none => exact Or.inl rfl
  | some s0 =>
    simp only []
    rw [bind_run]
    rcases hl : latest fid env st with ⟨v, st'⟩
    cases v with
    | error a => exact Or.inl (latest_err hl).1
    | ok v =>
      obtain ⟨_, hsys, _⟩ := latest_ok hl
      simp only []
      split
      · exact Or.inl hsys
      · rw [bind_run]
        simp only [Engine.getSys]
        rw [bind_run]
        unfold updateRecord
        have := store_run_any cfg { triggerRec fid s0 n st'.sys.now st'.sys.runs.length with version := (triggerRec fid s0 n st'.sys.now st'.sys.runs.length).version + 1 } env st'
        rw [hsys] at this
        rw [hsys]
        rcases hst : store cfg _ env st' with ⟨r, st''⟩
        rw [hst] at this
        cases r <;> rcases this.1 with h | h <;> first | exact Or.inl h | exact Or.inr ⟨s0, rfl, h⟩

/-- While the latest run of the foreign ID is unfinished, Trigger fails with ErrWorkflowInProgress and writes nothing. -/
theorem C09_in_progress_rejected (cfg : Cfg) (fid : Fid) (start : Status) (n : Obj) (env : Env) (st : OpSt) (last : Rec)
    (hlast : latestRes st.sys fid = some last) (hunf : last.runState = 1 ∨ last.runState = 2 ∨ last.runState = 3) :
    (triggerApi cfg fid start n env st).2.sys = st.sys ∧ ∃ a, (triggerApi cfg fid start n env st).1 = .error a := by
  have hg : Gen.G.triggerInProgress last.runState = true := (C09_in_progress_iff _).mpr hunf
  unfold triggerApi
  cases hs : triggerStart cfg start with
  | none => exact ⟨rfl, _, rfl⟩
  | some s0 =>
    simp only []
    rw [bind_run]
    rcases hl : latest fid env st with ⟨v, st'⟩
    cases v with
    | error a => exact ⟨(latest_err hl).1, a, rfl⟩
    | ok v =>
      obtain ⟨hv, hsys, _⟩ := latest_ok hl
      rw [hlast] at hv; subst hv
      simp only [Option.map_some, Option.getD_some, hg, if_true]
      exact ⟨hsys, _, rfl⟩

/-- A finished (or absent) latest run does not block: the guard lets Completed, Cancelled, RequestedDataDeleted and
DataDeleted through, and also the zero record used when nothing exists. -/
theorem C09_finished_not_blocking (rs : Int) (h : rs = 0 ∨ rs = 4 ∨ rs = 5 ∨ rs = 6 ∨ rs = 7) :
    Gen.G.triggerInProgress rs = false := by
  cases hx : Gen.G.triggerInProgress rs with
  | false => rfl
  | true => have := (C09_in_progress_iff rs).mp hx; omega

/-- An undeclared starting status is rejected before any adapter call. -/
theorem C09_undeclared_start_rejected (cfg : Cfg) (fid : Fid) (start : Status) (n : Obj) (env : Env) (st : OpSt)
    (hund : triggerStart cfg start = none) : triggerApi cfg fid start n env st = (.error (.err 311), st) := by
  simp [triggerApi, hund, throwA_run]

theorem C09_tie_order : Tie.trigger = true ∧ Tie.schedule = true := by decide +kernel

/-- non-vacuity: a second Trigger on the same foreign ID is refused while the first run is unfinished, accepted after it
completed; the other foreign ID is independent -/
example :
    let cfg : Cfg := { calls := [{ kind := .step, src := 1, dests := [2] }] }
    let s1 := runActs cfg {} [.trigger 0 0 7 {}, .trigger 0 0 8 {}, .trigger 1 0 9 {}]
    let s2 := runActs cfg s1 [.step .outbox {}, .step (.step 1 1 1) {}, .step (.step 1 1 1) { outcomes := [.ret 2 1] }, .trigger 0 0 5 {}]
    s1.runs.length = 2 ∧ s2.runs.length = 3 ∧ (s2.runs.map (·.fid)) = [0, 1, 0] := by
  decide +kernel

end WorkflowModel.C09
