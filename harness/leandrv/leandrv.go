// Package leandrv talks to the compiled Lean model driver (lean/.lake/build/bin/wfdriver) over its
// line protocol: one command line in, one answer line out.
package leandrv

import (
	"bufio"
	"fmt"
	"io"
	"os"
	"os/exec"
	"strings"
)

type Driver struct {
	Null bool // no model available: answers are empty, comparisons must be skipped
	cmd  *exec.Cmd
	in   io.WriteCloser
	out  *bufio.Reader
	N    int // lines exchanged
}

func Path() string {
	if p := os.Getenv("WFDRIVER"); p != "" {
		return p
	}
	return "/verif/lean/.lake/build/bin/wfdriver"
}

func Start() (*Driver, error) {
	cmd := exec.Command(Path())
	in, err := cmd.StdinPipe()
	if err != nil {
		return nil, err
	}
	out, err := cmd.StdoutPipe()
	if err != nil {
		return nil, err
	}
	cmd.Stderr = os.Stderr
	if err := cmd.Start(); err != nil {
		return nil, err
	}
	return &Driver{cmd: cmd, in: in, out: bufio.NewReaderSize(out, 1<<20)}, nil
}

// Ask sends one command line and returns the one-line answer.
func (d *Driver) Ask(line string) (string, error) {
	if d.Null {
		return "", nil
	}
	if strings.ContainsAny(line, "\n\r") {
		return "", fmt.Errorf("leandrv: newline in command")
	}
	if _, err := io.WriteString(d.in, line+"\n"); err != nil {
		return "", err
	}
	ans, err := d.out.ReadString('\n')
	if err != nil {
		return "", fmt.Errorf("leandrv: driver died on %q: %v", line, err)
	}
	d.N++
	return strings.TrimRight(ans, "\n"), nil
}

// AskAll pipelines many commands (much faster than Ask in a loop).
func (d *Driver) AskAll(lines []string) ([]string, error) {
	if d.Null {
		return make([]string, len(lines)), nil
	}
	errc := make(chan error, 1)
	go func() {
		w := bufio.NewWriterSize(d.in, 1<<20)
		for _, l := range lines {
			if strings.ContainsAny(l, "\n\r") {
				errc <- fmt.Errorf("leandrv: newline in command")
				return
			}
			w.WriteString(l)
			w.WriteByte('\n')
		}
		errc <- w.Flush()
	}()
	out := make([]string, 0, len(lines))
	for range lines {
		ans, err := d.out.ReadString('\n')
		if err != nil {
			return out, fmt.Errorf("leandrv: driver died after %d answers: %v", len(out), err)
		}
		out = append(out, strings.TrimRight(ans, "\n"))
		d.N++
	}
	if err := <-errc; err != nil {
		return out, err
	}
	return out, nil
}

func (d *Driver) Close() {
	if d.Null {
		return
	}
	d.in.Close()
	d.cmd.Wait()
}

// Hex encodes a byte string for the protocol ("-" = empty).
func Hex(s string) string {
	if s == "" {
		return "-"
	}
	return fmt.Sprintf("%x", s)
}
