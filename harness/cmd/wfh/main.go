// Command wfh is the Go side of the correspondence check (T3) and of the implementation-side monitors.
// usage: wfh <suite> [-seed N] [-tier quick|thorough] [-out result.json]
package main

import (
	"flag"
	"fmt"
	"os"

	"github.com/luno/workflow/verifharness/leandrv"
	"github.com/luno/workflow/verifharness/pure"
	"github.com/luno/workflow/verifharness/report"
	"github.com/luno/workflow/verifharness/rng"
)

type suiteFn func(d *leandrv.Driver, r *rng.R, res *report.Result, thorough bool) error

var suites = map[string]suiteFn{
	"pure-routing": pure.Routing,
	"pure-shards":  pure.Shards,
	"pure-ctl":     pure.Controller,
	"pure-graph":   pure.GraphSuite,
}

func main() {
	if len(os.Args) < 2 {
		fmt.Fprintln(os.Stderr, "usage: wfh <suite> [-seed N] [-tier quick|thorough] [-out file]")
		os.Exit(2)
	}
	name := os.Args[1]
	fs := flag.NewFlagSet("wfh", flag.ExitOnError)
	seed := fs.Uint64("seed", 1, "PRNG seed")
	tier := fs.String("tier", "quick", "quick|thorough")
	out := fs.String("out", "", "result file")
	fs.Parse(os.Args[2:])
	fn, ok := suites[name]
	if !ok {
		fmt.Fprintln(os.Stderr, "unknown suite", name)
		os.Exit(2)
	}
	res := report.New(name, *seed, *tier)
	var d *leandrv.Driver
	if os.Getenv("WFH_NOMODEL") != "" {
		d = &leandrv.Driver{Null: true}
		res.NoModel = true
	} else {
		var err error
		d, err = leandrv.Start()
		if err != nil {
			fmt.Fprintln(os.Stderr, "cannot start the Lean driver:", err)
			os.Exit(3)
		}
	}
	defer d.Close()
	if err := fn(d, rng.New(*seed), res, *tier == "thorough"); err != nil {
		fmt.Fprintln(os.Stderr, "suite error:", err)
		os.Exit(3)
	}
	res.ModelLines = d.N
	if *out != "" {
		if err := res.Write(*out); err != nil {
			fmt.Fprintln(os.Stderr, err)
			os.Exit(3)
		}
	}
	res.DistinctNontrivial = len(res.Nontrivial)
	fmt.Printf("suite=%s evaluations=%d distinct_nontrivial=%d model_lines=%d violations=%d disagreements=%d\n",
		name, res.Evaluations, res.DistinctNontrivial, res.ModelLines, len(res.Violations), len(res.Disagreements))
}
