import WorkflowModel.Model.Routing
import WorkflowModel.Model.RunState
import WorkflowModel.Model.Graph
/-! Line-protocol driver for the correspondence check (T3). One command per input line, one answer per
output line. Core-only imports, so it links as `lean_exe wfdriver`. Unknown commands answer `bad-op`
(never a default). -/
open WorkflowModel

namespace Drv

def hexDigit (n : Nat) : Char := if n < 10 then Char.ofNat (48 + n) else Char.ofNat (87 + n)
def hex (s : Str) : String :=
  if s.isEmpty then "-" else String.ofList (s.flatMap (fun b => [hexDigit (b / 16), hexDigit (b % 16)]))
def hexVal (c : Char) : Option Nat :=
  let n := c.toNat
  if 48 ≤ n ∧ n ≤ 57 then some (n - 48) else if 97 ≤ n ∧ n ≤ 102 then some (n - 87) else none
def unhexL : List Char → Option Str
  | [] => some []
  | [_] => none
  | a :: b :: rest => do
    let x ← hexVal a; let y ← hexVal b; let r ← unhexL rest
    pure ((x * 16 + y) :: r)
def unhex (s : String) : Option Str := if s = "-" then some [] else unhexL s.toList

def b2s (b : Bool) : String := if b then "1" else "0"

def parseEdges (s : String) : Option (List (Int × Int)) :=
  if s = "-" then some [] else
  (s.splitOn ",").mapM (fun p => match p.splitOn ">" with
    | [a, b] => do let x ← a.toInt?; let y ← b.toInt?; pure (x, y)
    | _ => none)

def ints (l : List Int) : String := if l.isEmpty then "-" else ",".intercalate (l.map toString)

def opOf : String → Option RS.CtlOp
  | "pause" => some .pause | "resume" => some .resume | "cancel" => some .cancel | "delete" => some .deleteData
  | _ => none

/-- pure commands -/
def pure (args : List String) : Option String :=
  match args with
  | ["topic", name, st] => do
    let n ← unhex name; let s ← st.toInt?
    some (hex (Routing.topic n s))
  | ["deltopic", name] => do let n ← unhex name; some (hex (Routing.deleteTopic n))
  | ["rsctopic", name] => do let n ← unhex name; some (hex (Routing.rscTopic n))
  | ["route", name, fid, rid, rs, st, v] => do
    let n ← unhex name; let f ← unhex fid; let r ← unhex rid
    let rs ← rs.toInt?; let st ← st.toInt?; let v ← v.toInt?
    let hs := Routing.headers n f r rs st v
    some (s!"type={Routing.toInt32 st} " ++ " ".intercalate (hs.map (fun (k, v) => hex k ++ "=" ++ hex v)))
  | ["shard", sh, tot, id] => do
    let sh ← sh.toInt?; let tot ← tot.toInt?; let id ← id.toInt?
    some (b2s (Routing.shardOut sh tot id))
  | ["role", parts] => do
    let ps ← (parts.splitOn ",").mapM unhex
    some (hex (Routing.makeRole ps))
  | ["ctl", rs, op] => do
    let rs ← rs.toInt?; let op ← opOf op
    some (if RS.allowed rs (RS.target op) then s!"ok {RS.target op}" else "reject")
  | ["rsflags", rs] => do
    let rs ← rs.toInt?
    some (s!"{b2s (Gen.valid rs)} {b2s (Gen.finished rs)} {b2s (Gen.stopped rs)}")
  | ["graph", edges, nodes] => do
    let es ← parseEdges edges
    let ns ← if nodes = "-" then some [] else (nodes.splitOn ",").mapM String.toInt?
    let g := Graph.build es
    let per := ns.map (fun n => s!"{n}:{b2s (Graph.isValid g n)}{b2s (Graph.isTerminal g n)}[{ints (Graph.transitions g n)}]")
    some (s!"start={ints (Graph.startingNodes g)} term={ints (Graph.terminalNodes g)} " ++ " ".intercalate per)
  | _ => none

end Drv

partial def loop (h : IO.FS.Stream) (out : IO.FS.Stream) : IO Unit := do
  let line ← h.getLine
  if line.isEmpty then return ()
  let args := (line.trimAscii.toString.splitOn " ").filter (· ≠ "")
  let ans := match Drv.pure args with
    | some s => s
    | none => "bad-op"
  out.putStrLn ans
  out.flush
  loop h out

def main : IO Unit := do loop (← IO.getStdin) (← IO.getStdout)
