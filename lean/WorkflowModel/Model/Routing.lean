import WorkflowModel.Model.Basic
/-! # Routing: topics, headers, event of a record (`topic.go`, `event.go`, `eventfilter.go`) -/
namespace WorkflowModel.Routing
open WorkflowModel Text

def deleteSuffix : Str := Text.ofString "delete"
def rscSuffix : Str := Text.ofString "run-state-change"

/-- `Topic(name, status)` -/
def topic (name : Str) (status : Int) : Str :=
  join Gen.topicSeparator [replSpace Gen.emptySpaceReplacement name, intDec status]
/-- `DeleteTopic(name)` -/
def deleteTopic (name : Str) : Str :=
  join Gen.topicSeparator [replSpace Gen.emptySpaceReplacement name, [100, 101, 108, 101, 116, 101]]
/-- `RunStateChangeTopic(name)` -/
def rscTopic (name : Str) : Str :=
  join Gen.topicSeparator [replSpace Gen.emptySpaceReplacement name,
    [114, 117, 110, 45, 115, 116, 97, 116, 101, 45, 99, 104, 97, 110, 103, 101]]

/-- topic string chosen by `MakeOutboxEventData` for a record -/
def recordTopic (name : Str) (runState : Int) (status : Int) : Str :=
  match Gen.outboxTopicKind runState with
  | 0 => topic name status
  | 1 => deleteTopic name
  | _ => rscTopic name

/-- Go `int32(x)` conversion of an `int` (two's complement truncation) -/
def toInt32 (x : Int) : Int :=
  let m := x.emod 4294967296
  if m ≥ 2147483648 then m - 4294967296 else m

/-- the event `MakeOutboxEventData` records for a written record -/
def route (r : Rec) : Event :=
  { topicKind := Gen.outboxTopicKind r.runState, topicStatus := r.status, runId := r.runId, fid := r.fid,
    type := toInt32 r.status, runState := r.runState, version := r.version }

/-- headers as (key, value) byte strings, in the order of the source -/
def headers (name : Str) (fid runId : Str) (runState status version : Int) : List (Str × Str) :=
  [ (Gen.HeaderForeignID, fid), (Gen.HeaderWorkflowName, name),
    (Gen.HeaderTopic, recordTopic name runState status), (Gen.HeaderRunID, runId),
    (Gen.HeaderRunState, intDec runState), (Gen.HeaderRecordVersion, intDec version) ]

/-- `shardFilter(shard, total)`: true = filtered out -/
def shardOut (shard total : Int) (id : Int) : Bool :=
  if Gen.G.shardActive total then Gen.G.shardOutExpr id (Gen.G.shardTotal total) shard else false

/-- `makeRole(inputs...)`: join with "-", lower-case, spaces to "_" -/
def makeRole (inputs : List Str) : Str :=
  replSpace [95] (lower (join [45] inputs))

end WorkflowModel.Routing
