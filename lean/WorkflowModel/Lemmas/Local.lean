import WorkflowModel.Lemmas.Reach
/-! # Lemmas for statements about a single handler run: what a read returns, what a handler leaves alone -/
namespace WorkflowModel.Engine
open WorkflowModel

/-- a normal return of an adapter call: the effect was applied, the value is the effect's value, one call was counted,
nothing else changed (in particular no user-function outcome was consumed) -/
theorem call_ok {α : Type} {l : String} {eff : Sys → (String × Except Abort α × Sys)} {env : Env} {st st' : OpSt} {a : α}
    (h : call l eff env st = (.ok a, st')) :
    (eff st.sys).2.1 = .ok a ∧ st'.sys = (eff st.sys).2.2 ∧ st'.outI = st.outI ∧ st'.cancelled = st.cancelled ∧
    st'.stale = st.stale ∧ st'.callN = st.callN + 1 ∧ st.cancelled = false ∧ env.faults.lookup st.callN = none ∧
    st'.isApi = st.isApi := by
  unfold Engine.call at h
  split at h
  · simp at h
  · rename_i hc
    split at h <;> simp at h
    rename_i hf
    obtain ⟨h1, h2⟩ := h
    subst h2
    simp_all
    assumption

/-- an abort of an adapter call: `Sys` is untouched or the effect was applied; no outcome was consumed -/
theorem call_err {α : Type} {l : String} {eff : Sys → (String × Except Abort α × Sys)} {env : Env} {st st' : OpSt} {e : Abort}
    (h : call l eff env st = (.error e, st')) :
    (st'.sys = st.sys ∨ st'.sys = (eff st.sys).2.2) ∧ st'.outI = st.outI ∧ st'.stale = st.stale := by
  unfold Engine.call at h
  split at h
  · simp at h; obtain ⟨_, h2⟩ := h; subst h2; simp
  · split at h <;> simp at h <;> obtain ⟨_, h2⟩ := h <;> subst h2 <;> simp

theorem lookup_ok {rid : RunId} {env : Env} {st st' : OpSt} {v : Option Rec}
    (h : lookup rid env st = (.ok v, st')) :
    v = (lookupRes st.sys rid st.stale).2 ∧ st'.sys = st.sys ∧ st'.outI = st.outI ∧ st'.stale = 0 ∧
    st'.cancelled = false ∧ st.cancelled = false ∧ st'.isApi = st.isApi := by
  unfold Engine.lookup at h
  have := call_ok h
  simp only [] at this
  obtain ⟨h1, h2, h3, h4, h5, _, h7, _, h9⟩ := this
  refine ⟨?_, h2, h3, h5, ?_, h7, h9⟩
  · simpa using h1.symm
  · rw [h4]; exact h7

theorem lookup_err {rid : RunId} {env : Env} {st st' : OpSt} {e : Abort}
    (h : lookup rid env st = (.error e, st')) : st'.sys = st.sys ∧ st'.outI = st.outI := by
  unfold Engine.lookup at h
  have := call_err h
  simp only [] at this
  exact ⟨by rcases this.1 with a | a <;> exact a, this.2.1⟩

theorem latest_ok {fid : Fid} {env : Env} {st st' : OpSt} {v : Option Rec}
    (h : latest fid env st = (.ok v, st')) :
    v = latestRes st.sys fid ∧ st'.sys = st.sys ∧ st'.outI = st.outI ∧ st'.stale = st.stale := by
  unfold Engine.latest at h
  have := call_ok h
  simp only [] at this
  exact ⟨by simpa using this.1.symm, this.2.1, this.2.2.1, this.2.2.2.2.1⟩

theorem latest_err {fid : Fid} {env : Env} {st st' : OpSt} {e : Abort}
    (h : latest fid env st = (.error e, st')) : st'.sys = st.sys ∧ st'.outI = st.outI := by
  unfold Engine.latest at h
  have := call_err h
  simp only [] at this
  exact ⟨by rcases this.1 with a | a <;> exact a, this.2.1⟩

/-- with current reads (no staleness) `Lookup` answers the head of the run's history -/
theorem lookupRes_fresh (s : Sys) (rid : RunId) : (lookupRes s rid 0).2 = s.cur rid := by
  unfold lookupRes Sys.cur
  cases h : s.runs[rid]? with
  | none => simp
  | some run =>
    simp only [Option.bind_some]
    cases hh : run.hist with
    | nil => simp
    | cons a t => simp

/-! ## evaluating the monad -/

theorem pure_run {α : Type} (a : α) (env : Env) (st : OpSt) : (pure a : M α) env st = (.ok a, st) := rfl
theorem throwA_run {α : Type} (a : Abort) (env : Env) (st : OpSt) : (throwA a : M α) env st = (.error a, st) := rfl
/-- a user function that fails while its process loses the role: the failure is what the caller sees -/
theorem loseLease_throw_run {α : Type} (a : Abort) (env : Env) (st : OpSt) :
    ((loseLease >>= fun _ => (throwA a : M α)) env st) = (.error a, { st with cancelled := !st.isApi }) := rfl

/-- a fault-free, live `Store`: exactly one write -/
theorem store_run_ok (cfg : Cfg) (r : Rec) (env : Env) (st : OpSt) (hc : st.cancelled = false)
    (hf : env.faults.lookup st.callN = none) :
    (store cfg r env st).1 = .ok () ∧ (store cfg r env st).2.sys = st.sys.write cfg r ∧ (store cfg r env st).2.outI = st.outI := by
  simp [Engine.store, Engine.call, hc, hf]

/-- any `Store`: nothing or exactly that write -/
theorem store_run_any (cfg : Cfg) (r : Rec) (env : Env) (st : OpSt) :
    ((store cfg r env st).2.sys = st.sys ∨ (store cfg r env st).2.sys = st.sys.write cfg r) ∧ (store cfg r env st).2.outI = st.outI := by
  unfold Engine.store
  rcases h : Engine.call "store" _ env st with ⟨r', st'⟩
  cases r' with
  | ok _ => have := call_ok h; simp only [] at this; exact ⟨Or.inr this.2.1, this.2.2.1⟩
  | error _ => have := call_err h; simp only [] at this; exact ⟨this.1, this.2.1⟩

/-! ## glue: a handler is its read followed by its guard function -/

theorem stepHandle_run (cfg : Cfg) (p : Proc) (status : Status) (pa : Int) (e : Event)
    (fn : Rec → M (Except Abort FnRes × Rec)) (env : Env) (st : OpSt) :
    stepHandle cfg p status pa e fn env st =
      match lookup e.runId env st with
      | (.ok none, st') => (.ok (), st')
      | (.ok (some record), st') => stepGate cfg p pa e record fn env st'
      | (.error a, st') => (.error a, st') := by
  unfold stepHandle
  rw [bind_run]
  rcases lookup e.runId env st with ⟨r, st'⟩
  cases r with
  | error a => rfl
  | ok v => cases v <;> rfl

theorem pollTimer_run (cfg : Cfg) (p : Proc) (status : Status) (t : Timer) (env : Env) (st : OpSt) :
    pollTimer cfg p status t env st =
      match lookup t.runId env st with
      | (.ok none, st') => (.error (.err errNotFound), st')
      | (.ok (some r), st') => pollGate cfg p status t r env st'
      | (.error a, st') => (.error a, st') := by
  unfold pollTimer
  rw [bind_run]
  rcases lookup t.runId env st with ⟨r, st'⟩
  cases r with
  | error a => rfl
  | ok v => cases v <;> rfl

theorem callbackOne_run (cfg : Cfg) (fid : Fid) (status : Status) (runner : Rec → M (Except Abort FnRes × Rec))
    (env : Env) (st : OpSt) :
    callbackOne cfg fid status runner env st =
      match latest fid env st with
      | (.ok none, st') => (.error (.err errNotFound), st')
      | (.ok (some wr), st') => callbackGate cfg status wr runner env st'
      | (.error a, st') => (.error a, st') := by
  unfold callbackOne
  rw [bind_run]
  rcases latest fid env st with ⟨r, st'⟩
  cases r with
  | error a => rfl
  | ok v => cases v <;> rfl

/-! ## association lists -/

theorem lookup_map_set {α β : Type} [BEq α] [LawfulBEq α] (l : List (α × β)) (k : α) (v : β)
    (h : l.any (·.1 == k) = true) :
    List.lookup k (l.map (fun p => if p.1 == k then (k, v) else p)) = some v := by
  induction l with
  | nil => simp at h
  | cons c cs ih =>
    simp only [List.map_cons]
    cases hck : (c.1 == k) with
    | true => simp [List.lookup]
    | false =>
      have hkc : (k == c.1) = false := by
        cases hx : (k == c.1) with
        | false => rfl
        | true => rw [eq_of_beq hx] at hck; simp at hck
      simp only [List.any_cons, hck, Bool.false_or] at h
      simp only [Bool.false_eq_true, if_false]
      rw [List.lookup]
      simp only [hkc]
      exact ih h

theorem lookup_none_of_not_any {α β : Type} [BEq α] [LawfulBEq α] (l : List (α × β)) (k : α)
    (h : ¬ l.any (·.1 == k) = true) : List.lookup k l = none := by
  induction l with
  | nil => rfl
  | cons c cs ih =>
    simp only [List.any_cons, Bool.or_eq_true, not_or] at h
    have hkc : (k == c.1) = false := by
      cases hx : (k == c.1) with
      | false => rfl
      | true => exact absurd (by rw [eq_of_beq hx]; exact beq_self_eq_true _) h.1
    rw [List.lookup]; simp only [hkc]; exact ih h.2

theorem lookup_assocSet_self {α β : Type} [BEq α] [LawfulBEq α] (l : List (α × β)) (k : α) (v : β) :
    (assocSet l k v).lookup k = some v := by
  unfold assocSet
  split
  · rename_i h; exact lookup_map_set l k v h
  · rename_i h
    rw [List.lookup_append, lookup_none_of_not_any l k h]
    simp [List.lookup]

theorem lookup_map_set_ne {α β : Type} [BEq α] [LawfulBEq α] (l : List (α × β)) (k k' : α) (v : β) (h : k' ≠ k) :
    List.lookup k' (l.map (fun p => if p.1 == k then (k, v) else p)) = List.lookup k' l := by
  have hkk : (k' == k) = false := beq_false_of_ne h
  induction l with
  | nil => rfl
  | cons c cs ih =>
    simp only [List.map_cons]
    cases hc : (c.1 == k) with
    | true =>
      have hk : c.1 = k := eq_of_beq hc
      simp only [if_true]
      have e1 : List.lookup k' ((k, v) :: List.map (fun p => if p.1 == k then (k, v) else p) cs)
          = List.lookup k' (List.map (fun p => if p.1 == k then (k, v) else p) cs) := by
        rw [List.lookup]; simp only [hkk]
      have e2 : List.lookup k' (c :: cs) = List.lookup k' cs := by
        rw [List.lookup]; rw [hk]; simp only [hkk]
      rw [e1, e2, ih]
    | false =>
      simp only [Bool.false_eq_true, if_false]
      rw [List.lookup, List.lookup, ih]

theorem lookup_assocSet_ne {α β : Type} [BEq α] [LawfulBEq α] (l : List (α × β)) (k k' : α) (v : β) (h : k' ≠ k) :
    (assocSet l k v).lookup k' = l.lookup k' := by
  have hkk : (k' == k) = false := beq_false_of_ne h
  unfold assocSet
  split
  · exact lookup_map_set_ne l k k' v h
  · rw [List.lookup_append]
    simp [List.lookup, hkk]

theorem count_setCount_ne (s : Sys) (k k' : Int × Proc × RunId) (v : Int) (h : k' ≠ k) : (s.setCount k v).count k' = s.count k' := by
  simp [Sys.count, Sys.setCount, lookup_assocSet_ne _ _ _ _ h]

theorem pstate_setPState_ne (s : Sys) (p p' : Proc) (x : PState) (h : p' ≠ p) : (s.setPState p x).pstate p' = s.pstate p' := by
  simp [Sys.pstate, Sys.setPState, lookup_assocSet_ne _ _ _ _ h]

theorem cursor_setCursor_ne (s : Sys) (p p' : Proc) (n : Nat) (h : p' ≠ p) : (s.setCursor p n).cursor p' = s.cursor p' := by
  simp [Sys.cursor, Sys.setCursor, lookup_assocSet_ne _ _ _ _ h]

theorem pstate_setPState (s : Sys) (p : Proc) (x : PState) : (s.setPState p x).pstate p = x := by
  simp [Sys.pstate, Sys.setPState, lookup_assocSet_self]

theorem cursor_setCursor (s : Sys) (p : Proc) (n : Nat) : (s.setCursor p n).cursor p = n := by
  simp [Sys.cursor, Sys.setCursor, lookup_assocSet_self]

theorem count_setCount (s : Sys) (k : Int × Proc × RunId) (v : Int) : (s.setCount k v).count k = v := by
  simp [Sys.count, Sys.setCount, lookup_assocSet_self]

/-! ## frames: what event handlers never touch -/

/-- event handlers, the poller's work and API calls never move a cursor and never change where a process is parked -/
theorem frame_stableH (cfg : Cfg) (c : List (Proc × Nat)) (ps : List (Proc × PState)) (l : List Event) (ob : List OutE → Prop)
    : StableH (fun s => s.cursors = c ∧ s.pst = ps ∧ s.log = l) cfg where
  write := fun _ _ h => by simpa [Sys.write] using h
  timerCreate := fun _ _ _ _ _ h => h
  timerComplete := fun _ _ h => h
  timerCancel := fun _ _ h => h
  setCount := fun _ _ _ h => h
  setHandles := fun _ _ h => h

theorem handle_frame (cfg : Cfg) (p : Proc) (e : Event) (env : Env) (st : OpSt) :
    (handle cfg p e env st).2.sys.cursors = st.sys.cursors ∧ (handle cfg p e env st).2.sys.pst = st.sys.pst ∧
    (handle cfg p e env st).2.sys.log = st.sys.log :=
  Pres.handle (frame_stableH cfg _ _ _ (fun _ => True)) p e env st ⟨rfl, rfl, rfl⟩

end WorkflowModel.Engine
