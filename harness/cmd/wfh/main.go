// Command wfh is the Go side of the correspondence check (T3) and of the implementation-side monitors.
// usage: wfh <suite> [-seed N] [-tier quick|thorough] [-out result.json]
package main

import (
	"encoding/json"
	"flag"
	"fmt"
	"os"
	"path/filepath"
	"sort"
	"time"

	"github.com/luno/workflow/verifharness/adapters"
	"github.com/luno/workflow/verifharness/leandrv"
	"github.com/luno/workflow/verifharness/live"
	"github.com/luno/workflow/verifharness/pure"
	"github.com/luno/workflow/verifharness/report"
	"github.com/luno/workflow/verifharness/rng"
	"github.com/luno/workflow/verifharness/sim"
)

type suiteFn func(d *leandrv.Driver, r *rng.R, res *report.Result, thorough bool) error

var suites = map[string]suiteFn{
	"mem-recordstore":  adapters.RecordStoreSuite(adapters.MemRecordStore, "C17"),
	"sql-recordstore":  adapters.RecordStoreSuiteOpt(adapters.SQLRecordStore, adapters.RSOpts{Prop: "C18", Suite: "sql-recordstore", UnorderedOutbox: true, CorpusProps: []string{"C17", "C18"}}),
	"sql-timeoutstore": adapters.TimeoutStoreSuite(adapters.SQLTimeoutStore, "C18", "sql-timeoutstore"),
	"sql-atomic":       adapters.SQLAtomicSuite,
	"sql-where":        adapters.SQLWhereSuite,
	"mem-roles":        adapters.RolesSuite(adapters.MemRoles),
	"live-supervise":   live.Supervise,
	"live-await":       live.AwaitSuite,
	"live-connector":   live.ConnectorSuite,
	"sim-schedule":     sim.ScheduleSuite,
	"mem-streamer":     adapters.StreamerSuite,
	"mem-connector":    adapters.ConnectorSuite,
	"mem-timeoutstore": adapters.TimeoutStoreSuite(adapters.MemTimeoutStore, "C12", "mem-timeoutstore"),
	"pure-routing":     pure.Routing,
	"pure-shards":      pure.Shards,
	"pure-launch":      pure.Launch,
	"pure-connector":   pure.ConnectorRoundTrip,
	"pure-connshards":  pure.ConnectorShards,
	"pure-ctl":         pure.Controller,
	"pure-graph":       pure.GraphSuite,
}

func main() {
	if len(os.Args) < 2 {
		fmt.Fprintln(os.Stderr, "usage: wfh <suite> [-seed N] [-tier quick|thorough] [-out file]")
		os.Exit(2)
	}
	name := os.Args[1]
	fs := flag.NewFlagSet("wfh", flag.ExitOnError)
	seed := fs.Uint64("seed", 1, "PRNG seed")
	tier := fs.String("tier", "quick", "quick|thorough")
	out := fs.String("out", "", "result file")
	count := fs.Int("n", 0, "number of histories (0 = tier default)")
	length := fs.Int("len", 60, "actions per history")
	workers := fs.Int("workers", 8, "parallel workers")
	verbose := fs.Bool("v", false, "keep observation lines in samples")
	file := fs.String("file", "", "replay file (sim-replay)")
	fs.Parse(os.Args[2:])
	if name == "corpus" {
		// minimised past failures run first on every check: each must stay clean on the current tree
		res := report.New(name, *seed, *tier)
		res.Rule = "replay of every history in /verif/corpus (past failures, fixed defects) on the real code with all monitors, co-simulated with the model"
		files, _ := filepath.Glob("/verif/corpus/*.json")
		sort.Strings(files)
		var d *leandrv.Driver
		var err error
		if os.Getenv("WFH_NOMODEL") != "" {
			d = &leandrv.Driver{Null: true}
			res.NoModel = true
		} else if d, err = leandrv.Start(); err != nil {
			fmt.Fprintln(os.Stderr, "cannot start the Lean driver:", err)
			os.Exit(3)
		}
		for _, f := range files {
			var body struct {
				ID     string      `json:"id"`
				Replay sim.History `json:"replay"`
			}
			b, err := os.ReadFile(f)
			if err == nil {
				err = json.Unmarshal(b, &body)
			}
			if err != nil {
				fmt.Fprintln(os.Stderr, f, err)
				os.Exit(3)
			}
			viol, _, diffs, err := sim.ReplayD(d, body.Replay)
			if err != nil {
				fmt.Fprintln(os.Stderr, f, err)
				os.Exit(3)
			}
			res.Eval(len(body.Replay.Actions))
			res.NonTrivial(f)
			res.Traces++
			for _, v := range viol {
				v.Replay = body.Replay
				v.Detail = "[corpus " + filepath.Base(f) + "] " + v.Detail
				res.Violate(v)
			}
			if len(diffs) > 0 {
				res.Disagree(report.Disagreement{Properties: []string{"C01", "C02", "C03", "C04", "C05", "C07", "C08", "C09", "C12", "C13", "C14", "C15", "C16"},
					Where: "corpus " + filepath.Base(f), Input: body.Replay, Impl: diffs[0], Model: diffs[1]})
			}
			res.Sample(map[string]any{"file": filepath.Base(f), "actions": len(body.Replay.Actions)})
		}
		res.ModelLines = d.N
		d.Close()
		if *out != "" {
			res.Write(*out)
		}
		fmt.Printf("suite=%s evaluations=%d files=%d violations=%d disagreements=%d\n", name, res.Evaluations, len(files), len(res.Violations), len(res.Disagreements))
		return
	}
	if name == "sim-replay" {
		var body struct {
			Replay sim.History `json:"replay"`
		}
		b, err := os.ReadFile(*file)
		if err == nil {
			err = json.Unmarshal(b, &body)
		}
		if err != nil {
			fmt.Fprintln(os.Stderr, err)
			os.Exit(2)
		}
		var d *leandrv.Driver
		if os.Getenv("WFH_NOMODEL") != "" {
			d = &leandrv.Driver{Null: true}
		} else if d, err = leandrv.Start(); err != nil {
			d = &leandrv.Driver{Null: true}
		}
		viol, lines, err := sim.Replay(d, body.Replay, true)
		for _, l := range lines {
			fmt.Println(l)
		}
		for _, v := range viol {
			fmt.Printf("MONITOR %s %s | %s\n", v.Property, v.Signature, v.Detail)
		}
		if err != nil {
			fmt.Println("ERROR", err)
		}
		return
	}
	if name == "sim-pause-faults" {
		res := report.New(name, *seed, *tier)
		nomodel := os.Getenv("WFH_NOMODEL") != ""
		res.NoModel = nomodel
		err := sim.PauseFaultSuite(*seed, *tier, res, nomodel)
		res.DistinctNontrivial = len(res.Nontrivial)
		res.Exhaustive = true
		if *out != "" {
			res.Write(*out)
		}
		fmt.Printf("suite=%s evaluations=%d distinct_nontrivial=%d model_lines=%d violations=%d disagreements=%d\n",
			name, res.Evaluations, res.DistinctNontrivial, res.ModelLines, len(res.Violations), len(res.Disagreements))
		if err != nil {
			fmt.Fprintln(os.Stderr, "suite error:", err)
			os.Exit(3)
		}
		return
	}
	if name == "sim-recovery" {
		res := report.New(name, *seed, *tier)
		nomodel := os.Getenv("WFH_NOMODEL") != ""
		res.NoModel = nomodel
		err := sim.RecoverySuite(*seed, *tier, res, nomodel, *count)
		res.DistinctNontrivial = len(res.Nontrivial)
		if *out != "" {
			res.Write(*out)
		}
		fmt.Printf("suite=%s evaluations=%d distinct_nontrivial=%d model_lines=%d violations=%d disagreements=%d\n",
			name, res.Evaluations, res.DistinctNontrivial, res.ModelLines, len(res.Violations), len(res.Disagreements))
		if err != nil {
			fmt.Fprintln(os.Stderr, "suite error:", err)
			os.Exit(3)
		}
		return
	}
	if name == "sim-random" || name == "sim-adversary" || name == "sim-pause" || name == "sim-pause-past" || name == "sim-timeouts" || name == "sim-roleloss" {
		if name == "sim-pause-past" {
			// the simulated workflow clock starts in the PAST of the wall clock (the other suites: in its future), so that code which
			// consults the wall clock instead of the workflow clock errs in the other direction
			sim.Epoch = time.Date(2001, 1, 1, 0, 0, 0, 0, time.UTC)
		}
		feat := sim.AllFeatures
		switch name {
		case "sim-adversary":
			feat.Stale, feat.Adversary, feat.Handles, feat.TwoTimeouts = true, true, true, true
		case "sim-pause-past", "sim-pause": // error counting: counts configured almost everywhere, the same error over and over, no re-entrancy
			feat.ForcePause, feat.ErrBias, feat.BadOutcomes, feat.Nested, feat.TimeoutHeavy, feat.Faults = true, 700, 450, false, true, 40
		case "sim-roleloss": // hooks and delete functions that fail while their process loses the role; acknowledgements that do not look at the context
			feat.LostInFn, feat.Nested, feat.BadOutcomes = true, false, 350
		case "sim-timeouts": // timers: mostly timeout statuses, clock moved around expiry, no re-entrancy
			feat.TimeoutHeavy, feat.Nested, feat.BadOutcomes = true, false, 200
		}
		res := report.New(name, *seed, *tier)
		n := 500
		if *tier == "thorough" {
			n = 24000
		}
		if name == "sim-adversary" && *tier != "thorough" {
			n = 1500
		}
		if *count > 0 {
			n = *count
		}
		nomodel := os.Getenv("WFH_NOMODEL") != ""
		res.NoModel = nomodel
		res.Rule = "random histories over the generated workflow family (see sim.GenConfig / sim.Gen.Next)"
		err := sim.RunMany(*seed, n, *workers, res, sim.RunOpts{Feat: feat, Len: *length, Drain: true, Stop: true, Verbose: *verbose, Suite: name,
			PropsTie: []string{"C01", "C02", "C03", "C04", "C05", "C07", "C08", "C09", "C12", "C13", "C14", "C15", "C16"}}, nomodel)
		if *out != "" {
			res.Write(*out)
		}
		res.DistinctNontrivial = len(res.Nontrivial)
		fmt.Printf("suite=%s evaluations=%d distinct_nontrivial=%d model_lines=%d violations=%d disagreements=%d\n",
			name, res.Evaluations, res.DistinctNontrivial, res.ModelLines, len(res.Violations), len(res.Disagreements))
		if err != nil {
			fmt.Fprintln(os.Stderr, "suite error:", err)
			os.Exit(3)
		}
		return
	}
	fn, ok := suites[name]
	if !ok {
		fmt.Fprintln(os.Stderr, "unknown suite", name)
		os.Exit(2)
	}
	res := report.New(name, *seed, *tier)
	var d *leandrv.Driver
	if os.Getenv("WFH_NOMODEL") != "" {
		d = &leandrv.Driver{Null: true}
		res.NoModel = true
	} else {
		var err error
		d, err = leandrv.Start()
		if err != nil {
			fmt.Fprintln(os.Stderr, "cannot start the Lean driver:", err)
			os.Exit(3)
		}
	}
	defer d.Close()
	if err := fn(d, rng.New(*seed), res, *tier == "thorough"); err != nil {
		fmt.Fprintln(os.Stderr, "suite error:", err)
		os.Exit(3)
	}
	res.ModelLines = d.N
	if *out != "" {
		if err := res.Write(*out); err != nil {
			fmt.Fprintln(os.Stderr, err)
			os.Exit(3)
		}
	}
	res.DistinctNontrivial = len(res.Nontrivial)
	fmt.Printf("suite=%s evaluations=%d distinct_nontrivial=%d model_lines=%d violations=%d disagreements=%d\n",
		name, res.Evaluations, res.DistinctNontrivial, res.ModelLines, len(res.Violations), len(res.Disagreements))
}
