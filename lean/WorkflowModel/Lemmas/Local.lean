import WorkflowModel.Lemmas.Reach
/-! # Lemmas for statements about a single handler run: what a read returns, what a handler leaves alone -/
namespace WorkflowModel.Engine
open WorkflowModel

/-- a normal return of an adapter call: the effect was applied, the value is the effect's value, one call was counted,
nothing else changed (in particular no user-function outcome was consumed) -/
theorem call_ok {α : Type} {l : String} {eff : Sys → (String × Except Abort α × Sys)} {env : Env} {st st' : OpSt} {a : α}
    (h : call l eff env st = (.ok a, st')) :
    (eff st.sys).2.1 = .ok a ∧ st'.sys = (eff st.sys).2.2 ∧ st'.outI = st.outI ∧ st'.cancelled = st.cancelled ∧
    st'.stale = st.stale ∧ st'.callN = st.callN + 1 ∧ st.cancelled = false ∧ env.faults.lookup st.callN = none ∧
    st'.isApi = st.isApi := by
  unfold Engine.call at h
  split at h
  · simp at h
  · rename_i hc
    split at h <;> simp at h
    rename_i hf
    obtain ⟨h1, h2⟩ := h
    subst h2
    simp_all
    assumption

/-- an abort of an adapter call: `Sys` is untouched or the effect was applied; no outcome was consumed -/
theorem call_err {α : Type} {l : String} {eff : Sys → (String × Except Abort α × Sys)} {env : Env} {st st' : OpSt} {e : Abort}
    (h : call l eff env st = (.error e, st')) :
    (st'.sys = st.sys ∨ st'.sys = (eff st.sys).2.2) ∧ st'.outI = st.outI ∧ st'.stale = st.stale := by
  unfold Engine.call at h
  split at h
  · simp at h; obtain ⟨_, h2⟩ := h; subst h2; simp
  · split at h <;> simp at h <;> obtain ⟨_, h2⟩ := h <;> subst h2 <;> simp

theorem lookup_ok {rid : RunId} {env : Env} {st st' : OpSt} {v : Option Rec}
    (h : lookup rid env st = (.ok v, st')) :
    v = (lookupRes st.sys rid st.stale).2 ∧ st'.sys = st.sys ∧ st'.outI = st.outI ∧ st'.stale = 0 ∧
    st'.cancelled = false ∧ st.cancelled = false ∧ st'.isApi = st.isApi := by
  unfold Engine.lookup at h
  have := call_ok h
  simp only [] at this
  obtain ⟨h1, h2, h3, h4, h5, _, h7, _, h9⟩ := this
  refine ⟨?_, h2, h3, h5, ?_, h7, h9⟩
  · simpa using h1.symm
  · rw [h4]; exact h7

theorem lookup_err {rid : RunId} {env : Env} {st st' : OpSt} {e : Abort}
    (h : lookup rid env st = (.error e, st')) : st'.sys = st.sys ∧ st'.outI = st.outI := by
  unfold Engine.lookup at h
  have := call_err h
  simp only [] at this
  exact ⟨by rcases this.1 with a | a <;> exact a, this.2.1⟩

theorem latest_ok {fid : Fid} {env : Env} {st st' : OpSt} {v : Option Rec}
    (h : latest fid env st = (.ok v, st')) :
    v = latestRes st.sys fid ∧ st'.sys = st.sys ∧ st'.outI = st.outI ∧ st'.stale = st.stale := by
  unfold Engine.latest at h
  have := call_ok h
  simp only [] at this
  exact ⟨by simpa using this.1.symm, this.2.1, this.2.2.1, this.2.2.2.2.1⟩

theorem latest_err {fid : Fid} {env : Env} {st st' : OpSt} {e : Abort}
    (h : latest fid env st = (.error e, st')) : st'.sys = st.sys ∧ st'.outI = st.outI := by
  unfold Engine.latest at h
  have := call_err h
  simp only [] at this
  exact ⟨by rcases this.1 with a | a <;> exact a, this.2.1⟩

/-- with current reads (no staleness) `Lookup` answers the head of the run's history -/
theorem lookupRes_fresh (s : Sys) (rid : RunId) : (lookupRes s rid 0).2 = s.cur rid := by
  unfold lookupRes Sys.cur
  cases h : s.runs[rid]? with
  | none => simp
  | some run =>
    simp only [Option.bind_some]
    cases hh : run.hist with
    | nil => simp
    | cons a t => simp

/-! ## frames: what event handlers never touch -/

/-- event handlers, the poller's work and API calls never move a cursor and never change where a process is parked -/
theorem frame_stableH (cfg : Cfg) (c : List (Proc × Nat)) (ps : List (Proc × PState)) (l : List Event) (ob : List OutE → Prop)
    : StableH (fun s => s.cursors = c ∧ s.pst = ps ∧ s.log = l) cfg where
  write := fun _ _ h => by simpa [Sys.write] using h
  timerCreate := fun _ _ _ _ _ h => h
  timerComplete := fun _ _ h => h
  timerCancel := fun _ _ h => h
  setCount := fun _ _ _ h => h
  setHandles := fun _ _ h => h

theorem handle_frame (cfg : Cfg) (p : Proc) (e : Event) (env : Env) (st : OpSt) :
    (handle cfg p e env st).2.sys.cursors = st.sys.cursors ∧ (handle cfg p e env st).2.sys.pst = st.sys.pst ∧
    (handle cfg p e env st).2.sys.log = st.sys.log :=
  Pres.handle (frame_stableH cfg _ _ _ (fun _ => True)) p e env st ⟨rfl, rfl, rfl⟩

end WorkflowModel.Engine
