import WorkflowModel.Lemmas.Local
import WorkflowModel.Props.C07
import WorkflowModel.Props.C11Roles
import WorkflowModel.Props.Tie
/-! # C11 — processes act only under their role, survive errors, and stop cleanly

Over the engine model (supervision loop `procOp` = `runOnce` around one operation; `leaseLossOp` = the scheduler cancelling
the role context of a parked process):
* losing the role touches nothing but the process's own parking state: no run, outbox entry, log entry, cursor, timer or
  counter changes, the receiver is closed and the process goes back to asking for its role;
* a failing operation never ends the process: it parks in back-off (or asks for the role again when the lease is gone),
  and from back-off it asks for the role again;
* no reachable parking state is a dead end: after a finite wait every process can take a step, or it is idle at an empty
  stream.
The role scheduler clause is `C11Roles`. Contexts (every adapter call under the lease of the calling process), Run/Stop
and closing of receivers/senders/connector consumers are checked on the implementation by the simulator's monitors and
the suites `live-supervise` (also under the race detector). -/
namespace WorkflowModel.C11
open WorkflowModel Engine

/-- what is not the processes' parking bookkeeping -/
def payload (s : Sys) := (s.runs, s.outbox, s.outN, s.log, s.cursors, s.timers, s.timerN, s.counts, s.now)

theorem payload_setPState (s : Sys) (p : Proc) (x : PState) : payload (s.setPState p x) = payload s := rfl

/-- Losing the role stops the work: the cancelled process changes no run, outbox entry, stream entry, cursor, timer or
error counter, and no other process's state; for every parking state and every process. -/
theorem C11_lease_loss_frame (cfg : Cfg) (p : Proc) (env : Env) (st : OpSt) :
    payload (leaseLossOp cfg p env st).2.sys = payload st.sys ∧
    ∀ q, q ≠ p → (leaseLossOp cfg p env st).2.sys.pstate q = st.sys.pstate q := by
  unfold leaseLossOp
  simp only [bind_run, Engine.getSys]
  cases hps : st.sys.pstate p with
  | needRole => exact ⟨rfl, fun _ _ => rfl⟩
  | backoff u => exact ⟨rfl, fun q hq => pstate_setPState_ne _ _ _ _ hq⟩
  | atRecv => exact ⟨rfl, fun q hq => pstate_setPState_ne _ _ _ _ hq⟩
  | lagWait i u => exact ⟨rfl, fun q hq => pstate_setPState_ne _ _ _ _ hq⟩
  | atPoll since =>
    cases p with
    | poller s => exact ⟨rfl, fun q hq => pstate_setPState_ne _ _ _ _ hq⟩
    | _ => exact ⟨rfl, fun _ _ => rfl⟩

/-- … and the process goes back to asking for its role (a poller from its poll gate, a consumer from its receive or lag
wait, anything from back-off). -/
theorem C11_lease_loss_needs_role (cfg : Cfg) (p : Proc) (env : Env) (st : OpSt)
    (hp : ∀ since, st.sys.pstate p = .atPoll since → ∃ s, p = .poller s) :
    (leaseLossOp cfg p env st).2.sys.pstate p = .needRole := by
  unfold leaseLossOp
  simp only [bind_run, Engine.getSys]
  cases hps : st.sys.pstate p with
  | needRole => exact hps
  | backoff u => exact pstate_setPState _ _ _
  | atRecv => exact pstate_setPState _ _ _
  | lagWait i u => exact pstate_setPState _ _ _
  | atPoll since =>
    obtain ⟨s, rfl⟩ := hp since hps
    exact pstate_setPState _ _ _

/-- A failing operation never ends the process: it parks in error back-off — or asks for its role again at once when the
lease is gone. (C07_failure_backoff, restated for the supervision clause.) -/
theorem C11_failure_retries (cfg : Cfg) (p : Proc) (env : Env) (st : OpSt) (a : Abort)
    (hfail : (procBody cfg p (st.sys.pstate p) env st).1 = .error a) :
    (∃ u, ((procOp cfg p) env st).2.sys.pstate p = .backoff u) ∨ ((procOp cfg p) env st).2.sys.pstate p = .needRole := by
  have h := C07.C07_failure_backoff cfg p env st a hfail
  simp only [] at h
  cases hc : (procBody cfg p (st.sys.pstate p) env st).2.cancelled with
  | false => exact Or.inl ⟨_, h.1 hc⟩
  | true => exact Or.inr (h.2 hc)

/-- From back-off the process asks for its role again (it does nothing else). -/
theorem C11_backoff_then_role (cfg : Cfg) (p : Proc) (u : Int) (env : Env) (st : OpSt) (h : st.sys.pstate p = .backoff u)
    (hc : st.cancelled = false) :
    ((procOp cfg p) env st).2.sys.pstate p = .needRole ∧ payload ((procOp cfg p) env st).2.sys = payload st.sys := by
  unfold procOp
  simp only [bind_run, Engine.getSys, Engine.tryM, h, procBody, pure_run, Engine.isCancelled, hc]
  exact ⟨pstate_setPState _ _ _, rfl⟩

/-- No parking state is a dead end: after a finite wait the process can take a step, or it is idle at an empty stream. -/
theorem C11_never_dead (s : Sys) (p : Proc) :
    ∃ d : Int, 0 ≤ d ∧ ((s.tick d).enabled p = true ∨ (s.pstate p = .atRecv ∧ (s.nextIndex p).isNone)) := by
  have hps : ∀ d, (s.tick d).pstate p = s.pstate p := fun _ => rfl
  cases h : s.pstate p with
  | needRole => exact ⟨0, by omega, Or.inl (by simp [Sys.enabled, hps, h])⟩
  | atPoll since => exact ⟨0, by omega, Or.inl (by simp [Sys.enabled, hps, h])⟩
  | atRecv =>
    cases hn : s.nextIndex p with
    | none => exact ⟨0, by omega, Or.inr ⟨rfl, by simp⟩⟩
    | some i =>
      refine ⟨0, by omega, Or.inl ?_⟩
      have : (s.tick 0) = s := by simp [Sys.tick]
      rw [this]; simp [Sys.enabled, h, hn]
  | lagWait i u =>
    by_cases hu : u ≤ s.now
    · refine ⟨0, by omega, Or.inl ?_⟩
      have hn : (s.tick 0).now = s.now + 0 := rfl
      simp only [Sys.enabled, hps, h, decide_eq_true_iff, hn]; omega
    · refine ⟨u - s.now, by omega, Or.inl ?_⟩
      have hn : (s.tick (u - s.now)).now = s.now + (u - s.now) := rfl
      simp only [Sys.enabled, hps, h, decide_eq_true_iff, hn]; omega
  | backoff u =>
    by_cases hu : u ≤ s.now
    · refine ⟨0, by omega, Or.inl ?_⟩
      have hn : (s.tick 0).now = s.now + 0 := rfl
      simp only [Sys.enabled, hps, h, decide_eq_true_iff, hn]; omega
    · refine ⟨u - s.now, by omega, Or.inl ?_⟩
      have hn : (s.tick (u - s.now)).now = s.now + (u - s.now) := rfl
      simp only [Sys.enabled, hps, h, decide_eq_true_iff, hn]; omega

/-- T2: `runOnce` awaits the role, defers the cancel, runs the process under the role context and waits the back-off on
the workflow clock; the step process opens its receiver under that context and closes it on every exit -/
theorem C11_tie_order : Tie.runOnce = true ∧ Tie.stepProcess = true := by decide +kernel

/-- non-vacuity: a step consumer parked at its receive gate loses its role: needRole, receiver closed, nothing else -/
example :
    let cfg : Cfg := { calls := [{ kind := .step, src := 1, dests := [2] }] }
    let s := runActs cfg {} [.trigger 0 0 7 {}, .step (.step 1 1 1) {}]
    s.pstate (.step 1 1 1) = .atRecv ∧ (stepAct cfg s (.lease (.step 1 1 1))).sys.pstate (.step 1 1 1) = .needRole ∧
    (stepAct cfg s (.lease (.step 1 1 1))).obs = ["recv~", "close"] := by
  decide +kernel

end WorkflowModel.C11
