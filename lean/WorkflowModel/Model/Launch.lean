import WorkflowModel.Model.Routing
import WorkflowModel.Generated.Guards
import WorkflowModel.Generated.Facts
/-! # Launch: which background processes `Workflow.Run` starts, and under which role names (model for C10)

The decisions (own count overrides the default, un-sharded below 2, the shard loop condition) are the guard functions
REGENERATED from workflow.go; the loop `for i := 1; cond(i); i++` is `shards`. -/
namespace WorkflowModel.Launch
open WorkflowModel

structure Cfg where
  name : Str
  defaultPar : Int := 0
  steps : List (Int × Int) := []       -- (status, own parallel count); one entry per status (map keys)
  timeouts : List Int := []            -- statuses with at least one timeout (map keys)
  timeoutStore : Bool := true
  connectors : List (Str × Int) := []  -- (connector name, own parallel count)
  hooks : List Int := []               -- run states with a registered hook (map keys)
  retry : Bool := true
deriving Repr, Inhabited

inductive P where
  | outbox
  | step (status : Int) (shard total : Int)
  | poller (status : Int)
  | inserter (status : Int)
  | conn (name : Str) (shard total : Int)
  | hook (runState : Int)
  | delete
  | retry
deriving Repr, DecidableEq, Inhabited

/-- `for i := i0; cond(i); i++ { yield i }`, with fuel -/
def shards (cond : Int → Bool) : Nat → Int → List Int
  | 0, _ => []
  | f + 1, i => if cond i then i :: shards cond f (i + 1) else []

def fuelFor (p own : Int) : Nat := (max p own).toNat + 1

def stepUnit (dflt : Int) (s : Int × Int) : List P :=
  let p := if Gen.G.runStepOverride s.2 then s.2 else dflt
  if Gen.G.runStepSingle p then [P.step s.1 1 1]
  else (shards (fun i => Gen.G.runStepLoop i p s.2) (fuelFor p s.2) 1).map (fun i => P.step s.1 i p)

def connUnit (dflt : Int) (c : Str × Int) : List P :=
  let p := if Gen.G.runConnOverride c.2 then c.2 else dflt
  if Gen.G.runConnSingle p then [P.conn c.1 1 1]
  else (shards (fun i => Gen.G.runConnLoop i p c.2) (fuelFor p c.2) 1).map (fun i => P.conn c.1 i p)

def launches (c : Cfg) : List P :=
  [P.outbox] ++ c.steps.flatMap (stepUnit c.defaultPar) ++
  (if c.timeoutStore then c.timeouts.flatMap (fun s => [P.poller s, P.inserter s]) else []) ++
  c.connectors.flatMap (connUnit c.defaultPar) ++ c.hooks.map P.hook ++ [P.delete] ++ (if c.retry then [P.retry] else [])

def S (s : String) : Str := Text.ofString s

def runStateName (rs : Int) : Str := (Gen.runStateNames.lookup rs).getD (S "RunState(" ++ Text.intDec rs ++ S ")")

/-- the role name of a process: `makeRole` over stable identifiers only -/
def role (name : Str) : P → Str
  | .outbox => Routing.makeRole [name, S "outbox", S "consumer"]
  | .step st i n => Routing.makeRole [name, Text.intDec st, S "consumer", Text.intDec i, S "of", Text.intDec n]
  | .poller st => Routing.makeRole [name, Text.intDec st, S "timeout-consumer"]
  | .inserter st => Routing.makeRole [name, Text.intDec st, S "timeout-auto-inserter-consumer"]
  | .conn cn i n => Routing.makeRole [cn, S "connector", S "to", name, S "consumer", Text.intDec i, S "of", Text.intDec n]
  | .hook rs => Routing.makeRole [name, runStateName rs, S "run-state-change-hook", S "consumer"]
  | .delete => Routing.makeRole [name, S "delete", S "consumer"]
  | .retry => Routing.makeRole [name, S "paused", S "records", S "retry", S "consumer"]

def roles (c : Cfg) : List Str := (launches c).map (role c.name)

end WorkflowModel.Launch
