import WorkflowModel.Lemmas.Local
import WorkflowModel.Props.Tie
/-! # C13 — Error-count pausing is exact; auto-retry waits the full resume interval

`maybePauseMem` is the model of `maybePause`; the counter is keyed by (error, process, run) — in the Go code by the
concatenation `err ++ process ++ "-" ++ runID`, which is injective on the triples a harness run produces (fixed-length
run IDs, process names that do not extend each other); the general key clash is recorded in DESIGN.md. The two tests
(`== 0`, `count < n`) and the retry consumer's tests are regenerated from pause.go. -/
namespace WorkflowModel.C13
open WorkflowModel Engine

/-- No count configured (n = 0): never paused, the counter is not even touched; the error goes back to the retry loop. -/
theorem C13_never_when_zero (cfg : Cfg) (p : Proc) (mem : Rec) (e : Abort) (env : Env) (st : OpSt) :
    maybePauseMem cfg 0 p mem e env st = (.ok (false, mem), st) := by
  simp [maybePauseMem, Gen.G.pauseDisabled, pure_run]

/-- Below the threshold: the occurrence is counted for exactly this (error, process, run), nothing is written. -/
theorem C13_below_threshold_counts (cfg : Cfg) (n : Int) (p : Proc) (mem : Rec) (e : Abort) (env : Env) (st : OpSt)
    (hn : n ≠ 0) (hlt : st.sys.count (abortTok e, p, mem.runId) + 1 < n) :
    maybePauseMem cfg n p mem e env st =
      (.ok (false, mem), { st with sys := st.sys.setCount (abortTok e, p, mem.runId) (st.sys.count (abortTok e, p, mem.runId) + 1) }) := by
  have h1 : Gen.G.pauseDisabled n = false := by simp [Gen.G.pauseDisabled, hn]
  have h2 : Gen.G.pauseBelowThreshold (st.sys.count (abortTok e, p, mem.runId) + 1) n = true := by
    simp [Gen.G.pauseBelowThreshold]; omega
  simp [maybePauseMem, h1, h2, bind_run, Engine.getSys, Engine.modifySys, pure_run, Bind.bind]

/-- counting one key never changes the count of another (other run, other process, other error) -/
theorem C13_counts_independent (s : Sys) (k k' : Int × Proc × RunId) (v : Int) (h : k' ≠ k) :
    (s.setCount k v).count k' = s.count k' := count_setCount_ne s k k' v h

/-- Reaching the threshold (the n-th occurrence of the same error in the same process on that run, n ≥ 1): the run is
paused through its controller — a Paused write with the next version — and the counter starts afresh at 0. Fault-free. -/
theorem C13_pause_at_nth (cfg : Cfg) (n : Int) (p : Proc) (mem : Rec) (e : Abort) (st : OpSt)
    (hn : n ≠ 0) (hge : n ≤ st.sys.count (abortTok e, p, mem.runId) + 1) (hc : st.cancelled = false)
    (hallowed : RS.allowed mem.runState 3 = true) :
    let w : Rec := { mem with runState := 3, reason := 1, version := mem.version + 1 }
    (maybePauseMem cfg n p mem e {} st).1 = .ok (true, w) ∧
    (maybePauseMem cfg n p mem e {} st).2.sys.count (abortTok e, p, mem.runId) = 0 ∧
    (maybePauseMem cfg n p mem e {} st).2.sys.runs =
      ((st.sys.setCount (abortTok e, p, mem.runId) (st.sys.count (abortTok e, p, mem.runId) + 1)).write cfg w).runs := by
  intro w
  have h1 : Gen.G.pauseDisabled n = false := by simp [Gen.G.pauseDisabled, hn]
  have h2 : Gen.G.pauseBelowThreshold (st.sys.count (abortTok e, p, mem.runId) + 1) n = false := by
    simp [Gen.G.pauseBelowThreshold]; omega
  have ht : RS.target .pause = 3 := by decide
  have hw : ({ mem with runState := 3, reason := ctlReason .pause, version := mem.version + 1 } : Rec) = w := rfl
  unfold maybePauseMem
  simp only [h1, Bool.false_eq_true, if_false]
  rw [bind_run]; simp only [Engine.getSys]
  rw [bind_run]; simp only [Engine.modifySys]
  simp only [h2, Bool.false_eq_true, if_false]
  rw [bind_run]
  unfold ctlUpdateMem
  simp only [ht, hallowed, if_true, hw]
  rw [bind_run]
  unfold Engine.tryM
  have hs := store_run_ok cfg w {} { st with sys := st.sys.setCount (abortTok e, p, mem.runId) (st.sys.count (abortTok e, p, mem.runId) + 1) } hc (by simp)
  rcases hst : store cfg w {} _ with ⟨r, st'⟩
  rw [hst] at hs
  cases r with
  | error _ => simp at hs
  | ok _ =>
    simp only [pure_run, bind_run, Engine.modifySys]
    refine ⟨trivial, count_setCount _ _ _, ?_⟩
    rw [hs.2.1]
    rfl

/-- The paused-records retry consumer (decision logic): resumes only a record that is still Paused … -/
theorem C13_retry_only_paused (cfg : Cfg) (e : Event) (env : Env) (st : OpSt) (record : Rec)
    (hread : (lookupRes st.sys e.runId st.stale).2 = some record) (hnp : record.runState ≠ 3) :
    (retryHandle cfg e env st).2.sys = st.sys := by
  unfold retryHandle
  rw [bind_run]
  rcases hl : lookup e.runId env st with ⟨v, st'⟩
  cases v with
  | error a => exact (lookup_err hl).1
  | ok v =>
    obtain ⟨hv, hsys, _⟩ := lookup_ok hl
    rw [hread] at hv; subst hv
    have : Gen.G.retryNotPaused record.runState = true := by simp [Gen.G.retryNotPaused, Gen.RunStatePaused, hnp]
    simp only [this, if_true]
    exact hsys

/-- … and only once the full interval has elapsed on the workflow clock since the record's update time: earlier, nothing
is written (with a store that stamps the update time on every write — `cfg.stamp`, as the SQL store does — the update
time of a Paused record is the instant it was paused). -/
theorem C13_retry_waits (cfg : Cfg) (e : Event) (env : Env) (st : OpSt) (record : Rec)
    (hread : (lookupRes st.sys e.runId st.stale).2 = some record)
    (hearly : st.sys.now - cfg.retryAfterSec < record.updatedAt) :
    (retryHandle cfg e env st).2.sys = st.sys := by
  unfold retryHandle
  rw [bind_run]
  rcases hl : lookup e.runId env st with ⟨v, st'⟩
  cases v with
  | error a => exact (lookup_err hl).1
  | ok v =>
    obtain ⟨hv, hsys, _⟩ := lookup_ok hl
    rw [hread] at hv; subst hv
    simp only []
    split
    · exact hsys
    · rw [bind_run]
      simp only [Engine.getSys]
      have : Gen.G.retryTooEarly record.updatedAt (Gen.G.retryThreshold st'.sys.now cfg.retryAfterSec) = true := by
        simp [Gen.G.retryTooEarly, Gen.G.retryThreshold, hsys]; omega
      simp only [this, if_true]
      exact hsys

/-- It never revives a cancelled run: Resume is not allowed from Cancelled (and the still-paused test comes first). -/
theorem C13_never_revives_cancelled : RS.allowed 4 (RS.target .resume) = false := by decide

theorem C13_tie_order : Tie.maybePause = true ∧ Tie.autoRetry = true ∧ Tie.stepConsumer = true ∧ Tie.processTimeout = true := by
  decide +kernel

/-- non-vacuity: PauseAfterErrCount(2): first failure retried (not paused, not acked), second failure pauses and acks -/
example :
    let cfg : Cfg := { calls := [{ kind := .step, src := 1, dests := [2], pauseAfter := 2 }], backoffSec := 1 }
    let pre : List Act := [.trigger 0 0 7 {}, .step .outbox {}, .step (.step 1 1 1) {}]
    let s1 := runActs cfg {} (pre ++ [.step (.step 1 1 1) { outcomes := [.err 0] }])
    let s2 := runActs cfg s1 [.tick 1, .step (.step 1 1 1) {}, .step (.step 1 1 1) {}, .step (.step 1 1 1) { outcomes := [.err 0] }]
    (s1.cur 0).map (·.runState) = some 1 ∧ s1.cursor (.step 1 1 1) = 0 ∧
    (s2.cur 0).map (·.runState) = some 3 ∧ s2.cursor (.step 1 1 1) = 1 := by
  decide +kernel

end WorkflowModel.C13
