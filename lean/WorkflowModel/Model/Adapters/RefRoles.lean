/-! # RefRoles: the role-scheduler contract (reference model for the scheduler clause of C11)

A role is held by at most one live holder. A request waits; it may be granted only while nobody holds its role; a holder
(or a waiter) ends when its context is cancelled. Which of several waiters is granted is not specified. -/
namespace WorkflowModel.RefRoles

structure RState where
  holders : List (Nat × Nat) := []   -- (holder id, role)
  waiting : List (Nat × Nat) := []   -- (requester id, role)
deriving Repr, Inhabited

def RState.request (s : RState) (id role : Nat) : RState := { s with waiting := s.waiting ++ [(id, role)] }

def RState.held (s : RState) (role : Nat) : Bool := s.holders.any (·.2 == role)

/-- grant is legal iff the requester is waiting and nobody holds its role -/
def RState.grant (s : RState) (id : Nat) : RState × Bool :=
  match s.waiting.find? (·.1 == id) with
  | none => (s, false)
  | some w =>
    if s.held w.2 then (s, false)
    else ({ holders := s.holders ++ [w], waiting := s.waiting.filter (·.1 != id) }, true)

/-- the context of `id` is cancelled: it stops holding / waiting -/
def RState.finish (s : RState) (id : Nat) : RState :=
  { holders := s.holders.filter (·.1 != id), waiting := s.waiting.filter (·.1 != id) }

inductive Op where
  | request (id role : Nat)
  | grant (id : Nat)
  | finish (id : Nat)
deriving Repr

def RState.apply (s : RState) : Op → RState
  | .request id r => s.request id r
  | .grant id => (s.grant id).1
  | .finish id => s.finish id

end WorkflowModel.RefRoles
