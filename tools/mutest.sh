#!/bin/bash
# usage: mutest.sh <mutant-dir-name> <prop> [<prop>...]   -- apply seeded change to /repo, run checks, undo
M=$1; shift
D=/tmp/mut/out/$M; [ -d /verif/seeded/$M ] && D=/verif/seeded/$M
git -C /repo apply $D/patch.diff || { echo "patch does not apply"; exit 2; }
for p in "$@"; do
  out=$(cd /verif && ./check $p ${TIER:-quick} 2>&1); rc=$?
  echo "== $M vs $p rc=$rc"; echo "$out" | grep -E "^(VIOLATION|BROKEN|DISAGREEMENT|INFRA|KNOWN|OK)" | cut -c1-260
done
git -C /repo reset -q --hard HEAD ; git -C /repo status --short | head -3
