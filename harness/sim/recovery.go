package sim

import (
	"fmt"
	"github.com/luno/workflow"
	"sort"
	"strconv"
	"strings"
	"time"

	"github.com/luno/workflow/verifharness/leandrv"
	"github.com/luno/workflow/verifharness/report"
	"github.com/luno/workflow/verifharness/rng"
)

// Det makes the user functions deterministic functions of the record they are handed (C01): the destination is fixed per
// (kind, status), the new object is a function of the old object and the status, timers expire a fixed time after now,
// hooks and the delete function succeed; the first FailFirst invocations for a (kind, status, run) fail ("eventually
// succeed").
type Det struct {
	Next      map[string]int // "<kind>:<status>" -> destination
	TimerSec  int
	FailFirst int
	// AlwaysFail: function kinds ("step", "timeout") that fail with the same error on every invocation (C13 suites)
	AlwaysFail map[string]bool
	attempts   map[string]int
}

type detCtx struct {
	kind   string
	status int
	objN   int
	run    int
}

func detObj(old, status int) int { return 2 * ((old*7 + status*13 + 1) % 4999) }

func (d *Det) outcome(c detCtx) string {
	switch c.kind {
	case "timer":
		return "t:" + strconv.Itoa(d.TimerSec)
	case "hook", "delete":
		return "k"
	}
	key := fmt.Sprintf("%s:%d:%d", c.kind, c.status, c.run)
	d.attempts[key]++
	if d.attempts[key] <= d.FailFirst || d.AlwaysFail[c.kind] {
		return "e:1"
	}
	return fmt.Sprintf("r:%d:%d", d.Next[c.kind+":"+strconv.Itoa(c.status)], detObj(c.objN, c.status))
}

// detFor derives the deterministic functions of a configuration: every step/callback/timeout goes to its first destination.
func detFor(c Config, failFirst int) *Det {
	d := &Det{Next: map[string]int{}, TimerSec: 5, FailFirst: failFirst, attempts: map[string]int{}}
	for _, b := range c.Calls {
		k := b.Kind + ":" + strconv.Itoa(b.From)
		if _, ok := d.Next[k]; !ok && len(b.Dests) > 0 {
			d.Next[k] = b.Dests[0]
		}
	}
	return d
}

type recAct struct {
	A     Action
	Calls int // adapter calls made during the action
}

type finalState struct {
	Runs []string // per run ordinal: fid/status/object/run state/version
}

func (s *Sim) finals() finalState {
	var f finalState
	for _, rr := range s.W.runs {
		r := rr.versions[len(rr.versions)-1]
		f.Runs = append(f.Runs, fmt.Sprintf("f%d:st%d:o%d:rs%d:v%d", fidOrd(rr.fid), r.Status, ObjToken(r.Object), int(r.RunState), r.Meta.Version))
	}
	sort.Strings(f.Runs)
	return f
}

// settle drives the system fault-free to quiescence: background processes (Drain), the callbacks the outside world owes
// (re-issued until accepted), clock advances to the next deadline.
func (s *Sim) settle(g *Gen, emit func(Action, string)) (bool, error) {
	for round := 0; round < 40; round++ {
		ok, err := s.Drain(g, 600, emit)
		if err != nil {
			return false, err
		}
		if !ok {
			return false, nil
		}
		issued := false
		for _, rr := range s.W.runs {
			r := rr.versions[len(rr.versions)-1]
			if r.RunState.Finished() || r.RunState.Stopped() {
				continue
			}
			if len(s.W.Cfg.CallbacksAt(r.Status)) > 0 {
				a := Action{Kind: "callback", Fid: fidOrd(rr.fid), Status: r.Status}
				line, err := s.Do(a)
				a.Env.Outcomes = append([]string{}, s.W.usedOutcomes...)
				emit(a, line)
				if err != nil {
					return false, err
				}
				issued = true
			}
		}
		if !issued {
			// timers in the timeout store that are not due yet: move the clock to the earliest expiry
			var next time.Duration
			for _, t := range s.W.timers {
				if t.Completed {
					continue
				}
				if rr, ok := s.W.byID[t.RunID]; ok {
					last := rr.versions[len(rr.versions)-1]
					if last.RunState.Stopped() || last.RunState.Finished() {
						continue
					}
				}
				if d := t.ExpireAt.Sub(s.W.Clk.Now()); d > 0 && (next == 0 || d < next) {
					next = d
				}
			}
			if next == 0 {
				return true, nil
			}
			a := Action{Kind: "tick", Sec: int((next + time.Second - 1) / time.Second)}
			line, err := s.Do(a)
			emit(a, line)
			if err != nil {
				return false, err
			}
		}
	}
	return false, nil
}

// goneViolation: if a wait failed because process goroutines have exited for good, the C01 violation describing it.
func goneViolation(s *Sim, err error) *report.Violation {
	if err == nil || !strings.Contains(err.Error(), "did not come to rest") {
		return nil
	}
	var dead []string
	for name, st := range s.WF.States() {
		if st == workflow.StateShutdown {
			dead = append(dead, name)
		}
	}
	if len(dead) == 0 {
		return nil
	}
	sort.Strings(dead)
	return &report.Violation{Property: "C01", Oracle: "recovers-to-failure-free-state", Signature: "process-gone-after-fault",
		Detail: fmt.Sprintf("after the fault, process(es) %v terminated although the workflow is running: nothing will ever handle their events again (runs now: %v)", dead, s.finals().Runs)}
}

type recCase struct {
	Cfg       string   `json:"cfg"`
	FailFirst int      `json:"user_functions_fail_first"`
	Runs      int      `json:"runs"`
	Prefix    []string `json:"prefix_actions"`
	Fault     string   `json:"fault"`
	Baseline  []string `json:"failure_free_final"`
	Final     []string `json:"final"`
}

func genRecoveryConfig(r *rng.R) Config {
	for {
		c := GenConfig(r, Features{Callbacks: true, Timeouts: true, Hooks: true})
		c.DefaultPauseAfter = 0
		for i := range c.Calls {
			c.Calls[i].PauseAfter = 0
			c.Calls[i].LagSec = 0
		}
		c.DefaultLagSec = 0
		c.RetryEnabled = false
		c.Stamp = false
		ok := true
		// one handler per status: with a step and a timeout (or two callbacks) on one status the outcome would depend on the
		// order of the processes, which a fault legitimately changes
		per := map[int]int{}
		for _, b := range c.Calls {
			per[b.From]++
			if per[b.From] > 1 || len(b.Dests) == 0 {
				ok = false
			}
		}
		if ok {
			return c
		}
	}
}

// RecoverySuite (C01): for generated workflows with deterministic, eventually succeeding functions: the failure-free
// execution, then EVERY placement of one fault (error before the effect, error after the effect, lease loss at the call)
// at every adapter call of every background-process operation of that execution, and a lease loss before every
// operation; recovery = fault-free settling; the final status, object, run state and version of every run must equal
// the failure-free ones, nothing may be left unpublished. Every action is co-simulated on the Lean engine model.
func RecoverySuite(seed uint64, tier string, res *report.Result, nomodel bool, count int) error {
	res.Rule = "generated workflows (steps, callbacks, timeouts, hooks; 1-2 runs; user functions deterministic in the record, failing their first 0-1 invocations): failure-free execution under a seeded process order, then exhaustively one fault " +
		"(error-before, error-after, lease-loss-at-call) at every adapter call of every background operation of that execution and a lease loss before every operation, followed by fault-free settling (callbacks re-issued until accepted); " +
		"final (status, object, run state, version) of every run compared with the failure-free execution; quiescence monitors (every write published, hooks ran); all actions co-simulated on the Lean engine model; thorough adds pairs of faults on sampled positions"
	n := 12
	if tier == "thorough" {
		n = 60
	}
	if count > 0 {
		n = count
	}
	base := rng.New(seed)
	var d *leandrv.Driver
	if nomodel {
		d = &leandrv.Driver{Null: true}
	} else {
		var err error
		if d, err = leandrv.Start(); err != nil {
			return err
		}
	}
	defer func() { res.ModelLines += d.N; d.Close() }()
	for it := 0; it < n; it++ {
		r := rng.New(base.U64())
		cfg := genRecoveryConfig(r)
		failFirst := r.Intn(2)
		runs := 1 + r.Intn(2)
		// one execution: optional fault at (j, k, kind); returns recorded actions, finals, disagreement flag
		type fault struct {
			j, k  int
			kind  FaultKind
			lease bool
			j2    int // second fault (thorough): -1 none
			k2    int
			kind2 FaultKind
		}
		exec := func(prefix []recAct, f *fault) ([]recAct, finalState, []report.Violation, bool, error) {
			s, err := NewSim(cfg)
			if err != nil {
				return nil, finalState{}, nil, false, err
			}
			defer s.Stop()
			s.W.Det = detFor(cfg, failFirst)
			g := &Gen{R: rng.New(1), C: cfg}
			if _, err := d.Ask(cfg.Line()); err != nil {
				return nil, finalState{}, nil, false, err
			}
			var rec []recAct
			disagreed := false
			var hist []string
			emit := func(a Action, line string) {
				if a.Kind == "step" || a.Kind == "callback" {
					a.Env.Outcomes = append([]string{}, s.W.usedOutcomes...)
				}
				rec = append(rec, recAct{A: a, Calls: s.W.callN})
				hist = append(hist, a.Line())
				res.Eval(1)
				if !d.Null && !disagreed {
					ans, err := d.Ask(a.Line())
					if err == nil && ans != line {
						disagreed = true
						res.Disagree(report.Disagreement{Properties: []string{"C01"}, Where: "engine co-simulation (sim-recovery)",
							Input: History{Cfg: cfg.Line(), Actions: append([]string{}, hist...)}, Impl: line, Model: ans})
					}
				}
			}
			do := func(a Action) error {
				line, err := s.Do(a)
				a.Env.Outcomes = append([]string{}, s.W.usedOutcomes...)
				emit(a, line)
				return err
			}
			if prefix == nil {
				for i := 0; i < runs; i++ {
					if err := do(Action{Kind: "trigger", Fid: i, Start: 0, N: 2 * (i + 1)}); err != nil {
						return nil, finalState{}, nil, false, err
					}
				}
			} else {
				for j, pa := range prefix {
					a := pa.A
					a.Env.Outcomes = nil
					if f != nil && j == f.j {
						if f.lease {
							if err := do(Action{Kind: "lease", Tok: a.Tok}); err != nil {
								if v := goneViolation(s, err); v != nil {
									return rec, s.finals(), []report.Violation{*v}, true, nil
								}
								return nil, finalState{}, nil, false, err
							}
						} else {
							a.Env.Faults = map[int]FaultKind{f.k: f.kind}
						}
					}
					if f != nil && f.j2 >= 0 && j == f.j2 {
						if a.Env.Faults == nil {
							a.Env.Faults = map[int]FaultKind{}
						}
						a.Env.Faults[f.k2] = f.kind2
					}
					if err := do(a); err != nil && err != errNotEnabled {
						if v := goneViolation(s, err); v != nil {
							return rec, s.finals(), []report.Violation{*v}, true, nil
						}
						return nil, finalState{}, nil, false, err
					}
					last := f.j
					if f.j2 > last {
						last = f.j2
					}
					if f != nil && j == last {
						break
					}
				}
			}
			ok, err := s.settle(g, emit)
			if v := goneViolation(s, err); v != nil {
				return rec, s.finals(), []report.Violation{*v}, true, nil
			}
			if err != nil {
				return nil, finalState{}, nil, false, err
			}
			if ok {
				s.W.Mon.atQuiescence(s)
			}
			return rec, s.finals(), append([]report.Violation{}, s.W.Mon.Viol...), ok, nil
		}
		baseRec, baseFinal, bviol, ok, err := exec(nil, nil)
		if err != nil {
			return fmt.Errorf("history %d (%s): %w", it, cfg.Line(), err)
		}
		res.Count("baseline")
		if !ok {
			res.Count("baseline-did-not-settle")
			continue
		}
		for _, v := range bviol {
			v.Replay = map[string]any{"suite": "sim-recovery", "cfg": cfg.Line(), "fault": "none"}
			res.Violate(v)
		}
		settled := true
		for _, x := range baseFinal.Runs {
			if !strings.Contains(x, ":rs5:") && !strings.Contains(x, ":rs4:") {
				settled = false
			}
		}
		if settled {
			res.Count("baseline-all-runs-finished")
		}
		res.NonTrivial(cfg.Line() + "|" + strings.Join(baseFinal.Runs, ","))
		if it < 2 {
			res.Sample(map[string]any{"cfg": cfg.Line(), "failure_free_final": baseFinal.Runs, "actions": len(baseRec)})
		}
		found := 0
		try := func(f fault, label string) error {
			if found >= 3 {
				return nil // this workflow has shown enough failing placements; move on to the next one
			}
			before := len(res.Violations)
			defer func() {
				if len(res.Violations) > before {
					found++
				}
			}()
			_, fin, viols, ok, err := exec(baseRec, &f)
			if err != nil {
				return fmt.Errorf("history %d (%s) fault %s: %w", it, cfg.Line(), label, err)
			}
			res.Count("fault-run")
			res.Traces++
			var prefix []string
			for _, pa := range baseRec[:f.j+1] {
				prefix = append(prefix, pa.A.Line())
			}
			rc := recCase{Cfg: cfg.Line(), FailFirst: failFirst, Runs: runs, Prefix: prefix, Fault: label, Baseline: baseFinal.Runs, Final: fin.Runs}
			if !ok {
				res.Violate(report.Violation{Property: "C01", Oracle: "recovers-to-failure-free-state", Signature: "does-not-settle-after-fault",
					Detail: fmt.Sprintf("after fault %s the system did not come to rest within the bound", label), Replay: map[string]any{"suite": "sim-recovery", "case": rc}})
				return nil
			}
			if strings.Join(fin.Runs, ",") != strings.Join(baseFinal.Runs, ",") {
				kind := strings.SplitN(label, " ", 2)[0]
				res.Violate(report.Violation{Property: "C01", Oracle: "recovers-to-failure-free-state", Signature: "final-state-differs-after-" + kind + ":" + tokKind(baseRec[f.j].A.Tok),
					Detail: fmt.Sprintf("fault %s: after recovery the runs are %v, the failure-free execution ends with %v", label, fin.Runs, baseFinal.Runs),
					Replay: map[string]any{"suite": "sim-recovery", "case": rc}})
			}
			for _, v := range viols {
				if v.Signature == "process-gone-after-fault" {
					v.Replay = map[string]any{"suite": "sim-recovery", "case": rc}
					res.Violate(v)
					continue
				}
				if v.Property == "C01" || v.Property == "C05" || v.Property == "C14" {
					v2 := v
					v2.Property = "C01"
					v2.Signature = "at-quiescence:" + v.Signature
					v2.Replay = map[string]any{"suite": "sim-recovery", "case": rc}
					res.Violate(v2)
				}
			}
			return nil
		}
		kinds := []FaultKind{FBefore, FAfter, FCancel}
		kname := map[FaultKind]string{FBefore: "error-before", FAfter: "error-after", FCancel: "lease-loss-at-call"}
		type pos struct{ j, k int }
		var positions []pos
		for j, pa := range baseRec {
			if pa.A.Kind != "step" {
				continue
			}
			if err := try(fault{j: j, lease: true, j2: -1}, fmt.Sprintf("lease-loss before action %d (%s)", j, pa.A.Tok)); err != nil {
				return err
			}
			for k := 0; k < pa.Calls; k++ {
				positions = append(positions, pos{j, k})
				for _, kd := range kinds {
					if err := try(fault{j: j, k: k, kind: kd, j2: -1}, fmt.Sprintf("%s at call %d of action %d (%s)", kname[kd], k, j, pa.A.Tok)); err != nil {
						return err
					}
				}
			}
		}
		res.CountN("fault-positions", len(positions))
		if tier == "thorough" && len(positions) > 1 {
			// pairs of faults on sampled positions
			for p := 0; p < 60; p++ {
				a, b := positions[r.Intn(len(positions))], positions[r.Intn(len(positions))]
				if a.j > b.j || (a.j == b.j && a.k >= b.k) {
					continue
				}
				k1, k2 := rng.Pick(r, kinds), rng.Pick(r, kinds)
				if err := try(fault{j: a.j, k: a.k, kind: k1, j2: b.j, k2: b.k, kind2: k2},
					fmt.Sprintf("pair %s at call %d of action %d + %s at call %d of action %d", kname[k1], a.k, a.j, kname[k2], b.k, b.j)); err != nil {
					return err
				}
				res.Count("fault-pair-run")
			}
		}
	}
	return nil
}

func tokKind(tok string) string { return strings.SplitN(tok, ":", 2)[0] }
