import WorkflowModel.Model.Engine
/-! # Executable mirror of the history invariant

`histOK cfg s` decides whether every run of `s` has a legal write history (`Lemmas/Hist.lean` proves it equivalent to
`HistInv`). The model driver evaluates it on co-simulated histories; `Props/History.lean` uses it for the witnesses that
each hypothesis of `history_inv` is necessary. -/
namespace WorkflowModel.Engine
open WorkflowModel RS

def recOKb (cfg : Cfg) (w : Rec) : Bool :=
  decide (1 ≤ w.runState) && decide (w.runState ≤ 7) &&
  (w.runState != 5 || Graph.isTerminal cfg.graph w.status) && w.descr == w.status

def initOKb (cfg : Cfg) (w : Rec) : Bool :=
  w.version == 1 && w.runState == 1 && Graph.isValid cfg.graph w.status

def edgeb (cfg : Cfg) (a b : Rec) : Bool :=
  b.version == a.version + 1 && b.runId == a.runId && b.fid == a.fid && b.createdAt == a.createdAt &&
  ( (b.status == a.status && b.obj == a.obj && (allowed a.runState b.runState || allowed (view a.runState) b.runState)) ||
    ((a.runState == 1 || a.runState == 2) && cfg.edges.contains (a.status, b.status) &&
      b.runState == (if Graph.isTerminal cfg.graph b.status then 5 else 2)) ||
    ((a.runState == 7 || a.runState == 6) && b.runState == 6 && b.status == a.status) )

def chainb (cfg : Cfg) : List Rec → Bool
  | [] => false
  | [w] => initOKb cfg w
  | b :: a :: t => edgeb cfg a b && chainb cfg (a :: t)

def runOKb (cfg : Cfg) (i : Nat) (x : RunS) : Bool :=
  chainb cfg x.hist && x.hist.all (fun w => w.runId == i && w.fid == x.fid && recOKb cfg w)

def histOK (cfg : Cfg) (s : Sys) : Bool := (s.runs.zipIdx).all (fun p => runOKb cfg p.2 p.1)

end WorkflowModel.Engine
