import WorkflowModel.Props.C04
import WorkflowModel.Props.C05
import WorkflowModel.Props.C07
import WorkflowModel.Props.C11
/-! # C01 — Crash-tolerant progress: every run ends exactly as in a fault-free execution

The convergence statement itself ("after any faults and recovery every run ends as in the failure-free execution") is
decided by FAULT ENUMERATION on the implementation, co-simulated on the engine model (suite `sim-recovery`): it needs
determinism of the user functions and fairness of the schedule, which this model takes as parameters of an execution,
not as something to quantify a theorem over. What IS proved here, for every environment (fault plan, crash point, user
function outcome), are the four mechanisms the property rests on, over the same engine model:

1. nothing is left unpublished: every write is pending in the outbox or published, in every reachable state;
2. nothing is left unprocessed: a delivery whose handler fails moves no cursor, so the event is received again; a
   failed relay step keeps the entry;
3. each persisted effect is applied once: as soon as the effect of an announcement is persisted (the record is one
   version ahead), redelivering that announcement — any number of times, to any shard, under any fault plan, with any
   step function — writes nothing, invokes nothing and is acknowledged;
4. processes never give up: a failing operation parks the process in back-off (or at the role gate) and no parking state
   is a dead end. -/
namespace WorkflowModel.C01
open WorkflowModel Engine

/-- 1. No run is left with an unpublished change — in EVERY reachable state, whatever failed or crashed on the way. -/
theorem C01_no_unpublished_change (cfg : Cfg) (as : List Act) :
    let s := runActs cfg {} as
    ∀ w, Written s w → (∃ o ∈ s.outbox, o.ev = Routing.route w) ∨ (∃ e ∈ s.log, core e = Routing.route w) :=
  (C05.C05_inv cfg as).1

/-- 2a. A delivery whose handler fails — its own error, an adapter error inside it, a crash — is not acknowledged: no cursor
moves and the consume loop fails, so the same event is received again (every consumer kind, every fault plan). -/
theorem C01_failed_delivery_redelivered (cfg : Cfg) (p : Proc) (i : Nat) (e : Event) (env : Env) (st : OpSt) (a : Abort)
    (hnf : filteredOut p i e = false) (hfail : (handle cfg p e env st).1 = .error a) :
    (deliver cfg p i e env st).2.sys.cursors = st.sys.cursors ∧ (deliver cfg p i e env st).1 = .error a :=
  C07.C07_failure_no_ack cfg p i e env st a hnf hfail

theorem cur_write (s : Sys) (cfg : Cfg) (r : Rec) (h : r.runId < s.runs.length) :
    ∃ r', (s.write cfg r).cur r.runId = some r' ∧ r'.version = r.version ∧ r'.runId = r.runId := by
  unfold Sys.write Sys.cur
  by_cases hs : cfg.stamp = true
  · simp only [hs, if_true, h]
    refine ⟨{ r with updatedAt := s.now }, ?_, rfl, rfl⟩
    simp [List.getElem?_mapIdx, h]
  · simp only [hs, Bool.false_eq_true, if_false, h, if_true]
    refine ⟨r, ?_, rfl, rfl⟩
    simp [List.getElem?_mapIdx, h]

/-- 3. EXACTLY-ONCE PERSISTED EFFECT. Let `e` announce version `v` of a run and let the effect of handling it be persisted:
some record `r` of that run with a later version has been written. Then handling `e` again — redelivery after a lost
acknowledgement, after a crash between Store and Ack, after a cursor reset; on any shard; with ANY step function; under ANY
fault plan (current reads) — changes nothing at all and consumes no user-function outcome: the effect cannot be applied a
second time, however often the step function was or will be invoked. -/
theorem C01_effect_not_reapplied (cfg : Cfg) (p : Proc) (status : Status) (pa : Int) (e : Event)
    (fn : Rec → M (Except Abort FnRes × Rec)) (s : Sys) (r : Rec) (env : Env) (callN outI : Nat)
    (hrun : r.runId = e.runId) (hlen : r.runId < s.runs.length) (hver : r.version > e.version) :
    let st : OpSt := { sys := s.write cfg r, stale := 0, callN := callN, outI := outI }
    (stepHandle cfg p status pa e fn env st).2.sys = s.write cfg r ∧ (stepHandle cfg p status pa e fn env st).2.outI = outI := by
  intro st
  obtain ⟨r', hcur, hv, _⟩ := cur_write s cfg r hlen
  have hread : (lookupRes st.sys e.runId st.stale).2 = some r' := by
    show (lookupRes (s.write cfg r) e.runId 0).2 = some r'
    rw [lookupRes_fresh, ← hrun]; exact hcur
  have := C04.C04_old_event_noop (cfg := cfg) (p := p) (status := status) (pa := pa) (e := e) fn env st r' hread (by omega)
  exact ⟨this.1, this.2.1⟩

/-- 2b. A relay step that fails while sending or deleting keeps the outbox entry (it is sent again) -/
theorem C01_relay_failure_keeps_entry (o : OutE) (env : Env) (st : OpSt)
    (hlog : ((relayEntry o) env st).2.sys.log = st.sys.log) : ((relayEntry o) env st).2.sys.outbox = st.sys.outbox :=
  C05.C05_failure_keeps_entry o env st hlog

/-- 4. A failing operation never ends its process, and no parking state is a dead end. -/
theorem C01_process_retries (cfg : Cfg) (p : Proc) (env : Env) (st : OpSt) (a : Abort)
    (hfail : (procBody cfg p (st.sys.pstate p) env st).1 = .error a) :
    (∃ u, ((procOp cfg p) env st).2.sys.pstate p = .backoff u) ∨ ((procOp cfg p) env st).2.sys.pstate p = .needRole :=
  C11.C11_failure_retries cfg p env st a hfail

theorem C01_never_dead (s : Sys) (p : Proc) :
    ∃ d : Int, 0 ≤ d ∧ ((s.tick d).enabled p = true ∨ (s.pstate p = .atRecv ∧ (s.nextIndex p).isNone)) :=
  C11.C11_never_dead s p

/-- T2: the call orders the four mechanisms depend on -/
theorem C01_tie_order : Tie.purgeOutbox = true ∧ Tie.consume = true ∧ Tie.stepConsumer = true ∧ Tie.updater = true ∧
    Tie.runOnce = true ∧ Tie.memStore = true := by decide +kernel

/-- non-vacuity of 3: a step advanced run 0 to version 2; its announcement of version 1 is redelivered after a cursor
rewind with a step function that would now answer differently: nothing changes -/
example :
    let cfg : Cfg := { calls := [{ kind := .step, src := 1, dests := [2] }, { kind := .step, src := 2, dests := [3] }] }
    let s := runActs cfg {} [.trigger 0 0 7 {}, .step .outbox {}, .step (.step 1 1 1) {}, .step (.step 1 1 1) { outcomes := [.ret 2 8] }]
    let s' := runActs cfg s [.rewind (.step 1 1 1) 0, .step (.step 1 1 1) { outcomes := [.ret 2 9] }]
    (s.cur 0).map (·.version) = some 2 ∧ s'.runs.map (·.hist.length) = s.runs.map (·.hist.length) ∧ s'.outbox.length = s.outbox.length := by
  decide +kernel

end WorkflowModel.C01
