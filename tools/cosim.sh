#!/bin/bash
# usage: cosim.sh <seed> <n> [suite]  : build harness, run co-simulation, print first disagreements
cd /verif/harness && export GOFLAGS=-mod=mod GOPROXY=off GOSUMDB=off GOTOOLCHAIN=local && go build -tags verif -o /verif/bin/wfh ./cmd/wfh || exit 1
/verif/bin/wfh ${3:-sim-random} -seed $1 -n $2 -workers 8 -out /tmp/c.json
python3 - <<'PY'
import json
r=json.load(open('/tmp/c.json'))
print('traces ok', r['traces_validated_against_impl'], 'disagreements', len(r['disagreements'] or []), {k:v for k,v in r['dist'].items() if k.startswith('disag')})
for d in (r['disagreements'] or [])[:4]:
    print(d['input']['cfg']); print(d['input']['actions'][-1])
    a,b=d['impl'],d['model']
    i=0
    while i<min(len(a),len(b)) and a[i]==b[i]: i+=1
    print(' IMPL  ...'+a[max(0,i-150):i+250]); print(' MODEL ...'+b[max(0,i-150):i+250]); print()
seen=set()
for v in (r['violations'] or []):
    if (v['property'],v['signature']) in seen: continue
    seen.add((v['property'],v['signature']))
    print('VIOL', v['property'], v['signature'], '|', v['detail'][:200])
PY
