import WorkflowModel.Lemmas.Token
/-! # Whole-history theorems: every reachable state, every run, every pair of consecutive writes

`history_inv`: in every state the engine model reaches — by any interleaving of API calls, process operations under any
fault plan (error before / after the effect, lease loss at any adapter call), any user-function outcomes, lease losses,
clock advances, cursor rewinds and duplicate deliveries — every run's write history is a legal history (`HistInv`), PROVIDED
* reads are current (`env.stale = 0`; a lagging replica is finding F16),
* no controller handle obtained earlier is used (`Act.hctl` excluded; finding F17),
* user functions do not re-enter the API for a run (`NoNested`; finding F20),
* there is at most one timeout configuration per status (`OneTimeout`; finding F19).
Each hypothesis excludes exactly one listed finding; the harness's per-history monitors report those histories against the
real code. The property statements about paths (C02, C03), versions and identity (C16), stopped runs (C08), data deletion
(C15) and one unfinished run per foreign ID (C09) are corollaries. -/
namespace WorkflowModel.History
open WorkflowModel Engine RS

/-- the environment of one operation: reads are current and user functions do not re-enter the API -/
def FreshEnv (env : Env) : Prop := env.stale = 0 ∧ NoNested env

/-- the actions the theorem quantifies over: everything except the use of a stale controller handle -/
def FreshAct : Act → Prop
  | .step _ env => FreshEnv env
  | .trigger _ _ _ env => FreshEnv env
  | .callback _ _ env => FreshEnv env
  | .ctl _ _ env => FreshEnv env
  | .hctl _ _ _ => False
  | _ => True

theorem apiOut_sys (r : Except Abort String × OpSt) : (apiOut r).sys = r.2.sys := by
  unfold apiOut
  split <;> rfl

theorem stepAct_inv {cfg : Cfg} (h1 : OneTimeout cfg) (s : Sys) (a : Act) (hf : FreshAct a) (hi : Inv cfg s) :
    Inv cfg (stepAct cfg s a).sys := by
  cases a with
  | step p env =>
    simp only [stepAct]
    split
    · exact (procOp_ht hf.2 h1 p { sys := s, stale := env.stale, isApi := false } hi hf.1 trivial).1
    · exact hi
  | lease p =>
    exact (HT.of_frame (cfg := cfg) (env := {}) (P := fun _ => True) (Fr.leaseLossOp p)
      (Pres.leaseLossOp (RelayInv.stable cfg) p) { sys := s, stale := 0, isApi := false } hi rfl trivial).1
  | trigger fid start n env =>
    simp only [stepAct, apiOut_sys, runM]
    exact (triggerApi_ht fid start n { sys := s, stale := env.stale, isApi := true } hi hf.1 trivial).1
  | callback fid status env =>
    simp only [stepAct, apiOut_sys, runM]
    have hc : HT cfg env (fun _ => True) (do callbackApi cfg fid status fuelDefault; (Pure.pure "ok" : M String)) (fun _ _ => True) :=
      HT.bind (callbackApi_ht hf.2 fid status fuelDefault) (fun _ => HT.pure (fun _ _ => trivial))
    exact (hc { sys := s, stale := env.stale, isApi := true } hi hf.1 trivial).1
  | ctl rid op env =>
    simp only [stepAct, apiOut_sys, runM]
    exact (ctlFreshApi_ht rid op { sys := s, stale := env.stale, isApi := true } hi hf.1 trivial).1
  | handle rid =>
    simp only [stepAct, apiOut_sys, runM]
    exact (HT.of_frame (cfg := cfg) (env := {}) (P := fun _ => True) (Fr.handleApi rid)
      (Pres.handleApi (RelayInv.stable cfg).toStableH rid) { sys := s, stale := 0, isApi := true } hi rfl trivial).1
  | hctl h op env => exact hf.elim
  | tick sec => exact hi.frame rfl ((RelayInv.stable cfg).tick s sec hi.relay)
  | rewind p idx =>
    simp only [stepAct]
    split
    · exact hi.frame rfl ((RelayInv.stable cfg).setCursor s p idx hi.relay)
    · exact hi
  | dup idx =>
    simp only [stepAct]
    split
    · rename_i e he
      exact hi.frame rfl (hi.relay.relaySend e (hi.relay.log_written e (List.mem_of_getElem? he)))
    · exact hi

/-- **Every reachable state has legal histories.** -/
theorem history_inv (cfg : Cfg) (h1 : OneTimeout cfg) (as : List Act) (hf : ∀ a ∈ as, FreshAct a) :
    Inv cfg (runActs cfg {} as) := by
  have : ∀ s, Inv cfg s → Inv cfg (runActs cfg s as) := by
    induction as with
    | nil => intro s hi; exact hi
    | cons a as ih =>
      intro s hi
      exact ih (fun b hb => hf b (List.mem_cons_of_mem _ hb)) _ (stepAct_inv h1 s a (hf a (List.mem_cons_self ..)) hi)
  exact this {} ⟨HistInv.init cfg, RelayInv.init, fun i j x y _ hx => by simp at hx⟩

/-- the executable form of the history invariants (what the model driver's `hist` evaluates on co-simulated histories): within the
hypotheses both mirrors answer true -/
theorem history_mirrors (cfg : Cfg) (h1 : OneTimeout cfg) (as : List Act) (hf : ∀ a ∈ as, FreshAct a) :
    histOK cfg (runActs cfg {} as) = true ∧ oneUnfB (runActs cfg {} as) = true :=
  ⟨(histOK_iff cfg _).mpr (history_inv cfg h1 as hf).hist, oneUnfB_of (history_inv cfg h1 as hf).one⟩

/-! ## reading a chain -/

theorem chain_adjacent {cfg : Cfg} : ∀ (l : List Rec) (k : Nat) (a b : Rec), Chain cfg l → l[k]? = some b → l[k + 1]? = some a →
    Edge cfg a b
  | [], _, _, _, h, _, _ => h.elim
  | [_], k, _, _, _, _, h2 => by simp at h2
  | b' :: a' :: t, 0, a, b, hc, h1, h2 => by
    simp at h1 h2; subst h1; subst h2; exact hc.1
  | b' :: a' :: t, k + 1, a, b, hc, h1, h2 => by
    simp only [List.getElem?_cons_succ] at h1 h2
    exact chain_adjacent (a' :: t) k a b hc.2 h1 h2

theorem chain_last {cfg : Cfg} : ∀ (l : List Rec) (w : Rec), Chain cfg l → l.getLast? = some w → InitOK cfg w
  | [], _, h, _ => h.elim
  | [w'], w, h, hl => by simp at hl; subst hl; exact h
  | b :: a :: t, w, h, hl => by
    have : (b :: a :: t).getLast? = (a :: t).getLast? := by simp [List.getLast?_cons_cons]
    rw [this] at hl
    exact chain_last (a :: t) w h.2 hl

theorem chain_version {cfg : Cfg} : ∀ (l : List Rec) (k : Nat) (w : Rec), Chain cfg l → l[k]? = some w →
    w.version = (l.length - k : Nat)
  | [], _, _, h, _ => h.elim
  | [w'], k, w, h, hk => by
    cases k with
    | zero => simp at hk; subst hk; simp [h.version]
    | succ k => simp at hk
  | b :: a :: t, 0, w, h, hk => by
    simp at hk; subst hk
    have := chain_version (a :: t) 0 a h.2 (by simp)
    have hv := h.1.version
    simp only [List.length_cons] at this ⊢
    womega
  | b :: a :: t, k + 1, w, h, hk => by
    simp only [List.getElem?_cons_succ] at hk
    have := chain_version (a :: t) k w h.2 hk
    simp only [List.length_cons] at this ⊢
    have hlt : k < (a :: t).length := by
      have := (List.getElem?_eq_some_iff.mp hk).1
      exact this
    simp only [List.length_cons] at hlt
    womega

/-! ## the property statements, for every reachable state -/

section Statements
variable (cfg : Cfg) (h1 : OneTimeout cfg) (as : List Act) (hf : ∀ a ∈ as, FreshAct a)
include h1 hf

/-- C03: the run states of consecutive writes of a run follow the documented lifecycle … -/
theorem C03_lifecycle_path (i k : Nat) (x : RunS) (a b : Rec)
    (hx : (runActs cfg {} as).runs[i]? = some x) (hb : x.hist[k]? = some b) (ha : x.hist[k + 1]? = some a) :
    Lifecycle a.runState b.runState :=
  (chain_adjacent x.hist k a b ((history_inv cfg h1 as hf).hist i x hx).chain hb ha).lifecycle

/-- … every run starts Initiated … -/
theorem C03_first_write_initiated (i : Nat) (x : RunS) (w : Rec)
    (hx : (runActs cfg {} as).runs[i]? = some x) (hw : x.hist.getLast? = some w) : w.runState = 1 ∧ w.version = 1 :=
  let h := chain_last x.hist w ((history_inv cfg h1 as hf).hist i x hx).chain hw
  ⟨h.runState, h.version⟩

/-- … and a finished run stays finished: whatever is written later (any number of writes later) is finished too. -/
theorem C03_finished_stays_finished (i : Nat) (x : RunS) (hx : (runActs cfg {} as).runs[i]? = some x) :
    ∀ (d k : Nat) (a b : Rec), x.hist[k + d]? = some a → x.hist[k]? = some b → FinishedSpec a.runState → FinishedSpec b.runState := by
  have hc := ((history_inv cfg h1 as hf).hist i x hx).chain
  intro d
  induction d with
  | zero => intro k a b ha hb hfin; simp at ha; rw [ha] at hb; cases hb; exact hfin
  | succ d ih =>
    intro k a b ha hb hfin
    have hlt : k + 1 < x.hist.length := by
      have := (List.getElem?_eq_some_iff.mp ha).1
      omega
    have hm : x.hist[k + 1]? = some x.hist[k + 1] := List.getElem?_eq_getElem hlt
    have hmid := ih (k + 1) a x.hist[k + 1] (by rw [← ha]; congr 1; omega) hm hfin
    exact lifecycle_finished (chain_adjacent x.hist k _ b hc hb hm).lifecycle hmid

/-- C02: consecutive writes keep the status or follow a declared transition; the first write is at a declared status. -/
theorem C02_status_path (i k : Nat) (x : RunS) (a b : Rec)
    (hx : (runActs cfg {} as).runs[i]? = some x) (hb : x.hist[k]? = some b) (ha : x.hist[k + 1]? = some a) :
    b.status = a.status ∨ (a.status, b.status) ∈ cfg.edges :=
  (chain_adjacent x.hist k a b ((history_inv cfg h1 as hf).hist i x hx).chain hb ha).status

theorem C02_first_status_declared (i : Nat) (x : RunS) (w : Rec)
    (hx : (runActs cfg {} as).runs[i]? = some x) (hw : x.hist.getLast? = some w) : Graph.isValid cfg.graph w.status = true :=
  (chain_last x.hist w ((history_inv cfg h1 as hf).hist i x hx).chain hw).valid

/-- C16: the k-th newest of n writes of a run has version n - k: versions are 1, 2, 3, … without gaps or repeats … -/
theorem C16_versions (i k : Nat) (x : RunS) (w : Rec)
    (hx : (runActs cfg {} as).runs[i]? = some x) (hw : x.hist[k]? = some w) : w.version = (x.hist.length - k : Nat) :=
  chain_version x.hist k w ((history_inv cfg h1 as hf).hist i x hx).chain hw

/-- … identity and creation time never change, the status description follows the status, and the object changes only
with a status advance or the data deletion. -/
theorem C16_identity_and_object (i k : Nat) (x : RunS) (a b : Rec)
    (hx : (runActs cfg {} as).runs[i]? = some x) (hb : x.hist[k]? = some b) (ha : x.hist[k + 1]? = some a) :
    b.runId = a.runId ∧ b.fid = a.fid ∧ b.createdAt = a.createdAt ∧ b.version = a.version + 1 ∧ b.descr = b.status ∧
    (b.obj = a.obj ∨ (a.status, b.status) ∈ cfg.edges ∨ b.runState = 6) := by
  have hr := (history_inv cfg h1 as hf).hist i x hx
  have he := chain_adjacent x.hist k a b hr.chain hb ha
  exact ⟨he.runId, he.fid, he.createdAt, he.version, (hr.recs b (List.mem_of_getElem? hb)).descr, he.obj⟩

/-- C08: a write over a stopped record (Paused, Cancelled, RequestedDataDeleted, DataDeleted) never changes the status, and
changes the object only by the data deletion. -/
theorem C08_stopped_run_unchanged (i k : Nat) (x : RunS) (a b : Rec)
    (hx : (runActs cfg {} as).runs[i]? = some x) (hb : x.hist[k]? = some b) (ha : x.hist[k + 1]? = some a)
    (hs : Gen.stopped a.runState = true) : b.status = a.status ∧ (b.obj = a.obj ∨ b.runState = 6) := by
  have he := chain_adjacent x.hist k a b ((history_inv cfg h1 as hf).hist i x hx).chain hb ha
  rcases he.kind with ⟨g1, h2, _⟩ | ⟨g1, _⟩ | ⟨_, h2, h3⟩
  · exact ⟨g1, Or.inl h2⟩
  · rcases g1 with h | h <;> rw [h] at hs <;> exact absurd hs (by decide)
  · exact ⟨h3, Or.inr h2⟩

/-- C15: DataDeleted is only ever written over RequestedDataDeleted or DataDeleted. -/
theorem C15_deleted_only_after_request (i k : Nat) (x : RunS) (a b : Rec)
    (hx : (runActs cfg {} as).runs[i]? = some x) (hb : x.hist[k]? = some b) (ha : x.hist[k + 1]? = some a)
    (h6 : b.runState = 6) : a.runState = 7 ∨ a.runState = 6 := by
  have he := chain_adjacent x.hist k a b ((history_inv cfg h1 as hf).hist i x hx).chain hb ha
  have := he.lifecycle
  unfold Lifecycle at this
  womega

/-- C03: Completed is only ever persisted at a status without outgoing transitions. -/
theorem C03_completed_at_terminal (i : Nat) (x : RunS) (w : Rec)
    (hx : (runActs cfg {} as).runs[i]? = some x) (hw : w ∈ x.hist) (h5 : w.runState = 5) :
    Graph.isTerminal cfg.graph w.status = true :=
  (((history_inv cfg h1 as hf).hist i x hx).recs w hw).completedTerminal h5

/-- C09: of two runs of one foreign ID the EARLIER created one is finished - so at most one run per foreign ID is unfinished, and
it is the most recently created one (the run `Latest` answers with, which is what `Trigger` tests). -/
theorem C09_one_unfinished_run (i j : Nat) (x y : RunS) (hij : i < j)
    (hx : (runActs cfg {} as).runs[i]? = some x) (hy : (runActs cfg {} as).runs[j]? = some y) (hfid : x.fid = y.fid) :
    ∃ h t, x.hist = h :: t ∧ FinishedSpec h.runState :=
  (history_inv cfg h1 as hf).one i j x y hij hx hy hfid

/-- C01: "each step's persisted effect is applied exactly once": no two writes of a run carry the same version - a second
application of an effect would be a second write based on the same record, i.e. a second write with its version + 1. -/
theorem C01_no_effect_twice (i k k' : Nat) (x : RunS) (w w' : Rec)
    (hx : (runActs cfg {} as).runs[i]? = some x) (hw : x.hist[k]? = some w) (hw' : x.hist[k']? = some w')
    (hv : w.version = w'.version) : k = k' := by
  have hc := ((history_inv cfg h1 as hf).hist i x hx).chain
  have e1 := chain_version x.hist k w hc hw
  have e2 := chain_version x.hist k' w' hc hw'
  have l1 := (List.getElem?_eq_some_iff.mp hw).1
  have l2 := (List.getElem?_eq_some_iff.mp hw').1
  rw [hv] at e1
  womega

/-- C01 / C04 / C07: in any reachable state, a delivery to a step consumer that ends with the acknowledgement (a normal return
of `deliver`; any fault plan, any outcomes that neither re-enter the API nor answer with a skip value) leaves legal histories
and either the event belonged to another shard, or the announced version needs no further handling: the run is no longer
persisted Initiated/Running at that version - it had moved on already (old announcement), it is stopped, or this very
operation persisted the step's effect, the pause/cancel the function asked for, or the auto-pause. An announcement that still
describes the live run is therefore never acknowledged away ("no run is left stranded with an unprocessed change"). -/
theorem C01_step_ack_means_handled (env : Env) (hn : NoNested env) (hs : NoSkip env) (hz : env.stale = 0)
    (s : Status) (shard total : Int) (idx : Nat) (e : Event)
    (hok : (runM (deliver cfg (.step s shard total) idx e) env (runActs cfg {} as) false).1 = .ok ()) :
    Inv cfg (runM (deliver cfg (.step s shard total) idx e) env (runActs cfg {} as) false).2.sys ∧
    (filteredOut (.step s shard total) idx e = true ∨
      ∀ w, (runM (deliver cfg (.step s shard total) idx e) env (runActs cfg {} as) false).2.sys.cur e.runId = some w →
        (w.runState = 1 ∨ w.runState = 2) → w.version ≠ e.version) := by
  have hi := history_inv cfg h1 as hf
  obtain ⟨a1, _, a3⟩ := deliver_step_done (cfg := cfg) hn hs s shard total idx e
    { sys := runActs cfg {} as, stale := env.stale, isApi := false } hi hz trivial
  refine ⟨a1, ?_⟩
  rcases a3 () hok with h | h
  · exact Or.inl h
  · exact Or.inr (fun w hw hl => h w hw hl)

/-- C15 / C07: in any reachable state, a delivery of a published delete request to the delete consumer that ends with the
acknowledgement leaves the run persisted DataDeleted (any fault plan, any outcome of the custom delete function): an accepted
deletion request is never acknowledged away before it has been executed. -/
theorem C15_ack_means_deleted (env : Env) (hz : env.stale = 0) (idx : Nat) (e : Event)
    (he : e ∈ (runActs cfg {} as).log) (hk : e.topicKind = 1)
    (hok : (runM (deliver cfg .delete idx e) env (runActs cfg {} as) false).1 = .ok ()) :
    ∃ w, (runM (deliver cfg .delete idx e) env (runActs cfg {} as) false).2.sys.cur e.runId = some w ∧ w.runState = 6 := by
  have hi := history_inv cfg h1 as hf
  have hd : HT cfg env (fun R => HasRDD R e.runId) (deliver cfg .delete idx e)
      (fun _ R => ∃ h, curR R e.runId = some h ∧ h.runState = 6) := by
    unfold deliver
    split
    · rename_i hfo
      simp [filteredOut] at hfo
    · unfold handle
      exact HT.bind (deleteHandle_done e) (fun _ => HT.ack _ idx)
  obtain ⟨_, _, a3⟩ := hd { sys := runActs cfg {} as, stale := env.stale, isApi := false } hi hz
    (hasRDD_of_delete_event hi he hk)
  exact a3 () hok

/-- C05 + histories: in every reachable state every write is pending in the outbox or published, and nothing else is. -/
theorem C05_relay_with_history : RelayInv (runActs cfg {} as) := (history_inv cfg h1 as hf).relay


end Statements

/-! ## the version gate is sufficient (C04, C06, C08)

An event on a status topic whose version is the run's current version describes the run's persisted record: that record is at
the topic's status and Initiated or Running. So a step (or timer) function that passed the version gate is invoked at its own
status, on a run that is neither stopped nor finished - in every reachable state, whatever was redelivered, duplicated or
rewound. (This is why the `Stopped()` test behind the version gate in `stepConsumer` never fires on current reads.) -/

theorem topicKind_status {rs : Int} (h : Gen.outboxTopicKind rs = 0) (h1 : 1 ≤ rs) (h7 : rs ≤ 7) : rs = 1 ∨ rs = 2 := by
  have : rs = 1 ∨ rs = 2 ∨ rs = 3 ∨ rs = 4 ∨ rs = 5 ∨ rs = 6 ∨ rs = 7 := by omega
  rcases this with rfl | rfl | rfl | rfl | rfl | rfl | rfl <;> first | exact Or.inl rfl | exact Or.inr rfl | (revert h; decide)

theorem chain_version_inj {cfg : Cfg} {l : List Rec} (hc : Chain cfg l) {a b : Rec} (ha : a ∈ l) (hb : b ∈ l)
    (hv : a.version = b.version) : a = b := by
  obtain ⟨k, hk, rfl⟩ := List.getElem_of_mem ha
  obtain ⟨k', hk', rfl⟩ := List.getElem_of_mem hb
  have e1 := chain_version l k l[k] hc (List.getElem?_eq_getElem hk)
  have e2 := chain_version l k' l[k'] hc (List.getElem?_eq_getElem hk')
  rw [hv] at e1
  have : k = k' := by womega
  subst this; rfl

section Gate
variable (cfg : Cfg) (h1 : OneTimeout cfg) (as : List Act) (hf : ∀ a ∈ as, FreshAct a)
include h1 hf

theorem C04_current_announcement_describes_head (e : Event) (he : e ∈ (runActs cfg {} as).log) (hk : e.topicKind = 0)
    (w : Rec) (hw : (runActs cfg {} as).cur e.runId = some w) (hv : w.version = e.version) :
    w.status = e.topicStatus ∧ (w.runState = 1 ∨ w.runState = 2) ∧ Routing.route w = core e := by
  have hi := history_inv cfg h1 as hf
  obtain ⟨w0, ⟨run, hrun, hw0⟩, hc⟩ := hi.relay.log_written e he
  obtain ⟨i, hlt, hget⟩ := List.getElem_of_mem hrun
  have hx : (runActs cfg {} as).runs[i]? = some run := by rw [List.getElem?_eq_getElem hlt, hget]
  have hrunok := hi.hist _ _ hx
  have hid0 : w0.runId = i := (hrunok.ids w0 hw0).1
  have hrid : e.runId = w0.runId := by
    have : e.runId = (Routing.route w0).runId := by rw [← hc]; rfl
    exact this
  -- the head of run e.runId is in the same history
  have hw' : curR (runActs cfg {} as).runs e.runId = some w := hw
  obtain ⟨⟨x, t, hx', hl⟩, _⟩ := isHead_of_curR hi.hist hw'
  have hidw : w.runId = e.runId := (isHead_of_curR hi.hist hw').2
  rw [hidw, hrid, hid0, hx] at hx'
  cases hx'
  have hwin : w ∈ run.hist := by rw [hl]; simp
  have hver : w.version = w0.version := by
    have : e.version = (Routing.route w0).version := by rw [← hc]; rfl
    rw [hv, this]; rfl
  have heq : w = w0 := chain_version_inj hrunok.chain hwin hw0 hver
  subst heq
  have hst : e.topicStatus = w.status := by
    have : e.topicStatus = (Routing.route w).topicStatus := by rw [← hc]; rfl
    exact this
  have hkind : Gen.outboxTopicKind w.runState = 0 := by
    have : e.topicKind = (Routing.route w).topicKind := by rw [← hc]; rfl
    rw [hk] at this; exact this.symm
  have hrec := hrunok.recs w hwin
  exact ⟨hst.symm, topicKind_status hkind hrec.lo hrec.hi, hc.symm⟩

end Gate

/-! ## non-vacuity, and why every hypothesis is needed

One configuration (a step with a self-loop and a callback on status 1) and one with two timeouts on a status. The fresh
history reaches a run with three writes; each of the four excluded features produces, on the same model, a run whose history
is NOT legal (version 2 written twice; in the stale-handle case a Completed run turned Paused). The same four histories are
corpus entries of the harness, where the real code does the same (findings F17, F16, F20, F19). -/

def cfgW : Cfg := { calls := [{ kind := .step, src := 1, dests := [1, 2] }, { kind := .callback, src := 1, dests := [1] }] }
def cfgT : Cfg := { calls := [{ kind := .timeout, src := 1, dests := [1] }, { kind := .timeout, src := 1, dests := [1] }] }
def sp : Proc := .step 1 0 0

def asFresh : List Act :=
  [.trigger 0 1 5 {}, .step .outbox {}, .step sp {}, .step sp { outcomes := [.ret 2 9] }, .ctl 0 .deleteData {}]
def asHandle : List Act :=
  [.trigger 0 1 5 {}, .handle 0, .step .outbox {}, .step sp {}, .step sp { outcomes := [.ret 2 9] }, .hctl 0 .pause {}]
def asStale : List Act :=
  [.trigger 0 1 5 {}, .step .outbox {}, .step sp {}, .step sp { outcomes := [.ret 1 7], faults := [(4, .before)] },
   .tick 1, .step sp {}, .step sp {}, .step sp { stale := 1, outcomes := [.ret 1 8] }]
def asNested : List Act :=
  [.trigger 0 1 5 {}, .step .outbox {}, .step sp {}, .step sp { outcomes := [.nested 1, .ret 1 5, .ret 1 6] }]
def asTwo : List Act :=
  [.trigger 0 1 5 {}, .step .outbox {}, .step (.inserter 1) {}, .step (.inserter 1) { outcomes := [.timer 0, .zero] },
   .step (.poller 1) {}, .tick 1, .step (.poller 1) { outcomes := [.ret 1 5, .ret 1 6] }]

def summary (cfg : Cfg) (as : List Act) : List (List (Int × Int × Int × Int)) :=
  (runActs cfg {} as).runs.map (fun x => x.hist.map (fun r => (r.version, r.runState, r.status, r.obj)))

theorem oneTimeout_cfgW : OneTimeout cfgW := by intro s; simp [cfgW, Cfg.timeoutsAt]

theorem fresh_asFresh : ∀ a ∈ asFresh, FreshAct a := by
  intro a ha
  simp only [asFresh, List.mem_cons, List.mem_nil_iff, or_false] at ha
  rcases ha with rfl | rfl | rfl | rfl | rfl <;> simp [FreshAct, FreshEnv, NoNested]

/-- the hypotheses are satisfiable by a history with a trigger, a relay cycle, a handled event and a controller call -/
theorem nonvacuous_fresh : summary cfgW asFresh = [[(3, 7, 2, 9), (2, 5, 2, 9), (1, 1, 1, 5)]] ∧ histOK cfgW (runActs cfgW {} asFresh) = true := by
  decide +kernel

/-- … and by one in which a second run of the same foreign ID is triggered after the first finished (C09): a trigger while the
first was still running was refused, so there are two runs, not three -/
theorem nonvacuous_two_runs :
    summary cfgW ([.trigger 0 1 5 {}, .trigger 0 1 4 {}, .step .outbox {}, .step sp {}, .step sp { outcomes := [.ret 2 9] }, .trigger 0 1 6 {}]) =
      [[(2, 5, 2, 9), (1, 1, 1, 5)], [(1, 1, 1, 6)]] := by
  decide +kernel

theorem illegal_of_histOK_false {cfg : Cfg} {s : Sys} (h : histOK cfg s = false) : ¬ Inv cfg s := by
  intro hi
  have := (histOK_iff cfg s).mpr hi.hist
  rw [h] at this; cases this

/-- F17: a controller handle obtained before the run completed pauses the completed run (version 2 written twice) -/
theorem stale_handle_breaks_history :
    summary cfgW asHandle = [[(2, 3, 1, 5), (2, 5, 2, 9), (1, 1, 1, 5)]] ∧ ¬ Inv cfgW (runActs cfgW {} asHandle) :=
  ⟨by decide +kernel, illegal_of_histOK_false (by decide +kernel)⟩

/-- F16: a lost acknowledgement and a replica lagging at the redelivered event's version: the step's effect is applied twice -/
theorem stale_read_breaks_history :
    summary cfgW asStale = [[(2, 2, 1, 8), (2, 2, 1, 7), (1, 1, 1, 5)]] ∧ ¬ Inv cfgW (runActs cfgW {} asStale) :=
  ⟨by decide +kernel, illegal_of_histOK_false (by decide +kernel)⟩

/-- F20: a step function that calls `Callback` for its own run and then returns: the outer write overwrites the nested one -/
theorem reentry_breaks_history :
    summary cfgW asNested = [[(2, 2, 1, 6), (2, 2, 1, 5), (1, 1, 1, 5)]] ∧ ¬ Inv cfgW (runActs cfgW {} asNested) :=
  ⟨by decide +kernel, illegal_of_histOK_false (by decide +kernel)⟩

/-- F19: two timeouts on one status share the timer and the record read: the second writes over the first -/
theorem two_timeouts_break_history :
    summary cfgT asTwo = [[(2, 2, 1, 6), (2, 2, 1, 5), (1, 1, 1, 5)]] ∧ ¬ Inv cfgT (runActs cfgT {} asTwo) :=
  ⟨by decide +kernel, illegal_of_histOK_false (by decide +kernel)⟩


/-! ## no run is stranded at a step (C01)

`C01_no_stranded_step`: in every reachable state, every run whose persisted record is Initiated or Running has the
announcement of exactly that record pending - in the outbox, or published at a position that no step-consumer process of the
record's status which handles it (its shard) has passed. Hypotheses beyond `history_inv`'s: step functions do not answer with a
skip value (a skip consumes the event by design) and no adversarial cursor rewind. A consumer parked in the consume-lag wait
holds the first event of its topic at or after its cursor (`LagOk`), which is what it will deliver. Together with `history_inv` (the pending announcement is of the CURRENT
version, so the version gate lets it through) and the relay invariant this is the safety half of "every run ends as in a
fault-free execution": whatever faults happened, the work that remains is still queued in front of a consumer that will take
it. The liveness half (fair scheduling, eventually succeeding functions) is enumerated, not proved (sim-recovery). -/

def FreshAct2 : Act → Prop
  | .step p env => FreshEnv env ∧ (IsStep p = true → NoSkip env)
  | .rewind _ _ => False
  | a => FreshAct a

theorem freshAct_of_2 {a : Act} (h : FreshAct2 a) : FreshAct a := by
  cases a <;> simp only [FreshAct2, FreshAct] at * <;> first | exact h.1 | exact h | trivial

theorem stepAct_tok {cfg : Cfg} (h1 : OneTimeout cfg) (s : Sys) (a : Act) (hf : FreshAct2 a)
    (hi : Inv cfg s) (ht : TokInv s) : TokInv (stepAct cfg s a).sys := by
  cases a with
  | step p env =>
    simp only [stepAct]
    split
    · cases hp : IsStep p with
      | true =>
        cases p <;> simp [IsStep] at hp
        · exact procOp_step_tok hf.1.2 (hf.2 rfl) _ _ _ { sys := s, stale := env.stale, isApi := false } hi hf.1.1 ht
        · exact procOp_delete_tok { sys := s, stale := env.stale, isApi := false } hi hf.1.1 ht
      | false => exact (procOp_other_RT (cfg := cfg) p hp env { sys := s, stale := env.stale, isApi := false } ⟨hi.relay, ht⟩).2
    · exact ht
  | lease p => exact leaseLossOp_tok (cfg := cfg) p {} { sys := s, stale := 0, isApi := false } ht
  | trigger fid start n env =>
    simp only [stepAct, apiOut_sys, runM]
    exact Pres.triggerApi (TokInv.stableH cfg) fid start n env _ ht
  | callback fid status env =>
    simp only [stepAct, apiOut_sys, runM]
    have hc : Pres TokInv (do callbackApi cfg fid status fuelDefault; (Pure.pure "ok" : M String)) :=
      Pres.bind (Pres.callbackApi (TokInv.stableH cfg) _ _ _) (fun _ => Pres.pure _)
    exact hc env _ ht
  | ctl rid op env =>
    simp only [stepAct, apiOut_sys, runM]
    exact Pres.ctlFreshApi (TokInv.stableH cfg) rid op env _ ht
  | handle rid =>
    simp only [stepAct, apiOut_sys, runM]
    exact Pres.handleApi (TokInv.stableH cfg) rid {} _ ht
  | hctl h op env => exact hf.elim
  | tick sec => exact ht.tick sec
  | rewind p idx => exact hf.elim
  | dup idx =>
    simp only [stepAct]
    split
    · exact ht.relaySend _
    · exact ht

theorem token_inv {cfg : Cfg} (h1 : OneTimeout cfg) : ∀ (as : List Act) (s : Sys), (∀ a ∈ as, FreshAct2 a) →
    Inv cfg s → TokInv s → Inv cfg (runActs cfg s as) ∧ TokInv (runActs cfg s as)
  | [], _, _, hi, ht => ⟨hi, ht⟩
  | a :: as, s, hf, hi, ht =>
    have ha := hf a (List.mem_cons_self ..)
    token_inv h1 as _ (fun b hb => hf b (List.mem_cons_of_mem _ hb)) (stepAct_inv h1 s a (freshAct_of_2 ha) hi)
      (stepAct_tok h1 s a ha hi ht)

/-- **No run is stranded at a step.** -/
theorem C01_no_stranded_step (cfg : Cfg) (h1 : OneTimeout cfg) (as : List Act) (hf : ∀ a ∈ as, FreshAct2 a)
    (rid : RunId) (w : Rec) (hw : (runActs cfg {} as).cur rid = some w) (hl : w.runState = 1 ∨ w.runState = 2) :
    PendingAt (runActs cfg {} as) w :=
  (token_inv h1 as {} hf ⟨HistInv.init cfg, RelayInv.init, fun i j x y _ hx => by simp at hx⟩ TokInv.init).2.pending rid w hw hl

/-- C01: **the system is not at rest while a run waits at a step.** In every reachable state, for a run persisted Initiated or
Running: its announcement is still in the outbox (the relay has work), or every step-consumer process of its status that handles
the event (its shard) and is parked at `Recv` is ENABLED - it has that event, or an earlier one of its topic, to receive. (A
process in its error back-off, in the lag wait or waiting for its role is on a timer or at the role scheduler, which release it.) -/
theorem C01_waiting_run_keeps_consumer_enabled (cfg : Cfg) (h1 : OneTimeout cfg) (as : List Act) (hf : ∀ a ∈ as, FreshAct2 a)
    (rid : RunId) (w : Rec) (hw : (runActs cfg {} as).cur rid = some w) (hl : w.runState = 1 ∨ w.runState = 2) :
    (∃ o ∈ (runActs cfg {} as).outbox, o.ev = Routing.route w) ∨
    (∃ i e, (runActs cfg {} as).log[i]? = some e ∧ core e = Routing.route w ∧
      ∀ k n, filteredOut (.step w.status k n) i e = false → (runActs cfg {} as).pstate (.step w.status k n) = .atRecv →
        (runActs cfg {} as).enabled (.step w.status k n) = true) := by
  rcases C01_no_stranded_step cfg h1 as hf rid w hw hl with ho | ⟨i, e, hi, hc, hk⟩
  · exact Or.inl ho
  · exact Or.inr ⟨i, e, hi, hc, fun k n hfo hp =>
      enabled_of_pending _ _ i e hp hi (live_route_subscribed hl hc k n) (hk k n hfo)⟩

/-- the executable form of the token invariant (evaluated by the model driver on co-simulated histories): in every reachable
state within the hypotheses `tokOK` answers true -/
theorem C01_tokOK (cfg : Cfg) (h1 : OneTimeout cfg) (as : List Act) (hf : ∀ a ∈ as, FreshAct2 a) :
    tokOK (runActs cfg {} as) = true :=
  tokOK_of (token_inv h1 as {} hf ⟨HistInv.init cfg, RelayInv.init, fun i j x y _ hx => by simp at hx⟩ TokInv.init).2

/-- C15: **no accepted deletion request is stranded**: in every reachable state a run persisted RequestedDataDeleted has the
announcement of exactly that record in the outbox, or published at an index the delete consumer has not passed (same
hypotheses; the custom delete function may fail any number of times). -/
theorem C15_no_stranded_request (cfg : Cfg) (h1 : OneTimeout cfg) (as : List Act) (hf : ∀ a ∈ as, FreshAct2 a)
    (rid : RunId) (w : Rec) (hw : (runActs cfg {} as).cur rid = some w) (h7 : w.runState = 7) :
    PendingDel (runActs cfg {} as) w :=
  (token_inv h1 as {} hf ⟨HistInv.init cfg, RelayInv.init, fun i j x y _ hx => by simp at hx⟩ TokInv.init).2.pendingDel rid w hw h7

/-- non-vacuity: after trigger and relay the announcement is published and ahead of the (not yet started) consumer; after the
consumer handled it the run is Completed and nothing is required any more -/
theorem nonvacuous_token :
    ((runActs cfgW {} [.trigger 0 1 5 {}, .step .outbox {}]).outbox.length, (runActs cfgW {} [.trigger 0 1 5 {}, .step .outbox {}]).log.length,
      (runActs cfgW {} [.trigger 0 1 5 {}, .step .outbox {}]).cursor sp) = (0, 1, 0) := by decide +kernel

/-- why `NoSkip` is needed: a step function that answers with the skip value 0 consumes its event and leaves the run Initiated
with nothing pending (by design: "skip" means "nothing to do for this event") -/
def asSkip : List Act := [.trigger 0 1 5 {}, .step .outbox {}, .step sp {}, .step sp { outcomes := [.ret 0 5] }]

theorem skip_leaves_nothing_pending :
    ∃ w, (runActs cfgW {} asSkip).cur 0 = some w ∧ (w.runState = 1 ∨ w.runState = 2) ∧ ¬ PendingAt (runActs cfgW {} asSkip) w := by
  have hout : (runActs cfgW {} asSkip).outbox = [] := by decide +kernel
  have hlen : (runActs cfgW {} asSkip).log.length = 1 := by decide +kernel
  have hcur : (runActs cfgW {} asSkip).cursor sp = 1 := by decide +kernel
  have hhead : ((runActs cfgW {} asSkip).cur 0).map (fun w => (w.runState, w.status)) = some (1, 1) := by decide +kernel
  cases hw : (runActs cfgW {} asSkip).cur 0 with
  | none => rw [hw] at hhead; cases hhead
  | some w =>
    rw [hw] at hhead
    simp only [Option.map_some, Option.some.injEq, Prod.mk.injEq] at hhead
    refine ⟨w, rfl, Or.inl hhead.1, ?_⟩
    rintro (⟨o, ho, _⟩ | ⟨i, e, hi, _, hk⟩)
    · rw [hout] at ho; cases ho
    · have hi0 : i < 1 := by rw [← hlen]; exact (List.getElem?_eq_some_iff.mp hi).1
      have h0 : i = 0 := by omega
      subst h0
      have := hk 0 0 (by simp [filteredOut, Routing.shardOut, Gen.G.shardActive])
      rw [hhead.2] at this
      have hsp : (runActs cfgW {} asSkip).cursor (Proc.step 1 0 0) = 1 := hcur
      rw [hsp] at this
      omega

end WorkflowModel.History
