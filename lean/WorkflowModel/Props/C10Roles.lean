import WorkflowModel.Model.Launch
import WorkflowModel.Lemmas.Text
import WorkflowModel.Props.C10Launch
/-! # C10 (role names) — the role NAMES of the launched processes are pairwise distinct, as strings

`makeRole` joins its inputs with "-", lower-cases and replaces spaces: a character-wise map `g` after the join. The proof
parses role names back: a '-' in the result comes only from a '-' in the input, decimal renderings contain no letters. -/
namespace WorkflowModel.C10Roles
open WorkflowModel Launch Text

/-- what `makeRole` does to one byte: ASCII lower-case, then space ↦ '_' -/
def g (c : Nat) : Nat :=
  let l := if 65 ≤ c ∧ c ≤ 90 then c + 32 else c
  if l = 32 then 95 else l

def G (s : Str) : Str := s.map g

theorem makeRole_eq (inputs : List Str) : Routing.makeRole inputs = G (Text.join [45] inputs) := by
  unfold Routing.makeRole G
  generalize Text.join [45] inputs = s
  induction s with
  | nil => rfl
  | cons c cs ih =>
    simp only [Text.lower, Text.replSpace, List.map_cons, List.flatMap_cons] at ih ⊢
    rw [ih]
    unfold g
    simp only []
    split <;> split <;> simp

theorem G_append (a b : Str) : G (a ++ b) = G a ++ G b := by simp [G]
theorem G_cons (c : Nat) (s : Str) : G (c :: s) = g c :: G s := rfl
theorem G_length (s : Str) : (G s).length = s.length := by simp [G]

/-- digits, '-' and lower-case letters are left alone -/
def plain (c : Nat) : Prop := c = 45 ∨ (48 ≤ c ∧ c ≤ 57) ∨ (97 ≤ c ∧ c ≤ 122)

theorem g_plain (c : Nat) (h : plain c) : g c = c := by
  unfold g plain at *
  simp only []
  have h1 : ¬ (65 ≤ c ∧ c ≤ 90) := by omega
  simp only [h1, if_false]
  have h2 : c ≠ 32 := by omega
  simp [h2]

theorem G_plain (s : Str) (h : ∀ c ∈ s, plain c) : G s = s := by
  induction s with
  | nil => rfl
  | cons c cs ih =>
    rw [G_cons, g_plain c (h c (by simp)), ih (fun x hx => h x (by simp [hx]))]

theorem g_dash (c : Nat) : g c = 45 ↔ c = 45 := by
  unfold g
  simp only []
  constructor
  · intro h
    by_cases hu : 65 ≤ c ∧ c ≤ 90
    · simp only [hu, and_self, if_true] at h
      split at h <;> omega
    · simp only [hu, if_false] at h
      split at h <;> omega
  · intro h; subst h; decide

theorem G_intDec (x : Int) : G (intDec x) = intDec x :=
  G_plain _ (fun c hc => by rcases intDec_bytes x c hc with h | h; exact Or.inl h; exact Or.inr (Or.inl h))

/-! ## splitting at a separator that occurs in neither prefix -/

theorem split_at {α : Type} (c : α) (x y r r' : List α) (hx : c ∉ x) (hy : c ∉ y) (h : x ++ c :: r = y ++ c :: r') :
    x = y ∧ r = r' := by
  induction x generalizing y with
  | nil =>
    cases y with
    | nil => simp at h; exact ⟨rfl, h⟩
    | cons b bs => simp at h; exact absurd h.1.symm (by intro e; exact hy (by simp [e]))
  | cons a as ih =>
    cases y with
    | nil => simp at h; exact absurd h.1 (by intro e; exact hx (by simp [e]))
    | cons b bs =>
      simp only [List.cons_append, List.cons.injEq] at h
      obtain ⟨e1, e2⟩ := ih bs (fun m => hx (by simp [m])) (fun m => hy (by simp [m])) h.2
      exact ⟨by rw [h.1, e1], e2⟩

theorem not_mem_intDec (x : Int) (c : Nat) (h1 : c ≠ 45) (h2 : c < 48 ∨ 57 < c) : c ∉ intDec x := by
  intro hm; rcases intDec_bytes x c hm with h | h <;> omega

theorem natDigits_no_dash (n : Nat) : 45 ∉ natDigits n := by
  intro hm; have := natDigits_all_digit n 45 hm; omega

theorem intDec_nonneg (x : Int) (h : 0 ≤ x) : intDec x = natDigits x.natAbs := by
  unfold intDec; simp [show ¬ x < 0 by omega]

theorem intDec_no_dash (x : Int) (h : 0 ≤ x) : 45 ∉ intDec x := by
  rw [intDec_nonneg x h]; exact natDigits_no_dash _

/-! ## the literals -/

def CO : Str := S "consumer"
def OF : Str := S "of"
def OB : Str := S "outbox"
def TC : Str := S "timeout-consumer"
def TAIC : Str := S "timeout-auto-inserter-consumer"
def RSCH : Str := S "run-state-change-hook"
def DE : Str := S "delete"
def PA : Str := S "paused"
def RE : Str := S "records"
def RT : Str := S "retry"
def CN : Str := S "connector"
def TO : Str := S "to"

def plainB (c : Nat) : Bool := c == 45 || (decide (48 ≤ c) && decide (c ≤ 57)) || (decide (97 ≤ c) && decide (c ≤ 122))

theorem plain_of_all (s : Str) (h : s.all plainB = true) : ∀ c ∈ s, plain c := by
  intro c hc
  have := List.all_eq_true.mp h c hc
  unfold plainB at this
  unfold plain
  simp only [Bool.or_eq_true, Bool.and_eq_true, beq_iff_eq, decide_eq_true_iff] at this
  rcases this with (h | h) | h
  · exact Or.inl h
  · exact Or.inr (Or.inl h)
  · exact Or.inr (Or.inr h)

theorem lit_all : (CO.all plainB && OF.all plainB && OB.all plainB && TC.all plainB && TAIC.all plainB && RSCH.all plainB && DE.all plainB &&
    PA.all plainB && RE.all plainB && RT.all plainB && CN.all plainB && TO.all plainB) = true := by decide +kernel

theorem lit_plain : (∀ c ∈ CO, plain c) ∧ (∀ c ∈ OF, plain c) ∧ (∀ c ∈ OB, plain c) ∧ (∀ c ∈ TC, plain c) ∧ (∀ c ∈ TAIC, plain c) ∧
    (∀ c ∈ RSCH, plain c) ∧ (∀ c ∈ DE, plain c) ∧ (∀ c ∈ PA, plain c) ∧ (∀ c ∈ RE, plain c) ∧ (∀ c ∈ RT, plain c) ∧
    (∀ c ∈ CN, plain c) ∧ (∀ c ∈ TO, plain c) := by
  have h := lit_all
  simp only [Bool.and_eq_true] at h
  obtain ⟨⟨⟨⟨⟨⟨⟨⟨⟨⟨⟨a1, a2⟩, a3⟩, a4⟩, a5⟩, a6⟩, a7⟩, a8⟩, a9⟩, a10⟩, a11⟩, a12⟩ := h
  exact ⟨plain_of_all _ a1, plain_of_all _ a2, plain_of_all _ a3, plain_of_all _ a4, plain_of_all _ a5, plain_of_all _ a6, plain_of_all _ a7,
    plain_of_all _ a8, plain_of_all _ a9, plain_of_all _ a10, plain_of_all _ a11, plain_of_all _ a12⟩

theorem g_45 : g 45 = 45 := by decide

/-- the part of a role name after "<workflow name>-" (for the processes named after the workflow) -/
def tail : P → Str
  | .outbox => OB ++ 45 :: CO
  | .step st i n => intDec st ++ 45 :: (CO ++ 45 :: (intDec i ++ 45 :: (OF ++ 45 :: intDec n)))
  | .poller st => intDec st ++ 45 :: TC
  | .inserter st => intDec st ++ 45 :: TAIC
  | .hook rs => G (runStateName rs) ++ 45 :: (RSCH ++ 45 :: CO)
  | .delete => DE ++ 45 :: CO
  | .retry => PA ++ 45 :: (RE ++ 45 :: (RT ++ 45 :: CO))
  | .conn _ _ _ => []

def isConn : P → Bool
  | .conn .. => true
  | _ => false

theorem role_form (name : Str) (p : P) (h : isConn p = false) : role name p = G name ++ 45 :: tail p := by
  obtain ⟨h1, h2, h3, h4, h5, h6, h7, h8, h9, h10, _, _⟩ := lit_plain
  cases p <;> simp only [isConn] at h <;>
    simp only [role, makeRole_eq, Text.join, G_append, G_cons, g_45, G_intDec, tail, List.append_assoc, List.cons_append, List.nil_append,
      show G [] = [] from rfl, show S "consumer" = CO from rfl, show S "of" = OF from rfl, show S "outbox" = OB from rfl,
      show S "timeout-consumer" = TC from rfl, show S "timeout-auto-inserter-consumer" = TAIC from rfl, show S "run-state-change-hook" = RSCH from rfl,
      show S "delete" = DE from rfl, show S "paused" = PA from rfl, show S "records" = RE from rfl, show S "retry" = RT from rfl,
      G_plain CO h1, G_plain OF h2, G_plain OB h3, G_plain TC h4, G_plain TAIC h5, G_plain RSCH h6, G_plain DE h7, G_plain PA h8,
      G_plain RE h9, G_plain RT h10]
  · cases h

theorem conn_form (name cn : Str) (i n : Int) :
    role name (.conn cn i n) = G cn ++ 45 :: (CN ++ 45 :: (TO ++ 45 :: (G name ++ 45 :: (CO ++ 45 :: (intDec i ++ 45 :: (OF ++ 45 :: intDec n)))))) := by
  obtain ⟨h1, h2, _, _, _, _, _, _, _, _, h11, h12⟩ := lit_plain
  simp only [role, makeRole_eq, Text.join, G_append, G_cons, g_45, G_intDec, List.append_assoc, List.cons_append, List.nil_append,
    show G [] = [] from rfl, show S "consumer" = CO from rfl, show S "of" = OF from rfl, show S "connector" = CN from rfl, show S "to" = TO from rfl,
    G_plain CO h1, G_plain OF h2, G_plain CN h11, G_plain TO h12]

/-! ## discriminating the kinds: the last byte and the tenth byte from the end -/

theorem rev_get_append (x l : Str) (k : Nat) (h : k < l.length) : (x ++ l).reverse[k]? = l.reverse[k]? := by
  rw [List.reverse_append, List.getElem?_append_left (by simpa using h)]

theorem intDec_last_digit (n : Int) : ∃ d, (intDec n).reverse[0]? = some d ∧ 48 ≤ d ∧ d ≤ 57 := by
  have hne := natDigits_ne_nil n.natAbs
  have key : ∀ pre : Str, ∃ d, (pre ++ natDigits n.natAbs).reverse[0]? = some d ∧ 48 ≤ d ∧ d ≤ 57 := by
    intro pre
    have hl : 0 < (natDigits n.natAbs).length := List.length_pos_iff.mpr hne
    rw [rev_get_append pre _ 0 hl]
    have hl' : 0 < (natDigits n.natAbs).reverse.length := by simpa using hl
    refine ⟨(natDigits n.natAbs).reverse[0], by rw [List.getElem?_eq_getElem hl'], ?_⟩
    have hm : (natDigits n.natAbs).reverse[0] ∈ natDigits n.natAbs := by
      have := List.getElem_mem hl'
      simpa using this
    exact natDigits_all_digit _ _ hm
  unfold intDec
  split
  · exact key [45]
  · simpa using key []

def d0 (s : Str) : Option Nat := s.reverse[0]?
def d9 (s : Str) : Option Nat := s.reverse[9]?

theorem d0_step (st i n : Int) : ∃ d, d0 (tail (.step st i n)) = some d ∧ 48 ≤ d ∧ d ≤ 57 := by
  obtain ⟨d, hd, h1, h2⟩ := intDec_last_digit n
  refine ⟨d, ?_, h1, h2⟩
  have e : tail (.step st i n) = (intDec st ++ 45 :: (CO ++ 45 :: (intDec i ++ 45 :: (OF ++ [45])))) ++ intDec n := by
    simp [tail, List.append_assoc]
  unfold d0
  rw [e, rev_get_append _ _ 0 (List.length_pos_iff.mpr (intDec_ne_nil n))]
  exact hd

/-- literal endings: (last byte, tenth byte from the end) -/
theorem ends_outbox : d0 (tail .outbox) = some 114 ∧ d9 (tail .outbox) = some 120 := by decide +kernel
theorem ends_delete : d0 (tail .delete) = some 114 ∧ d9 (tail .delete) = some 101 := by decide +kernel
theorem ends_retry : d0 (tail .retry) = some 114 ∧ d9 (tail .retry) = some 121 := by decide +kernel
theorem ends_poller (st : Int) : d0 (tail (.poller st)) = some 114 ∧ d9 (tail (.poller st)) = some 116 := by
  have h0 : (45 :: TC).reverse[0]? = some 114 := by decide +kernel
  have h9 : (45 :: TC).reverse[9]? = some 116 := by decide +kernel
  have hl : 9 < (45 :: TC).length := by decide +kernel
  exact ⟨by unfold d0 tail; rw [rev_get_append _ _ 0 (by omega)]; exact h0, by unfold d9 tail; rw [rev_get_append _ _ 9 hl]; exact h9⟩
theorem ends_inserter (st : Int) : d0 (tail (.inserter st)) = some 114 ∧ d9 (tail (.inserter st)) = some 114 := by
  have h0 : (45 :: TAIC).reverse[0]? = some 114 := by decide +kernel
  have h9 : (45 :: TAIC).reverse[9]? = some 114 := by decide +kernel
  have hl : 9 < (45 :: TAIC).length := by decide +kernel
  exact ⟨by unfold d0 tail; rw [rev_get_append _ _ 0 (by omega)]; exact h0, by unfold d9 tail; rw [rev_get_append _ _ 9 hl]; exact h9⟩
theorem ends_hook (rs : Int) : d0 (tail (.hook rs)) = some 114 ∧ d9 (tail (.hook rs)) = some 107 := by
  have h0 : (45 :: (RSCH ++ 45 :: CO)).reverse[0]? = some 114 := by decide +kernel
  have h9 : (45 :: (RSCH ++ 45 :: CO)).reverse[9]? = some 107 := by decide +kernel
  have hl : 9 < (45 :: (RSCH ++ 45 :: CO)).length := by decide +kernel
  exact ⟨by unfold d0 tail; rw [rev_get_append _ _ 0 (by omega)]; exact h0, by unfold d9 tail; rw [rev_get_append _ _ 9 hl]; exact h9⟩

/-! ## within one kind -/

theorem CO_head : CO = 99 :: CO.tail := by decide +kernel
theorem OF_head : OF = 111 :: OF.tail := by decide +kernel

theorem step_tail_inj (st i n st' i' n' : Int) (h : tail (.step st i n) = tail (.step st' i' n')) : st = st' ∧ i = i' ∧ n = n' := by
  simp only [tail] at h
  -- split at the first 'c' (99): "<st>-" | "c" "onsumer-<i>-of-<n>"
  have e : ∀ (a : Int) (r : Str), intDec a ++ 45 :: (CO ++ r) = (intDec a ++ [45]) ++ 99 :: (CO.tail ++ r) := by
    intro a r
    conv => lhs; rw [CO_head]
    simp [List.append_assoc]
  rw [e, e] at h
  have nc : ∀ a : Int, 99 ∉ intDec a ++ [45] := by
    intro a hm
    rcases List.mem_append.mp hm with hm | hm
    · exact not_mem_intDec a 99 (by decide) (Or.inr (by decide)) hm
    · simp at hm
  obtain ⟨h1, h2⟩ := split_at 99 _ _ _ _ (nc st) (nc st') h
  have hst : st = st' := intDec_inj (List.append_cancel_right h1)
  have h3 := List.append_cancel_left h2
  simp only [List.cons.injEq, true_and] at h3
  -- split at the first 'o' (111): "<i>-" | "o" "f-<n>"
  have e2 : ∀ (a : Int) (r : Str), intDec a ++ 45 :: (OF ++ r) = (intDec a ++ [45]) ++ 111 :: (OF.tail ++ r) := by
    intro a r
    conv => lhs; rw [OF_head]
    simp [List.append_assoc]
  rw [e2, e2] at h3
  have no : ∀ a : Int, 111 ∉ intDec a ++ [45] := by
    intro a hm
    rcases List.mem_append.mp hm with hm | hm
    · exact not_mem_intDec a 111 (by decide) (Or.inr (by decide)) hm
    · simp at hm
  obtain ⟨h4, h5⟩ := split_at 111 _ _ _ _ (no i) (no i') h3
  have hi : i = i' := intDec_inj (List.append_cancel_right h4)
  have h6 := List.append_cancel_left h5
  simp only [List.cons.injEq, true_and] at h6
  exact ⟨hst, hi, intDec_inj h6⟩

theorem hook_names : G (runStateName 3) ≠ G (runStateName 4) ∧ G (runStateName 3) ≠ G (runStateName 5) ∧ G (runStateName 4) ≠ G (runStateName 5) := by
  decide +kernel

def hookState (rs : Int) : Prop := rs = 3 ∨ rs = 4 ∨ rs = 5

theorem hook_tail_inj (a b : Int) (ha : hookState a) (hb : hookState b) (h : tail (.hook a) = tail (.hook b)) : a = b := by
  simp only [tail] at h
  have := List.append_cancel_right h
  obtain ⟨n1, n2, n3⟩ := hook_names
  rcases ha with rfl | rfl | rfl <;> rcases hb with rfl | rfl | rfl <;> first | rfl | (exfalso; first | exact n1 this | exact n2 this | exact n3 this | exact n1 this.symm | exact n2 this.symm | exact n3 this.symm)

/-- well-formed launched processes: shard indices are positive, hooks are for Paused / Cancelled / Completed, step statuses
have fewer than 13 characters in decimal -/
def Wf : P → Prop
  | .step st i n => 1 ≤ i ∧ 1 ≤ n ∧ (intDec st).length < 13
  | .conn _ i n => 1 ≤ i ∧ 1 ≤ n
  | .hook rs => hookState rs
  | _ => True

def isStep : P → Bool
  | .step .. => true
  | _ => false

def kindChar : P → Nat
  | .outbox => 120 | .poller _ => 116 | .inserter _ => 114 | .hook _ => 107 | .delete => 101 | .retry => 121 | _ => 0

theorem ends (p : P) (hc : isConn p = false) (hs : isStep p = false) : d0 (tail p) = some 114 ∧ d9 (tail p) = some (kindChar p) := by
  cases p with
  | outbox => exact ends_outbox
  | step a b c => simp [isStep] at hs
  | poller a => exact ends_poller a
  | inserter a => exact ends_inserter a
  | conn a b c => simp [isConn] at hc
  | hook a => exact ends_hook a
  | delete => exact ends_delete
  | retry => exact ends_retry

theorem step_d0 (p : P) (hs : isStep p = true) : ∃ d, d0 (tail p) = some d ∧ d ≤ 57 := by
  cases p with
  | step a b c => obtain ⟨d, h1, _, h2⟩ := d0_step a b c; exact ⟨d, h1, h2⟩
  | _ => simp [isStep] at hs

/-- the processes named after the workflow: equal tails, equal processes -/
theorem tail_inj (p q : P) (hp : isConn p = false) (hq : isConn q = false) (wp : Wf p) (wq : Wf q) (h : tail p = tail q) : p = q := by
  have h0 : d0 (tail p) = d0 (tail q) := by rw [h]
  have h9 : d9 (tail p) = d9 (tail q) := by rw [h]
  by_cases hsp : isStep p = true
  · by_cases hsq : isStep q = true
    · cases p <;> simp only [isStep] at hsp <;> try cases hsp
      cases q <;> simp only [isStep] at hsq <;> try cases hsq
      obtain ⟨e1, e2, e3⟩ := step_tail_inj _ _ _ _ _ _ h
      subst e1; subst e2; subst e3; rfl
    · exfalso
      obtain ⟨d, hd, hd2⟩ := step_d0 p hsp
      rw [hd, (ends q hq (by simpa using hsq)).1] at h0
      cases h0; omega
  · by_cases hsq : isStep q = true
    · exfalso
      obtain ⟨d, hd, hd2⟩ := step_d0 q hsq
      rw [hd, (ends p hp (by simpa using hsp)).1] at h0
      cases h0; omega
    · have hk : kindChar p = kindChar q := by
        rw [(ends p hp (by simpa using hsp)).2, (ends q hq (by simpa using hsq)).2] at h9
        exact Option.some.inj h9
      cases p <;> cases q <;> simp only [kindChar] at hk <;> try (first | rfl | omega)
      all_goals first
        | (exfalso; simp [isStep] at hsp; done)
        | (exfalso; simp [isStep] at hsq; done)
        | (exfalso; simp [isConn] at hp; done)
        | (exfalso; simp [isConn] at hq; done)
        | (simp only [tail] at h
           have := intDec_inj (List.append_cancel_right h); subst this; rfl)
        | (have := hook_tail_inj _ _ wp wq h; subst this; rfl)

/-! ## sharded names: "…-consumer-<i>-of-<n>" parsed from the right -/

def csuf (i n : Int) : Str := CO ++ 45 :: (intDec i ++ 45 :: (OF ++ 45 :: intDec n))

theorem csuf_parse (X Y : Str) (i n i' n' : Int) (hi : 1 ≤ i) (hn : 1 ≤ n) (hi' : 1 ≤ i') (hn' : 1 ≤ n')
    (h : X ++ 45 :: csuf i n = Y ++ 45 :: csuf i' n') : i = i' ∧ n = n' ∧ X = Y := by
  have hr := congrArg List.reverse h
  have e : ∀ (Z : Str) (a b : Int), (Z ++ 45 :: csuf a b).reverse =
      (intDec b).reverse ++ 45 :: (OF.reverse ++ 45 :: ((intDec a).reverse ++ 45 :: (CO.reverse ++ 45 :: Z.reverse))) := by
    intro Z a b; simp [csuf, List.reverse_append, List.append_assoc]
  rw [e, e] at hr
  have nd : ∀ a : Int, 0 ≤ a → 45 ∉ (intDec a).reverse := by
    intro a ha hm; exact intDec_no_dash a ha (by simpa using hm)
  obtain ⟨h1, h2⟩ := split_at 45 _ _ _ _ (nd n (by omega)) (nd n' (by omega)) hr
  have en : n = n' := intDec_inj (List.reverse_inj.mp h1)
  have h3 := List.append_cancel_left h2
  simp only [List.cons.injEq, true_and] at h3
  obtain ⟨h4, h5⟩ := split_at 45 _ _ _ _ (nd i (by omega)) (nd i' (by omega)) h3
  have ei : i = i' := intDec_inj (List.reverse_inj.mp h4)
  have h6 := List.append_cancel_left h5
  simp only [List.cons.injEq, true_and] at h6
  exact ⟨ei, en, List.reverse_inj.mp h6⟩

theorem step_role (name : Str) (st i n : Int) : role name (.step st i n) = (G name ++ 45 :: intDec st) ++ 45 :: csuf i n := by
  rw [role_form name _ rfl]; simp [tail, csuf, List.append_assoc]

theorem conn_role (name cn : Str) (i n : Int) :
    role name (.conn cn i n) = (G cn ++ 45 :: (CN ++ 45 :: (TO ++ 45 :: G name))) ++ 45 :: csuf i n := by
  rw [conn_form]; simp [csuf, List.append_assoc]

theorem d0_append (x l : Str) (h : l ≠ []) : d0 (x ++ l) = d0 l := by
  unfold d0; exact rev_get_append x l 0 (List.length_pos_iff.mpr h)

theorem d0_conn (name cn : Str) (i n : Int) : ∃ d, d0 (role name (.conn cn i n)) = some d ∧ d ≤ 57 := by
  obtain ⟨d, hd, _, h2⟩ := intDec_last_digit n
  refine ⟨d, ?_, h2⟩
  have e : role name (.conn cn i n) = (G cn ++ 45 :: (CN ++ 45 :: (TO ++ 45 :: (G name ++ 45 :: (CO ++ 45 :: (intDec i ++ 45 :: (OF ++ [45]))))))) ++ intDec n := by
    rw [conn_form]; simp [List.append_assoc]
  rw [e, d0_append _ _ (intDec_ne_nil n)]; exact hd

theorem tail_ne_nil (p : P) (hc : isConn p = false) (hs : isStep p = false) : tail p ≠ [] := by
  intro e
  have := (ends p hc hs).1
  rw [e] at this; cases this

theorem d0_cons_tail (p : P) (hc : isConn p = false) (hs : isStep p = false) : d0 (45 :: tail p) = some 114 := by
  have : (45 :: tail p) = [45] ++ tail p := rfl
  rw [this, d0_append _ _ (tail_ne_nil p hc hs)]; exact (ends p hc hs).1

theorem CN_len : CN.length = 9 ∧ TO.length = 2 := by decide +kernel

/-- equal role names: the same process — or two connector shards whose connector names coincide after normalisation -/
theorem role_eq_cases (name : Str) (p q : P) (wp : Wf p) (wq : Wf q) (h : role name p = role name q) :
    p = q ∨ ∃ cn cn' i n, p = .conn cn i n ∧ q = .conn cn' i n ∧ G cn = G cn' := by
  cases hcp : isConn p <;> cases hcq : isConn q
  · -- neither is a connector shard: compare the tails
    rw [role_form name p hcp, role_form name q hcq] at h
    have ht := List.append_cancel_left h
    simp only [List.cons.injEq, true_and] at ht
    exact Or.inl (tail_inj p q hcp hcq wp wq ht)
  · -- p named after the workflow, q a connector shard
    exfalso
    cases q <;> simp only [isConn] at hcq <;> try cases hcq
    rename_i cn i' n'
    obtain ⟨d, hd, hd2⟩ := d0_conn name cn i' n'
    by_cases hsp : isStep p = true
    · cases p <;> simp only [isStep] at hsp <;> try cases hsp
      rename_i st i n
      rw [step_role, conn_role] at h
      obtain ⟨_, _, hx⟩ := csuf_parse _ _ _ _ _ _ wp.1 wp.2.1 wq.1 wq.2 h
      have hl := congrArg List.length hx
      simp only [List.length_append, List.length_cons, G_length, CN_len.1, CN_len.2] at hl
      have := wp.2.2
      omega
    · rw [← h, role_form name p hcp, d0_append _ _ (by simp), d0_cons_tail p hcp (by simpa using hsp)] at hd
      cases hd; omega
  · exfalso
    cases p <;> simp only [isConn] at hcp <;> try cases hcp
    rename_i cn i' n'
    obtain ⟨d, hd, hd2⟩ := d0_conn name cn i' n'
    by_cases hsq : isStep q = true
    · cases q <;> simp only [isStep] at hsq <;> try cases hsq
      rename_i st i n
      rw [step_role, conn_role] at h
      obtain ⟨_, _, hx⟩ := csuf_parse _ _ _ _ _ _ wp.1 wp.2 wq.1 wq.2.1 h
      have hl := congrArg List.length hx
      simp only [List.length_append, List.length_cons, G_length, CN_len.1, CN_len.2] at hl
      have := wq.2.2
      omega
    · rw [h, role_form name q hcq, d0_append _ _ (by simp), d0_cons_tail q hcq (by simpa using hsq)] at hd
      cases hd; omega
  · -- two connector shards
    cases p <;> simp only [isConn] at hcp <;> try cases hcp
    cases q <;> simp only [isConn] at hcq <;> try cases hcq
    rename_i cn i n cn' i' n'
    rw [conn_role, conn_role] at h
    obtain ⟨ei, en, hx⟩ := csuf_parse _ _ _ _ _ _ wp.1 wp.2 wq.1 wq.2 h
    subst ei; subst en
    exact Or.inr ⟨cn, cn', i, n, rfl, rfl, List.append_cancel_right hx⟩

/-! ## every launched process is well-formed; the final statement -/

open WorkflowModel.C10Launch in
theorem mem_stepUnit_wf (dflt : Int) (s : Int × Int) (p : P) (h : p ∈ stepUnit dflt s) : ∃ i n, p = .step s.1 i n ∧ 1 ≤ i ∧ 1 ≤ n := by
  rw [C10_step_unit] at h
  split at h
  · simp at h; exact ⟨1, 1, h, by omega, by omega⟩
  · rename_i hge
    simp only [List.mem_map] at h
    obtain ⟨i, hi, rfl⟩ := h
    have := (mem_oneToN _ _).mp hi
    exact ⟨i, _, rfl, this.1, by omega⟩

open WorkflowModel.C10Launch in
theorem mem_connUnit_wf (dflt : Int) (k : Str × Int) (p : P) (h : p ∈ connUnit dflt k) : ∃ i n, p = .conn k.1 i n ∧ 1 ≤ i ∧ 1 ≤ n := by
  rw [C10_conn_unit] at h
  split at h
  · simp at h; exact ⟨1, 1, h, by omega, by omega⟩
  · rename_i hge
    simp only [List.mem_map] at h
    obtain ⟨i, hi, rfl⟩ := h
    have := (mem_oneToN _ _).mp hi
    exact ⟨i, _, rfl, this.1, by omega⟩

theorem launches_wf (c : Cfg) (hh : ∀ h ∈ c.hooks, hookState h) (hlen : ∀ s ∈ c.steps, (intDec s.1).length < 13) :
    ∀ p ∈ launches c, Wf p ∧ (∀ cn i n, p = .conn cn i n → cn ∈ c.connectors.map (·.1)) := by
  intro p hp
  unfold launches at hp
  simp only [List.mem_append, List.mem_cons, List.mem_nil_iff, or_false, List.mem_flatMap, List.mem_map] at hp
  rcases hp with (((((rfl | ⟨s, hs, hp⟩) | hp) | ⟨k, hk, hp⟩) | ⟨h, hhk, rfl⟩) | rfl) | hp
  · exact ⟨trivial, fun _ _ _ e => by cases e⟩
  · obtain ⟨i, n, rfl, h1, h2⟩ := mem_stepUnit_wf _ _ _ hp
    exact ⟨⟨h1, h2, hlen s hs⟩, fun _ _ _ e => by cases e⟩
  · split at hp
    · simp only [List.mem_flatMap, List.mem_cons, List.mem_nil_iff, or_false] at hp
      obtain ⟨a, _, rfl | rfl⟩ := hp <;> exact ⟨trivial, fun _ _ _ e => by cases e⟩
    · cases hp
  · obtain ⟨i, n, rfl, h1, h2⟩ := mem_connUnit_wf _ _ _ hp
    refine ⟨⟨h1, h2⟩, fun cn i' n' e => ?_⟩
    injection e with e1
    exact List.mem_map.mpr ⟨k, hk, e1⟩
  · exact ⟨hh h hhk, fun _ _ _ e => by cases e⟩
  · exact ⟨trivial, fun _ _ _ e => by cases e⟩
  · split at hp
    · simp at hp; subst hp; exact ⟨trivial, fun _ _ _ e => by cases e⟩
    · cases hp

theorem pairwise_forall {α : Type} {R : α → α → Prop} (hs : ∀ a b, R a b → R b a) (l : List α) (h : l.Pairwise R) :
    ∀ a ∈ l, ∀ b ∈ l, a ≠ b → R a b := by
  induction l with
  | nil => intro a ha; cases ha
  | cons x xs ih =>
    rw [List.pairwise_cons] at h
    intro a ha b hb hab
    rcases List.mem_cons.mp ha with ea | ha' <;> rcases List.mem_cons.mp hb with eb | hb'
    · exact absurd (ea.trans eb.symm) hab
    · rw [ea]; exact h.1 b hb'
    · rw [eb]; exact hs _ _ (h.1 a ha')
    · exact ih h.2 a ha' b hb' hab

/-- THE ROLE NAMES OF THE LAUNCHED PROCESSES ARE PAIRWISE DISTINCT STRINGS — for every workflow name (spaces, upper case,
dashes, anything), every set of step / timeout statuses (negative ones included), every parallel count, provided: one
builder entry per step status, timeout status and hook; hooks are the three the builder offers; connector names stay
distinct after `makeRole`'s normalisation (lower-casing, space ↦ '_'); step statuses have fewer than 13 characters in
decimal (any 32-bit status does). -/
theorem C10_role_names_distinct (c : Cfg) (hs : (c.steps.map (·.1)).Nodup) (ht : c.timeouts.Nodup)
    (hc : (c.connectors.map (fun k => G k.1)).Nodup) (hh : c.hooks.Nodup) (hh3 : ∀ h ∈ c.hooks, hookState h)
    (hlen : ∀ s ∈ c.steps, (intDec s.1).length < 13) : (roles c).Nodup := by
  have hcraw : (c.connectors.map (·.1)).Nodup := by
    have := List.pairwise_map.mp hc
    unfold List.Nodup; rw [List.pairwise_map]
    exact this.imp (fun h e => h (by rw [e]))
  have hl := C10Launch.C10_launched_once c hs ht hcraw hh
  have hw := launches_wf c hh3 hlen
  unfold roles List.Nodup
  rw [List.pairwise_map]
  refine List.Pairwise.imp_of_mem ?_ hl
  intro p q hp hq hne heq
  rcases role_eq_cases c.name p q (hw p hp).1 (hw q hq).1 heq with h | ⟨cn, cn', i, n, rfl, rfl, hg⟩
  · exact hne h
  · have m1 := (hw _ hp).2 cn i n rfl
    have m2 := (hw _ hq).2 cn' i n rfl
    have hcn : cn ≠ cn' := fun e => hne (by rw [e])
    have hp2 : (c.connectors.map (·.1)).Pairwise (fun a b => G a ≠ G b) := by
      have := List.pairwise_map.mp hc
      rw [List.pairwise_map]; exact this
    exact pairwise_forall (fun a b h e => h e.symm) _ hp2 cn m1 cn' m2 hcn hg

/-- non-vacuity: a workflow "My WF" with a sharded step, a step at a negative status, a timeout, two connectors, a hook -/
example : (roles { name := S "My WF", defaultPar := 2, steps := [(1, 3), (-7, 0)], timeouts := [1], connectors := [(S "feed", 0), (S "Feed B", 1)], hooks := [3] }).length = 14 := by
  decide +kernel

end WorkflowModel.C10Roles
