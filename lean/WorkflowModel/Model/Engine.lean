import WorkflowModel.Model.Basic
import WorkflowModel.Model.RunState
import WorkflowModel.Model.Routing
import WorkflowModel.Model.Graph
/-! # Engine: the executable model of the workflow engine at adapter-call granularity

One `Act` = one API call, one operation of one background process (gate to gate), or one environment move.
Inside an operation every adapter call consults the fault plan (`Env.faults`, indexed by adapter-call number):
error before the effect, error after the effect, cancel (crash / lease loss). User functions are parameters:
their outcomes come from `Env.outcomes`. Guards come from `Generated/Guards.lean` (i.e. from the current source);
the run-state table, `Finished/Stopped/Valid`, routing sets and skip sentinels from `Generated/Facts.lean`.

Every effect on `Sys` goes through one of the primitives of section "primitives"; the invariants of
`Lemmas/Engine*.lean` are proved per primitive. Time is in whole seconds from the simulator epoch. -/
namespace WorkflowModel.Engine
open WorkflowModel

/-! ## configuration -/

inductive CallKind | step | callback | timeout
deriving DecidableEq, Repr, Inhabited

structure BuilderCall where
  kind : CallKind
  src : Status
  dests : List Status
  parallel : Int := 0
  lagSec : Int := 0
  pauseAfter : Int := 0
deriving Repr, Inhabited

structure Cfg where
  calls : List BuilderCall := []
  hooks : List RunState := []
  customDelete : Bool := false
  defParallel : Int := 0
  defPauseAfter : Int := 0
  defLagSec : Int := 0
  backoffSec : Int := 1
  outboxLimit : Int := 1000
  retryEnabled : Bool := false
  retryAfterSec : Int := 3600
  stamp : Bool := false
deriving Repr, Inhabited

def Cfg.edges (c : Cfg) : List (Int × Int) := c.calls.flatMap (fun b => b.dests.map (fun d => (b.src, d)))
def Cfg.graph (c : Cfg) : Graph.G := Graph.build c.edges
def Cfg.stepAt (c : Cfg) (s : Status) : Option BuilderCall := c.calls.find? (fun b => b.kind == .step && b.src == s)
def Cfg.callbacksAt (c : Cfg) (s : Status) : List BuilderCall := c.calls.filter (fun b => b.kind == .callback && b.src == s)
def Cfg.timeoutsAt (c : Cfg) (s : Status) : List BuilderCall := c.calls.filter (fun b => b.kind == .timeout && b.src == s)
/-- `WithOptions` on a timeout writes the status-wide struct: the last non-zero value wins -/
def Cfg.timeoutPauseOwn (c : Cfg) (s : Status) : Int :=
  (c.timeoutsAt s).foldl (fun acc b => if b.pauseAfter != 0 then b.pauseAfter else acc) 0
def pickOwn (own dflt : Int) : Int := if own != 0 then own else dflt
def Cfg.stepPauseAfter (c : Cfg) (s : Status) : Int := pickOwn ((c.stepAt s).map (·.pauseAfter) |>.getD 0) c.defPauseAfter
def Cfg.timeoutPauseAfter (c : Cfg) (s : Status) : Int := pickOwn (c.timeoutPauseOwn s) c.defPauseAfter
def Cfg.stepLag (c : Cfg) (s : Status) : Int :=
  let own := (c.stepAt s).map (·.lagSec) |>.getD 0
  if own > 0 then own else c.defLagSec

/-! ## processes -/

/-- a background process, identified by its canonical token -/
inductive Proc
  | outbox
  | step (s : Status) (shard total : Int)
  | inserter (s : Status)
  | poller (s : Status)
  | hook (rs : RunState)
  | delete
  | retry
deriving DecidableEq, Repr, Inhabited

def Proc.tok : Proc → String
  | .outbox => "ob"
  | .step s i n => s!"st:{s}:{i}:{n}"
  | .inserter s => s!"ins:{s}"
  | .poller s => s!"pol:{s}"
  | .hook rs => s!"hk:{rs}"
  | .delete => "del"
  | .retry => "rty"

/-- where a process is parked -/
inductive PState
  | needRole
  | atRecv
  | lagWait (ev : Nat) (until_ : Int)
  | backoff (until_ : Int)
  | atPoll (since : Int)   -- `ListValid(ctx, name, status, clock.Now())`: the instant was read when the process parked
deriving DecidableEq, Repr, Inhabited

/-! ## system state -/

structure RunS where
  fid : Fid
  hist : List Rec   -- newest first
deriving Repr, Inhabited

structure OutE where
  ord : Nat
  ev : Event
deriving Repr, Inhabited, DecidableEq

structure Sys where
  runs : List RunS := []
  outbox : List OutE := []
  outN : Nat := 0
  log : List Event := []
  cursors : List (Proc × Nat) := []
  timers : List Timer := []
  timerN : Nat := 0
  counts : List ((Int × Proc × RunId) × Int) := []
  now : Int := 0
  pst : List (Proc × PState) := []
  handles : List (RunId × Rec) := []
deriving Repr, Inhabited

def Sys.cur (s : Sys) (rid : RunId) : Option Rec := (s.runs[rid]?).bind (·.hist.head?)
def Sys.cursor (s : Sys) (p : Proc) : Nat := (s.cursors.lookup p).getD 0
def Sys.pstate (s : Sys) (p : Proc) : PState := (s.pst.lookup p).getD .needRole
def Sys.count (s : Sys) (k : Int × Proc × RunId) : Int := (s.counts.lookup k).getD 0

def assocSet {α β} [BEq α] (l : List (α × β)) (k : α) (v : β) : List (α × β) :=
  if l.any (·.1 == k) then l.map (fun p => if p.1 == k then (k, v) else p) else l ++ [(k, v)]

/-! ## primitives: the only functions that change `Sys` -/

/-- a record write: the reference store appends the record to the run's history and exactly one outbox entry
describing it (`RecordStore.Store` contract) -/
def Sys.write (s : Sys) (cfg : Cfg) (r : Rec) : Sys :=
  let r := if cfg.stamp then { r with updatedAt := s.now } else r
  let runs := if r.runId < s.runs.length
    then s.runs.mapIdx (fun i x => if i = r.runId then { x with hist := r :: x.hist } else x)
    else s.runs ++ [{ fid := r.fid, hist := [r] }]
  { s with runs := runs, outbox := s.outbox ++ [{ ord := s.outN, ev := Routing.route r }], outN := s.outN + 1 }

def Sys.relaySend (s : Sys) (e : Event) : Sys := { s with log := s.log ++ [e] }
def Sys.relayDelete (s : Sys) (ord : Nat) : Sys := { s with outbox := s.outbox.filter (fun o => o.ord != ord) }
def Sys.setCursor (s : Sys) (p : Proc) (n : Nat) : Sys := { s with cursors := assocSet s.cursors p n }
def Sys.timerCreate (s : Sys) (fid : Fid) (rid : RunId) (st : Status) (exp : Int) : Sys :=
  { s with timers := s.timers ++ [{ id := s.timerN + 1, fid := fid, runId := rid, status := st, expireAt := exp }], timerN := s.timerN + 1 }
def Sys.timerComplete (s : Sys) (id : Nat) : Sys :=
  { s with timers := s.timers.map (fun t => if t.id = id then { t with completed := true } else t) }
def Sys.timerCancel (s : Sys) (id : Nat) : Sys := { s with timers := s.timers.filter (fun t => t.id != id) }
def Sys.setCount (s : Sys) (k : Int × Proc × RunId) (v : Int) : Sys := { s with counts := assocSet s.counts k v }
def Sys.setPState (s : Sys) (p : Proc) (st : PState) : Sys := { s with pst := assocSet s.pst p st }
def Sys.tick (s : Sys) (d : Int) : Sys := { s with now := s.now + d }

/-! ## the operation monad -/

inductive FaultKind | before | after | cancel
deriving DecidableEq, Repr, Inhabited

/-- what a user function does when invoked (chosen by the environment) -/
inductive Outcome
  | ret (next : Status) (n : Obj)   -- return status `next` after setting the object to `n`
  | err (tok : Int)                 -- return an error (message token)
  | pause                           -- `return r.Pause(ctx, …)`
  | cancel                          -- `return r.Cancel(ctx, …)`
  | nested (status : Status)        -- re-enter the API: `Callback(foreignID, status)`, then take the next outcome
  | timer (sec : Int)               -- timer function: expire at now + sec
  | zero                            -- timer function: zero time
  | zeroErr                         -- timer function: zero time and an error
  | ok                              -- hook / custom delete: success
  | lost (k : Int)                  -- hook / custom delete: the process loses its role while the function runs; the function fails with error k
  | exhausted                       -- no outcome left: behaves as an error
deriving Repr, Inhabited, DecidableEq

def Outcome.str : Outcome → String
  | .ret a b => s!"r:{a}:{b}"
  | .err k => s!"e:{k}"
  | .pause => "p"
  | .cancel => "c"
  | .nested a => s!"n:{a}"
  | .timer a => s!"t:{a}"
  | .zero => "z"
  | .zeroErr => "ze"
  | .ok => "k"
  | .lost k => s!"l:{k}"
  | .exhausted => "x"

structure Env where
  faults : List (Nat × FaultKind) := []
  outcomes : List Outcome := []
  stale : Nat := 0
  ackIgn : Bool := false  -- the streamer acknowledges even under a cancelled context (as the in-memory streamer does)
deriving Repr, Inhabited

inductive Abort
  | err (tok : Int)      -- an error with its message token (feeds the error counter)
  | cancelled
deriving DecidableEq, Repr, Inhabited

structure OpSt where
  sys : Sys
  callN : Nat := 0
  outI : Nat := 0
  obs : List String := []   -- newest first
  cancelled : Bool := false -- the lease context has been cancelled
  stale : Nat := 0
  isApi : Bool := false

def M (α : Type) := Env → OpSt → (Except Abort α × OpSt)

instance : Monad M where
  pure a := fun _ st => (.ok a, st)
  bind m f := fun env st =>
    match m env st with
    | (.ok a, st') => f a env st'
    | (.error e, st') => (.error e, st')

def getSys : M Sys := fun _ st => (.ok st.sys, st)
def modifySys (f : Sys → Sys) : M Unit := fun _ st => (.ok (), { st with sys := f st.sys })
def emit (l : String) : M Unit := fun _ st => (.ok (), { st with obs := l :: st.obs })
def emitIf (c : Bool) (l : String) : M Unit := fun _ st => (.ok (), if c then { st with obs := l :: st.obs } else st)
def throwA {α} (a : Abort) : M α := fun _ st => (.error a, st)
/-- run `m`, catching an abort (the Go code inspects the error and carries on) -/
def tryM {α} (m : M α) : M (Except Abort α) := fun env st =>
  match m env st with
  | (.ok a, st') => (.ok (.ok a), st')
  | (.error e, st') => (.ok (.error e), st')

def injectedTok : Int := 100
def cancelledTok : Int := 101

def nextOutcome : M Outcome := fun env st =>
  (.ok ((env.outcomes[st.outI]?).getD .exhausted), { st with outI := st.outI + 1 })

/-- One adapter call. `label` is printed; `eff` computes the result rendering, the value and the new `Sys`.
Context honouring: after a cancel every further call fails without effect. -/
def call {α} (label : String) (eff : Sys → (String × Except Abort α × Sys)) : M α := fun env st =>
  if st.cancelled then
    (.error .cancelled, { st with obs := (label ++ "~") :: st.obs })
  else
    match env.faults.lookup st.callN with
    | some .before =>
      (.error (.err injectedTok), { st with callN := st.callN + 1, obs := (label ++ "!b") :: st.obs })
    | some .after =>
      (.error (.err injectedTok),
        { st with callN := st.callN + 1, sys := (eff st.sys).2.2, obs := (label ++ (eff st.sys).1 ++ "!a") :: st.obs })
    | some .cancel =>
      (.error .cancelled, { st with callN := st.callN + 1, obs := (label ++ "!c") :: st.obs, cancelled := !st.isApi })
    | none =>
      ((eff st.sys).2.1,
        { st with callN := st.callN + 1, sys := (eff st.sys).2.2, obs := (label ++ (eff st.sys).1) :: st.obs })

/-! ## rendering -/

def recStr (r : Rec) : String := s!"r{r.runId},rs{r.runState},st{r.status},v{r.version},o{r.obj}"
def topicStr (e : Event) : String :=
  match e.topicKind with
  | 0 => s!"s{e.topicStatus}"
  | 1 => "del"
  | _ => "rsc"
def evStr (i : Nat) (e : Event) : String := s!"e{i}:{topicStr e},r{e.runId},v{e.version},rs{e.runState}"

/-! ## adapter calls -/

/-- what `Lookup` answers: the current record, or (stale read) the version `staleN` writes back; with its rendering -/
def lookupRes (s : Sys) (rid : RunId) (staleN : Nat) : String × Option Rec :=
  match s.runs[rid]? with
  | none => ("(nf)", none)
  | some run =>
    let i := if staleN < run.hist.length then staleN else run.hist.length - 1
    match run.hist[i]? with
    | none => ("(nf)", none)
    | some r => ("(" ++ recStr r ++ ")" ++ (if i != 0 then "~stale" else ""), some r)

/-- `Lookup` -/
def lookup (rid : RunId) : M (Option Rec) := fun env st =>
  (call "lookup" (fun s => ((lookupRes s rid st.stale).1, .ok (lookupRes s rid st.stale).2, s))) env { st with stale := 0 }

/-- what `Latest` answers: the head of the newest created run of the foreign ID -/
def latestRes (s : Sys) (fid : Fid) : Option Rec := (s.runs.reverse.find? (fun r => r.fid == fid)).bind (·.hist.head?)

/-- `Latest` -/
def latest (fid : Fid) : M (Option Rec) :=
  call "latest" (fun s =>
    ((match latestRes s fid with | none => "(nf)" | some r => "(" ++ recStr r ++ ")"), .ok (latestRes s fid), s))

def store (cfg : Cfg) (r : Rec) : M Unit :=
  call "store" (fun s =>
    let r' := if cfg.stamp then { r with updatedAt := s.now } else r
    ("(" ++ recStr r' ++ ")", .ok (), s.write cfg r))

/-- the lease context is cancelled from outside while a user function runs (role lost mid-function) -/
def loseLease : M Unit := fun _ st => (.ok (), { st with cancelled := !st.isApi })

/-- `ack`: an adapter call; a streamer whose acknowledgement does not look at the context (`env.ackIgn`) performs it
even after the lease context has been cancelled -/
def ack (p : Proc) (i : Nat) : M Unit := fun env st =>
  if env.ackIgn && st.cancelled then
    let r := call s!"ack(e{i})" (fun s => ("", .ok (), s.setCursor p (i + 1))) env { st with cancelled := false }
    (r.1, { r.2 with cancelled := true })
  else call s!"ack(e{i})" (fun s => ("", .ok (), s.setCursor p (i + 1))) env st

/-! ## the write paths (update.go, runstate.go, trigger.go, delete.go) -/

def errInvalidRunState (a b : Int) : Int := 2000 + a * 10 + b
def errInvalidTransition : Int := 300
def errStale : Int := 301
def errNotFound : Int := 302
def errUserBase : Int := 0   -- "err-k" ↦ k ; "err-x" ↦ 98 ; "err-ze" ↦ 97

/-- `updateRecord`: version + 1, then `Store` -/
def updateRecord (cfg : Cfg) (r : Rec) : M Unit := store cfg { r with version := r.version + 1 }

def ctlReason : RS.CtlOp → Nat
  | .pause => 1 | .resume => 0 | .cancel => 2 | .deleteData => 3

/-- `runStateControllerImpl.update` on the controller's in-memory record `mem`. Never aborts: returns the record
the controller holds afterwards (the Go code mutates run state, reason and version BEFORE storing, and keeps the
mutation when the store fails) and the error, if any. -/
def ctlUpdateMem (cfg : Cfg) (mem : Rec) (op : RS.CtlOp) : M (Rec × Option Abort) :=
  let target := RS.target op
  if RS.allowed mem.runState target then do
    let mem' := { mem with runState := target, reason := ctlReason op, version := mem.version + 1 }
    match (← tryM (store cfg mem')) with
    | .ok _ => pure (mem', none)
    | .error a => pure (mem', some a)
  else pure (mem, some (.err (errInvalidRunState mem.runState target)))

/-- the same, for callers that just propagate the error -/
def ctlUpdate (cfg : Cfg) (mem : Rec) (op : RS.CtlOp) : M Rec := do
  let (mem', e) ← ctlUpdateMem cfg mem op
  match e with
  | none => pure mem'
  | some a => throwA a

/-- `validateTransition` -/
def validate (cfg : Cfg) (current next : Status) : Bool :=
  let nodes := Graph.transitions cfg.graph current
  if Gen.G.validateNoTransitions nodes.length then false
  else nodes.any (fun n => Gen.G.validateFound n next)

/-- the record the updater builds from the in-memory run: Completed iff the destination is terminal, the new status,
the object the function left behind, update time now, description of the new status; identity, creation time and
version (before the +1 of `updateRecord`) from the run -/
def updaterRec (cfg : Cfg) (next : Status) (run : Rec) (newObj : Obj) (now : Int) : Rec :=
  { run with runState := (if Graph.isTerminal cfg.graph next then Gen.RunStateCompleted else Gen.RunStateRunning),
             status := next, obj := newObj, updatedAt := now, descr := next }

/-- the updater closure of `newUpdater`: `run` is the in-memory run handed to the user function -/
def updater (cfg : Cfg) (current next : Status) (run : Rec) (newObj : Obj) : M Unit := do
  let s ← getSys
  let upd : Rec := updaterRec cfg next run newObj s.now
  match (← lookup run.runId) with
  | none => throwA (.err errNotFound)
  | some latest =>
    if Gen.G.updaterStatusChanged latest.status current then pure ()
    else if !validate cfg current next then throwA (.err errInvalidTransition)
    else updateRecord cfg upd

/-! ## user-function outcomes -/

/-- result of a step / callback / timeout function: `(Status, error)` plus the object it leaves in memory -/
structure FnRes where
  next : Status
  obj : Obj

/-- `processCallback` for one registered callback; `depth` bounds re-entrancy (user functions calling `Callback`) -/
def viewRec (r : Rec) : Rec := { r with runState := RS.view r.runState }

/-- `processCallback`, the guards on the latest record: other status → nothing; stopped run → nothing; otherwise
invoke the callback function (`runner`), skip or update -/
def callbackGate (cfg : Cfg) (status : Status) (wr : Rec) (runner : Rec → M (Except Abort FnRes × Rec)) : M Unit :=
  if Gen.G.callbackSkip wr.status status then pure ()
  else if Gen.stopped wr.runState then pure ()
  else do
    let run := viewRec wr
    match (← runner run) with
    | (.error a, _) => throwA a
    | (.ok res, _) =>
      if Gen.skipValues.contains res.next then pure ()
      else updater cfg status res.next run res.obj

/-- `processCallback` for one registered callback -/
def callbackOne (cfg : Cfg) (fid : Fid) (status : Status) (runner : Rec → M (Except Abort FnRes × Rec)) : M Unit := do
  match (← latest fid) with
  | none => throwA (.err errNotFound)
  | some wr => callbackGate cfg status wr runner

mutual
/-- a step / callback / timeout function invoked on the in-memory run `run` (already viewed through `buildRun`);
`mem` is the record the run's controller points to. Never aborts: returns the function's result or error, and the
controller's record afterwards. -/
def runFn (cfg : Cfg) (kind : String) (run mem : Rec) : Nat → Bool → M (Except Abort FnRes × Rec)
  | 0, _ => pure (.error (.err 99), mem)
  | fuel + 1, first => do
    let out ← nextOutcome
    if first then emit s!"fn:{kind}({recStr run})->{out.str}" else emit s!"fn:cont->{out.str}"
    match out with
    | .ret next n => pure (.ok ⟨next, n⟩, mem)
    | .err k => pure (.error (.err k), mem)
    | .pause => do
      let (mem', e) ← ctlUpdateMem cfg mem .pause
      match e with
      | none => pure (.ok ⟨Gen.SkipTypeRunStateUpdate, run.obj⟩, mem')
      | some a => pure (.error a, mem')
    | .cancel => do
      let (mem', e) ← ctlUpdateMem cfg mem .cancel
      match e with
      | none => pure (.ok ⟨Gen.SkipTypeRunStateUpdate, run.obj⟩, mem')
      | some a => pure (.error a, mem')
    | .nested st => do
      match (← tryM (callbackApi cfg run.fid st fuel)) with
      | .ok _ => pure ()
      | .error _ => emit "nested-callback-error"
      runFn cfg kind run mem fuel false
    | _ => pure (.error (.err 98), mem)

/-- `Workflow.Callback`: every callback registered on the status, in registration order, stopping at the first error -/
def callbackApi (cfg : Cfg) (fid : Fid) (status : Status) : Nat → M Unit
  | 0 => throwA (.err 99)
  | fuel + 1 => (cfg.callbacksAt status).forM (fun _ =>
      callbackOne cfg fid status (fun run => runFn cfg "callback" run run fuel true))
end

/-- nesting budget of the mutual recursion runFn / callbackApi. Every nested level consumes at least one user-function outcome
of the operation's environment and the harness never supplies more than 6 per operation; each level costs at most 3 units of
fuel, so 40 is never exhausted on a co-simulated history (6 was: three-deep re-entrant callbacks ran out, a false alarm of
the thorough tier). -/
def fuelDefault : Nat := 40

/-! ## error counting (`maybePause`, internal/errorcounter) -/

def abortTok : Abort → Int
  | .err k => k
  | .cancelled => cancelledTok

/-- returns `true` when the run was paused; aborts with the pause error when pausing failed.
`mem` is the record the run's controller points to. -/
def maybePauseMem (cfg : Cfg) (n : Int) (p : Proc) (mem : Rec) (e : Abort) : M (Bool × Rec) := do
  if Gen.G.pauseDisabled n then pure (false, mem)
  else do
    let key := (abortTok e, p, mem.runId)
    let s ← getSys
    let count := s.count key + 1
    modifySys (·.setCount key count)
    if Gen.G.pauseBelowThreshold count n then pure (false, mem)
    else do
      let (mem', err) ← ctlUpdateMem cfg mem .pause
      match err with
      | some a => throwA (match a with | .cancelled => .cancelled | .err _ => .err 320)
      | none => do
        modifySys (·.setCount key 0)
        pure (true, mem')

def maybePause (cfg : Cfg) (n : Int) (p : Proc) (mem : Rec) (e : Abort) : M Bool := do
  let (b, _) ← maybePauseMem cfg n p mem e
  pure b

/-! ## handlers -/

/-- `stepConsumer`, after the guards: build the run, invoke the function, pause-or-fail on error, skip or update -/
def stepRun (cfg : Cfg) (p : Proc) (pauseAfter : Int) (record : Rec) (fn : Rec → M (Except Abort FnRes × Rec)) : M Unit := do
  let run := viewRec record
  match (← fn run) with
  | (.error err, mem) => do
    -- `mem`: a failed Pause/Cancel inside the function leaves the controller's record changed
    let paused ← maybePause cfg pauseAfter p mem err
    if paused then pure () else throwA err
  | (.ok res, _) =>
    if Gen.skipValues.contains res.next then pure ()
    else updater cfg record.status res.next run res.obj

/-- `stepConsumer`, the guards on the record the store returned: version gate (old: skip; newer: stale-read error),
stopped runs are skipped -/
def stepGate (cfg : Cfg) (p : Proc) (pauseAfter : Int) (e : Event) (record : Rec)
    (fn : Rec → M (Except Abort FnRes × Rec)) : M Unit :=
  if Gen.G.stepSkipOld record.version e.version then pure ()
  else if Gen.G.stepStale record.version e.version then throwA (.err errStale)
  else if Gen.G.stepStopped record.runState then pure ()
  else stepRun cfg p pauseAfter record fn

/-- `stepConsumer` with a consumer function `fn` (the step function, or the timeout inserter's wrapper) -/
def stepHandle (cfg : Cfg) (p : Proc) (_status : Status) (pauseAfter : Int) (e : Event)
    (fn : Rec → M (Except Abort FnRes × Rec)) : M Unit := do
  match (← lookup e.runId) with
  | none => pure ()
  | some record => stepGate cfg p pauseAfter e record fn

/-- what the inserter does with the answer of one timer function: create a timer for a non-zero time, nothing for the
zero time, fail on an error -/
def inserterOutcome (status : Status) (run : Rec) (now : Int) : Outcome → M Unit
  | .timer sec =>
    call s!"tcreate(r{run.runId},st{status},{now + sec})" (fun s => ("", .ok (), s.timerCreate run.fid run.runId status (s.now + sec)))
  | .zero => pure ()
  | .zeroErr => throwA (.err 97)
  | .err k => throwA (.err k)
  | _ => throwA (.err 98)

/-- one timeout configuration of the status: invoke its timer function, act on the answer -/
def inserterOne (status : Status) (run : Rec) : M Unit := do
  let out ← nextOutcome
  emit s!"fn:timer({recStr run})->{out.str}"
  let s ← getSys
  inserterOutcome status run s.now out

/-- the consumer function of `timeoutAutoInserterConsumer` -/
def inserterFn (cfg : Cfg) (status : Status) (run : Rec) : M (Except Abort FnRes × Rec) := do
  let r ← tryM ((cfg.timeoutsAt status).forM (fun _ => inserterOne status run))
  match r with
  | .ok _ => pure (.ok ⟨0, run.obj⟩, run)
  | .error a => pure (.error a, run)

def decodable (o : Obj) : Bool := o != -7777777

def hookHandle (_cfg : Cfg) (rs : RunState) (e : Event) : M Unit := do
  match (← lookup e.runId) with
  | none => throwA (.err errNotFound)
  | some record =>
    if !decodable record.obj then pure ()
    else do
      let out ← nextOutcome
      emit s!"fn:hook{rs}({recStr record})->{out.str}"
      match out with
      | .err k => throwA (.err k)
      | .lost k => do loseLease; throwA (.err k)
      | .exhausted => throwA (.err 98)
      | _ => pure ()

def scrub (o : Obj) : Obj := if o > -500000 then -1000000 - o else o

/-- the wrapper `WithCustomDelete` builds: unmarshal (fails on an object that does not decode), apply the user's
function, re-marshal -/
def customDeleteFn (record : Rec) : M Obj :=
  if !decodable record.obj then throwA (.err 96)
  else do
    let out ← nextOutcome
    emit s!"fn:delete(o{record.obj})->{out.str}"
    match out with
    | .err k => throwA (.err k)
    | .lost k => do loseLease; throwA (.err k)
    | .exhausted => throwA (.err 98)
    | _ => pure (scrub record.obj)

/-- the replacement object: the custom delete function's result, or the fixed default marker -/
def deleteObj (cfg : Cfg) (record : Rec) : M Obj :=
  if cfg.customDelete then customDeleteFn record else pure (-7777777 : Int)

/-- `runDelete` -/
def deleteHandle (cfg : Cfg) (e : Event) : M Unit := do
  match (← lookup e.runId) with
  | none => throwA (.err errNotFound)
  | some record => do
    let newObj ← deleteObj cfg record
    updateRecord cfg { record with obj := newObj, runState := Gen.RunStateDataDeleted }

def retryHandle (cfg : Cfg) (e : Event) : M Unit := do
  match (← lookup e.runId) with
  | none => throwA (.err errNotFound)
  | some record =>
    if Gen.G.retryNotPaused record.runState then pure ()
    else do
      let s ← getSys
      let threshold := Gen.G.retryThreshold s.now cfg.retryAfterSec
      if Gen.G.retryTooEarly record.updatedAt threshold then pure ()
      else do
        let _ ← ctlUpdate cfg record .resume
        pure ()

/-! ## the consume loop (`consume`, `runOnce`) -/

def procLag (cfg : Cfg) : Proc → Int
  | .step s _ _ => cfg.stepLag s
  | .retry => cfg.retryAfterSec
  | _ => 0

/-- which stream events a consumer receives -/
def subscribed (p : Proc) (e : Event) : Bool :=
  match p with
  | .step s _ _ => e.topicKind == 0 && e.topicStatus == s
  | .inserter s => e.topicKind == 0 && e.topicStatus == s
  | .hook _ => e.topicKind == 2
  | .retry => e.topicKind == 2
  | .delete => e.topicKind == 1
  | _ => false

/-- event filters: true = skip (and acknowledge) -/
def filteredOut (p : Proc) (i : Nat) (e : Event) : Bool :=
  match p with
  | .step _ shard total => Routing.shardOut shard total (i + 1)
  | .hook rs => e.runState != rs
  | .retry => e.runState != Gen.RunStatePaused
  | _ => false

def topicOf (p : Proc) : String :=
  match p with
  | .step s _ _ => s!"s{s}"
  | .inserter s => s!"s{s}"
  | .hook _ => "rsc"
  | .retry => "rsc"
  | .delete => "del"
  | _ => "?"

def nextIndexFrom (p : Proc) (log : List Event) (i : Nat) : Nat → Option Nat
  | 0 => none
  | fuel + 1 =>
    match log[i]? with
    | none => none
    | some e => if subscribed p e then some i else nextIndexFrom p log (i + 1) fuel

def Sys.nextIndex (s : Sys) (p : Proc) : Option Nat := nextIndexFrom p s.log (s.cursor p) (s.log.length + 1)

def handle (cfg : Cfg) (p : Proc) (e : Event) : M Unit :=
  match p with
  | .step s _ _ => stepHandle cfg p s (cfg.stepPauseAfter s) e (fun run => runFn cfg "step" run run fuelDefault true)
  | .inserter s => stepHandle cfg p s (cfg.timeoutPauseAfter s) e (inserterFn cfg s)
  | .hook rs => hookHandle cfg rs e
  | .delete => deleteHandle cfg e
  | .retry => retryHandle cfg e
  | _ => pure ()

/-- after the lag wait: filter, handle, ack -/
def deliver (cfg : Cfg) (p : Proc) (i : Nat) (e : Event) : M Unit := do
  if filteredOut p i e then ack p i
  else do
    handle cfg p e
    ack p i

/-- from the `Recv` gate: receive, maybe wait for the lag (returns the lag-wait parking state), deliver -/
def recvOp (cfg : Cfg) (p : Proc) : M PState := do
  let s ← getSys
  match s.nextIndex p with
  | none => throwA (.err 95)  -- the simulator never releases a receiver with nothing to deliver
  | some i =>
    match s.log[i]? with
    | none => throwA (.err 95)
    | some e => do
      call "recv" (fun s => ("(" ++ evStr i e ++ ")", .ok (), s))
      let lag := procLag cfg p
      let delay := Gen.G.consumeDelay lag (s.now - e.createdAt)
      if Gen.G.consumeMustWait lag delay then pure (.lagWait i (s.now + delay))
      else do
        deliver cfg p i e
        pure .atRecv

/-- relaying one outbox entry: new sender, send, close the sender, delete the entry -/
def relayEntry (o : OutE) : M Unit := do
  call s!"newsender({topicStr o.ev})" (fun s => ("", .ok (), s))
  let r ← tryM (call "send" (fun s =>
    ("(" ++ evStr s.log.length { o.ev with createdAt := s.now } ++ s!",t{o.ev.type})", .ok (),
      s.relaySend { o.ev with createdAt := s.now })))
  emit "sendclose"
  match r with
  | .error a => throwA a
  | .ok _ => call s!"delout({o.ord})" (fun s => ("", .ok (), s.relayDelete o.ord))

/-- the relay cycle `purgeOutbox` -/
def relayOp (cfg : Cfg) : M Unit := do
  let batch ← call "listoutbox" (fun s =>
    ("(" ++ " ".intercalate ((s.outbox.take cfg.outboxLimit.toNat).map (fun o => toString o.ord)) ++ ")",
      .ok (s.outbox.take cfg.outboxLimit.toNat), s))
  batch.forM relayEntry

/-- `processTimeout` for one timeout configuration. `shared` is the record the poller read for this timer: it is
handed to `buildRun` by pointer for EVERY configuration of the status, so the view and any controller mutation
carry over to the next configuration; returns the shared record afterwards. -/
def processTimeout (cfg : Cfg) (p : Proc) (status : Status) (shared : Rec) (t : Timer) : M Rec := do
  let run := viewRec shared
  match (← runFn cfg "timeout" run run fuelDefault true) with
  | (.error err, mem) => do
    let (_, mem') ← maybePauseMem cfg (cfg.timeoutPauseAfter status) p mem err
    pure mem'
  | (.ok res, mem) =>
    if Gen.skipValues.contains res.next then pure mem
    else do
      updater cfg t.status res.next run res.obj
      call s!"tcomplete({t.id})" (fun s => ("", .ok (), s.timerComplete t.id))
      pure mem

/-- what `ListValid` answers for the queried instant: timers of the status, not completed, expiry not after it -/
def dueTimers (s : Sys) (status : Status) (queried : Int) : List Timer :=
  s.timers.filter (fun t => t.status == status && !t.completed && !Gen.G.memTimeoutNotDue t.expireAt queried)

/-- the poller's handling of one due timer: re-read the run; cancel the timer when the run moved on or finished; skip
stopped runs; otherwise run every timeout configuration of the status -/
def pollGate (cfg : Cfg) (p : Proc) (status : Status) (t : Timer) (r : Rec) : M Unit :=
  if Gen.G.pollCancel r.status status r.runState then
    call s!"tcancel({t.id})" (fun s => ("", .ok (), s.timerCancel t.id))
  else if Gen.G.pollSkipStopped r.runState then pure ()
  else do
    let _ ← (cfg.timeoutsAt status).foldlM (fun shared _ => processTimeout cfg p status shared t) r
    pure ()

def pollTimer (cfg : Cfg) (p : Proc) (status : Status) (t : Timer) : M Unit := do
  match (← lookup t.runId) with
  | none => throwA (.err errNotFound)
  | some r => pollGate cfg p status t r

/-- one iteration of the `pollTimeouts` loop, from the `ListValid` gate -/
def pollOp (cfg : Cfg) (p : Proc) (status : Status) (queried : Int) : M Unit := do
  let due ← call s!"listvalid(st{status})" (fun s =>
    ("(" ++ " ".intercalate ((dueTimers s status queried).map (fun t => toString t.id)) ++ ")", .ok (dueTimers s status queried), s))
  due.forM (pollTimer cfg p status)

/-! ## one operation of a background process -/

def newReceiver (p : Proc) : M Unit := call s!"newrecv({topicOf p})" (fun s => ("", .ok (), s))

/-- the body of one operation, from the gate the process is parked at; returns the next parking state.
`close` = the deferred `stream.Close()` of consumers -/
def procBody (cfg : Cfg) (p : Proc) (ps : PState) : M PState :=
  match ps with
  | .backoff _ => pure .needRole
  | .needRole => do
    emit "await"
    match p with
    | .outbox => do relayOp cfg; pure .needRole
    | .poller _ => do let s ← getSys; pure (.atPoll s.now)
    | _ => do newReceiver p; pure .atRecv
  | .atPoll since =>
    match p with
    | .poller st => do pollOp cfg p st since; let s ← getSys; pure (.atPoll s.now)
    | _ => pure (.atPoll since)
  | .atRecv => recvOp cfg p
  | .lagWait i _ => do
    let s ← getSys
    match s.log[i]? with
    | none => throwA (.err 95)
    | some e =>
      -- the event being waited for was received from the process's own topic (in the Go code it is a local variable
      -- of `consume`, handed over by `Recv`); the index representation re-states that
      if subscribed p e then do deliver cfg p i e; pure .atRecv
      else throwA (.err 95)

def isConsumer : Proc → Bool
  | .outbox => false
  | .poller _ => false
  | _ => true

/-- does the process hold an open receiver in this parking state? -/
def hasReceiver (p : Proc) (ps : PState) : Bool :=
  isConsumer p && (match ps with | .atRecv => true | .lagWait _ _ => true | _ => false)

def isCancelled : M Bool := fun _ st => (.ok st.cancelled, st)
/-- did this operation open a receiver (a `newrecv` call that returned normally)? -/
def openedReceiver : M Bool := fun _ st => (.ok (st.obs.any (fun l => l.startsWith "newrecv(" && l.endsWith ")")), st)

/-- `runOnce` around the body: on error close the receiver (if open) and back off; when the lease context is cancelled
(by a crash fault or a swallowed cancellation: the loops re-check `ctx.Err()`), go back for the role without back-off -/
def procOp (cfg : Cfg) (p : Proc) : M Unit := do
  let s ← getSys
  let r ← tryM (procBody cfg p (s.pstate p))
  let dead ← isCancelled
  match r, dead with
  | .ok ps', false => modifySys (·.setPState p ps')
  | _, _ => do
    -- a receiver is open if it was open before, or if this operation opened it (needRole: newrecv succeeded)
    let opened ← openedReceiver
    emitIf (hasReceiver p (s.pstate p) || (isConsumer p && s.pstate p == .needRole && opened)) "close"
    let s' ← getSys
    modifySys (·.setPState p (if dead then .needRole else .backoff (s'.now + cfg.backoffSec)))

/-- lease loss: the role scheduler cancels the context of a parked process -/
def leaseLossOp (_cfg : Cfg) (p : Proc) : M Unit := do
  let s ← getSys
  match s.pstate p with
  | .needRole => pure ()
  | .backoff _ => modifySys (·.setPState p .needRole)
  | .atRecv => do emit "recv~"; emit "close"; modifySys (·.setPState p .needRole)
  | .lagWait _ _ => do emit "close"; modifySys (·.setPState p .needRole)
  | .atPoll _ =>
    match p with
    | .poller st => do emit s!"listvalid(st{st})~"; modifySys (·.setPState p .needRole)
    | _ => pure ()

/-! ## API calls -/

def errClass : Abort → String
  | .cancelled => "err:cancelled"
  | .err k =>
    if k == injectedTok then "err:injected"
    else if k == errNotFound then "err:notfound"
    else if k == errInvalidTransition then "err:invalidtransition"
    else if k ≥ 2000 then "err:invalidrunstate"
    else if k == 310 then "err:inprogress"
    else if k == 311 then "err:notconfigured"
    else if k == 312 then "err:norun"
    else if k == 313 then "err:nohandle"
    else "err:user"

/-- the status a new run starts at: the requested one when non-zero, else the default starting point — if declared -/
def triggerStart (cfg : Cfg) (start : Status) : Option Status :=
  match (if Gen.G.triggerUseRequested start then some start else Graph.defaultStart cfg.graph) with
  | none => none
  | some st => if Graph.isValid cfg.graph st then some st else none

/-- the record `trigger` builds (version 0 before the +1 of `updateRecord`) -/
def triggerRec (fid : Fid) (st : Status) (n : Obj) (now : Int) (rid : RunId) : Rec :=
  { runId := rid, fid := fid, runState := Gen.RunStateInitiated, status := st, obj := n,
    createdAt := now, updatedAt := now, version := 0, descr := st }

def triggerApi (cfg : Cfg) (fid : Fid) (start : Status) (n : Obj) : M String :=
  match triggerStart cfg start with
  | none => throwA (.err 311)
  | some st => do
    let last ← latest fid
    if Gen.G.triggerInProgress ((last.map (·.runState)).getD Gen.RunStateUnknown) then throwA (.err 310)
    else do
      let s ← getSys
      updateRecord cfg (triggerRec fid st n s.now s.runs.length)
      pure s!"ok:r{s.runs.length}"

def opOfString : String → Option RS.CtlOp
  | "pause" => some .pause | "resume" => some .resume | "cancel" => some .cancel | "delete" => some .deleteData
  | _ => none

def ctlFreshApi (cfg : Cfg) (rid : RunId) (op : RS.CtlOp) : M String := do
  let s ← getSys
  if rid ≥ s.runs.length then throwA (.err 312)
  else match (← lookup rid) with
    | none => throwA (.err errNotFound)
    | some r => do
      let _ ← ctlUpdate cfg r op
      pure "ok"

def handleApi (rid : RunId) : M String := do
  let s ← getSys
  if rid ≥ s.runs.length then throwA (.err 312)
  else match (← lookup rid) with
    | none => throwA (.err errNotFound)
    | some r => do
      modifySys (fun s => { s with handles := s.handles ++ [(rid, r)] })
      pure s!"ok:h{s.handles.length}"

def hctlApi (cfg : Cfg) (h : Nat) (op : RS.CtlOp) : M String := do
  let s ← getSys
  match s.handles[h]? with
  | none => throwA (.err 313)
  | some (rid, mem) =>
    -- the Go controller mutates its record (run state, reason, version) before storing, and keeps it on failure
    let target := RS.target op
    if RS.allowed mem.runState target then do
      let reason : Nat := match op with | .pause => 1 | .resume => 0 | .cancel => 2 | .deleteData => 3
      let mem' := { mem with runState := target, reason := reason, version := mem.version + 1 }
      modifySys (fun s => { s with handles := s.handles.set h (rid, mem') })
      store cfg mem'
      pure "ok"
    else throwA (.err (errInvalidRunState mem.runState target))

/-! ## actions and the step function -/

inductive Act
  | step (p : Proc) (env : Env)
  | lease (p : Proc)
  | trigger (fid : Fid) (start : Status) (n : Obj) (env : Env)
  | callback (fid : Fid) (status : Status) (env : Env)
  | ctl (rid : RunId) (op : RS.CtlOp) (env : Env)
  | handle (rid : RunId)
  | hctl (h : Nat) (op : RS.CtlOp) (env : Env)
  | tick (sec : Int)
  | rewind (p : Proc) (idx : Nat)
  | dup (idx : Nat)
deriving Repr, Inhabited

structure StepOut where
  sys : Sys
  obs : List String
  res : String

def runM {α} (m : M α) (env : Env) (s : Sys) (isApi : Bool) : (Except Abort α × OpSt) :=
  m env { sys := s, stale := env.stale, isApi := isApi }

def apiOut (r : Except Abort String × OpSt) : StepOut :=
  match r with
  | (.ok res, st) => ⟨st.sys, st.obs.reverse, res⟩
  | (.error a, st) => ⟨st.sys, st.obs.reverse, errClass a⟩

/-- can the process take a step right now? (something to receive / timer due) -/
def Sys.enabled (s : Sys) (p : Proc) : Bool :=
  match s.pstate p with
  | .needRole => true
  | .atPoll _ => true
  | .atRecv => (s.nextIndex p).isSome
  | .lagWait _ u => decide (u ≤ s.now)
  | .backoff u => decide (u ≤ s.now)

def stepAct (cfg : Cfg) (s : Sys) : Act → StepOut
  | .step p env =>
    if s.enabled p then
      ⟨(runM (procOp cfg p) env s false).2.sys, (runM (procOp cfg p) env s false).2.obs.reverse, "-"⟩
    else ⟨s, [], "noop"⟩
  | .lease p =>
    let (_, st) := runM (leaseLossOp cfg p) {} s false
    ⟨st.sys, st.obs.reverse, "-"⟩
  | .trigger fid start n env => apiOut (runM (triggerApi cfg fid start n) env s true)
  | .callback fid status env =>
    apiOut (runM (do callbackApi cfg fid status fuelDefault; pure "ok") env s true)
  | .ctl rid op env => apiOut (runM (ctlFreshApi cfg rid op) env s true)
  | .handle rid => apiOut (runM (handleApi rid) {} s true)
  | .hctl h op env => apiOut (runM (hctlApi cfg h op) env s true)
  | .tick sec => ⟨s.tick sec, [], "-"⟩
  | .rewind p idx => if idx ≤ s.cursor p then ⟨s.setCursor p idx, [], "-"⟩ else ⟨s, [], "noop"⟩
  | .dup idx =>
    match s.log[idx]? with
    | some e => ⟨s.relaySend e, [], "-"⟩
    | none => ⟨s, [], "noop"⟩

/-- reachable states: the closure of `stepAct` from the empty system -/
def runActs (cfg : Cfg) (s : Sys) (as : List Act) : Sys := as.foldl (fun s a => (stepAct cfg s a).sys) s

end WorkflowModel.Engine
