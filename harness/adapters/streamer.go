package adapters

import (
	"context"
	"encoding/json"
	"fmt"
	"os"
	"path/filepath"
	"sort"
	"strconv"
	"strings"
	"sync"
	"time"

	"github.com/luno/workflow"
	"github.com/luno/workflow/adapters/memstreamer"
	"github.com/luno/workflow/verifharness/leandrv"
	"github.com/luno/workflow/verifharness/report"
	"github.com/luno/workflow/verifharness/rng"
)

// countCtx is a context that reports cancellation after a fixed number of Err() calls: the in-memory receivers poll
// `for ctx.Err() == nil`, so "would block" becomes deterministic (no timing). A real deadline backs it up.
type countCtx struct {
	mu   sync.Mutex
	left int
	done chan struct{}
	once sync.Once
	t    *time.Timer
}

func newCountCtx(n int, backstop time.Duration) *countCtx {
	c := &countCtx{left: n, done: make(chan struct{})}
	c.t = time.AfterFunc(backstop, func() { c.once.Do(func() { close(c.done) }) })
	return c
}
func (c *countCtx) Deadline() (time.Time, bool) { return time.Time{}, false }
func (c *countCtx) Done() <-chan struct{}       { return c.done }
func (c *countCtx) Value(any) any               { return nil }
func (c *countCtx) Err() error {
	c.mu.Lock()
	defer c.mu.Unlock()
	select {
	case <-c.done:
		return context.Canceled
	default:
	}
	if c.left <= 0 {
		c.once.Do(func() { close(c.done) })
		return context.Canceled
	}
	c.left--
	return nil
}
func (c *countCtx) stop() { c.t.Stop() }

type stOp struct {
	Kind    string // send | new | recv | ack
	Topic   int
	Payload int
	Name    int
	Latest  bool
}

func (o stOp) String() string {
	switch o.Kind {
	case "send":
		return fmt.Sprintf("send t%d #%d", o.Topic, o.Payload)
	case "new":
		return fmt.Sprintf("new-receiver n%d latest=%v", o.Name, o.Latest)
	case "recv":
		return fmt.Sprintf("recv n%d", o.Name)
	case "ack":
		return fmt.Sprintf("ack n%d", o.Name)
	case "acklate":
		return fmt.Sprintf("ack-by-replaced-receiver n%d", o.Name)
	}
	return o.Kind
}

// a receiver name belongs to one topic (as role names do in the engine): names 0,2 -> topic 0; 1,3 -> topic 1; topic 2 has no receivers
func topicOf(name int) int { return name % 2 }

type stRun struct {
	d       *leandrv.Driver
	str     workflow.EventStreamer
	senders map[int]workflow.EventSender
	recv    map[int]workflow.EventReceiver // the live receiver per name (a new one replaces it: reconnect)
	pending map[int]workflow.Ack           // ack of the last un-acknowledged delivery of the live receiver
	pendIdx map[int]int
	late    map[int]workflow.Ack // ack of a delivery made by a receiver that has since been replaced (fires late)
	lateIdx map[int]int
	sent    int
}

func newStRun(d *leandrv.Driver) *stRun {
	return &stRun{d: d, str: memstreamer.New(), senders: map[int]workflow.EventSender{}, recv: map[int]workflow.EventReceiver{},
		pending: map[int]workflow.Ack{}, pendIdx: map[int]int{}, late: map[int]workflow.Ack{}, lateIdx: map[int]int{}}
}

func (x *stRun) apply(o stOp) (impl, model string, err error) {
	ctx := context.Background()
	defer func() {
		if p := recover(); p != nil {
			impl = fmt.Sprintf("panic: %v", p)
			err = nil
		}
	}()
	switch o.Kind {
	case "send":
		model, err = x.d.Ask(fmt.Sprintf("st send %d %d", o.Topic, o.Payload))
		if err != nil {
			return
		}
		s, ok := x.senders[o.Topic]
		if !ok {
			s, _ = x.str.NewSender(ctx, "t"+strconv.Itoa(o.Topic))
			x.senders[o.Topic] = s
		}
		x.sent++
		e := s.Send(ctx, "f"+strconv.Itoa(o.Payload), o.Payload, map[workflow.Header]string{workflow.HeaderTopic: "t" + strconv.Itoa(o.Topic)})
		impl = "ok"
		if e != nil {
			impl = "err"
		}
		return
	case "new":
		fl := "0"
		if o.Latest {
			fl = "1"
		}
		model, err = x.d.Ask(fmt.Sprintf("st new %d %s", o.Name, fl))
		if err != nil {
			return
		}
		if old, ok := x.recv[o.Name]; ok {
			old.Close()
		}
		if a, ok := x.pending[o.Name]; ok {
			x.late[o.Name], x.lateIdx[o.Name] = a, x.pendIdx[o.Name]
		}
		delete(x.pending, o.Name)
		var opts []workflow.ReceiverOption
		if o.Latest {
			opts = append(opts, workflow.StreamFromLatest())
		}
		r, e := x.str.NewReceiver(ctx, "t"+strconv.Itoa(topicOf(o.Name)), "n"+strconv.Itoa(o.Name), opts...)
		impl = "ok"
		if e != nil {
			impl = "err"
		}
		x.recv[o.Name] = r
		return
	case "recv":
		r, ok := x.recv[o.Name]
		if !ok {
			return "no-receiver", "no-receiver", nil
		}
		model, err = x.d.Ask(fmt.Sprintf("st recv %d %d", o.Name, topicOf(o.Name)))
		if err != nil {
			return
		}
		c := newCountCtx(x.sent+6, 3*time.Second)
		ev, ack, e := r.Recv(c)
		c.stop()
		if e != nil {
			return "block", model, nil
		}
		x.pending[o.Name] = ack
		x.pendIdx[o.Name] = int(ev.ID) - 1
		if ev.Headers[workflow.HeaderTopic] != "t"+strconv.Itoa(topicOf(o.Name)) {
			return fmt.Sprintf("%d:%d(topic %s)", ev.ID-1, ev.Type, ev.Headers[workflow.HeaderTopic]), model, nil
		}
		return fmt.Sprintf("%d:%d", ev.ID-1, ev.Type), model, nil
	case "ack":
		a, ok := x.pending[o.Name]
		if !ok {
			return "nothing-to-ack", "nothing-to-ack", nil
		}
		model, err = x.d.Ask(fmt.Sprintf("st ack %d %d", o.Name, x.pendIdx[o.Name]))
		if err != nil {
			return
		}
		delete(x.pending, o.Name)
		if e := a(); e != nil {
			return "err", model, nil
		}
		return "ok", model, nil
	case "acklate":
		a, ok := x.late[o.Name]
		if !ok {
			return "nothing-to-ack", "nothing-to-ack", nil
		}
		model, err = x.d.Ask(fmt.Sprintf("st ack %d %d", o.Name, x.lateIdx[o.Name]))
		if err != nil {
			return
		}
		delete(x.late, o.Name)
		if e := a(); e != nil {
			return "err", model, nil
		}
		return "ok", model, nil
	}
	return "", "", fmt.Errorf("unknown op %q", o.Kind)
}

func genStOp(r *rng.R) stOp {
	k := r.Intn(100)
	o := stOp{Topic: r.Intn(3), Payload: r.Intn(1000), Name: r.Intn(4), Latest: r.Chance(2, 5)}
	switch {
	case k < 30:
		o.Kind = "send"
	case k < 45:
		o.Kind = "new"
	case k < 80:
		o.Kind = "recv"
	case k < 96:
		o.Kind = "ack"
	default:
		o.Kind = "acklate"
	}
	return o
}

func stSig(o stOp, impl, model string, hist []stOp) string {
	latest := false
	for _, h := range hist {
		if h.Kind == "new" && h.Name == o.Name && h.Latest {
			latest = true
		}
	}
	what := "delivery-differs"
	switch {
	case strings.HasPrefix(impl, "panic"):
		what = "panic"
	case impl == "block":
		what = "event-not-delivered"
	case model == "block":
		what = "delivered-where-reference-blocks"
	}
	if latest {
		what += "+stream-from-latest"
	}
	return what
}

func runStSeq(d *leandrv.Driver, ops []stOp, res *report.Result, prop, label string) (bool, error) {
	x := newStRun(d)
	if _, err := d.Ask("st reset"); err != nil {
		return false, err
	}
	for i, o := range ops {
		impl, model, err := x.apply(o)
		if err != nil {
			return false, err
		}
		res.Eval(1)
		res.Count("op:" + o.Kind)
		if impl == "block" {
			res.Count("recv:block")
		}
		if impl != model && !d.Null {
			var readable []string
			for _, h := range ops[:i+1] {
				readable = append(readable, h.String())
			}
			res.Violate(report.Violation{Property: prop, Oracle: "refines-reference-stream", Signature: stSig(o, impl, model, ops[:i+1]),
				Detail: fmt.Sprintf("%safter %d operations, %s answered %q, the reference stream answers %q", label, i, o.String(), impl, model),
				Replay: map[string]any{"suite": "mem-streamer", "ops": append([]stOp{}, ops[:i+1]...), "readable": readable}})
			return true, nil
		}
	}
	return false, nil
}

// exhaustive short sequences over a reduced alphabet (1 name on topic 0, topics 0/1): every sequence of length <= depth
func stAlphabet() []stOp {
	return []stOp{
		{Kind: "send", Topic: 0, Payload: 1}, {Kind: "send", Topic: 1, Payload: 2},
		{Kind: "new", Name: 0, Latest: false}, {Kind: "new", Name: 0, Latest: true},
		{Kind: "recv", Name: 0}, {Kind: "ack", Name: 0}, {Kind: "acklate", Name: 0},
	}
}

func loadStCorpus(prop, suite string) ([][]stOp, []string) {
	files, _ := filepath.Glob("/verif/corpus-adapters/" + prop + "-*.json")
	sort.Strings(files)
	var out [][]stOp
	var names []string
	for _, f := range files {
		var body struct {
			Replay struct {
				Suite string `json:"suite"`
				Ops   []stOp `json:"ops"`
			} `json:"replay"`
		}
		b, err := os.ReadFile(f)
		if err != nil || json.Unmarshal(b, &body) != nil || body.Replay.Suite != suite {
			continue
		}
		out = append(out, body.Replay.Ops)
		names = append(names, filepath.Base(f))
	}
	return out, names
}

// StreamerSuite: memstreamer against RefStream (C19).
func StreamerSuite(d *leandrv.Driver, r *rng.R, res *report.Result, thorough bool) error {
	res.Rule = "operation sequences (Send on 3 topics incl. one nobody reads, NewReceiver with/without StreamFromLatest = reconnect under the name, Recv with a deterministic would-block context, Ack of the pending delivery, late Ack by a receiver that has been replaced) " +
		"over 4 receiver names on 2 topics; exhaustive over a 7-letter alphabet up to the stated depth, random beyond; every answer compared with RefStream; " +
		"non-trivial = sequence containing a reconnect without ack, or StreamFromLatest, after at least one send"
	corp, names := loadStCorpus("C19", "mem-streamer")
	for i, ops := range corp {
		if _, err := runStSeq(d, ops, res, "C19", "[corpus "+names[i]+"] "); err != nil {
			return err
		}
		res.Count("corpus-file")
	}
	depth := 6
	n, L := 400, 40
	if thorough {
		depth, n, L = 7, 6000, 60
	}
	alpha := stAlphabet()
	var rec func(prefix []stOp) error
	stopped := false
	rec = func(prefix []stOp) error {
		if stopped {
			return nil
		}
		if len(prefix) > 0 && prefix[len(prefix)-1].Kind == "recv" || len(prefix) == depth {
			// run every sequence that ends in a receive (the observable) or has full depth
			bad, err := runStSeq(d, prefix, res, "C19", "[exhaustive] ")
			if err != nil {
				return err
			}
			res.Traces++
			if bad {
				stopped = true
				return nil
			}
		}
		if len(prefix) == depth {
			return nil
		}
		for _, a := range alpha {
			if err := rec(append(append([]stOp{}, prefix...), a)); err != nil {
				return err
			}
		}
		return nil
	}
	if err := rec(nil); err != nil {
		return err
	}
	res.Dist["exhaustive-depth"] = depth
	for it := 0; it < n; it++ {
		var ops []stOp
		nt := false
		sends := 0
		for i := 0; i < L; i++ {
			o := genStOp(r)
			ops = append(ops, o)
			if o.Kind == "send" {
				sends++
			}
			if o.Kind == "new" && sends > 0 {
				nt = true
			}
		}
		if _, err := runStSeq(d, ops, res, "C19", ""); err != nil {
			return err
		}
		if nt {
			var hs []string
			for _, o := range ops {
				hs = append(hs, o.String())
			}
			res.NonTrivial(strings.Join(hs, ";"))
			if it < 2 {
				res.Sample(hs[:10])
			}
		}
		res.Traces++
	}
	return nil
}

// ---- connector ----

type cnOp struct {
	Kind string // new | recv | ack
	Name int
}

func (o cnOp) String() string { return fmt.Sprintf("%s n%d", o.Kind, o.Name) }

// ConnectorSuite: the in-memory connector (fixed log, cursor per consumer name) against RefStream with one topic.
func ConnectorSuite(d *leandrv.Driver, r *rng.R, res *report.Result, thorough bool) error {
	res.Rule = "in-memory connector: a log of 0..5 events fixed at construction; sequences of Make(name) (= reconnect), Recv with a would-block context, Ack over 3 consumer names; every answer compared with RefStream (single topic)"
	n, L := 120, 16
	if thorough {
		n, L = 300, 20
	}
	for it := 0; it < n; it++ {
		k := r.Intn(6)
		var evs []workflow.ConnectorEvent
		if _, err := d.Ask("st reset"); err != nil {
			return err
		}
		for i := 0; i < k; i++ {
			evs = append(evs, workflow.ConnectorEvent{ID: strconv.Itoa(i), ForeignID: "f" + strconv.Itoa(i), Type: "ty"})
			d.Ask(fmt.Sprintf("st send 0 %d", i))
		}
		conn := memstreamer.NewConnector(evs)
		cons := map[int]workflow.ConnectorConsumer{}
		pending := map[int]workflow.Ack{}
		pendIdx := map[int]int{}
		late := map[int]workflow.Ack{}
		lateIdx := map[int]int{}
		var ops []cnOp
		var hist []string
		blocks := 0
		for i := 0; i < L; i++ {
			o := cnOp{Name: r.Intn(3)}
			// state-aware choice: only operations that can do something for this name
			var choices []string
			choices = append(choices, "new")
			if _, ok := cons[o.Name]; ok && blocks < 3 { // each would-block receive costs ~20ms of the connector's own sleeping
				choices = append(choices, "recv", "recv", "recv")
			}
			if _, ok := pending[o.Name]; ok {
				choices = append(choices, "ack", "ack", "new")
			}
			if _, ok := late[o.Name]; ok {
				choices = append(choices, "acklate", "acklate")
			}
			o.Kind = rng.Pick(r, choices)
			ops = append(ops, o)
			hist = append(hist, o.String())
			impl, model := "", ""
			var err error
			switch o.Kind {
			case "new":
				model, err = d.Ask(fmt.Sprintf("st new %d 0", o.Name))
				c, e := conn.Make(context.Background(), "n"+strconv.Itoa(o.Name))
				impl = "ok"
				if e != nil {
					impl = "err"
				}
				cons[o.Name] = c
				if a, ok := pending[o.Name]; ok {
					late[o.Name], lateIdx[o.Name] = a, pendIdx[o.Name]
				}
				delete(pending, o.Name)
			case "recv":
				c, ok := cons[o.Name]
				if !ok {
					continue
				}
				model, err = d.Ask(fmt.Sprintf("st recv %d 0", o.Name))
				cc := newCountCtx(2, 3*time.Second)
				ev, ack, e := c.Recv(cc)
				cc.stop()
				if e != nil {
					impl = "block"
					blocks++
				} else {
					idx, _ := strconv.Atoi(ev.ID)
					impl = fmt.Sprintf("%d:%d", idx, idx)
					pending[o.Name] = ack
					pendIdx[o.Name] = idx
				}
			case "ack":
				a, ok := pending[o.Name]
				if !ok {
					continue
				}
				model, err = d.Ask(fmt.Sprintf("st ack %d %d", o.Name, pendIdx[o.Name]))
				delete(pending, o.Name)
				impl = "ok"
				if a() != nil {
					impl = "err"
				}
			case "acklate":
				a, ok := late[o.Name]
				if !ok {
					continue
				}
				model, err = d.Ask(fmt.Sprintf("st ack %d %d", o.Name, lateIdx[o.Name]))
				delete(late, o.Name)
				impl = "ok"
				if a() != nil {
					impl = "err"
				}
			}
			if err != nil {
				return err
			}
			res.Eval(1)
			res.Count("op:" + o.Kind)
			if impl != model && !d.Null {
				res.Violate(report.Violation{Property: "C19", Oracle: "refines-reference-stream", Signature: "connector-delivery-differs",
					Detail: fmt.Sprintf("connector with %d events: after %d operations, %s answered %q, the reference answers %q", k, i, o.String(), impl, model),
					Replay: map[string]any{"suite": "mem-connector", "events": k, "ops": ops, "readable": hist}})
				break
			}
		}
		res.NonTrivial(fmt.Sprintf("%d;%s", k, strings.Join(hist, ";")))
		res.Traces++
	}
	return nil
}
