import WorkflowModel.Model.Routing
import WorkflowModel.Lemmas.Text
/-! # C06 — Each change is routed to exactly the parties that must react to it (pure part)

Statements about `MakeOutboxEventData` / `Topic` / `DeleteTopic` / `RunStateChangeTopic`, for every record:
every `Int` run state (also out of range), every `Int` status (negative, zero, huge), every name.
The run-state sets and literals come from `Generated/Facts.lean`, i.e. from the current source. -/
namespace WorkflowModel.C06
open WorkflowModel Routing Text

/-- Paused(3), Cancelled(4), Completed(5), DataDeleted(6) go to the run-state-change topic;
RequestedDataDeleted(7) to the delete topic; everything else — Initiated, Running, Unknown and every
out-of-range value — to the topic of the record's status. -/
theorem C06_route_topic (name : Str) (rs st : Int) :
    recordTopic name rs st =
      if rs = 3 ∨ rs = 4 ∨ rs = 5 ∨ rs = 6 then rscTopic name
      else if rs = 7 then deleteTopic name
      else topic name st := by
  unfold recordTopic Gen.outboxTopicKind
  simp only [Gen.RunStateRequestedDataDeleted, Gen.RunStatePaused, Gen.RunStateCancelled, Gen.RunStateDataDeleted,
    Gen.RunStateCompleted]
  by_cases h3 : rs = 3 <;> by_cases h4 : rs = 4 <;> by_cases h5 : rs = 5 <;> by_cases h6 : rs = 6 <;>
    by_cases h7 : rs = 7 <;> simp_all <;> omega

/-- the event describing a write carries the run ID, foreign ID, run state and version of that write,
and its kind is decided by the run state alone -/
theorem C06_route_fields (r : Rec) :
    (route r).runId = r.runId ∧ (route r).fid = r.fid ∧ (route r).runState = r.runState ∧
    (route r).version = r.version ∧ (route r).topicStatus = r.status ∧
    (route r).topicKind = Gen.outboxTopicKind r.runState := by
  simp [route]

/-- header assignments of `MakeOutboxEventData` as extracted from the source (T1), compared with what
`Routing.headers` implements -/
theorem C06_header_assignments :
    Gen.outboxHeaders =
      [ (Gen.HeaderForeignID, "record.ForeignID"), (Gen.HeaderWorkflowName, "record.WorkflowName"),
        (Gen.HeaderTopic, "topic"), (Gen.HeaderRunID, "record.RunID"),
        (Gen.HeaderRunState, "strconv.FormatInt(int64(record.RunState), 10)"),
        (Gen.HeaderRecordVersion, "strconv.FormatInt(int64(record.Meta.Version), 10)") ] ∧
    Gen.outboxEventRunIdSrc = "record.RunID" ∧ Gen.outboxEventTypeSrc = "int32(record.Status)" := by
  decide

theorem C06_headers_carry (name fid runId : Str) (rs st v : Int) :
    (Gen.HeaderRunID, runId) ∈ headers name fid runId rs st v ∧
    (Gen.HeaderForeignID, fid) ∈ headers name fid runId rs st v ∧
    (Gen.HeaderRunState, intDec rs) ∈ headers name fid runId rs st v ∧
    (Gen.HeaderRecordVersion, intDec v) ∈ headers name fid runId rs st v ∧
    (Gen.HeaderWorkflowName, name) ∈ headers name fid runId rs st v ∧
    (Gen.HeaderTopic, recordTopic name rs st) ∈ headers name fid runId rs st v := by
  simp [headers]

/-- the six header keys are pairwise different, so no assignment overwrites another -/
theorem C06_header_keys_distinct :
    [Gen.HeaderForeignID, Gen.HeaderWorkflowName, Gen.HeaderTopic, Gen.HeaderRunID, Gen.HeaderRunState,
      Gen.HeaderRecordVersion].Nodup := by decide

private theorem topic_eq (name : Str) (a : Int) :
    topic name a = replSpace Gen.emptySpaceReplacement name ++ (Gen.topicSeparator ++ intDec a) := by
  simp [topic, join]

/-- different statuses of one workflow never share a topic — all `Int` statuses -/
theorem C06_topic_inj (name : Str) (a b : Int) (h : topic name a = topic name b) : a = b := by
  rw [topic_eq, topic_eq] at h
  exact intDec_inj (List.append_cancel_left (List.append_cancel_left h))

/-- a status topic is never the delete topic -/
theorem C06_topic_ne_delete (name : Str) (a : Int) : topic name a ≠ deleteTopic name := by
  intro h
  rw [topic_eq] at h
  simp only [deleteTopic, join, List.append_assoc] at h
  have h := List.append_cancel_left (List.append_cancel_left h)
  have hb := intDec_bytes a
  rw [h] at hb
  have := hb 100 (by simp)
  omega

/-- a status topic is never the run-state-change topic -/
theorem C06_topic_ne_rsc (name : Str) (a : Int) : topic name a ≠ rscTopic name := by
  intro h
  rw [topic_eq] at h
  simp only [rscTopic, join, List.append_assoc] at h
  have h := List.append_cancel_left (List.append_cancel_left h)
  have hb := intDec_bytes a
  rw [h] at hb
  have := hb 114 (by simp)
  omega

/-- the delete topic is never the run-state-change topic -/
theorem C06_delete_ne_rsc (name : Str) : deleteTopic name ≠ rscTopic name := by
  intro h
  simp only [deleteTopic, rscTopic, join, List.append_assoc] at h
  have h := List.append_cancel_left (List.append_cancel_left h)
  simp at h

/-- consequence: two records of one workflow share a topic only if they are routed alike -/
theorem C06_topics_disjoint (name : Str) (rs1 st1 rs2 st2 : Int)
    (h : recordTopic name rs1 st1 = recordTopic name rs2 st2) :
    Gen.outboxTopicKind rs1 = Gen.outboxTopicKind rs2 ∧ (Gen.outboxTopicKind rs1 = 0 → st1 = st2) := by
  have k1 : ∀ rs, Gen.outboxTopicKind rs = 0 ∨ Gen.outboxTopicKind rs = 1 ∨ Gen.outboxTopicKind rs = 2 := by
    intro rs; unfold Gen.outboxTopicKind; simp only []; split <;> (try split) <;> simp
  unfold recordTopic at h
  rcases k1 rs1 with h1 | h1 | h1 <;> rcases k1 rs2 with h2 | h2 | h2 <;> simp only [h1, h2] at h ⊢
  · exact ⟨trivial, fun _ => C06_topic_inj name _ _ h⟩
  · exact absurd h (C06_topic_ne_delete name st1)
  · exact absurd h (C06_topic_ne_rsc name st1)
  · exact absurd h.symm (C06_topic_ne_delete name st2)
  · simp
  · exact absurd h (C06_delete_ne_rsc name)
  · exact absurd h.symm (C06_topic_ne_rsc name st2)
  · exact absurd h.symm (C06_delete_ne_rsc name)
  · simp

/-- AWAIT (decision regenerated from await.go): the caller is released — the event is not skipped — only if the event passed
the foreign-ID / run-ID filters AND its type is the awaited status; and the type of the event describing a write is the
status of that write (as an int32). So a release is caused by an event recording that the awaited run was written at the
awaited status; a pause, cancellation or completion at any OTHER status on the shared run-state-change topic is skipped.
(Before the repair of defect F2 the test was the filter alone: `Await(terminal)` was released by a Pause.) -/
theorem C06_await_release (filtered : Bool) (ty status : Int) (h : Gen.G.awaitSkip filtered ty status = false) :
    filtered = false ∧ ty = status := by
  simp only [Gen.G.awaitSkip, Bool.or_eq_false_iff, decide_eq_false_iff_not, ne_eq, Classical.not_not] at h
  exact h

theorem toInt32_id (x : Int) (h1 : -2147483648 ≤ x) (h2 : x < 2147483648) : toInt32 x = x := by
  unfold toInt32
  have e : x.emod 4294967296 = x % 4294967296 := rfl
  simp only [e]
  by_cases hc : x % 4294967296 ≥ 2147483648
  · simp only [hc, if_true]; omega
  · simp only [hc, if_false]; omega

theorem C06_await_release_write (filtered : Bool) (w : Rec) (status : Int) (hr : -2147483648 ≤ w.status ∧ w.status < 2147483648)
    (h : Gen.G.awaitSkip filtered (route w).type status = false) : w.status = status := by
  have := (C06_await_release filtered _ status h).2
  simp only [route] at this
  rw [toInt32_id _ hr.1 hr.2] at this
  exact this

/-- non-vacuity / sanity: concrete instances ("my flow", -7 ↦ "my_flow--7"; run state 12 is out of range) -/
example : topic [109, 121, 32, 102] (-7) = [109, 121, 95, 102, 45, 45, 55] := by
  simp [topic, join, intDec, natDigits, replSpace, Gen.topicSeparator, Gen.emptySpaceReplacement]
example : recordTopic [119] 3 9 = rscTopic [119] ∧ recordTopic [119] 7 9 = deleteTopic [119] ∧
    recordTopic [119] 12 9 = topic [119] 9 ∧ recordTopic [119] 0 9 = topic [119] 9 := by
  simp [C06_route_topic]

end WorkflowModel.C06
