"""Per-property configuration of ./check: Lean modules holding the property theorems, harness suites
(T3 + monitors), what is modelled rather than verified, assumptions."""

PROPS = {
    "C02": {
        "lean": ["WorkflowModel.Props.C02Graph"],
        "suites": ["pure-graph"],
        "assumptions": [],
    },
    "C03": {
        "lean": ["WorkflowModel.Props.C03Table", "WorkflowModel.Props.C02Graph"],
        "suites": ["pure-ctl", "pure-graph"],
        "assumptions": [],
    },
    "C06": {
        "lean": ["WorkflowModel.Props.C06"],
        "suites": ["pure-routing"],
        "modelled": ["protobuf encoding of OutboxRecord (decoded by the harness with the generated Go code)"],
        "assumptions": ["workflow names are valid UTF-8 (proto string fields)"],
    },
    "C10": {
        "lean": ["WorkflowModel.Props.C10Shard"],
        "suites": ["pure-shards"],
        "assumptions": [],
    },
}
