import WorkflowModel.Lemmas.HistLogic
/-! # Every operation of the engine only makes legal writes — when its reads are current

For each write path (controller, updater, delete consumer, trigger) the write is a legal extension of the run's history
provided the record it was built from is the persisted one (`Based`, `UBased`, `IsHead`). Handlers establish that by
reading at the start of the operation and making no other write to the run in between; the triples below thread it through
every handler, the timeout poller and the API calls, for every fault plan and every user-function outcome that does not
re-enter the API (`NoNested`). -/
namespace WorkflowModel.Engine
open WorkflowModel RS

variable {cfg : Cfg} {env : Env}

/-- the controller's in-memory record `mem` describes the persisted record of its run (possibly seen through `buildRun`'s
view of Initiated as Running) -/
def Based (R : List RunS) (mem : Rec) : Prop :=
  ∃ h, IsHead R h ∧ h.runId = mem.runId ∧ mem.version = h.version ∧ mem.fid = h.fid ∧ mem.createdAt = h.createdAt ∧
    mem.status = h.status ∧ mem.obj = h.obj ∧ mem.descr = h.descr ∧ (mem.runState = h.runState ∨ mem.runState = view h.runState)

/-- the in-memory run handed to a user function describes the persisted record, which is not stopped -/
def UBased (R : List RunS) (run : Rec) : Prop :=
  ∃ h, IsHead R h ∧ h.runId = run.runId ∧ run.version = h.version ∧ run.fid = h.fid ∧ run.createdAt = h.createdAt ∧
    (h.runState = 1 ∨ h.runState = 2 ∨ h.runState = 5)

theorem isHead_unique {R : List RunS} {h h' : Rec} (a : IsHead R h) (b : IsHead R h') (hid : h.runId = h'.runId) : h = h' := by
  obtain ⟨x, t, hx, hl⟩ := a
  obtain ⟨x', t', hx', hl'⟩ := b
  rw [hid, hx'] at hx
  cases hx
  rw [hl'] at hl
  cases hl
  rfl

theorem based_head {R : List RunS} {h : Rec} (hh : IsHead R h) : Based R h :=
  ⟨h, hh, rfl, rfl, rfl, rfl, rfl, rfl, rfl, Or.inl rfl⟩

theorem based_view {R : List RunS} {h : Rec} (hh : IsHead R h) : Based R (viewRec h) :=
  ⟨h, hh, rfl, rfl, rfl, rfl, rfl, rfl, rfl, Or.inr rfl⟩

theorem target_cases (op : CtlOp) : target op = 3 ∨ target op = 2 ∨ target op = 4 ∨ target op = 7 := by
  cases op <;> simp [target, Gen.ctlTargetPause, Gen.ctlTargetResume, Gen.ctlTargetCancel, Gen.ctlTargetDeleteData]

/-! ## legality of the four kinds of write -/

theorem legal_ctl {s : Sys} (hi : Inv cfg s) {mem : Rec} (hb : Based s.runs mem) (tgt : Int) (reason : Nat)
    (ht : tgt = 3 ∨ tgt = 2 ∨ tgt = 4 ∨ tgt = 7) (ha : allowed mem.runState tgt = true) :
    Legal cfg s.runs { mem with runState := tgt, reason := reason, version := mem.version + 1 } := by
  obtain ⟨h, hh, hid, hv, hf, hc, hs, ho, hd, hrs⟩ := hb
  have hrec := hh.recOK hi.hist
  obtain ⟨x, t, hx, hl⟩ := hh
  refine ⟨⟨by simp only; womega, by simp only; womega, fun h5 => by simp only at h5; womega, ?_⟩, ?_⟩
  · show mem.descr = mem.status
    rw [hd, hs]; exact hrec.descr
  · show match s.runs[mem.runId]? with
      | some x => mem.fid = x.fid ∧ ∃ h' t', x.hist = h' :: t' ∧ Edge cfg h' { mem with runState := tgt, reason := reason, version := mem.version + 1 }
      | none => mem.runId = s.runs.length ∧ InitOK cfg { mem with runState := tgt, reason := reason, version := mem.version + 1 }
    rw [← hid, hx]
    refine ⟨?_, h, t, hl, ⟨by simp [hv], by simp [hid], hf, hc, Or.inl ⟨hs, ho, ?_⟩⟩⟩
    · rw [hf]; exact IsHead.fid hi.hist hx (by rw [hl]; simp)
    · show allowed h.runState tgt = true ∨ allowed (view h.runState) tgt = true
      rcases hrs with e | e
      · left; rw [← e]; exact ha
      · right; rw [← e]; exact ha

theorem legal_advance {s : Sys} (hi : Inv cfg s) {run h : Rec} (hh : IsHead s.runs h) (hid : h.runId = run.runId)
    (hv : run.version = h.version) (hf : run.fid = h.fid) (hc : run.createdAt = h.createdAt)
    (hrs : h.runState = 1 ∨ h.runState = 2) (next : Status) (o : Obj) (now : Int) (he : (h.status, next) ∈ cfg.edges) :
    Legal cfg s.runs { updaterRec cfg next run o now with version := run.version + 1 } := by
  obtain ⟨x, t, hx, hl⟩ := hh
  refine ⟨⟨?_, ?_, ?_, rfl⟩, ?_⟩
  · show 1 ≤ (if Graph.isTerminal cfg.graph next then Gen.RunStateCompleted else Gen.RunStateRunning)
    split <;> simp [Gen.RunStateCompleted, Gen.RunStateRunning]
  · show (if Graph.isTerminal cfg.graph next then Gen.RunStateCompleted else Gen.RunStateRunning) ≤ 7
    split <;> simp [Gen.RunStateCompleted, Gen.RunStateRunning]
  · show (if Graph.isTerminal cfg.graph next then Gen.RunStateCompleted else Gen.RunStateRunning) = 5 → Graph.isTerminal cfg.graph next = true
    split
    · intro _; assumption
    · simp [Gen.RunStateRunning]
  · show match s.runs[run.runId]? with
      | some x => run.fid = x.fid ∧ ∃ h' t', x.hist = h' :: t' ∧ Edge cfg h' { updaterRec cfg next run o now with version := run.version + 1 }
      | none => run.runId = s.runs.length ∧ InitOK cfg { updaterRec cfg next run o now with version := run.version + 1 }
    rw [← hid, hx]
    refine ⟨?_, h, t, hl, ⟨by simp [hv], by simp [updaterRec, hid], by simp [updaterRec, hf], by simp [updaterRec, hc],
      Or.inr (Or.inl ⟨hrs, he, ?_⟩)⟩⟩
    · rw [hf]; exact IsHead.fid hi.hist hx (by rw [hl]; simp)
    · rfl

theorem legal_delete {s : Sys} (hi : Inv cfg s) {h : Rec} (hh : IsHead s.runs h) (hrs : h.runState = 7 ∨ h.runState = 6) (o : Obj) :
    Legal cfg s.runs { ({ h with obj := o, runState := Gen.RunStateDataDeleted } : Rec) with version := h.version + 1 } := by
  have hrec := hh.recOK hi.hist
  obtain ⟨x, t, hx, hl⟩ := hh
  refine ⟨⟨by simp [Gen.RunStateDataDeleted], by simp [Gen.RunStateDataDeleted], by simp [Gen.RunStateDataDeleted], hrec.descr⟩, ?_⟩
  show match s.runs[h.runId]? with
    | some x => h.fid = x.fid ∧ ∃ h' t', x.hist = h' :: t' ∧ Edge cfg h' { ({ h with obj := o, runState := Gen.RunStateDataDeleted } : Rec) with version := h.version + 1 }
    | none => h.runId = s.runs.length ∧ InitOK cfg { ({ h with obj := o, runState := Gen.RunStateDataDeleted } : Rec) with version := h.version + 1 }
  rw [hx]
  exact ⟨IsHead.fid hi.hist hx (by rw [hl]; simp), h, t, hl, ⟨rfl, rfl, rfl, rfl, Or.inr (Or.inr ⟨hrs, rfl, rfl⟩)⟩⟩

theorem legal_trigger {s : Sys} (fid : Fid) (st : Status) (n : Obj) (now : Int) (hv : Graph.isValid cfg.graph st = true) :
    Legal cfg s.runs { triggerRec fid st n now s.runs.length with version := (triggerRec fid st n now s.runs.length).version + 1 } := by
  refine ⟨⟨by simp [triggerRec, Gen.RunStateInitiated], by simp [triggerRec, Gen.RunStateInitiated],
    by simp [triggerRec, Gen.RunStateInitiated], rfl⟩, ?_⟩
  show match s.runs[s.runs.length]? with
    | some x => fid = x.fid ∧ ∃ h' t', x.hist = h' :: t' ∧ Edge cfg h' { triggerRec fid st n now s.runs.length with version := (triggerRec fid st n now s.runs.length).version + 1 }
    | none => s.runs.length = s.runs.length ∧ InitOK cfg { triggerRec fid st n now s.runs.length with version := (triggerRec fid st n now s.runs.length).version + 1 }
  have : s.runs[s.runs.length]? = none := List.getElem?_eq_none (Nat.le_refl _)
  rw [this]
  exact ⟨rfl, ⟨by simp [triggerRec], by simp [triggerRec, Gen.RunStateInitiated], hv⟩⟩

/-! ## the run-state controller -/

/-- `ctlUpdateMem` on a record that describes the persisted one (whenever the table lets the operation through): afterwards
either it succeeded, or nothing was touched and the controller still holds `mem`, or the controller holds the target state -/
theorem ctlUpdateMem_ht (mem : Rec) (op : CtlOp) (R0 : List RunS) :
    HT cfg env (fun R => R = R0 ∧ (allowed mem.runState (target op) = true → Based R mem))
      (ctlUpdateMem cfg mem op)
      (fun r R => r.2 = none ∨ (r.1 = mem ∧ R = R0) ∨ r.1.runState = target op) := by
  unfold ctlUpdateMem
  dsimp only
  split
  · rename_i ha
    refine HT.bind (HT.pre ?_ (HT.tryM (HT.store _))) (fun r => ?_)
    · intro s hi ⟨_, hb⟩
      exact legal_ctl hi (hb ha) (target op) (ctlReason op) (target_cases op) ha
    · cases r with
      | ok _ => exact HT.pure (fun _ _ => Or.inl rfl)
      | error a => exact HT.pure (fun _ _ => Or.inr (Or.inr rfl))
  · exact HT.pure (fun R hp => Or.inr (Or.inl ⟨rfl, hp.1⟩))

theorem ctlUpdate_ht (mem : Rec) (op : CtlOp) :
    HT cfg env (fun R => allowed mem.runState (target op) = true → Based R mem) (ctlUpdate cfg mem op) (fun _ _ => True) := by
  refine HT.ghost (fun R0 => ?_)
  unfold ctlUpdate
  refine HT.bind (ctlUpdateMem_ht mem op R0) (fun r => ?_)
  obtain ⟨mem', e⟩ := r
  cases e with
  | none => exact HT.pure (fun _ _ => trivial)
  | some a => exact HT.throwA _

end WorkflowModel.Engine

namespace WorkflowModel.Engine
open WorkflowModel RS
variable {cfg : Cfg} {env : Env}

/-! ## user functions -/

/-- what a user function leaves behind: a normal return either is a skip value or happened without any write; after an
error the controller's record still describes the persisted one, or is already in a state from which Pause is refused -/
@[reducible] def FnPost (R0 : List RunS) (r : Except Abort FnRes × Rec) (R : List RunS) : Prop :=
  (∀ res, r.1 = .ok res → Gen.skipValues.contains res.next = true ∨ R = R0) ∧
  (∀ a, r.1 = .error a → (allowed r.2.runState 3 = true → Based R r.2))

def FnSpec (cfg : Cfg) (env : Env) (fn : Rec → M (Except Abort FnRes × Rec)) : Prop :=
  ∀ R0 run, HT cfg env (fun R => R = R0 ∧ Based R0 run) (fn run) (FnPost R0)

theorem allowed_paused_pause : allowed 3 3 = false := by decide
theorem allowed_cancelled_pause : allowed 4 3 = false := by decide

theorem skip_runStateUpdate : Gen.skipValues.contains Gen.SkipTypeRunStateUpdate = true := by decide

theorem fnpost_ok {R0 R : List RunS} {mem : Rec} {res : FnRes} (h : Gen.skipValues.contains res.next = true ∨ R = R0) :
    FnPost R0 (.ok res, mem) R := ⟨fun r hr => by cases hr; exact h, fun _ hr => by cases hr⟩

theorem fnpost_err {R0 R : List RunS} {mem : Rec} {a : Abort} (h : allowed mem.runState 3 = true → Based R mem) :
    FnPost R0 (.error a, mem) R := ⟨fun _ hr => (by cases hr), fun _ _ => h⟩

theorem runFn_ht (hn : NoNested env) (kind : String) (run mem : Rec) (fuel : Nat) (first : Bool) (R0 : List RunS) :
    HT cfg env (fun R => R = R0 ∧ Based R0 mem) (runFn cfg kind run mem fuel first) (FnPost R0) := by
  refine HT.pull (fun hb0 => ?_)
  cases fuel with
  | zero =>
    unfold runFn
    exact HT.pure (fun R hp => fnpost_err (fun _ => by rw [hp]; exact hb0))
  | succ n =>
    unfold runFn
    refine HT.bind (HT.nextOutcome hn) (fun out => ?_)
    dsimp only
    split
    all_goals refine HT.bind (HT.emit _) (fun _ => ?_)
    all_goals cases out <;> dsimp only
    all_goals first
      | exact HT.pure (fun R hp => fnpost_ok (Or.inr hp.1))
      | exact HT.pure (fun R hp => fnpost_err (fun _ => by rw [hp.1]; exact hb0))
      | exact HT.absurd (fun R hp => hp.2 _ rfl)
      | (refine HT.bind (HT.pre (fun s _ hp => ⟨hp.1, fun _ => by rw [hp.1]; exact hb0⟩) (ctlUpdateMem_ht mem _ R0)) (fun r => ?_)
         obtain ⟨mem', e⟩ := r
         cases e with
         | none => exact HT.pure (fun R _ => fnpost_ok (Or.inl skip_runStateUpdate))
         | some a =>
           refine HT.pure (fun R hp => fnpost_err (fun hal => ?_))
           rcases hp with h | ⟨h1, h2⟩ | h
           · cases h
           · simp only at h1; subst h1; rw [h2]; exact hb0
           · simp only at h
             rw [h] at hal
             exact absurd hal (by decide))
end WorkflowModel.Engine
