package live

import (
	"context"
	"errors"
	"fmt"
	"io"
	"strings"
	"time"

	"github.com/luno/workflow"
	"github.com/luno/workflow/adapters/memrecordstore"
	"github.com/luno/workflow/adapters/memrolescheduler"
	"github.com/luno/workflow/adapters/memstreamer"
	"github.com/luno/workflow/adapters/memtimeoutstore"
	"github.com/luno/workflow/verifharness/leandrv"
	"github.com/luno/workflow/verifharness/report"
	"github.com/luno/workflow/verifharness/rng"
)

// Await clause of C06: an Await caller is released only by an event recording that the awaited run reached the awaited
// status. Real workflow on the in-memory adapters; the run is held back by a callback so that the harness decides when
// it advances, pauses, resumes, is cancelled, or when another run of the same foreign ID produces events.
//
// Workflow: 1 --callback--> 2 --callback--> 3 (terminal) or 4 (terminal).

type awaitCase struct {
	Awaited int      `json:"awaited_status"`
	Script  []string `json:"script"`
}

func newAwaitWF() (*workflow.Workflow[Obj, Status], *memrecordstore.Store, func()) {
	b := workflow.NewBuilder[Obj, Status]("await wf")
	b.AddCallback(1, func(ctx context.Context, r *workflow.Run[Obj, Status], _ io.Reader) (Status, error) { return 2, nil }, 2)
	// two terminal statuses: from 2 the run completes at 3, or - payload "alt" - at 4
	b.AddCallback(2, func(ctx context.Context, r *workflow.Run[Obj, Status], p io.Reader) (Status, error) {
		if b, _ := io.ReadAll(p); strings.Contains(string(b), "alt") {
			return 4, nil
		}
		return 3, nil
	}, 3, 4)
	st := memrecordstore.New()
	w := b.Build(memstreamer.New(), st, memrolescheduler.New(), workflow.WithTimeoutStore(memtimeoutstore.New()), workflow.WithLogger(nopLogger{}),
		workflow.WithDefaultOptions(workflow.PollingFrequency(time.Millisecond), workflow.ErrBackOff(time.Millisecond)),
		workflow.WithOutboxOptions(workflow.OutboxPollingFrequency(time.Millisecond), workflow.OutboxErrBackOff(time.Millisecond)))
	ctx, cancel := context.WithCancel(context.Background())
	w.Run(ctx)
	return w, st, func() { cancel(); w.Stop() }
}

type awaitResult struct {
	run *workflow.Run[Obj, Status]
	err error
}

// runAwaitCase: returns problems (signature: detail).
func runAwaitCase(c awaitCase) []string {
	var problems []string
	w, st, stop := newAwaitWF()
	defer stop()
	ctx := context.Background()
	fid := "fid-1"
	ctl := func(runID string) workflow.RunStateController {
		rec, err := st.Lookup(ctx, runID)
		if err != nil {
			return nil
		}
		return workflow.NewRunStateController(st.Store, rec)
	}
	// an older, finished run of the same foreign ID whose late events must not release the caller
	oldID, err := w.Trigger(ctx, fid)
	if err != nil {
		return []string{"harness: trigger failed: " + err.Error()}
	}
	_ = w.Callback(ctx, fid, 1, strings.NewReader("{}"))
	_ = w.Callback(ctx, fid, 2, strings.NewReader("{}"))
	settle := func() { time.Sleep(25 * time.Millisecond) }
	settle()
	runID, err := w.Trigger(ctx, fid)
	if err != nil {
		return []string{"harness: second trigger failed: " + err.Error()}
	}
	settle()
	actx, acancel := context.WithCancel(ctx)
	defer acancel()
	done := make(chan awaitResult, 1)
	go func() {
		r, err := w.Await(actx, fid, runID, Status(c.Awaited), workflow.WithAwaitPollingFrequency(time.Millisecond))
		done <- awaitResult{r, err}
	}()
	settle() // the receiver is created with StreamFromLatest: give it time to exist before anything is published
	reached := false
	check := func(after string) bool {
		select {
		case res := <-done:
			if res.err != nil {
				problems = append(problems, "await-failed: after "+after+": "+res.err.Error())
				return true
			}
			cur, _ := st.Lookup(ctx, runID)
			switch {
			case res.run.RunID != runID:
				problems = append(problems, fmt.Sprintf("await-released-by-another-run: after %q Await(run %s, status %d) returned run %s (the older run of the same foreign ID: %v)", after, short(runID), c.Awaited, short(res.run.RunID), res.run.RunID == oldID))
			case !reached:
				problems = append(problems, fmt.Sprintf("await-released-before-status-reached: after %q Await(status %d) returned the run at status %d, run state %s; the run has never been at status %d (now: status %d, %s)",
					after, c.Awaited, res.run.Status, res.run.RunState, c.Awaited, cur.Status, cur.RunState))
			}
			return true
		default:
			return false
		}
	}
	for _, step := range c.Script {
		switch step {
		case "pause":
			if x := ctl(runID); x != nil {
				_ = x.Pause(ctx, "await")
			}
		case "resume":
			if x := ctl(runID); x != nil {
				_ = x.Resume(ctx)
			}
		case "cancel":
			if x := ctl(runID); x != nil {
				_ = x.Cancel(ctx, "await")
			}
		case "advance", "advance-alt":
			cur, err := st.Lookup(ctx, runID)
			if err == nil && !cur.RunState.Stopped() && !cur.RunState.Finished() {
				payload := "{}"
				if step == "advance-alt" {
					payload = `{"alt":true}`
				}
				_ = w.Callback(ctx, fid, Status(cur.Status), strings.NewReader(payload))
				if now, err := st.Lookup(ctx, runID); err == nil && now.Status == c.Awaited {
					reached = true
				}
			}
		case "old-run-delete":
			if x := ctl(oldID); x != nil {
				_ = x.DeleteData(ctx, "await")
			}
		}
		settle()
		if check(step) {
			return problems
		}
	}
	// end of script: if the run reached the awaited status the caller must have been released
	wait := 5 * time.Second // generous: the relay and the receiver poll every millisecond, but the machine may be busy
	if !reached {
		wait = 300 * time.Millisecond // the caller must keep waiting: a late release is looked for a little longer
	}
	select {
	case res := <-done:
		if !reached && res.err == nil {
			cur, _ := st.Lookup(ctx, runID)
			problems = append(problems, fmt.Sprintf("await-released-before-status-reached: after the script Await(status %d) returned the run at status %d, run state %s; the run has never been at status %d (now: status %d, %s)",
				c.Awaited, res.run.Status, res.run.RunState, c.Awaited, cur.Status, cur.RunState))
		}
	case <-time.After(wait):
		if reached {
			problems = append(problems, fmt.Sprintf("await-not-released: the run reached status %d but Await has not returned", c.Awaited))
		}
	}
	acancel()
	return problems
}

func short(id string) string {
	if len(id) > 8 {
		return id[:8]
	}
	return id
}

// AwaitSuite: scripted and random scenarios around an Await call.
func AwaitSuite(d *leandrv.Driver, r *rng.R, res *report.Result, thorough bool) error {
	res.Rule = "real workflow 1 -callback-> 2 -callback-> 3(terminal) | 4(terminal) on the in-memory adapters; an older finished run of the same foreign ID exists; Await(run, status 2 | 3 | 4) is started, then a script of pause / resume / cancel / advance / advance to the other terminal status / " +
		"data deletion of the OLDER run is played with pauses for the relay; Await may return only after the awaited run has been at the awaited status, and must return the awaited run; fixed scripts first, random scripts after"
	fixed := []awaitCase{
		{3, []string{"pause", "resume", "advance", "advance"}},
		{3, []string{"advance", "pause", "resume", "advance"}},
		{3, []string{"old-run-delete", "advance", "advance"}},
		{3, []string{"pause", "cancel"}},
		{2, []string{"pause", "resume", "advance"}},
		{2, []string{"old-run-delete", "advance"}},
		{3, []string{"advance", "advance-alt"}}, // completes at the OTHER terminal status: the caller keeps waiting
		{4, []string{"advance", "advance"}},
		{4, []string{"advance", "pause", "resume", "advance-alt"}},
	}
	n := 6
	if thorough {
		n = 60
	}
	steps := []string{"pause", "resume", "advance", "advance", "advance-alt", "old-run-delete", "cancel"}
	for it := 0; it < len(fixed)+n; it++ {
		var c awaitCase
		if it < len(fixed) {
			c = fixed[it]
		} else {
			c = awaitCase{Awaited: 2 + r.Intn(3)}
			for i, k := 0, 2+r.Intn(4); i < k; i++ {
				c.Script = append(c.Script, rng.Pick(r, steps))
			}
		}
		ps := runAwaitCase(c)
		res.Eval(1)
		res.NonTrivial(fmt.Sprintf("%+v", c))
		if it < 2 {
			res.Sample(c)
		}
		for _, p := range ps {
			if strings.HasPrefix(p, "harness:") {
				return errors.New(p)
			}
			res.Violate(report.Violation{Property: "C06", Oracle: "await-released-only-by-its-status", Signature: strings.SplitN(p, ": ", 2)[0], Detail: p, Replay: map[string]any{"suite": "live-await", "case": c}})
		}
		res.Traces++
	}
	return nil
}
